"""C08, part "kll" — KLL ranks are unbiased over the coin flips; flips do not depend on their outcomes (DESIGN.md 3 C08).

`./check c08kll` runs this part alone (SPEC below); the integrator combines PART with the REQ and classic parts.

Short histories: the harness (coin source installed through hook H1) and the model both run the history under EVERY
coin vector and print the sorted MULTISET of leaves (flips consumed + sorted view of every live sketch), so a
relabelling of coin values is invisible.  Oracle on the implementation's leaves: all leaves consume the same number F
of flips, there are 2^F of them, and for every sketch, every distinct input value y and both criteria the integer
identity  sum over leaves of weightBelow(y) = 2^F * trueCountBelow(y)  holds.
Long histories: recorded random coins are fed to both sides; only coin-VALUE-independent observables are compared
with the model (n, extremes, retained, level sizes, flips, published error), the rest goes through the oracle.
"""
import os, collections
from .. import core
from ..runner import Spec, Part
from .. import kll_util as U
from . import c07kll


class KllC08(Part):
    name = "kll"
    harness = "kll_h"
    model_exe = "dsmodel_kll"
    family = "kll"
    timeout = 600
    cov_sink = None             # set by the Spec (extra_stages): evidence dict receiving coin-tree statistics

    @staticmethod
    def cmp(x, y):
        if x.startswith("T ") or y.startswith("T "):
            return False                      # coin trees are compared exactly (they are already canonical multisets)
        return U.coin_free_projection(x) == U.coin_free_projection(y)

    # ------------------------------------------------------------------ generators
    def _flips_of(self, ops):
        """flips consumed by the implementation on `ops` with all-zero coins (shape only; used to fit the budget)"""
        exe = core.harness_exe(self.harness)
        out, oc, err = core.run_impl(exe, ops, timeout=60) if os.path.exists(exe) else ([], "missing", "")
        if oc != "ok":
            out, oc, err = core.run_model(self.model_exe, self.family, ops, timeout=60)
        res = []
        f = 0
        for l in out:
            w = l.split()
            if len(w) >= 2 and w[-2] == "F":
                f = int(w[-1])
            res.append(f)
        return res

    def tree_history(self, rng, budget):
        ty = rng.choice("iiid")
        nsk = rng.choice([1, 1, 2, 2, 3])
        ops = []
        for s in range(nsk):
            ops.append("new %d %s %d" % (s, ty, rng.choice([8, 8, 8, 9, 10, 12])))
        live, nxt = list(range(nsk)), nsk
        u = rng.choice([4, 12, 40, 1000])
        kind = rng.choice(["random", "sorted", "reversed", "dups"])
        cnt = 0
        for _ in range(rng.choice([30, 60, 100, 140])):
            r = rng.random()
            s = rng.choice(live)
            if r < 0.06 and len(live) >= 2:
                t = rng.choice([x for x in live if x != s])
                ops.append("merge %d %d%s" % (s, t, " rv" if rng.random() < 0.3 else ""))
                if ops[-1].endswith("rv") or rng.random() < 0.5:
                    live.remove(t)
            elif r < 0.08 and nxt < 6:
                ops.append("copy %d %d" % (s, nxt)); live.append(nxt); nxt += 1
            else:
                cnt += 1
                v = cnt if kind == "sorted" else (1000 - cnt if kind == "reversed" else (rng.randrange(u) if kind == "random" else (3 if rng.random() < 0.6 else rng.randrange(u))))
                ops.append("upd %d %s" % (s, v if ty == "i" else U.f64hex(float(v) / 2)))
        fl = self._flips_of(ops)
        if len(fl) != len(ops):
            fl = [0] * len(ops)
        keep = len(ops)
        while keep > 0 and fl[keep - 1] > budget:
            keep -= 1
        ops = ops[:max(keep, nsk)]
        return ["tbegin"] + ops + ["tend %d" % (2 ** (budget + 1))]

    def long_history(self, rng, tier):
        ty = rng.choice("iid")
        ks = [rng.choice([32, 64, 200, 200]) for _ in range(rng.choice([1, 2, 3]))]
        h = ["coins " + "".join(rng.choice("01") for _ in range(20000))]
        for s, k in enumerate(ks):
            h.append("new %d %s %d" % (s, ty, k))
        total = rng.choice([3000, 10000, 30000] if tier == "quick" else [30000, 100000])
        done = 0
        while done < total:
            s = rng.randrange(len(ks))
            n = rng.choice([100, 1000, 5000])
            mod = rng.choice([101, 10007, 1000003])
            h.append("updn %d %d %d %d %d" % (s, n, rng.randrange(mod), rng.choice([1, 7, 7919, mod - 1]), mod))
            done += n
            if len(ks) > 1 and rng.random() < 0.2:
                t = rng.choice([x for x in range(len(ks)) if x != s])
                h.append("merge %d %d" % (s, t))
            if rng.random() < 0.3:
                h += ["q %d view" % s, "q %d rank %s 1" % (s, (str(mod // 2) if ty == "i" else U.f64hex(float(mod // 2)))),
                      "q %d err 0" % s, "q %d err 1" % s]
        return h

    def chain_history(self, rng, tier):
        """the published error after merge CHAINS of mixed k: get_normalized_rank_error is a function of the smallest k that ever
        contributed estimation-mode data (min_k), which must be handed on through every later merge, in either direction"""
        ty = rng.choice("iid")
        small = rng.choice([8, 12, 16, 20])
        big = rng.choice([64, 128, 200, 256])
        mid = rng.choice([32, 40, big])
        h = ["coins " + "".join(rng.choice("01") for _ in range(4000))]
        ks = [big, small, big, mid]
        for s_, k in enumerate(ks):
            h.append("new %d %s %d" % (s_, ty, k))
        h.append("updn 1 %d %d 7 10007" % (rng.choice([40 * small, 2000]), rng.randrange(10007)))     # small k, estimation mode
        h.append("updn 0 %d %d 1 101" % (rng.choice([3, 10, 50]), rng.randrange(101)))
        h.append("updn 2 %d %d 1 101" % (rng.choice([3, 10, 3 * big]), rng.randrange(101)))
        h.append("updn 3 %d %d 3 1009" % (rng.choice([5, 20 * mid]), rng.randrange(1009)))
        order = rng.choice([[(0, 1), (2, 0), (3, 2)], [(0, 1), (2, 0), (2, 3)], [(3, 1), (0, 3), (2, 0)], [(1, 3), (0, 1), (2, 0)]])
        for a, b in order:
            h.append("merge %d %d" % (a, b))
            for x in (a, b):
                h += ["q %d err 0" % x, "q %d err 1" % x]
            if rng.random() < 0.5:
                h.append("updn %d %d %d 1 101" % (a, rng.choice([1, 30]), rng.randrange(101)))
        for x in range(4):
            h += ["q %d view" % x, "q %d err 0" % x, "q %d err 1" % x]
        return h

    def generate(self, rng, tier):
        hs = [self.chain_history(rng, tier) for _ in range(6 if tier == "quick" else 40)]
        if tier == "quick":
            budgets = [rng.choice([3, 5, 6, 8, 9, 10, 11, 12]) for _ in range(40)]
            nlong = 6
        else:
            budgets = [rng.choice([6, 8, 10, 12, 12, 13, 14]) for _ in range(150)] + [15, 16]
            nlong = 20
        for b in budgets:
            hs.append(self.tree_history(rng, b))
        for _ in range(nlong):
            hs.append(self.long_history(rng, tier))
        # interleaved queries (they sort level 0 and set its flag), merges whose level-0 items overflow the target part-way, copies: the
        # C07 history shapes under the C08 oracle for non-tree histories (levels stay sorted, view ordered, rank = weight below)
        for _ in range(12 if tier == "quick" else 80):
            hs.append(c07kll.PART.one_history(rng, tier))
            hs.append(c07kll.PART.merge_overflow_history(rng, tier))
        return hs

    # ------------------------------------------------------------------ oracle
    @staticmethod
    def parse_tree(line):
        """`T <count> ; L <flips> | <id> <n> V <total> item:cum ... | ... ; L ...` -> (count, [(flips, {id: (n, total, words)})])"""
        parts = line.split(" ; ")
        head = parts[0].split()
        leaves = []
        for p in parts[1:]:
            segs = p.split(" | ")
            hw = segs[0].split()
            views = {}
            thrown = "!throw" in p
            for sg in segs[1:]:
                w = sg.split()
                if len(w) >= 4 and w[2] == "V":
                    views[int(w[0])] = (int(w[1]), int(w[3]), [x for x in w[4:] if not x.startswith("!")])
            leaves.append((int(hw[1]), views, thrown))
        return int(head[1]), leaves

    def oracle(self, hist, impl_out):
        if hist and hist[0] == "tbegin":
            return self.oracle_tree(hist, impl_out)
        # long histories: the C07 statement on the trace (weight conservation, extremes, view, rank vs view ...)
        # (the two open C07 findings are C07's business and are not reported again under C08)
        return [b for b in c07kll.PART.oracle(hist, impl_out) if b[0] not in (c07kll.KEY_D2, c07kll.KEY_NANRANK)]

    def oracle_tree(self, hist, impl_out):
        bad = []
        i = len(hist) - 1
        if len(impl_out) <= i:
            return bad
        o = impl_out[i]
        if o.startswith("T overflow"):
            return [("coin-tree-overflow", "more leaves than 2^(budget+1): the number of flips depends on their outcomes or exceeds the shape prediction", i)]
        if not o.startswith("T "):
            return [("bad-observation", o[:60], i)]
        count, leaves = self.parse_tree(o)
        # ground truth per sketch
        ty, items = {}, {}
        for l in hist[1:-1]:
            w = l.split()
            if w[0] == "new":
                ty[int(w[1])] = U.Ty(w[2]); items[int(w[1])] = []
            elif w[0] == "upd" and int(w[1]) in items:
                x = ty[int(w[1])].parse(w[2])
                if not ty[int(w[1])].is_nan(x):
                    items[int(w[1])].append(x)
            elif w[0] == "merge" and int(w[1]) in items and int(w[2]) in items:
                items[int(w[1])] += items[int(w[2])]
            elif w[0] == "copy" and int(w[1]) in items:
                ty[int(w[2])] = ty[int(w[1])]; items[int(w[2])] = list(items[int(w[1])])
        if any(t for _, _, t in leaves):
            bad.append(("unexpected-throw", "an operation threw under some coin vector", i))
        fl = set(f for f, _, _ in leaves)
        if len(fl) != 1:
            bad.append(("flips-depend-on-outcomes", "flips consumed per leaf: %s" % sorted(fl), i))
            return bad
        F = fl.pop()
        if self.cov_sink is not None:
            cs = self.cov_sink
            cs["coin_trees"] = cs.get("coin_trees", 0) + 1
            cs["coin_leaves"] = cs.get("coin_leaves", 0) + len(leaves)
            cs["max_flips_enumerated"] = max(cs.get("max_flips_enumerated", 0), F)
        if count != len(leaves) or len(leaves) != 2 ** F:
            bad.append(("leaf-count", "%d leaves for %d flips" % (len(leaves), F), i))
            return bad
        for sid, its in items.items():
            T = ty[sid]
            pts = sorted(set(T.ident(x) for x in its))
            vals = {}
            for x in its:
                vals[T.ident(x)] = x
            parsed = []
            for f, views, _ in leaves:
                if sid not in views:
                    bad.append(("bad-observation", "sketch %d missing in a leaf" % sid, i))
                    return bad
                n, total, words = views[sid]
                if n != len(its) or total != len(its):
                    bad.append(("n-mismatch", "sketch %d: n=%d total=%d accepted=%d" % (sid, n, total, len(its)), i))
                    return bad
                parsed.append(U.parse_pairs(T, words))
            ys = sorted((vals[pid] for pid in pts), key=T.key())
            srt = sorted(its, key=T.key())
            tot_incl, tot_excl = [0] * len(ys), [0] * len(ys)
            for ents in parsed:                      # one sweep per leaf over (entries, query points), both sorted
                pi = pe = 0
                ci = ce = 0
                for j, y in enumerate(ys):
                    while pi < len(ents) and T.le(ents[pi][0], y):
                        ci = ents[pi][1]; pi += 1
                    while pe < len(ents) and T.lt(ents[pe][0], y):
                        ce = ents[pe][1]; pe += 1
                    tot_incl[j] += ci
                    tot_excl[j] += ce
            pi = pe = 0
            for j, y in enumerate(ys):
                while pi < len(srt) and T.le(srt[pi], y):
                    pi += 1
                while pe < len(srt) and T.lt(srt[pe], y):
                    pe += 1
                for incl, tot, true in ((True, tot_incl[j], pi), (False, tot_excl[j], pe)):
                    if tot != (2 ** F) * true:
                        bad.append(("rank-biased", "sketch %d y=%r %s: sum over %d leaves of weight below = %d, 2^F * true count = %d"
                                    % (sid, y, "inclusive" if incl else "exclusive", len(leaves), tot, (2 ** F) * true), i))
                        return bad
        return bad

    def nontrivial_key(self, hist, impl_out):
        if hist and hist[0] == "tbegin":
            if not impl_out or not impl_out[-1].startswith("T ") or impl_out[-1].startswith("T overflow"):
                return None
            count, leaves = self.parse_tree(impl_out[-1])
            if count < 4:
                return None
            return ("tree", count, tuple(l for l in hist if l.startswith(("new", "merge"))), len(hist))
        fl = 0
        for o in impl_out:
            w = o.split()
            if len(w) >= 2 and w[-2] == "F":
                fl = int(w[-1])
        return ("long", fl, len(hist)) if fl >= 10 else None


PART = KllC08()


class C08Kll(Spec):
    pid = "C08"
    props_modules = ["DSProofs.Props.C08_Mechanism", "DSProofs.Props.C08_Kll"]
    tfamilies = ["kll"]
    rule = ("short histories (1-3 KLL sketches, k 8-12, updates/merges/copies, int64 or double items) executed under EVERY coin "
            "vector (<= 12 flips quick, <= 16 thorough) on the real headers and on the model, leaves compared as multisets; long "
            "histories (k 32-200, 3e3-3e5 items, merges) with recorded random coins compared on coin-value-independent observables; "
            "non-trivial = a coin tree with >= 4 leaves or a long history with >= 10 flips; distinct = distinct (shape, leaf count)")
    trusted_base = ["Lean 4.33 kernel", "axioms: propext, Quot.sound, Classical.choice",
                    "hook H1 (random_utils::verif_source) supplies every coin of kll_helper::randomly_halve_up/down",
                    "correspondence harness harness/kll_h.cpp (exhaustive coin enumeration by re-execution) + generators",
                    "tools/trules/kll.py (constants from the headers)"]
    assumptions = ["fair independent coins are the MODEL of random_bit; the engine itself (std::independent_bits_engine<mt19937,1>) is not examined",
                   "the published error get_normalized_rank_error is compared with the model's formula; that the error stays within it "
                   "'at least as often as claimed' is an empirical fit and is NOT decided here"]

    def parts(self):
        return [PART]

    def extra_stages(self, rep, tier, rng, broken):
        PART.cov_sink = rep.cov


SPEC = C08Kll()

CLAIM_TEXT = (
    "KLL part of C08: kernel-checked theorems that (i) the number of coins an update/merge consumes and the shape of the result "
    "(level sizes, capacity, n) depend only on the shapes of the operands, never on coin values (flips_shape_only), (ii) one "
    "compaction is balanced (compaction_balanced) and any schedule of micro-operations is unbiased (sumAll_unbiased, generic "
    "mechanism), and (iii) for EVERY history of updates, merges (any tree) and copies over any number of sketches, every predicate "
    "'below y' (inclusive or exclusive) and every sketch, the weight below y summed over all 2^F coin vectors equals 2^F times the "
    "true count (kll_unbiased), F being the outcome-independent number of flips. Tied to the real headers by exhaustive coin-tree "
    "enumeration on short histories (multisets of leaves equal; integer identity checked on the implementation's leaves) and by "
    "recorded-coin runs on long histories. The empirical claim 'error within get_normalized_rank_error at least as often as "
    "published' is not decided.")

CLAIM = dict(text=CLAIM_TEXT,
             note="KLL only. Fairness/independence of the real random_bit engine is assumed, not examined.",
             technique="Lean 4 proofs over coin trees (uniform depth + leaf sums) + exhaustive coin enumeration on the real headers via hook H1",
             design="DESIGN.md §3 C08")

"""C13 — Tuple sketches keep theta-sketch keys and exact per-key summaries (DESIGN.md 3 C13)."""
from .. import core, gen
from ..runner import Spec
from .c01 import model_hashes

MAXT = 2**63 - 1
KINDS = {"lst": 1, "sum": 1, "aod1": 1, "aod2": 2, "aod3": 3}


def view(kind, trace):
    """what the harness prints for a summary whose folded value list is `trace`"""
    if kind == "lst":
        return ",".join(str(v) for v in trace) if trace else "-"
    if kind == "sum":
        return str(sum(trace))
    n = KINDS[kind]
    return ",".join(str(sum(trace[j::n])) for j in range(n))


def total(kind, trace):
    if kind.startswith("aod"):
        return sum(trace[0::KINDS[kind]])
    return sum(trace)


def parse_U(line):
    w = line.split()
    if not w or w[0] != "U":
        return None
    d = dict(theta=int(w[1]), empty=w[2] == "1", est_mode=w[3] == "1", ordered=w[4] == "1", n=int(w[5]), est=w[6], seedhash=int(w[7]))
    ents, sh = [], None
    for t in w[8:]:
        if t.startswith("sh="):
            sh = t == "sh=1"
        else:
            k, s = t.split(":", 1)
            ents.append((int(k), s))
    d["ents"] = ents
    d["sh"] = sh
    return d


class C13(Spec):
    pid = "C13"
    props_modules = ["DSProofs.Props.C13"]
    harness = "tuple_h"
    model_exe = "dsmodel_theta"
    family = "tuple"
    tfamilies = ["theta"]
    rule = ("histories over one summary kind (list-append = non-commutative trace of every folded value; double sum with default policies; "
            "array-of-doubles with 1-3 columns): 2-4 update tuple sketches (lg_k 5-7, p in {1,.5,.1}) fed (key, value) pairs with heavy key "
            "repetition from all 12 key overloads, each shadowed by a real Theta sketch fed the same keys; derived forms compact/filter/"
            "theta->tuple conversion; unions / intersections (reused, lvalue and rvalue) / A-not-B over them; non-trivial = some retained key "
            "whose summary folds >= 2 values and at least one set-operation result with entries; distinct = tuple of (op, theta, n) of results")
    trusted_base = ["Lean 4.33 kernel", "axioms: propext, Quot.sound, Classical.choice",
                    "correspondence harness harness/tuple_h.cpp + generators (sampled histories; public-API observations)",
                    "the list-append summary makes arrival order and operand order observable; arithmetic summaries are views of it"]
    assumptions = ["theorems are about the generic models DSModel/Theta/Update.lean + SetOps.lean instantiated with a payload; the tie to "
                   "tuple_sketch_impl.hpp / tuple_union.hpp / tuple_intersection.hpp / tuple_a_not_b.hpp / array_tuple_*.hpp is differential",
                   "user-defined summary types with move semantics are exercised for lifecycle in C19, not here"]

    def generate(self, rng, tier):
        nh = 90 if tier == "quick" else 700
        hs = []
        for _ in range(nh):
            kind = rng.choice(["lst", "lst", "lst", "sum", "aod1", "aod2", "aod3"])
            ar = KINDS[kind]
            h = []
            seed = 9001 if rng.random() < 0.85 else rng.randrange(1, 2**32)
            nid = [0]

            def fresh():
                nid[0] += 1
                return nid[0] - 1
            universe = rng.choice([6, 20, 80, 300])
            sk = []
            upds = []
            for _s in range(rng.choice([2, 3, 4])):
                i = fresh()
                lgk = rng.choice([5, 5, 6, 7] if tier == "quick" else [5, 6, 7, 8])
                p = rng.choice(["3f800000", "3f800000", "3f000000", "3dcccccd"])
                sd = seed if rng.random() < 0.95 else seed + 1
                h.append("tnew %s %d %d %d %s %d" % (kind, i, lgk, rng.randrange(4), p, sd))
                n = rng.choice([0, 1, 5, 30, 120, 300] if tier == "quick" else [0, 5, 50, 300, 1200])
                types = None if rng.random() < 0.3 else ["u64"]
                for _j in range(n):
                    ty, lit = gen.rand_input(rng, universe, types)
                    vals = " ".join(str(rng.randrange(-5, 40)) for _ in range(ar))
                    h.append("tupd %s %d %s %s %s" % (kind, i, ty, lit, vals))
                    r = rng.random()
                    if r < 0.01:
                        h.append("ttrim %s %d" % (kind, i))
                    elif r < 0.013:
                        h.append("treset %s %d" % (kind, i))
                sk.append(i)
                upds.append(i)
                if rng.random() < 0.7:
                    c = fresh()
                    h.append("tcompact %s %d %d %d" % (kind, i, c, rng.randrange(2)))
                    sk.append(c)
                if rng.random() < 0.4 and not kind.startswith("aod"):
                    c = fresh()
                    h.append("tfilter %s %d %d %d" % (kind, rng.choice(sk), c, rng.randrange(0, 60)))
                    sk.append(c)
                if rng.random() < 0.3:
                    c = fresh()
                    h.append("tcopy %s %d %d" % (kind, rng.choice(sk), c))
                    sk.append(c)
            if not kind.startswith("aod") and rng.random() < 0.5:
                h.append("new 0 %d %d 3f800000 %d" % (rng.choice([5, 6]), rng.randrange(4), seed))
                for _j in range(rng.choice([0, 3, 40, 100])):
                    h.append("upd 0 u64 %d" % rng.randrange(universe))
                c = fresh()
                h.append("tfromtheta %s 0 %d %d %s" % (kind, c, rng.randrange(2), " ".join(str(rng.randrange(1, 9)) for _ in range(rng.choice([1, 2])))))
                sk.append(c)
            unions, inters = [], []
            for _j in range(rng.choice([2, 4, 7])):
                r = rng.random()
                if r < 0.45:
                    if not unions or rng.random() < 0.4:
                        u = fresh()
                        h.append("tunew %s %d %d %d %s %d" % (kind, u, rng.choice([5, 5, 6]), rng.randrange(4), rng.choice(["3f800000", "3f000000"]), seed))
                        unions.append(u)
                    u = rng.choice(unions)
                    for _k in range(rng.randrange(1, 5)):
                        h.append("tuupd %s %d %d%s" % (kind, u, rng.choice(sk), " mv" if rng.random() < 0.3 else ""))
                        if rng.random() < 0.3:
                            h.append("tures %s %d %d %d" % (kind, u, fresh(), rng.randrange(2)))
                    if rng.random() < 0.1:
                        h.append("tureset %s %d" % (kind, u))
                    r2 = fresh()
                    h.append("tures %s %d %d %d" % (kind, u, r2, rng.randrange(2)))
                    if rng.random() < 0.5:
                        sk.append(r2)
                elif r < 0.8:
                    if not inters or rng.random() < 0.5:
                        it = fresh()
                        h.append("tinew %s %d %d" % (kind, it, seed))
                        inters.append(it)
                    it = rng.choice(inters)
                    for _k in range(rng.randrange(1, 4)):
                        h.append("tiupd %s %d %d%s" % (kind, it, rng.choice(sk), " mv" if rng.random() < 0.3 else ""))
                    h.append("tihas %s %d" % (kind, it))
                    r2 = fresh()
                    h.append("tires %s %d %d %d" % (kind, it, r2, rng.randrange(2)))
                    if rng.random() < 0.5:
                        sk.append(r2)
                else:
                    r2 = fresh()
                    h.append("tanotb %s %d %d %d %d %d" % (kind, rng.choice(sk), rng.choice(sk), r2, rng.randrange(2), seed))
                    if rng.random() < 0.5:
                        sk.append(r2)
            hs.append(h)
        return hs

    # ---------------------------------------------------------------- oracle: exact per-key folds from the history
    def oracle(self, hist, impl_out):
        bad = []
        # hashes of all tuple-sketch and theta-sketch key inputs, via the Lean Murmur/Canon model
        seeds = {}
        tseed = {}
        inputs = []
        for l in hist:
            w = l.split()
            if w[0] == "tnew":
                seeds[(w[1], int(w[2]))] = int(w[6])
            elif w[0] == "tcopy" and (w[1], int(w[2])) in seeds:
                seeds[(w[1], int(w[3]))] = seeds[(w[1], int(w[2]))]
            elif w[0] == "new":
                tseed[int(w[1])] = int(w[5])
            elif w[0] == "tupd" and (w[1], int(w[2])) in seeds:
                inputs.append((w[3], w[4], seeds[(w[1], int(w[2]))]))
            elif w[0] == "upd" and int(w[1]) in tseed:
                inputs.append((w[2], w[3], tseed[int(w[1])]))
        try:
            hashes = model_hashes(inputs) if inputs else []
        except Exception:
            return []
        hi = 0
        exp = {}    # (kind,id) -> dict(theta, empty, ents: {key: trace}, seedhash)   (oracle's own bookkeeping)
        seen = {}   # (kind,id) -> {hash: trace} of everything offered since reset (update sketches)
        uni = {}    # (kind,id) -> dict(lgk, theta0, inputs=[exp snapshots])
        inter = {}
        theta_seen = {}

        def cmp_obs(key, o, e, i, what):
            got = sorted((k, s) for k, s in o["ents"])
            want = sorted((k, view(key[0], t)) for k, t in e["ents"].items())
            if (o["theta"], o["empty"]) != (e["theta"], e["empty"]) or got != want:
                d = [x for x in want if x not in got][:2], [x for x in got if x not in want][:2]
                bad.append((what, "theta %d/%d empty %s/%s missing=%s extra=%s" % (o["theta"], e["theta"], o["empty"], e["empty"], d[0], d[1]), i))
                return False
            return True

        for i, l in enumerate(hist):
            if i >= len(impl_out):
                break
            w = l.split()
            out = impl_out[i].strip()
            op = w[0]
            o = parse_U(out) if out.startswith("U ") else None
            if op == "upd":
                if int(w[1]) in tseed:
                    hv = hashes[hi]; hi += 1
                    theta_seen.setdefault(int(w[1]), set())
                    if hv is not None:
                        theta_seen[int(w[1])].add(hv)
                continue
            if op == "new" or len(w) < 3:
                continue
            kind = w[1]
            key = (kind, int(w[2]))
            if op == "tnew":
                seen[key] = {}
                exp[key] = dict(upd=True, lgk=int(w[3]), theta0=gen.theta0_of_p(w[5]), touched=False)
                if o and (not o["empty"] or o["n"] != 0):
                    bad.append(("new-sketch-not-empty", out[:80], i))
            elif op == "tupd":
                if key not in seen:
                    continue
                hv = hashes[hi]; hi += 1
                vals = [int(x) for x in w[5:]]
                if hv is not None:
                    seen[key].setdefault(hv, []).extend(vals)
                    exp[key]["touched"] = True
            elif op == "treset":
                if key in seen:
                    seen[key] = {}
                    exp[key]["touched"] = False
            if op in ("tnew", "tupd", "ttrim", "treset"):
                if o is None or key not in seen:
                    continue
                if o["sh"] is False:
                    bad.append(("keys-differ-from-theta-sketch", out[:100], i))
                theta = o["theta"]
                e = dict(theta=theta, empty=not exp[key]["touched"], seedhash=o["seedhash"],
                         ents={h: list(t) for h, t in seen[key].items() if 0 < h < theta} if exp[key]["touched"] else {})
                if not cmp_obs(key, o, e, i, "summary-not-fold-of-values"):
                    pass
                exp[key].update(e)
                exp[key]["ordered"] = o["ordered"]
                continue
            if op == "tcopy":
                src = exp.get(key)
                dst = (kind, int(w[3]))
                if src is not None and "ents" in src:
                    exp[dst] = dict(src, ents={k: list(v) for k, v in src["ents"].items()})
                    if key in seen:
                        seen[dst] = {k: list(v) for k, v in seen[key].items()}
                    if o:
                        cmp_obs(dst, o, exp[dst], i, "copy-differs")
                continue
            if op == "tcompact":
                src = exp.get(key)
                dst = (kind, int(w[3]))
                if src is not None and "ents" in src and o:
                    e = dict(theta=src["theta"], empty=src["empty"], ents={k: list(v) for k, v in src["ents"].items()}, seedhash=src.get("seedhash"),
                             ordered=o["ordered"])
                    cmp_obs(dst, o, e, i, "compact-differs-from-source")
                    if o["ordered"] and [k for k, _ in o["ents"]] != sorted(k for k, _ in o["ents"]):
                        bad.append(("ordered-form-not-sorted", out[:60], i))
                    exp[dst] = e
                continue
            if op == "tfilter":
                src = exp.get(key)
                dst = (kind, int(w[3]))
                if src is not None and "ents" in src and o:
                    thr = int(w[4])
                    ents = {k: list(v) for k, v in src["ents"].items() if total(kind, v) >= thr}
                    est = src["theta"] < MAXT and not src["empty"]
                    e = dict(theta=src["theta"], empty=(not est) and not ents, ents=ents, seedhash=src.get("seedhash"), ordered=o["ordered"])
                    cmp_obs(dst, o, e, i, "filter-not-predicate-subset")
                    exp[dst] = e
                continue
            if op == "tfromtheta":
                dst = (kind, int(w[3]))
                if o:
                    vals = [int(x) for x in w[5:]]
                    ts = theta_seen.get(int(w[2]), set())
                    ents = {k: list(vals) for k in ts if 0 < k < o["theta"]}
                    e = dict(theta=o["theta"], empty=o["empty"], ents=ents if not o["empty"] else {}, seedhash=o["seedhash"], ordered=o["ordered"])
                    cmp_obs(dst, o, e, i, "theta-conversion-wrong-keys-or-summary")
                    exp[dst] = e
                continue
            if op == "tunew":
                uni[key] = dict(lgk=int(w[3]), theta0=gen.theta0_of_p(w[5]), inputs=[])
                continue
            if op == "tuupd":
                u = uni.get(key); s = exp.get((kind, int(w[3])))
                if u is None or s is None or "ents" not in s:
                    continue
                if out != "ok":
                    continue      # seed mismatch refusals are covered by C02; bad-op = object missing (shrunk histories)
                u["inputs"].append(dict(s, ents={k: list(v) for k, v in s["ents"].items()}))
                continue
            if op == "tureset":
                if key in uni:
                    uni[key]["inputs"] = []
                continue
            if op == "tures":
                u = uni.get(key)
                dst = (kind, int(w[3]))
                if o is None or u is None:
                    continue
                ne = [s for s in u["inputs"] if not s["empty"]]
                if not ne:
                    if not o["empty"] or o["n"] != 0:
                        bad.append(("union-of-empties-not-empty", out[:80], i))
                    exp[dst] = dict(theta=o["theta"], empty=True, ents={}, seedhash=o["seedhash"], ordered=o["ordered"])
                    continue
                k = 2 ** u["lgk"]
                tstar = min([u["theta0"]] + [s["theta"] for s in ne])
                C = sorted(set(x for s in ne for x in s["ents"] if x < tstar))
                if len(C) > k:
                    wt, keys = C[k], C[:k]
                else:
                    wt, keys = tstar, C
                ents = {}
                for kk in keys:
                    tr = []
                    for s in ne:
                        if kk in s["ents"]:
                            tr.extend(s["ents"][kk])
                    ents[kk] = tr
                e = dict(theta=wt, empty=False, ents=ents, seedhash=o["seedhash"], ordered=o["ordered"])
                cmp_obs(dst, o, e, i, "union-result-not-spec")
                exp[dst] = e
                continue
            if op == "tinew":
                inter[key] = dict(inputs=[])
                continue
            if op == "tiupd":
                it = inter.get(key); s = exp.get((kind, int(w[3])))
                if it is None or s is None or "ents" not in s or out != "ok":
                    continue
                it["inputs"].append(dict(s, ents={k: list(v) for k, v in s["ents"].items()}))
                continue
            if op == "tihas":
                it = inter.get(key)
                if it is not None and out != "has %d" % (1 if it["inputs"] else 0):
                    bad.append(("has-result-wrong", out, i))
                continue
            if op == "tires":
                it = inter.get(key)
                dst = (kind, int(w[3]))
                if it is None:
                    continue
                if not it["inputs"]:
                    if out != "throw":
                        bad.append(("intersection-result-before-update", out[:60], i))
                    continue
                if o is None:
                    if out != "bad-op":
                        bad.append(("intersection-result-missing", out[:60], i))
                    continue
                st = None
                for s in it["inputs"]:
                    if st is not None and st[1]:
                        continue
                    if s["empty"]:
                        st = (MAXT, True, {}); continue
                    if st is None:
                        st = (s["theta"], False, {k: list(v) for k, v in s["ents"].items()}); continue
                    theta = min(st[0], s["theta"])
                    ents = {k: st[2][k] + s["ents"][k] for k in st[2] if k in s["ents"] and k < theta}
                    empty = bool(st[2]) and bool(s["ents"]) and not ents and theta == MAXT
                    st = (theta, empty, ents)
                e = dict(theta=st[0], empty=st[1], ents=st[2], seedhash=o["seedhash"], ordered=o["ordered"])
                cmp_obs(dst, o, e, i, "intersection-result-not-spec")
                exp[dst] = e
                continue
            if op == "tanotb":
                a = exp.get(key); b = exp.get((kind, int(w[3])))
                dst = (kind, int(w[4]))
                if a is None or b is None or "ents" not in a or "ents" not in b or o is None:
                    continue
                if a["empty"] or (a["ents"] and b["empty"]):
                    e = dict(theta=a["theta"], empty=a["empty"], ents={k: list(v) for k, v in a["ents"].items()})
                else:
                    theta = min(a["theta"], b["theta"])
                    ents = {k: list(v) for k, v in a["ents"].items() if k < theta and k not in b["ents"]}
                    e = dict(theta=theta, empty=(not ents and theta == MAXT), ents=ents)
                e.update(seedhash=o["seedhash"], ordered=o["ordered"])
                cmp_obs(dst, o, e, i, "anotb-result-not-spec")
                exp[dst] = e
                continue
        return bad

    def nontrivial_key(self, hist, impl_out):
        res = []
        multi = False
        for l, o in zip(hist, impl_out):
            w = l.split()
            if o.startswith("U "):
                d = parse_U(o)
                if w[0] in ("tures", "tires", "tanotb") and d["n"] > 0:
                    res.append((w[0], d["theta"], d["n"]))
                if w[0] == "tupd" and any("," in s and w[1] == "lst" for _, s in d["ents"]):
                    multi = True
                if w[0] == "tupd" and w[1] != "lst" and d["n"] > 0:
                    multi = True
        if not res or not multi:
            return None
        return (hist[0].split()[1],) + tuple(res)


SPEC = C13()

CLAIM = dict(
    text=("Kernel-checked theorems about the generic (payload-carrying) Lean models of the theta update table and set operations: a tuple "
          "sketch retains exactly the keys, theta and emptiness of the theta sketch fed the same keys (simulation by payload erasure, for all "
          "histories incl. trim/reset); the summary of every retained key is the update policy folded over every value offered with that "
          "key in arrival order; union / intersection / A-not-B select keys exactly as the C02 theorems state (they are proved for an arbitrary "
          "payload and policy) and attach to every retained key the policy folded over the summaries of the inputs holding it, in presentation order (union: all inputs holding the key; intersection: all inputs); A-not-B keeps A's entries; filter keeps precisely the entries satisfying the predicate. Tie: differential correspondence on generated "
          "histories for three instantiations (non-commutative list-append trace, double sum, array-of-doubles 1-3 columns), each update sketch "
          "shadowed by a real Theta sketch, plus an oracle that recomputes every per-key fold from the history."),
    note=("Modelled, not verified: hash-table layout; user-defined summaries with move semantics (lifecycle is C19); array-of-doubles is covered "
          "by the payload-homomorphism theorem instantiated with column projections (not stated per column)."),
    technique="Lean 4 simulation (payload erasure) + invariant proofs over operation lists + differential correspondence + per-key fold oracle",
    design="DESIGN.md §3 C13")

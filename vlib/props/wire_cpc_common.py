"""Shared machinery of the wire-format checks of the CPC sketch (C09 / C10 / C11): state generators, the two-phase tie
(the documented Lean reader decodes what the code wrote), oracles.  See docs/WIRE_GUIDE.md.
Harness: harness/wire_cpc_h.cpp; model driver: lean/Driver/WireCpc.lean (dsmodel_wire_cpc)."""
import os, glob
from .. import core
from ..runner import Part

HARNESS = "wire_cpc_h"
MODEL = "dsmodel_wire_cpc"
FAM = "cpc"
CLASSES = ["empty", "sparse", "hybrid", "pinned", "sliding", "sliding2", "merged-sparse", "merged-hybrid", "merged-pinned",
           "merged-sliding", "merged-empty", "one"]
CODE_NAMES = {"T": "throw", "A": "accept", "a": "accept-other-content", "S": "asan", "U": "ubsan", "O": "timeout",
              "C": "alloc_cap", "L": "leak", "X": "crash", "?": "no-result"}
SAFETY = set("SUOCLX?")
TRUSTED = ["Lean 4.33 kernel", "axioms: propext, Quot.sound, Classical.choice",
           "tools/trules/wire_cpc.py (wire constants / field order regenerated from the headers every run) and tools/trules/cpc.py (compression tables)",
           "harness/wire_cpc_h.cpp + the state generators (sampled reachable states; public API only)",
           "the payload semantics (what the compressed words mean) is the C05 compression model DSModel/Cpc/Compress.lean"]


def ratio_n(k, ratio):
    return int(k * ratio) if ratio <= 1.0 else int(k * 2 ** (ratio - 0.9))


def state_ops(rng, tier, cls, lgk=None, seed=None):
    """-> (ops, id of the sketch in the wanted class, lgk, seed)"""
    quick = tier == "quick"
    if lgk is None:
        lgk = rng.choice([4, 5, 6] if quick else [4, 5, 6, 7, 8, 9, 10, 11, 12])
    if seed is None:
        seed = 9001 if rng.random() < 0.75 else rng.randrange(1, 1 << 64)
    k = 1 << lgk
    base = rng.randrange(1 << 40)
    fill = {"empty": 0.0, "one": None, "sparse": 0.07, "hybrid": rng.choice([0.12, 0.3, 0.45]), "pinned": rng.choice([0.6, 1.5, 3.0]),
            "sliding": rng.choice([3.6, 4.2]), "sliding2": rng.choice([5.2, 6.5])}
    ops = []
    if not cls.startswith("merged"):
        ops.append("new 0 %d %d" % (lgk, seed))
        n = 1 if cls == "one" else ratio_n(k, fill[cls])
        if cls == "sparse":
            n = max(1, min(n, 3 * k // 32 - 1))
        if n:
            ops.append("updr 0 %d %d" % (base, n))
        return ops, 0, lgk, seed
    sub = cls.split("-")[1]
    lg2 = min(12, lgk + rng.choice([0, 1, 2]))
    ops.append("new 0 %d %d" % (lg2, seed))
    ops.append("new 1 %d %d" % (lgk, seed))
    if sub != "empty":
        f = {"sparse": 0.03, "hybrid": 0.2, "pinned": 1.2, "sliding": 4.0}[sub]
        n0 = max(1, ratio_n(1 << lgk, f))
        ops.append("updr 0 %d %d" % (base, n0))
        ops.append("updr 1 %d %d" % (base + n0 // 2, max(1, n0 // 3)))
    ops.append("unew 2 %d %d" % (lgk + rng.choice([0, 1]), seed))
    ops.append("uupd 2 0"); ops.append("uupd 2 1"); ops.append("ures 2 3")
    return ops, 3, lgk, seed


def parse_img(line):
    parts = [p.strip() for p in line.split("|")]
    w = parts[0].split()
    return dict(kind=w[1], hex=w[2], content=parts[1] if len(parts) > 1 else "", checks=parts[2] if len(parts) > 2 else "")


def seed_of_kind(kind):
    p = kind.split(":")
    return int(p[3]) if len(p) > 3 else 9001


def img_len(hexs):
    return 0 if hexs == "-" else len(hexs) // 2


def layouts(pairs):
    pairs = list(dict.fromkeys(pairs))
    if not pairs:
        return {}
    out, oc, err = core.run_model(MODEL, None, ["IMG %s %s %d" % (k, h, seed_of_kind(k)) for k, h in pairs], timeout=600)
    res = {}
    for p, l in zip(pairs, out):
        lay = []
        if " layout=" in l:
            for x in l.split(" layout=")[1].split(","):
                nm, off = x.rsplit(":", 1)
                lay.append((nm, int(off)))
        res[p] = lay
    return res


def field_at(lay, n):
    cur = "?"
    for nm, off in lay:
        if off <= n:
            cur = nm
    return cur


GROUP = {"lg_k": "lg_k", "flags": "flags", "num_coupons": "counts", "num_entries": "counts", "table_words": "counts",
         "window_words": "counts", "pre_ints": "header", "ser_ver": "header", "family": "header", "fic": "header",
         "seed_hash": "header", "hip": "hip", "window_data": "data", "table_data": "data"}


def group_of(field):
    return GROUP.get(field, field)


def compress_ranges(ks):
    out, i = [], 0
    while i < len(ks):
        j = i
        while j + 1 < len(ks) and ks[j + 1] == ks[j] + 1:
            j += 1
        out.append("%d" % ks[i] if i == j else "%d..%d" % (ks[i], ks[j]))
        i = j + 1
    return ",".join(out)


REPL = ["00", "01", "7f", "80", "ff", "b^1", "b^80", "b+1"]


class WirePart(Part):
    harness = HARNESS
    model_exe = MODEL
    family = None
    timeout = 1800
    name = FAM
    fam = FAM

    def model_lines(self, hist, impl_out):
        res = []
        for l in impl_out:
            if l.startswith("IMG "):
                d = parse_img(l)
                res.append("IMG %s %s %d" % (d["kind"], d["hex"], seed_of_kind(d["kind"])))
        return res

    def expected_model_out(self, hist, impl_out):
        res = []
        for l in impl_out:
            if l.startswith("IMG "):
                d = parse_img(l)
                n = img_len(d["hex"])
                res.append("D %s | re=1 rc=1 size=%d len=%d minpfx=%d" % (d["content"], n, n, n))
        return res

    def diff(self, hist, impl_out, model_out):
        exp = self.expected_model_out(hist, impl_out)
        mo = [m.split(" layout=")[0] for m in model_out]
        return core.first_diff(exp, mo, None)


class C09Part(WirePart):
    """reachable states -> ser (all C++-only checks) + deserialize-then-continue on both paths"""

    def generate(self, rng, tier):
        n = 14 if tier == "quick" else 120
        hs = []
        for j in range(n):
            cls = CLASSES[j % len(CLASSES)]
            ops, s, lgk, seed = state_ops(rng, tier, cls)
            h = list(ops)
            h.append("ser %d" % s)
            base = rng.randrange(1 << 40)
            r = 10
            for via in ("b", "s"):
                h.append("fork %d %d %s" % (s, r, via))
                h.append("eq %d %d" % (s, r))
                c = rng.choice([1, 5, max(1, (1 << lgk) // 4)])
                h.append("updr %d %d %d" % (s, base, c))
                h.append("updr %d %d %d" % (r, base, c))
                h.append("eq %d %d" % (s, r))
                h.append("ser %d" % s)
                base += c
                r += 1
            hs.append(h)
        if tier != "quick":
            b = rng.randrange(1 << 40)
            hs.append(["new 0 26 9001", "updr 0 %d 60" % b, "ser 0", "fork 0 1 b", "eq 0 1", "updr 0 %d 9" % (b + 60), "updr 1 %d 9" % (b + 60), "eq 0 1", "ser 1"])
        return hs

    def oracle(self, hist, impl_out):
        bad = []
        for i, (l, o) in enumerate(zip(hist, impl_out)):
            op = l.split()[0]
            if o.strip() == "bad-op":
                continue          # reference to an object that does not exist (shrunk history): a protocol error, not an outcome
            if op == "ser":
                if not o.startswith("IMG "):
                    bad.append(("cpc/serialize-throws", o[:120], i)); continue
                d = parse_img(o)
                chk = d["checks"].split()[0] if d["checks"] else "?"
                if chk != "ok":
                    for c in chk.replace("FAIL:", "").split(","):
                        bad.append(("cpc/%s" % c, "%s: %s fails for image %s" % (d["kind"], c, d["hex"][:200]), i))
            elif op == "eq":
                if not o.startswith("EQ "):
                    bad.append(("cpc/eq-throws", o[:120], i))
                elif o.strip() != "EQ 1":
                    prev = hist[i - 1].split()[0] if i else ""
                    bad.append(("cpc/%s" % ("restore-differs" if prev == "fork" else "continue-diverges"), o[:300], i))
            elif op in ("fork", "ures", "uupd", "new", "unew", "updr", "upd"):
                if o.strip() != "ok":
                    bad.append(("cpc/%s-throws" % op, "%s -> %s" % (l[:80], o[:80]), i))
        return bad

    def nontrivial_key(self, hist, impl_out):
        imgs = [parse_img(o) for o in impl_out if o.startswith("IMG ")]
        big = [d for d in imgs if img_len(d["hex"]) > 16]
        if not big:
            return None
        return tuple((d["kind"], img_len(d["hex"])) for d in big[:2]) + (hash(big[0]["hex"]) & 0xffff,)


def baseline_lines():
    res = []
    for f in sorted(glob.glob(os.path.join(core.ROOT, "corpus", "baseline", FAM, "*.txt"))):
        for l in open(f):
            l = l.strip()
            if l.startswith("IMG "):
                res.append((os.path.basename(f), l))
    return res


class C10Part(WirePart):
    """the committed baseline corpus must decode - in C++ from the current tree (bytes + stream) and in Lean - to the recorded content"""

    def generate(self, rng, tier):
        lines = baseline_lines()
        hs = []
        chunk = 12
        for i in range(0, len(lines), chunk):
            hs.append(["load %s %s" % (parse_img(l)["kind"], parse_img(l)["hex"]) for _, l in lines[i:i + chunk]])
        # plus fresh images of every state class
        for j, cls in enumerate(CLASSES if tier == "quick" else CLASSES * 3):
            ops, s, lgk, seed = state_ops(rng, tier, cls)
            hs.append(ops + ["ser %d" % s])
        return hs

    def oracle(self, hist, impl_out):
        bad = []
        rec = {}
        for _, l in baseline_lines():
            d = parse_img(l)
            rec[(d["kind"], d["hex"])] = d["content"]
        for i, (l, o) in enumerate(zip(hist, impl_out)):
            op = l.split()[0]
            if op not in ("load", "ser") or o.strip() == "bad-op":
                continue
            if not o.startswith("IMG "):
                bad.append(("cpc/%s-throws" % op, o[:120], i)); continue
            d = parse_img(o)
            chk = d["checks"].split()[0] if d["checks"] else "?"
            if chk != "ok":
                for c in chk.replace("FAIL:", "").split(","):
                    bad.append(("cpc/baseline-%s" % c if op == "load" else "cpc/%s" % c, "%s: %s for image %s" % (d["kind"], c, d["hex"][:200]), i))
            if op == "load":
                want = rec.get((d["kind"], d["hex"]))
                if want is not None and want != d["content"]:
                    bad.append(("cpc/baseline-content-differs", "%s: recorded %s, current tree reads %s" % (d["kind"], want[:80], d["content"][:80]), i))
        return bad

    def nontrivial_key(self, hist, impl_out):
        imgs = [parse_img(o) for o in impl_out if o.startswith("IMG ")]
        big = [d for d in imgs if img_len(d["hex"]) > 16]
        return (big[0]["kind"], img_len(big[0]["hex"]), hash(big[0]["hex"]) & 0xffff) if big else None


def parse_c11(line):
    parts = [p.strip() for p in line.split(" | ")]
    w = parts[0].split()
    d = dict(kind=w[1], hex=w[2], npre=int(w[3]))
    for p in parts[1:]:
        k, v = p.split("=", 1)
        d[k] = "" if v == "-" else v
    return d


class C11Part(WirePart):
    """every prefix length of every image on the bytes path and the stream path (two stack fills); every preamble byte x 8
    replacements on both paths"""
    stats = None

    def generate(self, rng, tier):
        hs = []
        sched = CLASSES if tier == "quick" else CLASSES * 2
        for j, cls in enumerate(sched):
            lgk = rng.choice([4, 4, 5]) if tier == "quick" else rng.choice([4, 5, 6, 7, 8])
            ops, s, lgk, seed = state_ops(rng, tier, cls, lgk=lgk)
            hs.append(["do " + " ; ".join(ops), "c11 %d" % s])
        return hs

    def model_lines(self, hist, impl_out):
        res = []
        for o in impl_out:
            if o.startswith("C11 "):
                d = parse_c11(o)
                sd = seed_of_kind(d["kind"])
                res += ["PFX %s %s %d" % (d["kind"], d["hex"], sd), "CORR %s %s %d %d" % (d["kind"], d["hex"], sd, d["npre"])]
        return res

    def expected_model_out(self, hist, impl_out):
        res = []
        for o in impl_out:
            if o.startswith("C11 "):
                d = parse_c11(o)
                res += ["R" * img_len(d["hex"]) or "-", None]
        return res

    def diff(self, hist, impl_out, model_out):
        exp = self.expected_model_out(hist, impl_out)
        c11 = [parse_c11(o) for o in impl_out if o.startswith("C11 ")]
        for i, e in enumerate(exp):
            m = model_out[i] if i < len(model_out) else "<missing>"
            if e is None:
                d = c11[i // 2]
                if self.stats is not None and len(m) == len(d.get("cb", "")):
                    for path in ("cb", "cs"):
                        for x, y in zip(d[path], m):
                            if x == "=":
                                continue
                            k = "agree" if (x == "T") == (y == "R") else ("impl-accepts-model-rejects" if y == "R" else "impl-rejects-model-accepts")
                            self.stats[k] = self.stats.get(k, 0) + 1
                continue
            if m.strip() != e:
                return i
        return None

    def oracle(self, hist, impl_out):
        bad = []
        c11 = [(i, parse_c11(o)) for i, o in enumerate(impl_out) if o.startswith("C11 ")]
        for i, (l, o) in enumerate(zip(hist, impl_out)):
            if l.split()[0] == "c11" and not o.startswith("C11 "):
                bad.append(("cpc/c11-run-failed", o[:200], i))
        lay = layouts([(d["kind"], d["hex"]) for _, d in c11])
        for i, d in c11:
            L = lay.get((d["kind"], d["hex"]), [])
            n = img_len(d["hex"])
            why = d.get("why", "")
            if self.stats is not None:
                self.stats["images"] = self.stats.get("images", 0) + 1
                self.stats["prefixes"] = self.stats.get("prefixes", 0) + 3 * n
                self.stats["corruptions"] = self.stats.get("corruptions", 0) + sum(1 for c in d["cb"] + d["cs"] if c != "=")
            for path, key in (("bytes", "b"), ("stream", "s"), ("stream", "t")):
                v = d[key]
                if len(v) != n:
                    bad.append(("cpc/c11-run-failed", "verdict string length %d for %d prefixes" % (len(v), n), i)); continue
                groups = {}
                for k, c in enumerate(v):
                    if c != "T":
                        groups.setdefault((CODE_NAMES.get(c, c), "any" if path == "stream" else group_of(field_at(L, k))), []).append(k)
                for (oc, fld), ks in sorted(groups.items()):
                    bad.append(("cpc/%s/prefix/%s@%s" % (path, oc, fld),
                                "%s: deserialize(%s) of the first n bytes, n in %s of %d: %s (a strict prefix must be rejected with an exception)%s; image %s [%s]"
                                % (d["kind"], path, compress_ranges(ks), n, oc, " stack fill 0x01" if key == "t" else "", d["hex"][:400], why[:300]), i))
            for path, key in (("bytes", "cb"), ("stream", "cs")):
                v = d[key]
                groups = {}
                for k, c in enumerate(v):
                    if c in SAFETY:
                        pos, j = divmod(k, 8)
                        groups.setdefault((CODE_NAMES.get(c, c), group_of(field_at(L, pos))), []).append((pos, j))
                for (oc, fld), ks in sorted(groups.items()):
                    bad.append(("cpc/%s/corrupt/%s@%s" % (path, oc, fld),
                                "%s: deserialize(%s) after replacing one preamble byte (position:replacement %s): %s; image %s [%s]"
                                % (d["kind"], path, ",".join("%d:%s" % (p, REPL[j]) for p, j in ks[:8]), oc, d["hex"][:400], why[:300]), i))
            if d.get("leak"):
                bad.append(("cpc/leak", "%s: LeakSanitizer reports leaks after the %s batch; image %s" % (d["kind"], d["leak"], d["hex"][:200]), i))
        return bad

    def nontrivial_key(self, hist, impl_out):
        c = [parse_c11(o) for o in impl_out if o.startswith("C11 ")]
        big = [d for d in c if img_len(d["hex"]) > 16]
        return (big[0]["kind"], img_len(big[0]["hex"]), hash(big[0]["hex"]) & 0xffff) if big else None


def make_baseline():
    """write corpus/baseline/cpc/*.txt from the tree $VERIF_REPO points to (run once on the pinned tree)"""
    import random, subprocess
    ok, exe, log = core.compile_harness(HARNESS)
    assert ok, log
    rng = random.Random(20260927)
    rev = subprocess.run(["git", "-C", core.REPO, "rev-parse", "--short", "HEAD"], stdout=subprocess.PIPE, text=True).stdout.strip()
    d = os.path.join(core.ROOT, "corpus", "baseline", FAM)
    os.makedirs(d, exist_ok=True)
    out = ["# CPC baseline images written by harness/wire_cpc_h.cpp from tree %s (%s); lines: IMG <kind> <hex> | <API content>" % (core.REPO, rev)]
    for lgk in [4, 5, 6, 8, 10, 12]:
        for cls in CLASSES:
            ops, s, lgk2, seed = state_ops(rng, "thorough", cls, lgk=lgk, seed=9001 if lgk != 6 else 1234567)
            io, oc, err = core.run_impl(exe, ops + ["ser %d" % s], timeout=600)
            assert oc == "ok" and io[-1].startswith("IMG "), (oc, io[-1:], err[-300:])
            dd = parse_img(io[-1])
            out.append("IMG %s %s | %s" % (dd["kind"], dd["hex"], dd["content"]))
    io, oc, err = core.run_impl(exe, ["new 0 26 9001", "updr 0 777 50", "ser 0"], timeout=600)
    dd = parse_img(io[-1]); out.append("IMG %s %s | %s" % (dd["kind"], dd["hex"], dd["content"]))
    open(os.path.join(d, "cpc_baseline.txt"), "w").write("\n".join(out) + "\n")
    return len(out) - 1

"""C10, last sentence: "hashing of each input type matches the published MurmurHash3/XXHash64 definitions so that sketches built by other
language implementations remain mergeable".  One part per family with typed update overloads: every boundary literal of every overload
(gen.edge_matrix: sign- vs zero-extension of the 8/16/32-bit types, -0.0 and NaN canonicalisation, the ignored empty string, raw bytes)
is fed to a FRESH real sketch through that overload, and the coupon / hash / bit positions it produced are compared with the Lean model
(canonical bytes of the published rule -> Lean MurmurHash3_x64_128 / XXHash64 -> the family's coupon rule).  The parts reuse the
harnesses, models and oracles of C01 (theta), C13 (tuple), C03 (HLL), C05 (CPC) and C15 (Bloom); only the histories differ.
Added after the seeded change C10-hll-uint32-zero-extended (hll_sketch::update(uint32_t) zero-extending) was missed by C10 while C03
caught it: the property that names input-type hashing must see it itself."""
from .. import gen
from . import c01, c03, c05, c13, c15


def _chunks(xs, n):
    return [xs[i:i + n] for i in range(0, len(xs), n)]


class ThetaInputs(c01.C01Hash):
    name = "inputs-theta"

    def generate(self, rng, tier):
        m = gen.edge_matrix(rng, 40 if tier == "quick" else 400)
        return [["hash %s %s %d" % (ty, lit, seed) for ty, lit in ch] for seed in (9001, rng.randrange(1, 2**64)) for ch in _chunks(m, 60)]


class HllInputs(c03.C03):
    name = "inputs-hll"

    def generate(self, rng, tier):
        m = gen.edge_matrix(rng, 40 if tier == "quick" else 400)
        hs = []
        for tt in (4, 6, 8):
            for ch in _chunks(m, 30):
                h = []
                for i, (ty, lit) in enumerate(ch):      # one fresh list-mode sketch per input: its image shows the single coupon
                    h += ["new %d %d %d 0" % (i, rng.choice([4, 8, 12]), tt), "upd %d %s %s" % (i, ty, lit), "raw %d" % i, "obs %d" % i]
                hs.append(h)
        # and all inputs into one sketch per type (duplicates across types collapse exactly when the canonical bytes agree)
        for tt in (4, 8):
            h = ["new 0 10 %d 0" % tt] + ["upd 0 %s %s" % x for x in m] + ["obs 0", "raw 0"]
            hs.append(h)
        return hs

    def search_histories(self, rng, tier, around=()):
        return []

    def nontrivial_key(self, hist, impl_out):
        return tuple(hist[:3])


class CpcInputs(c05.C05):
    name = "inputs-cpc"

    def generate(self, rng, tier):
        m = gen.edge_matrix(rng, 40 if tier == "quick" else 400)
        hs = []
        for lgk in (4, 8, 11):
            for ch in _chunks(m, 40):
                hs.append(["new 0 %d 9001" % lgk] + ["upd 0 %s %s" % x for x in ch] + ["ser 0"])
        hs.append(["new 0 10 %d" % rng.randrange(1, 2**64)] + ["upd 0 %s %s" % x for x in m] + ["ser 0"])
        return hs

    def search_histories(self, rng, tier, around=()):
        return []

    def nontrivial_key(self, hist, impl_out):
        return tuple(hist[:3])


class TupleInputs(c13.C13):
    name = "inputs-tuple"

    def generate(self, rng, tier):
        m = gen.edge_matrix(rng, 40 if tier == "quick" else 400)
        hs = []
        for kind in ("lst", "sum", "aod2"):
            ar = c13.KINDS[kind]
            for ch in _chunks(m, 60):
                h = ["tnew %s 0 6 0 3f800000 9001" % kind]
                for ty, lit in ch:
                    h.append("tupd %s 0 %s %s %s" % (kind, ty, lit, " ".join("1" for _ in range(ar))))
                h.append("tcompact %s 0 1 1" % kind)
                hs.append(h)
        return hs

    def search_histories(self, rng, tier, around=()):
        return []

    def nontrivial_key(self, hist, impl_out):
        return tuple(hist[:3])


class BloomInputs(c15.HashPart):
    name = "inputs-bloom"

    def generate(self, rng, tier):
        m = gen.edge_matrix(rng, 40 if tier == "quick" else 400)
        h = ["xx %s %d" % k for k in c15.KAT]
        for seed in (0, 9001, rng.randrange(2**64)):
            h += ["hash %s %s %d" % (ty, lit, seed) for ty, lit in m]
        # the hash itself on raw bytes of every length 0..64 and around every multiple of 32 up to 257 (block loop boundaries), with
        # the published known answers: inherited from the C15 hash part
        return _chunks(h, 200) + c15.HashPart.generate(self, rng, tier)


def parts():
    ps = [ThetaInputs(), HllInputs(), CpcInputs(), TupleInputs(), BloomInputs()]
    for p in ps:
        p.divergence_is_property_failure = True
    return ps


CLAIM_TEXT = ("input types: every boundary literal of each of the 12 update overloads is fed to fresh Theta, Tuple, HLL, CPC sketches and Bloom filters; "
              "the coupon / retained hash / bit positions must be the ones the Lean transcription of the published hash of the published canonical bytes gives")

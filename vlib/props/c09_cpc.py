"""C09 (group `cpc`: CPC sketch, incl. union results) - serialization round trip.
`./check c09_cpc` runs this group alone; the integrator combines PARTS of all groups."""
from ..runner import Spec
from . import wire_cpc_common as W

PARTS = [W.C09Part()]

CLAIM_TEXT = ("CPC sketch: kernel-checked round trip `decode (encode s ++ tail) = (s, tail)` and `|encode s| = serializedSize s` for "
              "every well-formed image state (raw preamble fields + the two compressed word arrays) and every constant set satisfying "
              "decidable side conditions that the current headers meet; `image_restores_sketch`: for every valid sketch state of the C05 "
              "model (all flavors, merged or not, the empty sketch in the repaired shape) the image state built from `compress`, written, "
              "read back by the documented reader and expanded by `uncompress` gives the same lg_k, C, table, window, offset, fic, merged "
              "flag and HIP registers. Tie: real sketches are driven into every flavor (empty, one coupon, sparse, hybrid, pinned, sliding, "
              "union results of each), every image is decoded by the documented Lean reader (API content incl. bit-exact estimate/bounds, "
              "re-encoding, re-compression through the model, size, smallest accepted prefix must all agree) and checked in C++ alone for "
              "bytes(header h) = h zero bytes ++ stream image (h in 1,8,13), stream = bytes image, stream position after image ++ sentinel, "
              "restore via bytes and stream, byte-equal re-serialization and deserialize-then-continue.")


class C09Cpc(Spec):
    pid = "C09"
    props_modules = ["DSProofs.Props.C09_Cpc"]
    harness = W.HARNESS
    model_exe = W.MODEL
    tfamilies = ["wire_cpc", "cpc"]
    rule = ("one history per state class (empty / one coupon / sparse / hybrid / pinned / sliding at offsets 1-3 / union results that are "
            "empty, sparse, hybrid, pinned, sliding; lg_k 4-6 quick, 4-12 thorough plus a sparse lg_k 26; default and random seeds), each "
            "serialized, restored via bytes and stream, continued with the same updates and serialized again; non-trivial = some image "
            "longer than 16 bytes; distinct = (kind, image size, image hash)")
    trusted_base = W.TRUSTED
    assumptions = ["theorems are about DSModel/Wire/Cpc*.lean + DSModel/Cpc/Compress.lean; the tie to cpc_sketch_impl.hpp / "
                   "cpc_compressor_impl.hpp is the two-phase check on sampled reachable states",
                   "CPC publishes no guaranteed size bound (get_max_serialized_size_bytes is an empirical 99.9% figure): exceedances are "
                   "reported as statistics, not violations",
                   "custom allocators are not exercised"]

    def parts(self):
        return PARTS


SPEC = C09Cpc()

CLAIM = dict(text=CLAIM_TEXT,
             note="Sampled states (exhaustive only in the theorems); window offsets beyond 56 are outside the C05 model.",
             technique="Lean 4 reader/writer round-trip proofs over bounded combinators + compression round trip (C05) + two-phase correspondence (model decodes what the code wrote)",
             design="DESIGN.md §3 C09")

"""C14 — Count-min never under-estimates and is linear under merge (DESIGN.md 3 C14)."""
import math, struct
from fractions import Fraction
from .. import core, gen
from ..runner import Spec

NH_CHOICES = [1, 2, 3, 5, 8, 255]
NB_CHOICES = [3, 4, 7, 64, 1000]
MAX_CELLS = 1 << 30
# generated totals stay below these: doubles (multiples of 1/4) remain exact, integers do not overflow
LIMIT = {"f64": 2**50, "i64": 2**61, "u64": 2**62}
E_DBL = math.exp(1.0)
M64 = (1 << 64) - 1


def ctor_limits():
    """(min buckets, max cells) of the CURRENT header as read by tools/trules/countmin.py (lean/DSGen/CountMin.lean): a retuned
    limit is a parameter, not a violation; what the oracle insists on is that an accepted sketch has hashes*buckets cells."""
    import os, re
    try:
        t = open(os.path.join(core.LEAN, "DSGen", "CountMin.lean")).read()
        return (int(re.search(r"countmin_MIN_BUCKETS : Nat := (\d+)", t).group(1)),
                int(re.search(r"countmin_MAX_CELLS : Nat := (\d+)", t).group(1)))
    except Exception:
        return 3, MAX_CELLS


# ----------------------------------------------------------------------------- independent helpers (python)

def _rotl(x, r):
    return ((x << r) | (x >> (64 - r))) & M64


def _fmix(k):
    k ^= k >> 33
    k = (k * 0xff51afd7ed558ccd) & M64
    k ^= k >> 33
    k = (k * 0xc4ceb9fe1a85ec53) & M64
    k ^= k >> 33
    return k


def murmur3_x64_128(data, seed):
    """public-domain MurmurHash3_x64_128 with a 64-bit seed (third, independent transcription; used for seed hashes)."""
    c1, c2 = 0x87c37b91114253d5, 0x4cf5ad432745937f
    h1 = h2 = seed & M64
    n = len(data)
    nb = n // 16
    for i in range(nb):
        k1 = int.from_bytes(data[16 * i:16 * i + 8], "little")
        k2 = int.from_bytes(data[16 * i + 8:16 * i + 16], "little")
        k1 = (k1 * c1) & M64; k1 = _rotl(k1, 31); k1 = (k1 * c2) & M64; h1 ^= k1
        h1 = _rotl(h1, 27); h1 = (h1 + h2) & M64; h1 = (h1 * 5 + 0x52dce729) & M64
        k2 = (k2 * c2) & M64; k2 = _rotl(k2, 33); k2 = (k2 * c1) & M64; h2 ^= k2
        h2 = _rotl(h2, 31); h2 = (h2 + h1) & M64; h2 = (h2 * 5 + 0x38495ab5) & M64
    tail = data[16 * nb:]
    t = len(tail)
    if t > 8:
        k2 = int.from_bytes(tail[8:], "little")
        k2 = (k2 * c2) & M64; k2 = _rotl(k2, 33); k2 = (k2 * c1) & M64; h2 ^= k2
    if t > 0:
        k1 = int.from_bytes(tail[:8], "little")
        k1 = (k1 * c1) & M64; k1 = _rotl(k1, 31); k1 = (k1 * c2) & M64; h1 ^= k1
    h1 ^= n; h2 ^= n
    h1 = (h1 + h2) & M64; h2 = (h2 + h1) & M64
    h1 = _fmix(h1); h2 = _fmix(h2)
    h1 = (h1 + h2) & M64; h2 = (h2 + h1) & M64
    return h1, h2


def seed_hash(seed):
    return murmur3_x64_128(struct.pack("<Q", seed & M64), 0)[0] & 0xffff


_COLL = {}


def seed_collider(seed):
    """a different seed with the same 16-bit seed hash (the serialized form cannot tell the two apart; merge must).
    Table over seeds 0..2^18 built once; ~98% of hash values are covered."""
    if not _COLL:
        for s2 in range(1 << 18):
            _COLL.setdefault(seed_hash(s2), []).append(s2)
    for s2 in _COLL.get(seed_hash(seed), []):
        if s2 != seed & M64:
            return s2
    return None


def item_key(ty, lit):
    """canonical bytes of an item = what the code hashes; None = empty string (ignored by the code)."""
    if ty == "u64":
        return struct.pack("<Q", int(lit))
    if ty == "i64":
        return struct.pack("<Q", int(lit) & M64)
    b = b"" if lit == "-" else bytes.fromhex(lit)
    if ty == "str":
        return b if b else None
    return b


def f64_of_hex(h):
    return struct.unpack("<d", struct.pack("<Q", int(h, 16)))[0]


def wparse(kind, s):
    """weight / value literal of an observation or op line -> exact number"""
    if kind == "f64":
        return Fraction(f64_of_hex(s))
    return int(s)


def wfmt(kind, v):
    return gen.f64hex(float(v)) if kind == "f64" else str(int(v))


# ----------------------------------------------------------------------------- loc derivation (from the implementation)

def derive_locs(reqs):
    """reqs: iterable of (nh, nb, seed, ity, lit) -> {req: annotation string (tokens after '@')} using the harness `loc` mode."""
    reqs = sorted(set(reqs))
    if not reqs:
        return {}
    ok, exe, hlog = core.compile_harness("countmin_h")
    if not ok:
        raise RuntimeError("harness unavailable")
    lines = ["loc %d %d %d %s %s" % r for r in reqs]
    out, oc, err = core.run_impl(exe, lines, ["loc"], timeout=600)
    res = {}
    for r, o in zip(reqs, out):
        w = o.split()
        if w and w[0] == "L" and len(w) > 1 and w[1] not in ("ignored", "unsafe"):
            res[r] = " ".join(w[1:])
        else:
            res[r] = ""
    for r in reqs:
        res.setdefault(r, "")
    return res


class HB:
    """history builder: ops are recorded abstractly, locations are filled in by `render` once derived."""

    def __init__(self):
        self.ops = []
        self.cfg = {}     # id -> (nh, nb, seed)
        self.kind = {}
        self.nxt = 0
        self.bound = {}   # id -> sum |w| so far (the generator keeps it below LIMIT: exact arithmetic, no overflow)
        self.budget = None  # optional history-wide cap on sum |w| over all updates (merge trees: no merge can leave the range)

    def fresh(self):
        self.nxt += 1
        return self.nxt - 1

    def new(self, kind, nh, nb, seed, usable=True):
        i = self.fresh()
        self.ops.append(("raw", "new %d %s %d %d %d" % (i, kind, nh, nb, seed)))
        if usable:
            self.cfg[i] = (nh, nb, seed)
            self.kind[i] = kind
            self.bound[i] = 0
        return i

    def limit(self, i):
        return LIMIT[self.kind[i]]

    def upd(self, i, item, w):
        if self.bound[i] + abs(w) > self.limit(i):     # keep every sum exactly representable / below overflow
            w = 1 if self.bound[i] + 1 <= self.limit(i) else 0
        if self.budget is not None:
            if abs(w) > self.budget:
                w = 1 if self.budget >= 1 else 0
            self.budget -= abs(w)
        self.bound[i] += abs(w)
        self.ops.append(("upd", i, item, w))
        return w

    def merge(self, dst, src):
        """emit `merge dst src` unless the merged total could leave the exact range; returns whether emitted"""
        ok_cfg = dst != src and self.cfg[dst] == self.cfg[src]
        if ok_cfg and self.bound[dst] + self.bound[src] > self.limit(dst):
            return False
        self.raw("merge %d %d" % (dst, src))
        if ok_cfg:
            self.bound[dst] += self.bound[src]
        return True

    def q(self, i, item):
        self.ops.append(("q", i, item))

    def raw(self, line):
        self.ops.append(("raw", line))

    def copy(self, src):
        j = self.fresh()
        self.raw("copy %d %d" % (src, j))
        self.cfg[j] = self.cfg[src]
        self.kind[j] = self.kind[src]
        self.bound[j] = self.bound[src]
        return j

    def reqs(self):
        for o in self.ops:
            if o[0] in ("upd", "q") and o[1] in self.cfg:
                yield self.cfg[o[1]] + tuple(o[2])

    def render(self, locs):
        out = []
        for o in self.ops:
            if o[0] == "raw":
                out.append(o[1])
            elif o[0] == "upd":
                a = locs.get(self.cfg[o[1]] + tuple(o[2]), "")
                out.append(("upd %d %s %s %s @ %s" % (o[1], o[2][0], o[2][1], wfmt(self.kind[o[1]], o[3]), a)).rstrip())
            else:
                a = locs.get(self.cfg[o[1]] + tuple(o[2]), "")
                out.append(("q %d %s %s @ %s" % (o[1], o[2][0], o[2][1], a)).rstrip())
        return out


def rand_items(rng, n):
    items, seen = [], set()
    tries = 0
    while len(items) < n and tries < 10 * n + 20:
        tries += 1
        t = rng.random()
        if t < 0.35:
            v = rng.choice([0, 1, 2**63, 2**64 - 1, 2**32]) if rng.random() < 0.15 else rng.randrange(200)
            it = ("u64", str(v))
        elif t < 0.6:
            v = rng.choice([-1, -2**63, 2**63 - 1, 0]) if rng.random() < 0.15 else rng.randrange(-100, 100)
            it = ("i64", str(v))
        elif t < 0.9:
            if rng.random() < 0.15:      # 8-byte string aliasing an integer item
                it = ("str", struct.pack("<Q", rng.randrange(200)).hex())
            else:
                n_ = rng.choice([1, 2, 3, 5, 7, 8, 9, 15, 16, 17, 20, 33])
                it = ("str", bytes(rng.randrange(1, 256) for _ in range(n_)).hex())
        else:
            n_ = rng.choice([0, 1, 4, 8, 16, 19])
            it = ("raw", bytes(rng.randrange(256) for _ in range(n_)).hex() or "-")
        k = item_key(*it)
        if k in seen:
            continue
        seen.add(k)
        items.append(it)
    return items


# floating-point sketches: all weights of one history share a power-of-two scale (2^0, 2^-30, 2^-60), so that every sum stays exact
# while totals far below 1 (below the type's epsilon, too) occur: "empty" means total weight == 0, not "small"
_F64_SCALE = [Fraction(1)]


def pick_scale(rng, kind):
    _F64_SCALE[0] = Fraction(1, 2 ** rng.choice([0, 0, 0, 30, 60])) if kind == "f64" else Fraction(1)


def rand_weight(rng, kind, signed):
    r = rng.random()
    if kind == "f64":
        v = rng.choice([0, 1, 1, 1, 2, 3, 5, 10, 100, 2**20, 2**40]) if r < 0.8 else Fraction(rng.randrange(1, 64), 4)
        if _F64_SCALE[0] != 1:
            v = Fraction(rng.choice([0, 1, 1, 1, 2, 3, 5, 10])) * _F64_SCALE[0]
    elif kind == "u64":
        v = rng.choice([0, 1, 1, 1, 2, 3, 5, 10, 1000, 2**32, 2**50])
    else:
        v = rng.choice([0, 1, 1, 1, 2, 3, 5, 10, 1000, 2**32, 2**50])
    if signed and kind != "u64" and rng.random() < 0.35:
        v = -v
    return v


def rand_cfg(rng, tier):
    nh = rng.choice(NH_CHOICES)
    nb = rng.choice(NB_CHOICES)
    if rng.random() < 0.15:          # sweep: any num_hashes 1..255, any small num_buckets >= 3
        nh, nb = rng.randrange(1, 256), rng.randrange(3, 41)
    if nh * nb > 20000 and rng.random() < 0.5:     # keep the big shapes rare
        nh = rng.choice([1, 2, 3, 5, 8])
    seed = rng.choice([9001, 9001, 0, 1, 2147483647, 2**64 - 1, rng.randrange(2**64), rng.randrange(2**32)])
    return nh, nb, seed


def pick(rng, items):
    """skewed choice so that some items are heavy"""
    i = min(int(rng.expovariate(1.0) * len(items) / 3.0), len(items) - 1)
    return items[i]


def query_all(h, i, items, absent):
    for it in items + absent:
        h.q(i, it)


def hist_streams(rng, tier):
    """1-3 sketches, random updates, queries, dumps, copies, merges (valid and refused), round trips."""
    h = HB()
    kind = rng.choice(["i64", "u64", "f64"])
    pick_scale(rng, kind)
    signed = kind != "u64" and rng.random() < 0.3
    cfg = rand_cfg(rng, tier)
    ids = [h.new(kind, *cfg)]
    for _ in range(rng.choice([0, 0, 1, 2])):
        c2 = cfg if rng.random() < 0.6 else rng.choice([(cfg[0], cfg[1], cfg[2] ^ 1), (cfg[0], rng.choice(NB_CHOICES), cfg[2]), (rng.choice(NH_CHOICES[:5]), cfg[1], cfg[2]),
                                                        (cfg[0], cfg[1], seed_collider(cfg[2]) or cfg[2] ^ 2)])     # same 16-bit seed hash, different seed
        ids.append(h.new(kind, *c2))
    nu = rng.choice([1, 3, 10, 40])
    items = rand_items(rng, nu)
    absent = [it for it in rand_items(rng, 4) if item_key(*it) not in set(item_key(*x) for x in items)][:3]
    if rng.random() < 0.2:
        items.append(("str", "-"))
    big = cfg[0] * cfg[1] > 20000
    nops = rng.choice([5, 20, 60, 120]) if tier == "quick" else rng.choice([20, 100, 300, 800])
    if big:
        nops = min(nops, 40 if tier == "quick" else 150)
    for j in range(nops):
        r = rng.random()
        i = rng.choice(ids)
        if r < 0.80:
            h.upd(i, pick(rng, items), rand_weight(rng, kind, signed))
        elif r < 0.86:
            h.q(i, rng.choice(items + absent))
        elif r < 0.89:
            h.raw("dump %d" % i)
        elif r < 0.92 and len(ids) < 6:
            ids.append(h.copy(i))
        elif r < 0.96:
            j2 = rng.choice(ids)
            if h.merge(i, j2) and h.cfg[i] == h.cfg[j2] and i != j2 and rng.random() < 0.5:
                h.raw("dump %d" % i)
        elif r < 0.985:
            h.raw("rt %d %d %s %d" % (i, i, rng.choice(["bytes", "stream", "hdr"]), h.cfg[i][2]))
            h.raw("dump %d" % i)
        else:
            bad = h.fresh()
            h.raw("rt %d %d %s %d" % (i, bad, rng.choice(["bytes", "stream"]), (h.cfg[i][2] + rng.randrange(1, 1000)) & M64))
    for i in ids:
        h.raw("dump %d" % i)
        if not big or rng.random() < 0.5:
            query_all(h, i, items, absent)
    return h


def hist_merge_tree(rng, tier):
    """k leaves with their own streams, a random merge tree with further updates at inner nodes, optional
    serialization points, and a reference sketch fed the concatenated streams."""
    h = HB()
    kind = rng.choice(["i64", "u64", "f64"])
    pick_scale(rng, kind)
    signed = kind != "u64" and rng.random() < 0.3
    cfg = rand_cfg(rng, tier)
    big = cfg[0] * cfg[1] > 20000
    k = rng.choice([2, 3, 4, 6]) if tier == "quick" else rng.choice([2, 3, 5, 8, 12])
    items = rand_items(rng, rng.choice([2, 8, 30]))
    absent = [it for it in rand_items(rng, 3) if item_key(*it) not in set(item_key(*x) for x in items)][:2]
    per = rng.choice([0, 3, 10, 30]) if tier == "quick" else rng.choice([0, 10, 50, 150])
    if big:
        per = min(per, 8 if tier == "quick" else 30)
    live = []
    allu = []
    h.budget = LIMIT[kind] // 2
    for _ in range(k):
        i = h.new(kind, *cfg)
        n = rng.randrange(per + 1)
        for _ in range(n):
            it = pick(rng, items)
            allu.append((it, h.upd(i, it, rand_weight(rng, kind, signed))))
        live.append(i)
    while len(live) > 1:
        a = live.pop(rng.randrange(len(live)))
        b = live.pop(rng.randrange(len(live)))
        if rng.random() < 0.2:
            h.raw("rt %d %d %s %d" % (b, b, rng.choice(["bytes", "stream", "hdr"]), cfg[2]))
        if rng.random() < 0.15:
            b2 = h.copy(b)
            b = b2
        if not h.merge(a, b):
            raise AssertionError("generator: merge skipped in a merge tree")
        for _ in range(rng.randrange(0, 4)):
            it = pick(rng, items)
            allu.append((it, h.upd(a, it, rand_weight(rng, kind, signed))))
        if rng.random() < 0.3:
            h.raw("dump %d" % a)
        live.append(a)
    root = live[0]
    ref = h.new(kind, *cfg)
    h.budget = None
    rng.shuffle(allu) if rng.random() < 0.5 else None
    for u in allu:
        h.upd(ref, *u)
    h.raw("dump %d" % root)
    h.raw("dump %d" % ref)
    query_all(h, root, items, absent)
    query_all(h, ref, items, absent)
    return h


def hist_boundary(rng, tier):
    """constructor argument checks, suggest_* helpers, refused merges."""
    _F64_SCALE[0] = Fraction(1)
    h = HB()
    kind = rng.choice(["i64", "u64", "f64"])
    for _ in range(rng.randrange(2, 6)):
        r = rng.random()
        if r < 0.3:
            h.new(kind, rng.choice([1, 2, 255]), rng.choice([0, 1, 2]), 9001, usable=False)
        elif r < 0.5:
            nh = rng.choice([1, 2, 3, 64, 255])
            nb = (MAX_CELLS + nh - 1) // nh + rng.choice([0, 1, 1000])
            if nh * nb < 2**32:          # refused without any wrap-around
                h.new(kind, nh, nb, 9001, usable=False)
        elif r < 0.7:                    # (the largest accepted shapes, just below 2^30 cells, are too big to allocate here)
            nh, nb = rng.randrange(1, 256), rng.choice([3, 4, 5])
            i = h.new(kind, nh, nb, 9001)
            h.raw("dump %d" % i)
        else:
            nh, nb = rng.choice([(1, 3), (255, 3), (1, 4), (2, 3)])
            i = h.new(kind, nh, nb, rng.randrange(2**64))
            it = rand_items(rng, 2)
            h.upd(i, it[0], 1 if kind != "f64" else 1)
            h.q(i, it[0]); h.q(i, it[-1])
            h.raw("merge %d %d" % (i, i))
            h.raw("dump %d" % i)
    if rng.random() < 0.6:               # refused merges: one field of the configuration differs, incl. a seed with the same 16-bit seed hash
        nh, nb, seed = rng.choice([1, 2, 3, 5]), rng.choice([3, 4, 7, 64]), rng.choice([9001, 9001, 0, 1, rng.randrange(2**64), rng.randrange(2**32)])
        a = h.new(kind, nh, nb, seed)
        others = [(nh, nb, seed_collider(seed) or seed ^ 2), (nh, nb, seed ^ 1), (nh + 1, nb, seed), (nh, nb + 1, seed)]
        rng.shuffle(others)
        it = rand_items(rng, 3)
        h.upd(a, it[0], 1)
        for c in others[:rng.randrange(1, 4)]:
            b = h.new(kind, *c)
            h.upd(b, it[-1], 2)
            h.merge(a, b) if rng.random() < 0.5 else h.merge(b, a)
            h.raw("dump %d" % a); h.raw("dump %d" % b)
        for x in it:
            h.q(a, x)
    for _ in range(rng.randrange(1, 5)):
        if rng.random() < 0.5:
            re = rng.choice([1.0, 0.5, 0.1, 0.05, 0.01, 1e-3, 1e-6, 2.718281828, 3.0, 100.0, -0.5, -1e-300, 1e-9, rng.random()])
            h.raw("sb %s" % gen.f64hex(re))
        else:
            c = rng.choice([0.0, 0.5, 0.9, 0.95, 0.99, 0.999, 1 - 2**-53, 0.632, 0.6321205588285577, -0.1, 1.5, 1.0000000000000002, rng.random()])
            h.raw("sh %s" % gen.f64hex(c))
    return h


def hist_ctor_wrap_witness():
    """FIXED history, always run first: constructor arguments whose size product exceeds 2^32 (replay of the
    witness of `cm_ctor_full_false` in Props/C14.lean on the real code)."""
    h = HB()
    for kind, nh, nb in [("u64", 4, 1 << 30), ("i64", 8, (1 << 29) + 1), ("f64", 255, 16843010)]:
        i = h.new(kind, nh, nb, 9001)
        h.raw("dump %d" % i)
        h.upd(i, ("u64", "5"), 1)
        h.q(i, ("u64", "5"))
    return h


# ----------------------------------------------------------------------------- the spec

class C14(Spec):
    pid = "C14"
    props_modules = ["DSProofs.Props.C14"]
    harness = "countmin_h"
    model_exe = "dsmodel_countmin"
    family = "countmin"
    tfamilies = ["countmin"]
    rule = ("histories over count_min_sketch<int64_t|uint64_t|double>: num_hashes in {1,2,3,5,8,255} x num_buckets in {3,4,7,64,1000} (85%) or any "
            "num_hashes 1..255 x num_buckets 3..40 (15%) x "
            "seeds {9001,0,1,2^31-1,2^64-1,random}; items = uint64/int64/string/(ptr,len) overloads incl. boundary values, cross-type aliases and "
            "the ignored empty string; weights non-negative (70%) or signed, integer-valued or dyadic doubles; three shapes: multi-sketch "
            "streams with copies, valid/refused merges and serialize->deserialize points (bytes, bytes+header, stream), merge trees of 2-12 "
            "leaves with updates at inner nodes compared with a reference sketch fed the concatenated streams, and constructor/suggest_* "
            "boundary arguments. Row locations on the op lines are derived from the implementation. A history is non-trivial when a "
            "merge or round trip succeeded or some estimate exceeded the true weight (a collision) after >= 10 updates; distinct = "
            "(kind, configs, number of updates, final totals) signature")
    trusted_base = ["Lean 4.33 kernel", "axioms: propext, Quot.sound, Classical.choice",
                    "correspondence harness harness/countmin_h.cpp + generators (sampled histories; public-API observations)",
                    "row hash is a parameter of the model (derived from the implementation per item); theorems hold for every row hash",
                    "tools/trules/countmin.py reads the constructor guards (limits and arithmetic width) from the current header",
                    "floating point: the upper-bound arithmetic is executed in Float (bit-compared with the code) but the theorem about it is in exact arithmetic"]
    assumptions = ["theorems are about DSModel/CountMin/Basic.lean; the tie to count_min_impl.hpp is differential (sampled)",
                   "exact arithmetic in the weight type: no int64/uint64 overflow, doubles without rounding (the generators keep to such values)",
                   "1 <= num_hashes (num_hashes = 0 was accepted by the pinned constructor with get_estimate undefined; rejected since fix a8816d6; outside the property's range either way)",
                   "the probabilistic sub-claim (over-estimate > eps*total with frequency <= 1-confidence) is not decided (DESIGN.md section 5)"]

    # ---- generators
    def _builders(self, rng, tier):
        n = 220 if tier == "quick" else 2500
        hs = [hist_ctor_wrap_witness()]
        for i in range(n):
            r = rng.random()
            if r < 0.55:
                hs.append(hist_streams(rng, tier))
            elif r < 0.9:
                hs.append(hist_merge_tree(rng, tier))
            else:
                hs.append(hist_boundary(rng, tier))
        return hs

    def generate(self, rng, tier):
        hs = self._builders(rng, tier)
        try:
            locs = derive_locs(r for h in hs for r in h.reqs())
        except RuntimeError:
            return []
        return [h.render(locs) for h in hs]

    # ---- the property statement itself, on one implementation trace
    def oracle(self, hist, impl_out):
        """Exact counts from the history.  Per sketch the oracle keeps, incrementally: the multiset of updates (item -> total
        weight), sum |w|, per-item sums of the negative / non-negative weights, and the exact count of every touched cell
        (row r, the item's location in row r as annotated on the op line)."""
        bad = []
        min_buckets, max_cells = ctor_limits()
        sk = {}          # id -> Acc
        seen_q = {}      # (signature, item) -> (obs, prov)
        seen_d = {}      # signature -> (obs, prov)

        class Acc:
            def __init__(self, kind, cfg, unsafe=False):
                self.kind, self.cfg, self.unsafe = kind, cfg, unsafe
                self.true = {}        # item -> sum w
                self.pos = {}         # item -> sum of w >= 0
                self.neg = {}         # item -> sum of -w for w < 0
                self.tot = 0          # sum |w|
                self.possum = 0
                self.negsum = 0
                self.cells = {}
                self.cells_ok = True
                self.prov = frozenset()
                self.nupd = 0
                self._sig = None

            def clone(self, prov, cfg=None):
                a = Acc(self.kind, cfg or self.cfg, self.unsafe)
                a.true, a.pos, a.neg = dict(self.true), dict(self.pos), dict(self.neg)
                a.tot, a.possum, a.negsum = self.tot, self.possum, self.negsum
                a.cells, a.cells_ok = dict(self.cells), self.cells_ok
                a.prov = self.prov | {prov}
                a.nupd = self.nupd
                return a

            def add(self, key, w, locs_ok, locs):
                self._sig = None
                self.nupd += 1
                self.true[key] = self.true.get(key, 0) + w
                self.tot += abs(w)
                if w >= 0:
                    self.pos[key] = self.pos.get(key, 0) + w
                    self.possum += w
                else:
                    self.neg[key] = self.neg.get(key, 0) - w
                    self.negsum -= w
                if locs_ok:
                    nb = self.cfg[1]
                    for r, t in enumerate(locs):
                        j = r * nb + t
                        self.cells[j] = self.cells.get(j, 0) + w
                else:
                    self.cells_ok = False

            def absorb(self, o):
                self._sig = None
                self.nupd += o.nupd
                for d, e in ((self.true, o.true), (self.pos, o.pos), (self.neg, o.neg), (self.cells, o.cells)):
                    for k, v in e.items():
                        d[k] = d.get(k, 0) + v
                self.tot += o.tot
                self.possum += o.possum
                self.negsum += o.negsum
                self.cells_ok = self.cells_ok and o.cells_ok
                self.prov = self.prov | o.prov | {"merge"}

            def sig(self):
                """what the state must be a function of: weight type, configuration, multiset of updates up to the order
                (per-item net weight is NOT enough for total, so sum|w| is part of it)"""
                if self._sig is None:
                    self._sig = (self.kind, self.cfg, tuple(sorted(self.true.items())), self.tot)
                return self._sig

        def provkey(p1, p2, what):
            p = p1 | p2
            if "merge" in p:
                return "merge-not-linear:" + what
            if "rt" in p:
                return "roundtrip-changes:" + what
            if "copy" in p:
                return "copy-differs:" + what
            return "state-not-function-of-stream:" + what

        for i, l in enumerate(hist):
            if i >= len(impl_out):
                break
            w = l.split()
            o = impl_out[i].split()
            op = w[0]
            if not o:
                bad.append(("bad-observation", "empty line", i)); continue
            if o[0] == "bad-op":
                bad.append(("bad-observation", impl_out[i][:80], i)); continue
            if o[0] == "no-object":       # the op names an object whose constructor threw
                continue
            if op == "new":
                sid, kind, nh, nb, seed = int(w[1]), w[2], int(w[3]), int(w[4]), int(w[5])
                must_throw = nb < min_buckets or nh * nb >= max_cells
                if o[0] == "throw":
                    if not must_throw:
                        bad.append(("ctor-refuses-valid-arguments", "nh=%d nb=%d" % (nh, nb), i))
                    sk.pop(sid, None)
                    continue
                ncells = int(o[4])
                unsafe = ncells != nh * nb
                if must_throw:
                    if unsafe:
                        bad.append(("ctor-size-product-overflow", "num_hashes=%d num_buckets=%d accepted with %d cells instead of being refused (product %d >= limit %d)" % (nh, nb, ncells, nh * nb, max_cells), i))
                    else:
                        bad.append(("ctor-accepts-invalid-arguments", "nh=%d nb=%d" % (nh, nb), i))
                elif unsafe:
                    bad.append(("ctor-wrong-array-size", "nh=%d nb=%d cells=%d" % (nh, nb, ncells), i))
                if (int(o[1]), int(o[2]), int(o[3])) != (nh, nb, seed):
                    bad.append(("getters-differ-from-arguments", impl_out[i][:80], i))
                re = f64_of_hex(o[5])
                if nb > 0 and abs(re - E_DBL / nb) > 1e-15 * E_DBL / nb:
                    bad.append(("relative-error-not-e-over-buckets", "%r vs %r" % (re, E_DBL / nb), i))
                if o[6] != "1":
                    bad.append(("fresh-sketch-not-empty", impl_out[i][:80], i))
                sk[sid] = Acc(kind, (nh, nb, seed), unsafe)
                continue
            if op in ("sb", "sh"):
                continue
            if op == "copy":
                s = sk.get(int(w[1]))
                if s is None:
                    continue
                sk[int(w[2])] = s.clone("copy")
                continue
            sid = int(w[1])
            s = sk.get(sid)
            if s is None:
                continue
            kind = s.kind
            nh, nb, seed = s.cfg
            if op in ("upd", "q", "merge", "rt") and s.unsafe:
                if o[0] != "unsafe":
                    bad.append(("bad-observation", impl_out[i][:80], i))
                continue
            if op in ("upd", "q"):
                key = item_key(w[2], w[3])
                at = w.index("@")
                locs = w[at + 1:]
                if o[0] == "throw":
                    bad.append(("update-or-query-throws", l[:60], i)); continue
                locs_ok = len(locs) == nh and all(t.isdigit() for t in locs)
                if locs_ok:
                    locs = [int(t) for t in locs]
                    locs_ok = all(t < nb for t in locs)
                if op == "upd":
                    wt = wparse(kind, w[4])
                    if key is not None:
                        s.add(key, wt, locs_ok, locs)
                    total, est = wparse(kind, o[1]), wparse(kind, o[2])
                    lb = ub = None
                else:
                    total = None
                    est, lb, ub = wparse(kind, o[1]), wparse(kind, o[2]), wparse(kind, o[3])
                tot_true = s.tot
                if total is not None and total != tot_true:
                    bad.append(("total-not-sum-of-abs-weights", "total=%s sum|w|=%s" % (total, tot_true), i))
                if key is None:
                    if est != 0 or (lb is not None and (lb != 0 or ub != 0)):
                        bad.append(("empty-string-estimate-nonzero", impl_out[i][:80], i))
                    continue
                true = s.true.get(key, 0)
                if locs_ok and s.cells_ok:
                    rowmin = min(s.cells.get(r * nb + locs[r], 0) for r in range(nh))
                    if est != rowmin:
                        bad.append(("estimate-not-row-minimum", "item=%s est=%s, minimum over the rows of the exact cell counts=%s" % (key.hex(), est, rowmin), i))
                if s.negsum == 0:
                    if est < true:
                        bad.append(("estimate-below-true-weight", "item=%s true=%s est=%s" % (key.hex(), true, est), i))
                    if est > tot_true:
                        bad.append(("estimate-above-total-weight", "est=%s total=%s" % (est, tot_true), i))
                else:
                    if abs(est) > tot_true:
                        bad.append(("estimate-outside-plus-minus-total", "est=%s total=%s" % (est, tot_true), i))
                    neg_other = s.negsum - s.neg.get(key, 0)
                    pos_other = s.possum - s.pos.get(key, 0)
                    if not (true - neg_other <= est <= true + pos_other):
                        bad.append(("signed-estimate-outside-bracket", "true=%s est=%s neg=%s pos=%s" % (true, est, neg_other, pos_other), i))
                if lb is not None:
                    if lb > est:
                        bad.append(("lower-bound-above-estimate", "lb=%s est=%s" % (lb, est), i))
                    if ub < est:
                        bad.append(("upper-bound-below-estimate", "ub=%s est=%s" % (ub, est), i))
                    want = est + Fraction(E_DBL) / nb * tot_true
                    tol = max(Fraction(2), abs(want) / 2**40)
                    if abs(ub - want) > tol:
                        bad.append(("upper-bound-not-estimate-plus-eps-total", "ub=%s want~%s" % (ub, float(want)), i))
                    k2 = (s.sig(), key)
                    prev = seen_q.get(k2)
                    if prev is None:
                        seen_q[k2] = ((est, lb, ub), s.prov)
                    elif prev[0] != (est, lb, ub):
                        bad.append((provkey(prev[1], s.prov, "estimate"), "item=%s %s vs %s" % (key.hex(), prev[0], (est, lb, ub)), i))
                continue
            if op == "dump":
                total = wparse(kind, o[1])
                tot_true = s.tot
                if total != tot_true:
                    bad.append(("total-not-sum-of-abs-weights", "total=%s sum|w|=%s" % (total, tot_true), i))
                if (o[2] == "1") != (total == 0):
                    bad.append(("is-empty-not-total-zero", impl_out[i][:60], i))
                if s.unsafe:
                    continue
                if int(o[3]) != nh * nb:
                    bad.append(("array-size-changed", impl_out[i][:60], i))
                body = tuple(o[4:])
                if body and body[0] != "fold" and s.cells_ok:
                    cells = [wparse(kind, x) for x in body]
                    want = [0] * (nh * nb)
                    for j, x in s.cells.items():
                        want[j] = x
                    if cells != want:
                        d = next(j for j in range(len(want)) if j >= len(cells) or cells[j] != want[j])
                        bad.append(("cells-not-exact-counts", "cell %d (row %d bucket %d) = %s, exact count %s" % (d, d // nb, d % nb, cells[d] if d < len(cells) else None, want[d]), i))
                k2 = s.sig()
                prev = seen_d.get(k2)
                if prev is None:
                    seen_d[k2] = (body, s.prov)
                elif prev[0] != body:
                    bad.append((provkey(prev[1], s.prov, "cells"), "two sketches of the same configuration fed the same multiset of updates have different cells", i))
                continue
            if op == "merge":
                src = sk.get(int(w[2]))
                if src is None:
                    continue
                self_merge = int(w[2]) == sid
                incompatible = src.cfg != s.cfg
                if o[0] == "throw":
                    if not (self_merge or incompatible):
                        bad.append(("merge-refuses-compatible", l, i))
                    continue
                if self_merge:
                    bad.append(("merge-accepts-self", l, i)); continue
                if incompatible:
                    bad.append(("merge-accepts-incompatible", "%s into %s" % (src.cfg, s.cfg), i)); continue
                s.absorb(src)
                total = wparse(kind, o[1])
                if total != s.tot:
                    bad.append(("merge-total-not-sum", "total=%s sum|w|=%s" % (total, s.tot), i))
                continue
            if op == "rt":
                dst, seed2 = int(w[2]), int(w[4])
                must_throw = seed_hash(seed2) != seed_hash(seed)
                if o[0] == "throw":
                    if not must_throw:
                        bad.append(("roundtrip-throws", l, i))
                    continue
                if must_throw:
                    bad.append(("deserialize-accepts-wrong-seed", l, i)); continue
                want_size = 16 + (0 if s.tot == 0 else 8 * (1 + nh * nb))
                if o[1] != str(want_size):
                    bad.append(("serialized-size", "%s vs %d" % (o[1], want_size), i))
                if wparse(kind, o[2]) != s.tot:
                    bad.append(("roundtrip-changes:total", "%s vs %s" % (o[2], s.tot), i))
                sk[dst] = s.clone("rt", (nh, nb, seed2))
                continue
        return bad

    def nontrivial_key(self, hist, impl_out):
        nupd = sum(1 for l in hist if l.startswith("upd "))
        if nupd < 10 or len(impl_out) < len(hist):
            return None
        okm = any(l.startswith(("merge ", "rt ")) and o.split()[:1] in (["M"], ["R"]) for l, o in zip(hist, impl_out))
        coll = False
        if not okm:
            # a collision: the estimate right after an update exceeds what this item alone received (non-negative streams)
            acc = {}
            for l, o in zip(hist, impl_out):
                w = l.split()
                if w[0] == "upd" and o.startswith("U ") and not w[4].startswith("-"):
                    k = (w[1], w[2], w[3])
                    try:
                        acc[k] = acc.get(k, 0) + (int(w[4]) if len(w[4]) != 16 else f64_of_hex(w[4]))
                        est = int(o.split()[2]) if len(o.split()[2]) != 16 else f64_of_hex(o.split()[2])
                    except ValueError:
                        continue
                    if est > acc[k]:
                        coll = True
                        break
        if not (okm or coll):
            return None
        news = tuple(tuple(l.split()[2:6]) for l in hist if l.startswith("new "))
        fin = tuple(o.split()[1] for l, o in zip(hist, impl_out) if l.startswith("dump "))[-3:]
        return (news, nupd, fin)

    # ---- hash-scheme tie (informational): the locations computed in Lean (minstd_rand0 + uniform_int_distribution +
    # MurmurHash3, DSModel/CountMin/Hash.lean) against those derived from the implementation
    def extra_stages(self, rep, tier, rng, broken):
        r2 = __import__("random").Random(rng.random())
        n = 200 if tier == "quick" else 2000
        reqs = []
        for _ in range(n):
            nh, nb, seed = rand_cfg(r2, "quick")
            nh = min(nh, 8) if r2.random() < 0.9 else nh
            it = rand_items(r2, 1)[0]
            reqs.append((nh, nb, seed, it[0], it[1]))
        try:
            impl = derive_locs(reqs)
        except RuntimeError:
            rep.cov["hash_scheme_tie"] = dict(checked=0, note="harness unavailable")
            return
        reqs = sorted(set(reqs))
        out, oc, err = core.run_model("dsmodel_countmin", "loc", ["lh %d %d %d %s %s" % r for r in reqs])
        agree = 0
        first = None
        for r, o in zip(reqs, out):
            if " ".join(o.split()[1:]) == impl.get(r):
                agree += 1
            elif first is None:
                first = dict(req="%d %d %d %s %s" % r, impl=impl.get(r, "")[:80], lean=o[:80])
        rep.cov["hash_scheme_tie"] = dict(checked=len(reqs), agree=agree, first_difference=first,
                                          note="informational: every theorem holds for an arbitrary row hash; a difference means the hashing scheme "
                                               "(libstdc++ minstd_rand0/uniform_int_distribution seeds + MurmurHash3 h1 % buckets) changed, not that C14 fails")
        if agree != len(reqs):
            core.log("C14: Lean-computed row locations differ from the implementation's on %d of %d inputs (informational)" % (len(reqs) - agree, len(reqs)))


SPEC = C14()

CLAIM = dict(
    text=("Kernel-checked theorems, for every row-hash function, every configuration, every weighted stream and every merge tree, about an "
          "executable Lean model of count_min_sketch (exact arithmetic in the weight type: any ordered commutative monoid with the code's |w|, "
          "instances Int and Rat): with non-negative weights true weight <= estimate <= total for every item; lb <= estimate <= ub; total = sum |w|; "
          "a merge tree yields exactly the cells, total and estimates of one sketch fed the concatenated streams; self/incompatible merges are "
          "refused; serialize->deserialize is the identity on reachable states; for signed weights the precise two-sided bracket that replaces "
          "never-under. Plus a differential tie of the model to the real headers (row locations derived from the implementation, also recomputed "
          "in Lean from a model of libstdc++'s default_random_engine/uniform_int_distribution + MurmurHash3), and the property oracle (exact "
          "counts) on every implementation trace."),
    note=("Constructor guard: the pinned code evaluated num_hashes*num_buckets in 32 bits, so the full statement over all uint8 x uint32 "
          "configurations was false (cm_ctor_full_false; e.g. (4, 2^30) accepted with 0 cells -> out-of-bounds write on update). Found by this "
          "check and repaired in /repo (fix: b9ee092; known_findings.json: fixed); the translator reads the arithmetic width from the header "
          "and cm_ctor_full_current proves the full statement for the guard as it is now. Not decided: the probabilistic sub-claim (over-estimate > eps*total with "
          "frequency <= 1-confidence). Not modelled: int64/uint64 overflow and floating-point rounding of weights (theorems are in exact "
          "arithmetic; the upper bound's double arithmetic is executed and bit-compared, not proved); num_hashes = 0."),
    technique="Lean 4 proofs by induction over streams / merge trees (parametric in the row hash and the weight type) + differential correspondence (model vs real headers) + exact-count trace oracle",
    design="DESIGN.md §3 C14")

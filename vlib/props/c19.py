"""C19 — value semantics and allocator discipline (DESIGN.md 3 C19; partial by nature).

Parts `tup`, `kll`, `fi`, `mixed`: lifecycle histories over >= 3 live objects of the hand-managed classes that have a
Lean program model (theta/tuple hash table, KLL, FI reverse purge hash map); per operation the observation of the
tracking allocator + instrumented item type is compared with the heap-calculus model (blocks allocated / freed,
constructor / destructor calls inside blocks, slot states of every live block, items outside blocks).
Parts `mon:<family>`: the same harness and oracle over the families without a program model (monitored only).
"""
import re
from .. import core, gen
from ..runner import Spec, Part

MAXT = 2**63 - 1


# ----------------------------------------------------------------------------- observation parsing / comparison

def hpart(line):
    return line.split(" | ")[0].strip()


def parse_h(line):
    """'ok A=.. F=.. C=.. D=.. L=.. O=..' -> dict or None"""
    w = hpart(line).split()
    if not w or w[0] not in ("ok", "throw"):
        return None
    d = {"status": w[0]}
    for t in w[1:]:
        if "=" in t:
            k, v = t.split("=", 1)
            d[k] = v
    return d


def lst(v):
    return [] if v in (None, "-", "") else v.split(",")


def cmp_lines(x, y):
    """x: implementation line, y: model line (or the other way round). True = acceptable."""
    if x.startswith("end") and y.startswith("end"):
        return x.split()[:3] == y.split()[:3]
    if x.strip() == "cfg" and y.strip() == "cfg":
        return True
    a, b = parse_h(x), parse_h(y)
    if a is None or b is None:
        return False
    if a["status"] != b["status"]:
        return False
    if a["status"] == "throw":
        return True
    for k in ("A", "F", "O"):
        if a.get(k) != b.get(k):
            return False
    if "entry*" in (a.get("A") or "") and "entry*" in (a.get("F") or ""):
        # a theta table was re-allocated (resize / rebuild): how many entries `consolidate_non_empty` has to move depends on
        # the slot layout, which depends on the order std::nth_element left in an earlier rebuild (implementation
        # defined): only the net number of constructed entries is compared
        if int(a.get("C", 0)) - int(a.get("D", 0)) != int(b.get("C", 0)) - int(b.get("D", 0)):
            return False
    elif a.get("C") != b.get("C") or a.get("D") != b.get("D"):
        return False
    la, lb = lst(a.get("L")), lst(b.get("L"))
    if len(la) != len(lb):
        return False
    if any(t.endswith(":*") for t in la + lb):
        # theta tables: slot positions are not compared (std::nth_element order is implementation defined)
        def split(ts):
            wild = sorted(t.rsplit(":", 1)[0] for t in ts if t.startswith("entry*"))
            rest = sorted(t for t in ts if not t.startswith("entry*"))
            return wild, rest
        return split(la) == split(lb)
    return sorted(la) == sorted(lb)


def images_of(line):
    """' | I 0:ab 1:cd' -> {0: 'ab', 1: 'cd'}"""
    parts = line.split(" | ")
    for p in parts[1:]:
        p = p.strip()
        if p.startswith("I"):
            d = {}
            for t in p.split()[1:]:
                k, v = t.split(":")
                d[int(k)] = v
            return d
    return None


def vpart(line):
    parts = line.split(" | ")
    for p in parts[1:]:
        if p.strip().startswith("V "):
            return p.strip()
    return ""


# ----------------------------------------------------------------------------- family descriptions (generators)

def coins(rng, n=48):
    return "".join(rng.choice("01") for _ in range(n))


class Fam:
    name = ""
    update = True
    merge = True
    serde = True
    trim = False
    reset = False
    query_mutates_image = False
    copy_assign = True
    self_move_assign = True      # hand-written swap-based move assignment: `a = std::move(a)` is the identity
    known_triggers = ()          # op shapes that hit an open known finding: generated rarely and last

    def new(self, rng, tier, oid):
        raise NotImplementedError

    def upd(self, rng, oid, st):
        raise NotImplementedError

    def query(self, rng, oid):
        return "query %d %d" % (oid, rng.randrange(40))

    def mergeable(self, a, b):
        return True


class FTup(Fam):
    name = "tup"
    merge = False
    serde = False
    trim = True
    reset = True

    def new(self, rng, tier, oid):
        lgk = rng.choice([5, 5, 5, 6] if tier == "quick" else [5, 5, 6, 7, 8])
        rf = rng.randrange(4)
        p = rng.choice(["3f800000", "3f800000", "3f000000", "3dcccccd"])
        return "new tup %d %d %d %s %d" % (oid, lgk, rf, p, gen.theta0_of_p(p)), dict(universe=rng.choice([20, 60, 150, 400, 3000]))

    def upd(self, rng, oid, st):
        return "upd %d %d %d" % (oid, rng.randrange(st["universe"]), rng.randrange(1, 9))


class FKll(Fam):
    name = "kll"
    query_mutates_image = True

    def new(self, rng, tier, oid):
        k = rng.choice([8, 8, 9, 10, 12, 16] if tier == "quick" else [8, 9, 10, 12, 16, 20, 33, 64])
        return "new kll %d %d" % (oid, k), dict(universe=rng.choice([10, 100, 1000]))

    def upd(self, rng, oid, st):
        return "upd %d %d 0 %s" % (oid, rng.randrange(st["universe"]), coins(rng, 8))


class FFi(Fam):
    name = "fi"

    def new(self, rng, tier, oid):
        lgmax = rng.choice([3, 3, 4, 5] if tier == "quick" else [3, 4, 5, 6, 7])
        lgstart = rng.choice([3, lgmax, rng.randrange(3, lgmax + 1)])
        return "new fi %d %d %d" % (oid, lgmax, lgstart), dict(universe=rng.choice([6, 12, 40, 200]))

    def upd(self, rng, oid, st):
        return "upd %d %d %d" % (oid, rng.randrange(st["universe"]), rng.choice([1, 1, 1, 2, 3, 7, 50]))


MODELLED = {"tup": FTup(), "kll": FKll(), "fi": FFi()}


class FMon(Fam):
    """a monitored-only family: `newf(rng, tier) -> cfg words`, `updf(rng, st) -> arg words`"""

    self_move_assign = False     # defaulted / std-member move assignment: self-move leaves an unspecified state

    def __init__(self, name, newf, updf, merge=False, serde=True, trim=False, reset=False, query_mutates=False,
                 universe=(20, 200), update=True, compat=None, known=(), copy_assign=True):
        self.name, self.newf, self.updf = name, newf, updf
        self.merge, self.serde, self.trim, self.reset = merge, serde, trim, reset
        self.query_mutates_image = query_mutates
        self.universe = universe
        self.update = update
        self.compat = compat
        self.known_triggers = known
        self.copy_assign = copy_assign

    def new(self, rng, tier, oid):
        cfg = self.newf(rng, tier)
        return "new %s %d %s" % (self.name, oid, cfg), dict(universe=rng.choice(self.universe),
                                                             compat=self.compat(cfg) if self.compat else None)

    def mergeable(self, a, b):
        return a.get("compat") == b.get("compat")

    def upd(self, rng, oid, st):
        return "upd %d %s" % (oid, self.updf(rng, st))


def _u(rng, st):
    return "%d %d" % (rng.randrange(st["universe"]), rng.randrange(1, 9))


MONITORED = [
    FMon("theta", lambda r, t: "%d %d %s" % (r.choice([5, 5, 6]), r.randrange(4), r.choice(["3f800000", "3f000000"])), _u, serde=False, trim=True, reset=True),
    FMon("cth", lambda r, t: "%d %d %d" % (r.choice([0, 1, 5, 40, 100]), r.choice([5, 6]), r.randrange(2)), _u, update=False),
    FMon("thu", lambda r, t: "%d" % r.choice([5, 6]), lambda r, st: "%d %d" % (r.randrange(500), r.randrange(1, 40)), serde=False, reset=True),
    FMon("ctup", lambda r, t: "%d %d %d" % (r.choice([0, 1, 5, 40, 100]), r.choice([5, 6]), r.randrange(2)), _u, update=False),
    FMon("caod", lambda r, t: "%d %d %d" % (r.choice([0, 1, 5, 20, 40]), r.choice([5, 6]), r.randrange(2)), _u, merge=True, update=False),
    FMon("tupu", lambda r, t: "%d" % r.choice([5, 6]), lambda r, st: "%d %d" % (r.randrange(500), r.randrange(1, 40)), serde=False, reset=True),
    FMon("kllstr", lambda r, t: "%d" % r.choice([8, 9, 12, 16]), _u, merge=True, query_mutates=True),
    FMon("req", lambda r, t: "%d %d" % (r.choice([4, 6, 8]), r.randrange(2)), _u, merge=True, query_mutates=True, compat=lambda c: c.split()[1]),
    FMon("reqstr", lambda r, t: "%d %d" % (r.choice([4, 6, 8]), r.randrange(2)), _u, merge=True, query_mutates=True, compat=lambda c: c.split()[1]),
    FMon("quant", lambda r, t: "%d" % r.choice([2, 4, 8, 16]), _u, merge=True, query_mutates=True),
    FMon("quantstr", lambda r, t: "%d" % r.choice([2, 4, 8, 16]), _u, merge=True, query_mutates=True),
    FMon("fistr", lambda r, t: (lambda m: "%d %d" % (m, r.randrange(3, m + 1)))(r.choice([3, 3, 4, 5])), _u, merge=True, universe=(6, 12, 40, 200)),
    FMon("varopt", lambda r, t: "%d" % r.choice([4, 8, 16]), _u, reset=True),
    FMon("vou", lambda r, t: "%d" % r.choice([4, 8, 16]), lambda r, st: "%d %d" % (r.randrange(500), r.randrange(1, 30)), reset=True),
    FMon("ebpps", lambda r, t: "%d" % r.choice([3, 6, 12]), _u, merge=True, reset=True),
    FMon("hll", lambda r, t: "%d %d %d" % (r.choice([4, 5, 7, 8]), r.randrange(3), r.randrange(2)), lambda r, st: "%d %d" % (r.randrange(100), r.choice([1, 1, 3, 40, 300])), reset=True),
    FMon("hllu", lambda r, t: "%d" % r.choice([5, 6, 8]), lambda r, st: "%d %d" % (r.randrange(100), r.choice([1, 5, 40, 300])), serde=False, reset=True),
    FMon("cpc", lambda r, t: "%d" % r.choice([4, 5, 7]), lambda r, st: "%d %d" % (r.randrange(100), r.choice([1, 1, 3, 40, 300])), ),
    FMon("cpcu", lambda r, t: "%d" % r.choice([5, 6, 7]), lambda r, st: "%d %d" % (r.randrange(100), r.choice([1, 5, 40, 300])), serde=False),
    FMon("bloom", lambda r, t: "%d %d" % (r.choice([64, 256, 1000]), r.choice([1, 3, 5])), _u, merge=True, trim=True, reset=True),
    FMon("cm", lambda r, t: "%d %d" % (r.choice([1, 3, 5]), r.choice([3, 16, 64])), _u, merge=True, compat=lambda c: c),
    FMon("td", lambda r, t: "%d" % r.choice([10, 20, 50]), _u, merge=True),
    FMon("dens", lambda r, t: "%d %d" % (r.choice([2, 4, 8]), r.choice([1, 2, 3])), _u, merge=True),
]
MONITORED_NAMES = [f.name for f in MONITORED]


def cached_view_history(rng, f):
    """quantile sketches cache a sorted view that points at the retained items: query (caches it) -> merge that moves and destroys
    items -> query again, with no update in between; the merged-in sketch holds an exact multiple of 2k items (classic quantiles: its
    base buffer is empty, so the merge goes through no update()) or an arbitrary count; then a copy and a move assignment"""
    h = ["alloc " + rng.choice(["shared", "distinct"])]
    k = rng.choice([2, 4, 8]) if f.name.startswith("quant") else (rng.choice([4, 6]) if f.name.startswith("req") else rng.choice([8, 9]))
    cfg = {"quant": "%d", "quantstr": "%d", "kllstr": "%d"}.get(f.name, "%d 1") % k
    cfg2 = {"quant": "%d", "quantstr": "%d", "kllstr": "%d"}.get(f.name, "%d 1") % (k * rng.choice([1, 1, 2]) if f.name.startswith("quant") else k)
    h += ["new %s 0 %s" % (f.name, cfg), "new %s 1 %s" % (f.name, cfg2)]
    k2 = int(cfg2.split()[0])
    for i in range(2 * k * rng.choice([2, 3]) + rng.choice([0, 0, 1, 3])):
        h.append("upd 0 %d 1" % rng.randrange(200))
    h.append("query 0 %d" % rng.randrange(40))
    for i in range(2 * k2 * rng.choice([1, 2, 3]) + rng.choice([0, 0, 0, 2])):
        h.append("upd 1 %d 1" % rng.randrange(200))
    h.append("%s 0 1 %s" % (rng.choice(["merge", "mergemv"]), coins(rng, 48)))
    h.append("query 0 %d" % rng.randrange(40))
    h.append("copy 0 2")
    h.append("query 2 %d" % rng.randrange(40))
    h.append("new %s 3 %s" % (f.name, cfg))
    h.append("upd 3 7 1")
    h.append("query 3 1")
    h.append("massign 3 0")
    h.append("query 3 %d" % rng.randrange(40))
    for i in (0, 1, 2, 3):
        h.append("destroy %d" % i)
    return h


def deep_merge_history(rng, f):
    """a source that has grown far (several levels / table doublings) merged BY REFERENCE into an empty, a tiny and a grown target of
    the same configuration, twice in a row (the harness alternates non-const / const lvalue): a merge that takes over whole internal
    containers of its source is only visible when the source is the deeper one - and is then used again"""
    h = ["alloc " + rng.choice(["shared", "distinct"])]
    l0, st0 = f.new(rng, tier="quick", oid=0)
    cfg = l0.split(" ", 3)[3] if len(l0.split(" ", 3)) > 3 else ""
    mk = lambda oid: ("new %s %d %s" % (f.name, oid, cfg)).rstrip()
    h.append(mk(0))
    for _ in range(rng.choice([60, 150, 400])):
        h.append(f.upd(rng, 0, st0))
    h += [mk(1), mk(2), mk(3)]
    for _ in range(rng.choice([1, 2, 3])):
        h.append(f.upd(rng, 2, st0))
    for _ in range(rng.choice([20, 40])):
        h.append(f.upd(rng, 3, st0))
    for d in (1, 2, 3, 1):
        h.append("merge %d 0 %s" % (d, coins(rng, 48)))
        h.append(f.query(rng, 0) if hasattr(f, "query") else "query 0 1")
    for _ in range(5):
        h.append(f.upd(rng, 0, st0))
    h.append("merge 0 3 %s" % coins(rng, 48))
    h.append("copy 0 4")
    for i in (0, 1, 2, 3, 4):
        h.append("destroy %d" % i)
    return h


def moved_from_assign_history(rng, f):
    """merge BY MOVE leaves its source moved-from (or holding moved-from items): it must still be assignable - copy assignment from a
    sketch that holds fewer, as many, or more items than the source did (containers assign element-wise into what is left) -, usable
    afterwards, and destructible"""
    h = ["alloc " + rng.choice(["shared", "distinct"])]
    l0, st0 = f.new(rng, tier="quick", oid=0)
    cfg = l0.split(" ", 3)[3] if len(l0.split(" ", 3)) > 3 else ""
    for oid in (0, 1, 2, 3):
        c = cfg
        if f.compat is None and not f.update:
            ln, _ = f.new(rng, tier="quick", oid=oid)
            c = ln.split(" ", 3)[3] if len(ln.split(" ", 3)) > 3 else ""
        h.append(("new %s %d %s" % (f.name, oid, c)).rstrip())
    if f.update:
        for oid, n in ((0, rng.choice([20, 60])), (1, 5), (2, rng.choice([2, 5, 25])), (3, rng.choice([1, 80]))):
            for _ in range(n):
                h.append(f.upd(rng, oid, st0))
    h.append("mergemv 1 0 %s" % coins(rng, 48))
    h.append("cassign 0 %d" % rng.choice([2, 3]))
    h.append("query 0 %d" % rng.randrange(40))
    h.append("mergemv 1 2 %s" % coins(rng, 48))
    h.append("massign 2 3")
    h.append("query 2 %d" % rng.randrange(40))
    for i in (0, 1, 2, 3):
        h.append("destroy %d" % i)
    return h


def gen_history(rng, tier, fams, nops, cut_ok=False):
    """one lifecycle history over objects of the given families (>= 3 live objects most of the time)."""
    h = ["alloc " + rng.choice(["shared", "shared", "distinct"])]
    live = {}      # id -> dict(fam, usable, st, deser)
    nxt = [0]
    allow_known = rng.random() < 0.25     # a quarter of the histories may END with an op that hits an open known finding
    deferred = []

    def emit(line, trigger=None, fam=None):
        """ops that hit an open known finding of the family are postponed to the very end of the history"""
        if trigger and fam is not None and trigger in fam.known_triggers:
            if allow_known and not deferred:
                deferred.append((trigger, fam))
            return False
        h.append(line)
        return True

    def new_obj(f):
        oid = nxt[0]; nxt[0] += 1
        line, st = f.new(rng, tier, oid)
        h.append(line)
        live[oid] = dict(fam=f, usable=True, st=st, deser=False)
        return oid

    def usable(f=None):
        return [i for i, o in live.items() if o["usable"] and (f is None or o["fam"] is f)]

    for _ in range(rng.choice([3, 3, 4, 5])):
        new_obj(rng.choice(fams))
    burst = 0
    for _ in range(nops):
        us = usable()
        if len(us) < 3 and len(live) < 8:
            new_obj(rng.choice(fams))
            continue
        if not us:
            d = rng.choice(list(live))
            h.append("destroy %d" % d)
            del live[d]
            continue
        r = rng.random()
        a = rng.choice(us)
        fa = live[a]["fam"]
        same = [i for i in usable(fa) if i != a]
        if (r < 0.55 or burst > 0) and fa.update:
            if burst == 0 and rng.random() < 0.15:
                burst = rng.choice([10, 30, 60])
            burst = max(0, burst - 1)
            emit(fa.upd(rng, a, live[a]["st"]), "upd-on-deserialized" if live[a]["deser"] else None, fa)
        elif r < 0.61 and len(live) < 9:
            d = nxt[0]; nxt[0] += 1
            h.append("copy %d %d" % (a, d))
            live[d] = dict(fam=fa, usable=True, st=live[a]["st"], deser=live[a]["deser"])
        elif r < 0.66 and len(live) < 9:
            d = nxt[0]; nxt[0] += 1
            h.append("move %d %d" % (a, d))
            live[d] = dict(fam=fa, usable=True, st=live[a]["st"], deser=live[a]["deser"])
            live[a]["usable"] = False
        elif r < 0.72 and fa.copy_assign:
            # copy assignment: to another object of the family (usable or moved-from), to itself, or a chain a = b = c
            targets = [i for i, o in live.items() if o["fam"] is fa]
            d = rng.choice(targets)
            trig = "cassign-self" if d == a else ("cassign-to-moved-from" if not live[d]["usable"] else None)
            if emit("cassign %d %d" % (d, a), trig, fa):
                live[d]["usable"] = True
                live[d]["st"] = live[a]["st"]
                live[d]["deser"] = live[a]["deser"]
                if rng.random() < 0.3:
                    d2 = rng.choice(targets)
                    trig = "cassign-self" if d2 == d else ("cassign-to-moved-from" if not live[d2]["usable"] else None)
                    if emit("cassign %d %d" % (d2, d), trig, fa):
                        live[d2]["usable"] = True
                        live[d2]["st"] = live[a]["st"]
                        live[d2]["deser"] = live[a]["deser"]
        elif r < 0.78:
            targets = [i for i, o in live.items() if o["fam"] is fa and (fa.self_move_assign or i != a)]
            if targets:
                d = rng.choice(targets)
                h.append("massign %d %d" % (d, a))
                if d != a:
                    live[d]["usable"] = True
                    live[d]["st"], live[a]["st"] = live[a]["st"], live[d]["st"]
                    live[d]["deser"] = live[a]["deser"]
                    live[a]["usable"] = False
        elif r < 0.85 and fa.merge and same:
            b = rng.choice(same)
            if fa.mergeable(live[a]["st"], live[b]["st"]):
                mv = rng.random() < 0.4
                h.append("%s %d %d %s" % ("mergemv" if mv else "merge", a, b, coins(rng, 48)))
                if mv:
                    live[b]["usable"] = False
        elif r < 0.89:
            emit(fa.query(rng, a), "query", fa)
        elif r < 0.92:
            h.append("ser %d" % a)
        elif r < 0.945 and fa.serde and len(live) < 9:
            d = nxt[0]; nxt[0] += 1
            h.append("serde %d %d" % (a, d))
            live[d] = dict(fam=fa, usable=True, st=live[a]["st"], deser=True)
        elif r < 0.95 and fa.serde and cut_ok:
            # a truncated image: when the reader throws it must release everything it had allocated (deleters).
            # (Whether every truncated image is rejected, and rejected without reading out of bounds, is C11.)
            emit("serdecut %d %d %d" % (a, nxt[0] + 100, rng.choice([10, 35, 50, 65, 80, 90, 97])), "serdecut", fa)
        elif r < 0.96 and fa.trim:
            h.append("trim %d" % a)
        elif r < 0.97 and fa.reset:
            emit("reset %d" % a, "reset-on-deserialized" if live[a]["deser"] else None, fa)
        else:
            d = rng.choice(list(live))
            h.append("destroy %d" % d)
            del live[d]
    # moved-from objects are assigned to or destroyed; then everything dies
    for i in list(live):
        if not live[i]["usable"] and rng.random() < 0.5:
            src = [j for j in usable(live[i]["fam"])] if live[i]["fam"].copy_assign else []
            if src and emit("cassign %d %d" % (i, rng.choice(src)), "cassign-to-moved-from", live[i]["fam"]):
                live[i]["usable"] = True
    if deferred:
        # an operation that hits an open known finding of the family, built from the final state; it may end the run
        # (the harness stops at a sanitizer report)
        trig, fam = deferred[0]
        us = usable(fam)
        mf = [i for i, o in live.items() if o["fam"] is fam and not o["usable"]]
        de = [i for i in us if live[i]["deser"]]
        line = None
        if trig == "cassign-self" and us:
            line = "cassign %d %d" % (us[0], us[0])
        elif trig == "cassign-to-moved-from" and us and mf:
            line = "cassign %d %d" % (mf[0], us[0])
        elif trig == "query" and us:
            line = fam.query(rng, us[0])
        elif trig == "upd-on-deserialized" and de:
            line = fam.upd(rng, de[0], live[de[0]]["st"])
        elif trig == "reset-on-deserialized" and de:
            line = "reset %d" % de[0]
        elif trig == "serdecut" and us:
            line = "serdecut %d %d %d" % (us[0], nxt[0] + 100, rng.choice([35, 50, 65, 80, 90]))
        if line:
            h.append(line)
            return h
    order = list(live)
    rng.shuffle(order)
    for i in order:
        h.append("destroy %d" % i)
    h.append("end")
    return h


# ----------------------------------------------------------------------------- the oracle (property statement on a trace)

MUTATING = ("upd", "trim", "reset")


def life_oracle(hist, out, query_mutates=lambda oid: True):
    bad = []
    img = {}          # id -> digest after the previous op
    prev_live = None  # (H live list, V live list, O) before the op
    fam_of = {}       # object id -> family name
    for l in hist:
        w = l.split()
        if w[0] == "new":
            fam_of[int(w[2])] = w[1]
        elif w[0] in ("copy", "move", "serde") and int(w[1]) in fam_of:
            fam_of[int(w[2])] = fam_of[int(w[1])]
    for i, l in enumerate(hist):
        if i >= len(out):
            break
        o = out[i]
        w = l.split()
        if o.startswith("FATAL"):
            ws = o.split()
            if len(ws) > 1 and ws[1] == "sanitizer-report":
                # FATAL sanitizer-report <op> fam=<f> [self] [to-moved-from] [on-deserialized]
                fam = [t.split("=")[1] for t in ws if t.startswith("fam=")]
                extra = [t for t in ws[3:] if not t.startswith("fam=") and t != "on-deserialized"]
                bad.append((":".join(["sanitizer", fam[0] if fam else "?", ws[2] if len(ws) > 2 else "?"] + extra), o[:200], i))
            else:
                kind = [t.split("=")[1] for t in ws if t.startswith("kind=")]
                fam = fam_of.get(int(w[1])) if len(w) > 1 and w[1].isdigit() else (w[1] if w[0] == "new" else None)
                bad.append(("fatal:" + (ws[1] if len(ws) > 1 else "?") + (":" + kind[0] if kind else "") + (":" + fam if fam else ""), o[:200], i))
            break
        if w[0] == "end":
            m = dict(t.split("=") for t in o.split()[1:] if "=" in t)
            if m.get("objs") == "0":
                # the history destroyed every object itself: nothing may remain
                if m.get("blocks") != "0" or m.get("items") != "0":
                    bad.append(("not-empty-after-last-destroy", o[:160], i))
                if m.get("allocs") != m.get("frees") or m.get("ctors") != m.get("dtors"):
                    bad.append(("ledger-unbalanced", o[:160], i))
            continue
        if o.strip() == "cfg":
            continue
        for p in o.split(" | ")[1:]:
            if p.startswith("E "):
                for t in sorted(set(p[2:].strip().split(","))):
                    if t == "default-allocator":
                        fam = fam_of.get(int(w[1])) if len(w) > 1 and w[1].isdigit() else (w[1] if w[0] == "new" else "?")
                        t = "default-allocator:%s:%s" % (fam, w[0])
                    bad.append((t, "%s: %s" % (l, t), i))
        if o.startswith("bad"):
            # the harness rejected the op (unknown object, moved-from operand ...): nothing was executed.  Generated
            # histories do not contain such ops (see `LifePart.generate`); shrunk replays may.
            continue
        d = parse_h(o)
        if d is None:
            bad.append(("bad-observation", o[:120], i))
            continue
        cur = images_of(o) or {}
        cur_live = (sorted(lst(d.get("L"))), vpart(o).split(" L=")[-1] if " L=" in vpart(o) else "", d.get("O"))
        if d["status"] == "throw":
            expect = w[0] == "serdecut"
            if not expect:
                desc = [p for p in o.split(" | ") if p.startswith("T ")]
                dw = desc[0].split()[1:] if desc else [w[0]]
                fam = [t.split("=")[1] for t in dw if t.startswith("fam=")]
                extra = [t for t in dw[1:] if not t.startswith("fam=")]
                bad.append((":".join(["unexpected-throw", fam[0] if fam else "?", dw[0]] + extra), l, i))
            # a throwing operation must not leak and must not leave stray objects
            if prev_live is not None and cur_live != prev_live and w[0] in ("new", "serde", "serdecut", "copy"):
                bad.append(("leak-on-throw:" + w[0], "%s: before %s after %s" % (l, prev_live, cur_live), i))
            img = cur
            prev_live = cur_live
            continue
        op = w[0]
        touched = set()
        if op in ("upd", "trim", "reset", "destroy", "new"):
            touched = {int(w[1]) if op != "new" else int(w[2])}
        elif op == "query":
            touched = {int(w[1])} if query_mutates(int(w[1])) else set()
        elif op in ("copy", "move", "serde"):
            s, dd = int(w[1]), int(w[2])
            touched = {dd} | ({s} if op == "move" else set())
            if op == "copy" and s in cur and dd in cur and cur[s] != cur[dd]:
                bad.append(("copy-image-differs", l, i))
            if op == "move" and s in img and cur.get(dd) != img[s]:
                bad.append(("move-image-differs", l, i))
        elif op in ("cassign", "massign"):
            dd, s = int(w[1]), int(w[2])
            touched = {dd} | ({s} if op == "massign" else set())
            if s in img and cur.get(dd) != img[s]:
                bad.append(("%s-image-differs" % op, l, i))
            if op == "cassign" and s in img and cur.get(s) != img[s]:
                bad.append(("cassign-changed-source", l, i))
        elif op in ("merge", "mergemv"):
            dd, s = int(w[1]), int(w[2])
            touched = {dd} | ({s} if op == "mergemv" else set())
            if op == "merge" and s in img and cur.get(s) != img[s]:
                bad.append(("merge-changed-source", l, i))
        elif op == "ser":
            touched = set()
        for k, v in img.items():
            if k not in touched and k in cur and cur[k] != v:
                bad.append(("independence:image-changed-by-op-on-another-object", "%s changed object %d" % (l, k), i))
        img = cur
        prev_live = cur_live
    # after the last op the harness destroys what is left and the leak checker runs
    for o in out[len(hist):]:
        if o.startswith("FATAL"):
            ws = o.split()
            bad.append(("at-exit:" + ":".join(ws[1:3]), o[:200], len(hist) - 1))
            break
    return bad


class LifePart(Part):
    harness = "life_h"
    model_exe = "dsmodel_life"
    family = "life"
    timeout = 300
    cmp = staticmethod(cmp_lines)

    def __init__(self, name, fams, n_quick, n_thorough, compare_model=True):
        self.name = name
        self.fams = fams
        self.n_quick, self.n_thorough = n_quick, n_thorough
        self.compare_model = compare_model

    def generate(self, rng, tier):
        n = self.n_quick if tier == "quick" else self.n_thorough
        hs = []
        for i in range(n):
            nops = rng.choice([40, 120, 300]) if tier == "quick" else rng.choice([100, 400, 1200])
            hs.append(gen_history(rng, tier, self.fams, nops, cut_ok=not self.compare_model))
        for f in self.fams:
            if f.name in ("kllstr", "req", "reqstr", "quant", "quantstr"):
                hs += [cached_view_history(rng, f) for _ in range(3 if tier == "quick" else 12)]
            if f.merge and f.update:
                hs += [deep_merge_history(rng, f) for _ in range(2 if tier == "quick" else 8)]
            if f.merge and isinstance(f, FMon):
                hs += [moved_from_assign_history(rng, f) for _ in range(3 if tier == "quick" else 10)]
        return hs

    def oracle(self, hist, impl_out):
        return life_oracle(hist, impl_out)

    def nontrivial_key(self, hist, impl_out):
        """non-trivial: some copy/move/assignment AND some operation that reallocated a hand-managed block
        (both A and F non-empty in one op: resize, rebuild, compaction, purge, merge buffer)."""
        ops = [l.split()[0] for l in hist]
        if not any(o in ("copy", "move", "cassign", "massign") for o in ops):
            return None
        realloc = 0
        for o in impl_out:
            d = parse_h(o)
            if d and d.get("A", "-") != "-" and d.get("F", "-") != "-":
                realloc += 1
        if realloc == 0:
            return None
        sig = tuple(sorted((k, ops.count(k)) for k in set(ops)))
        return (sig, realloc, impl_out[-2][:80] if len(impl_out) > 1 else "")


class C19(Spec):
    pid = "C19"
    props_modules = ["DSProofs.Props.C19"]
    harness = "life_h"
    model_exe = "dsmodel_life"
    family = "life"
    tfamilies = ["life"]
    rule = ("lifecycle histories (construct / update / merge by reference and by move / copy / move / copy-assign / move-assign incl. "
            "self and chains / query / serialize / deserialize / trim / reset / destroy) over 3-8 live objects with small parameters "
            "(lg_k 5-6, k 8-16, map 8-32) so that resize, rebuild, compaction, level growth and purge happen within tens of operations; "
            "a history is non-trivial when it has a copy/move/assignment and at least one operation that reallocated a hand-managed "
            "block; distinct = distinct (op-kind histogram, number of reallocating ops, final observation)")
    trusted_base = ["Lean 4.33 kernel", "axioms: propext, Quot.sound, Classical.choice",
                    "the heap calculus DSModel/Life/Heap.lean is the meaning given to allocate/deallocate/placement-new/destructor/move",
                    "DSModel/Life/{Theta,Kll,Fi}.lean are hand transcriptions of the C++ special members and mutators, tied to the code by "
                    "per-operation comparison with harness/life_h.cpp (tracking allocator + instrumented item type) on sampled histories",
                    "ASan/LSan/UBSan and the harness instrumentation for the classes without a program model (monitored only)"]
    assumptions = ["C++ object lifetime, aliasing and exception safety outside the heap calculus are not modelled",
                   "std::vector/std::optional/std::string members are trusted (libstdc++); their blocks are logged but not predicted",
                   "std::nth_element/std::sort are modelled as 'sorts the range' (any permutation has the same lifetime states)"]

    def parts(self):
        ps = [LifePart("tup", [MODELLED["tup"]], 24, 160),
              LifePart("kll", [MODELLED["kll"]], 24, 160),
              LifePart("fi", [MODELLED["fi"]], 24, 160),
              LifePart("mixed", list(MODELLED.values()), 16, 120)]
        for f in MONITORED:
            ps.append(LifePart("mon:" + f.name, [f], 5, 30, compare_model=False))
        ps.append(LifePart("mon:all", MONITORED + list(MODELLED.values()), 6, 40, compare_model=False))
        return ps

    def extra_stages(self, rep, tier, rng, broken):
        rep.cov["program_model_and_contract_proofs"] = ["theta_update_sketch_base (update_tuple_sketch)",
                                                        "kll_sketch + kll_helper",
                                                        "reverse_purge_hash_map + frequent_items_sketch"]
        rep.cov["modelled_not_verified_monitored_only"] = MONITORED_NAMES


SPEC = C19()

CLAIM = dict(
    text=("Kernel-checked theorems over ALL lifecycle histories (construct / update / merge by reference and by move / copy / move / "
          "copy- and move-assign incl. self / query / serialize / deserialize / trim / reset / destroy, any number of live objects of "
          "the three classes mixed in one heap, all parameters, values, coins, hash functions) of a heap calculus (blocks of cells: raw "
          "| live | moved-from, primitives with checked preconditions) in which the special members and mutators of the theta/tuple "
          "hash table, kll_sketch + kll_helper and the frequent-items reverse_purge_hash_map are written line by line: no primitive "
          "is ever applied outside its precondition (no double destroy, construct over a live object, read of a raw/moved-from slot, "
          "release with a wrong size or with live objects, null/dangling access), after every operation the non-raw slots are exactly "
          "those implied by the counters, live objects own disjoint blocks and every block has an owner, copy yields a fresh block "
          "with equal keys and liveness, move hands the blocks over and leaves a source that may be destroyed or assigned to, and "
          "destroying all objects empties the heap; plus a per-operation tie of those programs to the real headers (tracking "
          "allocator + instrumented item type: blocks allocated/freed with sizes, constructor/destructor calls inside blocks, slot "
          "states of every live block, items outside blocks), plus the property oracle on every implementation trace."),
    note=("Partial by nature: what is proved is the bookkeeping that decides which raw slots are alive and which blocks an object "
          "owns, for three classes. Not claimed: anything after the modelled code throws (exception safety; that the internal "
          "logic_error throws are unreachable is not proved), allocator instances (the model has one heap; propagation of stateful "
          "allocators is only monitored), std::vector/std::optional/std::string internals, and every class without a program model "
          "(REQ, classic quantiles, VarOpt, EBPPS, HLL, CPC, Bloom, count-min, t-digest, density, compact/union objects): these are "
          "MONITORED only (ledger balance, size and allocator-instance match on release, item lifetimes, byte images of copies, "
          "ASan/LSan/UBSan) on sampled histories - modelled-not-verified. Open known findings: see known_findings.json (C19)."),
    technique="Lean 4 heap calculus + Hoare-style contracts with frames + world invariant by induction over histories; differential "
              "correspondence per operation (tracking allocator, instrumented items, sanitizers); trace oracle",
    design="DESIGN.md §3 C19")

"""C09 (wire group `theta`) — serialization round trip of compact theta (uncompressed v3, compressed v4, wrapped),
compact tuple (double / int64 / std::string / custom-serde summaries) and array-of-doubles sketches. DESIGN.md 3 C09,
docs/WIRE_GUIDE.md."""
import random
from .. import core
from ..runner import Spec, Part
from . import wire_theta_lib as L


def ser_ops(o, kind, other):
    return ["ser %d %s%s" % (o, kind, "" if other is None else " %d" % other)]


# ---- independent Python rendering of the documented layouts (generator side: images with chosen hash values)
def le(x, n):
    return "".join("%02x" % ((x >> (8 * i)) & 0xFF) for i in range(n))


def theta_v3_image(seed_hash, theta, entries, ordered=True, empty=False):
    est = theta < 2**63 - 1 and not empty
    pre = 3 if est else (1 if (empty or len(entries) == 1) else 2)
    flags = (1 << 3) | (1 << 1) | ((1 << 2) if empty else 0) | ((1 << 4) if ordered else 0)
    s = le(pre, 1) + "03" + "03" + "0000" + le(flags, 1) + le(seed_hash, 2)
    if pre > 1:
        s += le(len(entries), 4) + le(0, 4)
    if est:
        s += le(theta, 8)
    return s + "".join(le(e, 8) for e in entries)


def py_pack(eb, vals):
    """documented layout: fields MSB first, back to back, zero padded to a byte"""
    x = 0
    for v in vals:
        x = (x << eb) | (v & ((1 << eb) - 1))
    nbits = eb * len(vals)
    nbytes = (nbits + 7) // 8
    x <<= 8 * nbytes - nbits
    return x.to_bytes(nbytes, "big").hex() if nbytes else "-"


def py_unpack(eb, n, hx):
    b = bytes.fromhex(hx) if hx != "-" else b""
    x = int.from_bytes(b, "big") >> (8 * len(b) - eb * n)
    return [(x >> (eb * (n - 1 - i))) & ((1 << eb) - 1) for i in range(n)]


SEED_HASH_9001 = 37836


def width_history(rng, tier, per_image_ops):
    """Compact theta sketches with CHOSEN hash values so that every entry width 1..63 of the compressed format, block
    counts 0..3 and every tail length 0..7 occur (hashing real inputs only ever gives widths 58..63)."""
    h = []
    nid = 0
    widths = rng.sample(range(1, 64), 6 if tier == "quick" else 21)
    for eb in widths:
        n = rng.choice([1, 2, 3, 5, 7, 8, 9, 12, 15, 16, 17, 23, 24, 25, 31, 40])
        deltas = [rng.randrange(1, 1 << min(eb, 55)) for _ in range(n)]
        deltas[rng.randrange(n)] = rng.randrange(1 << (eb - 1), min(1 << eb, 2**63 - 2**61))   # the width is exactly eb
        es, x = [], 0
        for d in deltas:
            x += d
            es.append(x)
        if es[-1] >= 2**63 - 1:
            continue
        est = rng.random() < 0.5
        theta = rng.randrange(es[-1] + 1, 2**63 - 1) if est else 2**63 - 1
        img = theta_v3_image(SEED_HASH_9001, theta, es, ordered=True)
        h.append("load %d theta 9001 %s" % (nid, img))
        other = nid - 1 if nid > 0 and rng.random() < 0.5 else None
        h += per_image_ops(nid, "theta_v4", other)
        if rng.random() < 0.3:
            h += per_image_ops(nid, "theta_v3", other)
        nid += 1
    return h


class WireC09(L.WirePart):
    def __init__(self):
        self.classes = {}

    def nontrivial_key(self, hist, impl_out):
        # called once per history by the runner: also accumulates the state-class histogram of the evidence file
        origin = {}
        for op, o in zip(hist, impl_out):
            w = op.split()
            if w[0] in ("compact",):
                origin[w[2]] = "compact-of-compact" if w[1] in origin else "compact"
            elif w[0] in ("union", "inter", "anotb", "load", "fromtheta"):
                origin[w[1] if w[0] != "fromtheta" else w[2]] = w[0]
            elif w[0] == "ser":
                d = L.parse_img(o)
                if not d:
                    continue
                c = d["content"].split()
                n = int(c[7]) if c[0] == "A" else int(c[6])
                empty, ordered, est = c[1] == "1", c[2] == "1", c[3] == "1"
                cls = "empty" if empty else ("zero-retained" if n == 0 else ("estimation" if est else ("single" if n == 1 else "exact")))
                for k in ("kind:" + d["kind"], "state:" + cls, "ordered:" + str(int(ordered)), "origin:" + origin.get(w[1], "?"),
                          "seed:" + ("9001" if d["seed"] == "9001" else "other"), "continued:" + str(int(len(w) > 3))):
                    self.classes[k] = self.classes.get(k, 0) + 1
                if d["kind"] == "theta_v4" and len(d["hex"]) > 8 and d["hex"][2:4] == "04":
                    k = "v4-entry-bits:%d" % int(d["hex"][6:8], 16)
                    self.classes[k] = self.classes.get(k, 0) + 1
        if getattr(self, "_rep", None) is not None:
            self._rep.cov.setdefault("state_classes", {})[self.name] = dict(sorted(self.classes.items()))
        return super().nontrivial_key(hist, impl_out)

    def generate(self, rng, tier):
        n = self.nhist[0] if tier == "quick" else self.nhist[1]
        hs = []
        for i in range(n):
            fam = self.fams[i % len(self.fams)]
            hs.append(L.gen_history(rng, tier, fam, ser_ops))
        if "theta" in self.fams:
            for i in range(4 if tier == "quick" else 30):
                hs.append(width_history(rng, tier, ser_ops))
        return hs

    def oracle(self, hist, impl_out):
        bad = []
        for i, (op, o) in enumerate(zip(hist, impl_out)):
            w = op.split()
            if o.strip() in ("no-such-object", "bad-op"):
                continue      # malformed history (dangling object id, e.g. after delta debugging): says nothing about the library
            if o.strip() == "throw":
                bad.append(("%s/unexpected-throw/%s" % (self.name, w[0]), op[:120], i))
                continue
            if "ITER-COUNT-MISMATCH" in o:
                bad.append(("%s/iterator-count" % self.name, o[:160], i))
            if w[0] == "ser":
                d = L.parse_img(o)
                if d is None:
                    bad.append(("%s/bad-observation" % self.name, o[:120], i))
                    continue
                if d["status"] != "ok":
                    # one finding per image: the FIRST failing check names it (the later ones are usually its consequences);
                    # compressed images carry their entry width in the key (the 63 block routines are separate code)
                    chk = d["status"].replace("FAIL ", "").split(",")[0]
                    fam = d["kind"]
                    if d["kind"].startswith("theta") and len(d["hex"]) >= 8:
                        sv = int(d["hex"][2:4], 16)
                        fam = "theta_v%d" % sv + ("/eb%d" % int(d["hex"][6:8], 16) if sv == 4 else "")
                    bad.append(("%s/%s" % (fam, chk), "image %s: %s" % (d["hex"][:80], d["status"]), i))
                c = d["content"].split()
                # ordered form is sorted by hash; single/empty is ordered
                if c[0] == "T" and c[2] == "1":
                    es = [int(x) for x in c[8:] if x.isdigit()]
                    if es != sorted(es):
                        bad.append(("%s/ordered-not-sorted" % d["kind"], o[:160], i))
        return L.cap_unknown(bad, "C09")


class ThetaPart(WireC09):
    name = "theta"
    fams = ("theta",)
    nhist = (24, 400)


class TuplePart(WireC09):
    name = "tuple"
    fams = ("tf64", "ti64", "tstr", "tcst")
    nhist = (24, 400)


class AodPart(WireC09):
    name = "aod"
    fams = ("aod",)
    nhist = (12, 200)


class BitPackPart(Part):
    """differential run of the real pack/unpack routines (block-of-8 through the switch dispatchers, and the scalar tail
    routines) against the Lean evaluation of the translated IR; the oracle is an independent Python rendering of the
    documented MSB-first layout."""
    name = "bitpack"
    harness = L.HARNESS
    model_exe = L.MODEL
    family = "gen"

    def generate(self, rng, tier):
        hs = []
        for rep in range(2 if tier == "quick" else 12):
            h = []
            for n in range(1, 64):
                for t in range(2):
                    choice = rng.random()
                    if choice < 0.2:
                        vals = [(1 << n) - 1] * 8
                    elif choice < 0.3:
                        vals = [0, (1 << n) - 1] * 4
                    elif choice < 0.4:
                        vals = [1 << rng.randrange(n) for _ in range(8)]
                    else:
                        vals = [rng.randrange(1 << n) for _ in range(8)]
                    h.append("BP pack %d %s" % (n, " ".join(map(str, vals))))
                    hx = py_pack(n, vals) if rng.random() < 0.5 else "".join("%02x" % rng.randrange(256) for _ in range(n))
                    h.append("BP unpack %d %s" % (n, hx))
                k = rng.randrange(1, 8)
                h.append("BPT %d %s" % (n, " ".join(str(rng.randrange(1 << n)) for _ in range(k))))
            hs.append(h)
        return hs

    @staticmethod
    def want(op):
        w = op.split()
        if w[0] == "BP" and w[1] == "pack":
            return "BP %s" % py_pack(int(w[2]), [int(x) for x in w[3:]])
        if w[0] == "BP":
            return "BPU %s" % " ".join(map(str, py_unpack(int(w[2]), 8, w[3])))
        return "BPT %s rt=1" % py_pack(int(w[1]), [int(x) for x in w[2:]])

    def expected_model_out(self, hist, impl_out):
        # the Lean evaluation of the translated routine must give the implementation's bytes, and its own verdict
        # "equals the specification layout" must agree with the independent Python rendering of that layout
        res = []
        for op, o in zip(hist, impl_out):
            if op.startswith("BPT"):
                res.append(self.want(op) if o.strip() == self.want(op) else o + " <impl differs from the documented layout>")
            else:
                res.append("%s spec=%d" % (o.strip(), 1 if o.strip() == self.want(op) else 0))
        return res

    def oracle(self, hist, impl_out):
        bad = []
        for i, (op, o) in enumerate(zip(hist, impl_out)):
            w = op.split()
            if w[0] == "BP" and w[1] == "pack":
                want = self.want(op)
                if o.strip() != want:
                    bad.append(("bitpack/pack_bits_%s/layout" % w[2], "got %s want %s" % (o[:80], want[:80]), i))
            elif w[0] == "BP":
                want = self.want(op)
                if o.strip() != want:
                    bad.append(("bitpack/unpack_bits_%s/layout" % w[2], "got %s want %s" % (o[:80], want[:80]), i))
            elif w[0] == "BPT":
                want = "BPT %s rt=1" % py_pack(int(w[1]), [int(x) for x in w[2:]])
                if o.strip() != want:
                    bad.append(("bitpack/scalar/width%s" % w[1], "got %s want %s" % (o[:80], want[:80]), i))
        return bad

    def nontrivial_key(self, hist, impl_out):
        return len(hist)


PARTS = [ThetaPart(), TuplePart(), AodPart(), BitPackPart()]

CLAIM_TEXT = ("Theta/Tuple/array-of-doubles images: kernel-checked theorems (all well-formed image states, all tails) that the "
              "specification reader inverts the writer and consumes exactly the image, sizes equal the advertised formulas, the "
              "compressed theta format round-trips (bit packing of all 63 widths proved from the translated routines + delta coding "
              "+ entry-width adequacy); every image written by the real sketches in every state class is decoded by the Lean reader "
              "to the API content, re-encodes to the same bytes, and the real readers/wrappers/stream paths agree.")


class C09Theta(Spec):
    pid = "C09"
    props_modules = ["DSProofs.Props.C09_Theta", "DSProofs.Props.C09_Tuple", "DSProofs.Props.C09_Aod", "DSProofs.Gen.BitPack"]
    tfamilies = ["wire_theta"]
    rule = ("per family (theta / tuple x {double,int64,string,custom serde} / array-of-doubles): histories of 1-3 update sketches "
            "(lg_k 5-6 quick, 5-9 thorough; p in {1,.5,.1,.001}; seed 9001 or another) driven to empty / single / exact / estimation / "
            "zero-retained, compacted ordered and unordered, compact-of-compact, union / intersection / a_not_b results; every compact "
            "object serialized in every kind (v3, compressed v4) with all implementation-side checks; plus theta sketches with chosen "
            "hash values covering entry widths 1..63; a history is non-trivial when it produced an image with entries; distinct = "
            "distinct (kind, seed class, flags, size) signatures")
    trusted_base = ["Lean 4.33 kernel", "axioms: propext, Quot.sound, Classical.choice",
                    "tools/trules/wire_theta.py (regex translator of bit_packing.hpp and of the wire constants; cross-checked differentially against the compiled routines)",
                    "harness/wire_theta_h.cpp + generators (sampled sketch states; public-API observations under ASan/UBSan)",
                    "scalar pack_bits/unpack_bits (tail of < 8 entries) are hand-modelled by the MSB-first specification and tied differentially"]
    assumptions = ["theorems are about the specification writer/reader DSModel/Wire/{Theta,Tuple,Aod,BitPack}.lean; the tie to the C++ "
                   "writers/readers is differential (every generated image decoded by the Lean reader, re-encoded, compared)",
                   "summaries of type double are compared as bit patterns"]

    def parts(self):
        return PARTS

    def extra_stages(self, rep, tier, rng, broken):
        # is the pinned deviation of pack_bits_19 still present? (generated IR of the routine == the pinned literal kept in Gen/BitPackFinding.lean;
        # whichever it is, `bitpack_layouts_ok` is the obligation and admits exactly: no deviation, or this one)
        import os, re
        try:
            g = re.search(r"def pack_bits_19 : List PStmt := (.*)", open(os.path.join(core.LEAN, "DSGen", "BitPackIR.lean")).read()).group(1).strip()
            f = re.search(r"def pinned_pack_bits_19 : List PStmt := (.*)", open(os.path.join(core.LEAN, "DSProofs", "Gen", "BitPackFinding.lean")).read()).group(1).strip()
            rep.cov["pack_bits_19_deviation_present"] = (g == f)
        except Exception:
            rep.cov["pack_bits_19_deviation_present"] = None
        for p in PARTS:
            p._rep = rep


SPEC = C09Theta()

CLAIM = dict(text=CLAIM_TEXT,
             note="Partial by nature: the theorems are about the specification reader/writer; the C++ is tied by sampled differential runs.",
             technique="Lean 4 reader-combinator proofs + kernel-evaluated symbolic layouts of translated code + two-phase differential tie",
             design="DESIGN.md §3 C09")

"""C09 (KLL / REQ / classic quantiles) — serialization round trip (DESIGN.md 3 C09, docs/WIRE_GUIDE.md)."""
from .. import core
from ..runner import Spec
from . import quant_wire as qw


# REQ: the per-compactor coin is not part of the image.  A restored compactor draws a fresh coin; `merge` ORs the other
# sketch's compaction state into a compactor but keeps that compactor's own (possibly never flipped) coin (C08 scope, D9).
# Hence: the outcome of a merge INTO a restored sketch is never determined by the image, and after any merge neither is the
# outcome of further updates.  Those comparisons are recorded, not judged; the coin-independent observables always are.
REQ_COIN_DEPENDENT_ALWAYS = ("continue-merge-diverges",)
REQ_COIN_DEPENDENT_AFTER_MERGE = ("continue-updates-diverge",)
REQ_COIN_DEPENDENT = REQ_COIN_DEPENDENT_ALWAYS + REQ_COIN_DEPENDENT_AFTER_MERGE


class C09Part(qw.WirePart):
    def generate(self, rng, tier):
        return qw.generate_for(self.fam, qw.ser_op, rng, tier)

    def imgs(self, impl_out):
        return [(i, qw.parse_img(l)) for i, l in enumerate(impl_out) if l.startswith("IMG ")]

    def model_lines(self, hist, impl_out):
        return ["IMG %s %s" % (g["kind"], g["hex"]) for _, g in self.imgs(impl_out) if g]

    def expected_model_out(self, hist, impl_out):
        return ["OK %s | reenc=1 size=%d minpref=%d rest=0" % (g["content"], g["size"], g["size"]) for _, g in self.imgs(impl_out) if g]

    def diff(self, hist, impl_out, model_out):
        exp = self.expected_model_out(hist, impl_out)
        gs = [g for _, g in self.imgs(impl_out) if g]
        for j in range(max(len(exp), len(model_out))):
            e = exp[j] if j < len(exp) else "<missing>"
            m = model_out[j] if j < len(model_out) else "<missing>"
            if j < len(gs) and qw.d2_state(gs[j]):
                # KLL iterator weights are wrong when level 0 is empty (C07 finding D2): compare everything but the weights
                e, m = qw.strip_weights(e.split(" | ")[0]) + " | " + e.split(" | ", 1)[-1], qw.strip_weights(m.split(" | ")[0]) + " | " + m.split(" | ", 1)[-1]
            if core.norm(e) != core.norm(m):
                return j
        return None

    # ---- the property statement itself on the implementation's trace (checks done by the harness in C++ alone)
    def oracle(self, hist, impl_out):
        bad = []
        merged = False
        for i, l in enumerate(hist):
            if i >= len(impl_out):
                break
            w = l.split()
            if w[0] == "merge":
                merged = True
            if w[0] != "ser":
                if impl_out[i].strip() == "throw":
                    bad.append(("%s/%s-threw" % (self.fam, w[0]), l[:80], i))
                continue
            g = qw.parse_img(impl_out[i])
            if g is None:
                bad.append(("%s/ser-%s" % (self.fam, "threw" if impl_out[i].strip().startswith("throw") else "bad-observation"), impl_out[i][:120], i))
                continue
            for f in g["fails"]:
                key, _, detail = f.partition(":")
                if self.fam == "req" and (key in REQ_COIN_DEPENDENT_ALWAYS or (merged and key in REQ_COIN_DEPENDENT_AFTER_MERGE)):
                    continue
                bad.append(("%s/%s" % (self.fam, key), "%s %s image=%s" % (g["kind"], detail, g["hex"][:80]), i))
        return bad

    def nontrivial_key(self, hist, impl_out):
        # called once per history by the runner: also the place where the measured figures are accumulated
        sig = set()
        merged = False
        for l, o in zip(hist, impl_out):
            if l.startswith("merge"):
                merged = True
            g = qw.parse_img(o) if o.startswith("IMG ") else None
            if not g:
                continue
            self.count("images")
            self.count("images_" + g["ty"])
            self.count("images_estimation_mode" if " est=1" in g["content"] else "images_exact_or_empty")
            if merged:
                self.count("images_post_merge")
            if qw.d2_state(g):
                self.count("kll_images_with_empty_level_0")
            if self.fam == "req" and any(f.partition(":")[0] in REQ_COIN_DEPENDENT for f in g["fails"]):
                self.count("req_continuations_diverging_by_unserialized_coin")
            self.count("continuation_updates", max(0, len(l.split()) - 3))
        for _, g in self.imgs(impl_out):
            if g and g["size"] > 8:
                sig.add((g["kind"], " est=1" in g["content"], min(g["size"] // 64, 8)))
        merged = any(l.startswith("merge") for l in hist)
        return (tuple(sorted(sig)), merged) if sig else None


PARTS = [C09Part(f) for f in qw.FAMS_ON]

CLAIM_TEXT = ("KLL, REQ and classic-quantiles images (item types float/double/int64/string): kernel-checked `decode (encode s ++ tail) = "
              "some (s, tail)` and `|encode s| = serializedSize s` (KLL also <= the published maximum) for every well-formed image state, "
              "every lawful item serde and every tail; the real serializers are held to these readers/writers image by image "
              "(bytes(header h) = h zero bytes ++ stream image, advertised size, stream position, both deserializers, re-serialization, "
              "deserialize-then-continue under the same coins).")


class C09Quant(Spec):
    pid = "C09"
    props_modules = ["DSProofs.Props.C09_" + qw.LEAN_NAME[f] for f in qw.FAMS_ON]
    tfamilies = ["wire_quant"]
    rule = ("per family: deterministic anchor histories (every item type x empty, n = 1..7, exact, estimation, merge into empty, "
            "merge of two estimation-mode sketches, REQ in both rank modes) + seeded random histories over 1-3 live sketches with small k "
            "(updates of 0..11k items, merges, `ser` after most steps with a random coin script and 0-60 continuation updates); "
            "non-trivial = some image beyond the 8-byte preamble; distinct = distinct set of (kind, estimation mode, size bucket) + merged flag")
    trusted_base = ["Lean 4.33 kernel", "axioms: propext, Quot.sound, Classical.choice",
                    "tools/trules/wire_quant.py (wire constants re-read from the headers every run)",
                    "harness/wire_quant_h.cpp + generators (sampled sketch states; every check on an image is exhaustive for that image)"]
    assumptions = ["theorems are about DSModel/Wire/{Kll,Req,Quantiles}.lean; the tie to the C++ serializers is per generated image",
                   "REQ: the per-compactor coin is not part of the image; continuation is compared under a constant coin source"]

    def parts(self):
        return PARTS

    def extra_stages(self, rep, tier, rng, broken):
        for p in PARTS:
            p._rep, p.stats = rep, {}


SPEC = C09Quant()

"""C03 — HLL content is the per-slot max of coupons in every mode and register width (DESIGN.md 3 C03)."""
import os, struct, importlib.util
from .. import core, gen
from ..runner import Spec

KEY_BITS = 26
POOL_N = 1 << 20
_POOL = {}


def lean_coupons(inputs):
    """[(ty, lit)] -> list of coupon (int) or None (ignored), via the Lean Murmur/Canon/coupon model."""
    if not inputs:
        return []
    lines = ["coupon %s %s" % t for t in inputs]
    out, oc, err = core.run_model("dsmodel_hll", "coupon", lines, timeout=300)
    res = []
    for l in out:
        w = l.split()
        res.append(int(w[1]) if len(w) == 2 and w[0] == "C" and w[1] != "ignored" else None)
    if len(res) != len(inputs) or oc != "ok":
        raise RuntimeError("coupon model failed: %s %s" % (oc, err[-300:]))
    return res


def pool():
    """coupons of the u64 inputs 0..POOL_N-1 (Lean model), indexed for targeted streams:
    by_slot[s14] = [(input, value)], high = inputs with value >= 12 (h2 has >= 11 leading zeros)."""
    if _POOL:
        return _POOL
    cache = os.path.join(core.BUILD, "hll_pool_%d.txt" % POOL_N)
    cps = None
    if os.path.exists(cache):
        try:
            cps = [int(x) for x in open(cache).read().split()]
            if len(cps) != POOL_N:
                cps = None
        except Exception:
            cps = None
    if cps is None:
        lines = ["pool %d %d" % (a, 16384) for a in range(0, POOL_N, 16384)]
        out, oc, err = core.run_model("dsmodel_hll", "coupon", lines, timeout=600)
        cps = [int(x) for l in out for x in l.split()]
        if len(cps) != POOL_N:
            raise RuntimeError("pool generation failed: %s %s" % (oc, err[-300:]))
        os.makedirs(core.BUILD, exist_ok=True)
        with open(cache, "w") as f:
            f.write(" ".join(map(str, cps)))
    by_slot = {}
    high = []
    for i, c in enumerate(cps):
        v = c >> KEY_BITS
        by_slot.setdefault(c & 0x3FFF, []).append((i, v))
        if v >= 12:
            high.append((i, v, c & ((1 << KEY_BITS) - 1)))
    # address twins: inputs whose coupons share the 26-bit address but differ in value (distinct coupons, same slot at every lg_k)
    keyed = sorted(((c & ((1 << KEY_BITS) - 1)) << 20) | i for i, c in enumerate(cps))
    twins = []
    j = 0
    while j < len(keyed):
        k = j + 1
        while k < len(keyed) and (keyed[k] >> 20) == (keyed[j] >> 20):
            k += 1
        if k - j >= 2:
            grp = [x & ((1 << 20) - 1) for x in keyed[j:k]]
            if len(set(cps[g] >> KEY_BITS for g in grp)) >= 2:
                twins.append(grp)
        j = k
    _POOL.update(cps=cps, by_slot=by_slot, high=high, high15=[h for h in high if h[1] >= 15], twins=twins)
    return _POOL


def pick_for_slot(rng, P, lgk, slot, vmin, vmax):
    """a pool input whose coupon falls into `slot` at precision lgk (lgk <= 14) with value in [vmin, vmax] (or None)."""
    for _ in range(12):
        s14 = slot + (rng.randrange(1 << (14 - lgk)) << lgk)
        cands = [i for i, v in P["by_slot"].get(s14, ()) if vmin <= v <= vmax]
        if cands:
            return rng.choice(cands)
    return None


def magic_stream(rng, lgk, tier):
    """inputs (u64 literals) that fill every slot quickly, raise cur_min several times and create aux exceptions."""
    P = pool()
    k = 1 << lgk
    lg = min(lgk, 14)
    out = []
    rounds = rng.choice([1, 2, 2, 3, 4])
    lo = 1
    for r in range(rounds):
        hi = lo + rng.choice([0, 1, 2])
        slots = list(range(1 << lg))
        rng.shuffle(slots)
        if rng.random() < 0.3:
            slots = slots[:rng.randrange(1, len(slots) + 1)]       # leave some slots behind: no shift this round
        for s in slots:
            x = pick_for_slot(rng, P, lg, s, lo, hi)
            if x is not None:
                out.append(x)
        lo = hi + 1
    nhigh = rng.choice([0, 2, 6, 20, 40])
    for _ in range(nhigh):
        out.append(rng.choice(P["high15"] if rng.random() < 0.7 else P["high"])[0])
    # mid values 8..20 straddle the AUX_TOKEN boundary once cur_min has moved
    for _ in range(rng.choice([0, 4, 16])):
        s = rng.randrange(1 << lg)
        x = pick_for_slot(rng, P, lg, s, 8, 24)
        if x is not None:
            out.append(x)
    return [("u64", str(x)) for x in out]


def parse_F(line):
    w = line.split()
    if not w or w[0] != "F" or len(w) < 15:
        return None
    d = dict(mode=int(w[1]), lgk=int(w[2]), tt=int(w[3]), empty=w[4] == "1", ooo=w[5] == "1", est=w[6], comp=w[7],
             lb=[w[8], w[10], w[12]], ub=[w[9], w[11], w[13]])
    if w[14] == "C":
        d["count"] = int(w[15]); d["coupons"] = [int(x) for x in w[16:]]
    elif w[14] == "R":
        d["curmin8"] = int(w[15]); d["nacm8"] = int(w[16]); d["kxq0"] = w[17]; d["kxq1"] = w[18]; d["hip"] = w[19]
        d["regs"] = None if (len(w) > 20 and w[20] == "fold") else [int(x) for x in w[20:]]
        d["regfold"] = w[21] if (len(w) > 21 and w[20] == "fold") else None
    else:
        return None
    return d


def parse_W(line):
    w = line.split()
    if not w or w[0] != "W":
        return None
    if "A" not in w:
        return dict(kind="coupons", lgarr=int(w[1]), arr=[int(x) for x in w[2:]])
    a = w.index("A")
    d = dict(kind="hll", curmin=int(w[1]), nacm=int(w[2]), auxcount=int(w[3]), lgaux=int(w[4]),
             bytes=None if w[5] == "fold" else (bytes.fromhex(w[5]) if w[5] != "-" else b""), pairs=[int(x) for x in w[a + 1:] if x.isdigit()])
    return d


def fval(hx):
    return struct.unpack("<d", struct.pack("<Q", int(hx, 16)))[0]


def close(a, b, rel=2.0 ** -40):
    x, y = fval(a), fval(b)
    return a == b or abs(x - y) <= rel * max(abs(x), abs(y))


def regs_of(coupons, lgk):
    r = [0] * (1 << lgk)
    m = (1 << lgk) - 1
    for c in coupons:
        s = c & ((1 << KEY_BITS) - 1) & m
        v = c >> KEY_BITS
        if v > r[s]:
            r[s] = v
    return r


def decode_own(tt, lgk, W):
    """registers from the sketch's own updatable image (documented layouts), or None."""
    b = W["bytes"]
    if b is None:
        return None
    k = 1 << lgk
    if tt == 8:
        return list(b[:k])
    if tt == 6:
        out = []
        for i in range(k):
            st = i * 6
            two = b[st >> 3] | (b[(st >> 3) + 1] << 8)
            out.append((two >> (st & 7)) & 63)
        return out
    aux = {p & ((1 << KEY_BITS) - 1) & (k - 1): p >> KEY_BITS for p in W["pairs"]}
    out = []
    for i in range(k):
        nib = (b[i >> 1] >> 4) if (i & 1) else (b[i >> 1] & 15)
        out.append(aux.get(i, -1) if nib == 15 else nib + W["curmin"])
    return out


class C03(Spec):
    pid = "C03"
    props_modules = ["DSProofs.Props.C03"]
    harness = "hll_h"
    model_exe = "dsmodel_hll"
    family = "hll"
    tfamilies = ["hll"]
    timeout = 300
    rule = ("histories over 2-5 live hll_sketches (lg_k 4-9 quick / 4-12 + spot 13,14,21 thorough; HLL_4/6/8; start_full_size) fed the same "
            "multiset in the same or permuted order with 0-90% duplicates: all 12 update overloads with boundary literals plus targeted "
            "'magic' u64 inputs (from a 2^20 pool hashed by the Lean model) that fill every slot, raise cur_min up to several times and "
            "create HLL_4 aux exceptions; interleaved copy / converting copy / reset / obs (HLL_8-copy image + estimates + bounds) / raw "
            "(own image). non-trivial = some sketch observed in HLL mode; distinct = distinct (lg_k, type, start_full, cur_min, aux count, "
            "register fold) signatures")
    trusted_base = ["Lean 4.33 kernel", "axioms: propext, Quot.sound, Classical.choice",
                    "DSModel/Murmur3.lean is the published MurmurHash3_x64_128 (tied to the code by the coupon correspondence)",
                    "correspondence harness harness/hll_h.cpp + generators (sampled histories; public-API observations)",
                    "tools/trules/hll.py (tables/constants regenerated from the headers; cross-checked against the compiled values)",
                    "floating point: kxq/hip/estimators are executed in Lean Float in the code's operation order and compared bit for bit; "
                    "theorems are about registers, coupons, modes and counters"]
    assumptions = ["theorems are about DSModel/Hll/*.lean; the tie to hll/include/* is differential (sampled)",
                   "LIST/SET duplicate test modelled as membership (the probe walk is not modelled); aux map layout abstracted to an association list"]

    # ------------------------------------------------------------------ generator
    def gen_history(self, rng, tier, lgk=None, nops=None):
        quick = tier == "quick"
        if lgk is None:
            lgk = rng.choice([4, 4, 5, 5, 6, 7, 8, 8, 9] if quick else [4, 5, 6, 7, 8, 9, 10, 11, 12])
        h = []
        nsk = rng.choice([2, 3, 3, 4])
        same_order = rng.random() < 0.5
        sf_base = rng.random() < 0.25
        cfgs = []
        for s in range(nsk):
            tt = [4, 6, 8][s % 3] if rng.random() < 0.7 else rng.choice([4, 4, 6, 8])
            sf = sf_base if rng.random() < 0.8 else not sf_base
            cfgs.append((tt, sf))
            h.append("new %d %d %d %d" % (s, lgk, tt, 1 if sf else 0))
        # the base multiset
        kind = rng.choice(["magic", "magic", "mixed", "typed", "few"])
        base = []
        if kind in ("magic", "mixed"):
            base += magic_stream(rng, lgk, tier)
        if kind in ("typed", "mixed"):
            uni = rng.choice([8, 40, 300, 5000])
            types = None if rng.random() < 0.6 else [rng.choice(["u64", "i64", "i32", "f64", "str", "u8", "raw", "f32", "u16"])]
            base += [gen.rand_input(rng, uni, types) for _ in range(rng.choice([10, 40, 150, 400] if quick else [40, 400, 2000]))]
        if kind == "few":
            base += [gen.rand_input(rng, 50) for _ in range(rng.randrange(0, 30))]
        if rng.random() < 0.35:
            tw = pool()["twins"]
            for _ in range(rng.choice([1, 3, 8])):
                base += [("u64", str(x)) for x in rng.choice(tw)]
        cap = (600 if quick else 6000)
        if len(base) > cap:
            base = base[:cap] if rng.random() < 0.5 else rng.sample(base, cap)
        dup = rng.choice([0.0, 0.0, 0.3, 0.9])
        streams = []
        for s in range(nsk):
            st = list(base)
            if dup > 0 and st:
                st += [rng.choice(base) for _ in range(int(len(base) * dup * rng.random()))]
            if not same_order:
                rng.shuffle(st)
            elif s == 0:
                rng.shuffle(st)
                base_order = st
            else:
                st = list(base_order)
            streams.append(st)
        pos = [0] * nsk
        live = list(range(nsk))
        nxt = nsk
        owner = {s: s for s in range(nsk)}      # sketch id -> stream index it still consumes (copies do not consume)
        pobs = rng.choice([0.01, 0.03, 0.1])
        while any(pos[s] < len(streams[s]) for s in range(nsk)):
            s = rng.choice([x for x in range(nsk) if pos[x] < len(streams[x])])
            burst = rng.choice([1, 1, 4, 16])
            for _ in range(burst):
                if pos[s] >= len(streams[s]):
                    break
                ty, lit = streams[s][pos[s]]
                pos[s] += 1
                h.append("upd %d %s %s" % (s, ty, lit))
            r = rng.random()
            if r < pobs:
                t = rng.choice(live)
                h.append("obs %d" % t)
                if rng.random() < 0.7:
                    h.append("raw %d" % t)
            elif r < pobs + 0.01 and nxt < 12:
                h.append("copy %d %d" % (rng.choice(live), nxt)); live.append(nxt); nxt += 1
            elif r < pobs + 0.025 and nxt < 12:
                h.append("conv %d %d %d" % (rng.choice(live), nxt, rng.choice([4, 6, 8]))); live.append(nxt); nxt += 1
            elif r < pobs + 0.028:
                t = rng.choice(live)
                if t >= nsk:                       # only copies are reset (the stream owners keep their comparison partner)
                    h.append("reset %d" % t)
            elif r < pobs + 0.04 and len(live) > nsk:
                t = rng.choice(live[nsk:])
                ty, lit = gen.rand_input(rng, 100)
                h.append("upd %d %s %s" % (t, ty, lit))
        for t in live:
            h.append("obs %d" % t)
            h.append("raw %d" % t)
        # converting copies at the end: every type from every owner
        for s in range(nsk):
            for tt in (4, 6, 8):
                if nxt < 40 and rng.random() < 0.5:
                    h.append("conv %d %d %d" % (s, nxt, tt)); h.append("obs %d" % nxt); h.append("raw %d" % nxt); nxt += 1
        return h

    def generate(self, rng, tier):
        n = 300 if tier == "quick" else 1500
        hs = [self.gen_history(rng, tier) for _ in range(n)]
        # boundary configurations
        hs.append(["new 0 3 8 0", "new 1 22 4 0", "new 2 4 4 1", "obs 2", "raw 2", "new 3 21 6 0", "upd 3 u64 1", "obs 3"])
        if tier != "quick":
            for lgk in (13, 14):
                hs.append(self.gen_history(rng, "quick", lgk=lgk))
            hs.append(["new 0 21 4 1", "new 1 21 8 0"] + ["upd %d u64 %d" % (i % 2, x) for i, x in enumerate(range(60))] + ["obs 0", "obs 1"])
        return hs

    # ------------------------------------------------------------------ oracle: the property statement on an implementation trace
    def oracle(self, hist, impl_out):
        bad = []
        inputs = [(l.split()[2], l.split()[3]) for l in hist if l.startswith("upd ") and len(l.split()) == 4]
        try:
            cps = lean_coupons(inputs)
        except Exception:
            return []
        sk = {}          # id -> dict(lgk, tt, sf, seq: list of coupons offered since reset)
        by_content = {}  # (lgk, frozenset) -> (mode, content, comp)
        by_seq = {}      # (lgk, sf, tuple seq) -> est
        ci = 0
        for i, l in enumerate(hist):
            w = l.split()
            op = w[0]
            o = impl_out[i] if i < len(impl_out) else None
            if o is None:
                break
            if op == "upd":
                c = cps[ci]; ci += 1
            if o.strip() == "bad-op":
                continue
            if o.strip() == "throw":
                if op == "new" and 4 <= int(w[2]) <= 21:
                    bad.append(("valid-call-throws", l, i))
                elif op != "new":
                    bad.append(("valid-call-throws", l, i))
                continue
            if op == "new":
                if not (4 <= int(w[2]) <= 21):
                    bad.append(("invalid-lgk-accepted", l, i))
                sk[int(w[1])] = dict(lgk=int(w[2]), tt=int(w[3]), sf=w[4] == "1", seq=[])
            elif op == "upd":
                d = sk.get(int(w[1]))
                if d is not None and c is not None:
                    d["seq"].append(c)
                so = o.split()
                if d is not None and len(so) == 5 and so[0] == "S":
                    if (so[3] == "1") != (len(d["seq"]) == 0):
                        bad.append(("empty-flag-wrong", "after %s: %s" % (l, o), i))
            elif op == "copy":
                d = sk[int(w[1])]
                sk[int(w[2])] = dict(d, seq=list(d["seq"]))
            elif op == "conv":
                d = sk[int(w[1])]
                sk[int(w[2])] = dict(d, seq=list(d["seq"]), tt=int(w[3]))
            elif op == "reset":
                sk[int(w[1])]["seq"] = []
            elif op == "obs":
                d = sk[int(w[1])]
                F = parse_F(o)
                if F is None:
                    bad.append(("bad-observation", o[:80], i)); continue
                S = set(d["seq"])
                if (F["lgk"], F["tt"]) != (d["lgk"], d["tt"]):
                    bad.append(("config-changed", o[:60], i))
                if F["empty"] != (len(S) == 0):
                    bad.append(("empty-flag-wrong", "distinct=%d %s" % (len(S), o[:60]), i))
                if F["mode"] != 2:
                    if F["coupons"] != sorted(S) or F["count"] != len(S):
                        bad.append(("coupons-not-exact", "missing=%s extra=%s count=%d" % (sorted(S - set(F["coupons"]))[:3], sorted(set(F["coupons"]) - S)[:3], F["count"]), i))
                    content = tuple(F["coupons"])
                else:
                    want = regs_of(S, d["lgk"])
                    if F["regs"] is not None:
                        if F["regs"] != want:
                            diff = [(s, F["regs"][s], want[s]) for s in range(min(len(want), len(F["regs"]))) if F["regs"][s] != want[s]][:3]
                            bad.append(("registers-not-slot-max", "(slot, got, want)=%s len=%d" % (diff, len(F["regs"])), i))
                        content = tuple(F["regs"])
                    else:
                        content = F["regfold"]
                    if F["nacm8"] != sum(1 for x in want if x == 0) or F["curmin8"] != 0:
                        bad.append(("hll8-copy-zero-count-wrong", "curMin=%d numAtCurMin=%d zeros=%d" % (F["curmin8"], F["nacm8"], sum(1 for x in want if x == 0)), i))
                # same distinct set => same mode, same content, same composite estimate (any type, order, multiplicity, start-full or not)
                key = (d["lgk"], frozenset(S))
                prev = by_content.get(key)
                if prev is None:
                    by_content[key] = (F["mode"], content, F["comp"], d["sf"])
                else:
                    if prev[3] == d["sf"] and prev[0] != F["mode"]:
                        bad.append(("mode-not-a-function-of-the-distinct-set", "%d vs %d" % (prev[0], F["mode"]), i))
                    if prev[0] == F["mode"] and prev[1] != content:
                        bad.append(("content-not-a-function-of-the-distinct-set", o[:60], i))
                    if prev[0] == F["mode"] and not close(prev[2], F["comp"]):
                        bad.append(("composite-estimate-differs-for-same-content", "%s vs %s" % (prev[2], F["comp"]), i))
                # in-order estimate agrees across types for the same order
                if not F["ooo"]:
                    k2 = (d["lgk"], d["sf"], tuple(d["seq"]))
                    p2 = by_seq.get(k2)
                    if p2 is None:
                        by_seq[k2] = F["est"]
                    elif not close(p2, F["est"]):
                        bad.append(("in-order-estimate-differs-across-types", "%s vs %s" % (p2, F["est"]), i))
                else:
                    bad.append(("out-of-order-flag-on-a-plain-sketch", o[:60], i))
                est = fval(F["est"])
                for kk in range(3):
                    if not (fval(F["lb"][kk]) <= est <= fval(F["ub"][kk])):
                        bad.append(("bounds-order", "k=%d lb=%r est=%r ub=%r n=%d" % (kk + 1, fval(F["lb"][kk]), est, fval(F["ub"][kk]), len(S)), i))
            elif op == "raw":
                d = sk[int(w[1])]
                W = parse_W(o)
                if W is None:
                    bad.append(("bad-observation", o[:80], i)); continue
                S = set(d["seq"])
                if W["kind"] == "coupons":
                    got = [x for x in W["arr"] if x != 0]
                    if sorted(got) != sorted(S):
                        bad.append(("own-image-coupons-wrong", o[:80], i))
                else:
                    own = decode_own(d["tt"], d["lgk"], W)
                    want = regs_of(S, d["lgk"])
                    if own is not None and own != want:
                        diff = [(s, own[s], want[s]) for s in range(len(want)) if own[s] != want[s]][:3]
                        bad.append(("own-image-registers-wrong", "type=%d (slot, got, want)=%s" % (d["tt"], diff), i))
                    if d["tt"] == 4 and own is not None:
                        mn = min(want)
                        if W["curmin"] != mn or W["nacm"] != sum(1 for x in want if x == mn):
                            bad.append(("hll4-curmin-bookkeeping-wrong", "curMin=%d numAtCurMin=%d want %d/%d" % (W["curmin"], W["nacm"], mn, sum(1 for x in want if x == mn)), i))
                        nexc = sum(1 for x in want if x - mn >= 15)
                        if W["auxcount"] != nexc:
                            bad.append(("hll4-aux-count-wrong", "auxCount=%d exceptions=%d" % (W["auxcount"], nexc), i))
        return bad

    def nontrivial_key(self, hist, impl_out):
        cfg = {}
        sig = []
        shifts = aux = 0
        for l, o in zip(hist, impl_out):
            w = l.split()
            if w[0] == "raw":
                W = parse_W(o)
                if W and W["kind"] == "hll":
                    import zlib
                    sig.append((W["curmin"], W["auxcount"], zlib.crc32(o.encode())))
                    shifts += W["curmin"] > 0
                    aux += W["auxcount"] > 0
        t = getattr(self, "_trans", None)
        if t is not None:
            t["histories_with_cur_min_shift"] = t.get("histories_with_cur_min_shift", 0) + (shifts > 0)
            t["histories_with_aux_exceptions"] = t.get("histories_with_aux_exceptions", 0) + (aux > 0)
            t["histories_reaching_hll_mode"] = t.get("histories_reaching_hll_mode", 0) + (len(sig) > 0)
        if not sig:
            return None
        return (hist[0], tuple(sig[-3:]))

    # ------------------------------------------------------------------ extra stages: translator tie + coupon tie
    def extra_stages(self, rep, tier, rng, broken):
        self._trans = rep.cov.setdefault("transitions_hit", {})
        exe = core.harness_exe("hll_h")
        if not os.path.exists(exe):
            return
        # (2) translator tie: generated values == values of the compiled headers
        try:
            spec = importlib.util.spec_from_file_location("trules_hll", os.path.join(core.ROOT, "tools", "trules", "hll.py"))
            mod = importlib.util.module_from_spec(spec); spec.loader.exec_module(mod)
            tspec = importlib.util.spec_from_file_location("translate", os.path.join(core.ROOT, "tools", "translate.py"))
            T = importlib.util.module_from_spec(tspec); tspec.loader.exec_module(T)
            R = mod.extract(core.REPO, T)
            out, oc, err = core.run_lines([exe, "tables"], [], timeout=60, env=core.ASAN_ENV)
            comp = {l.split()[0]: l.split()[1:] for l in out if l.split()}
            ncmp = 0
            mism = []
            for name, vals in R.items():
                if name == "hll_compX":
                    items = [("hll_compX_%d" % i, row) for i, row in enumerate(vals)]
                else:
                    items = [(name, vals if isinstance(vals, list) else [vals])]
                for nm, vs in items:
                    if nm not in comp:
                        continue
                    got = comp[nm]
                    dbl = nm not in ("hll_consts", "hll_LG_AUX_ARR_INTS", "hll_yStrides")
                    want = [("%016x" % v) if dbl else str(v) for v in vs]
                    ncmp += len(want)
                    if got != want:
                        mism.append(nm)
            rep.cov["translator_values_compared"] = ncmp
            if mism or oc != "ok" or ncmp < 4960:
                broken.append(("translator-tie", "tools/trules/hll.py", "generated != compiled for %s (%s, %d compared)" % (mism[:5], oc, ncmp)))
        except Exception as ex:
            broken.append(("translator-tie", "tools/trules/hll.py", "exception %r" % ex))
        # coupon tie: hash + canonicalisation + coupon function, all 12 overloads
        n = 3000 if tier == "quick" else 30000
        ins = [gen.rand_input(rng, rng.choice([50, 100000])) for _ in range(n)] + [("u64", str(x)) for x, _, _ in pool()["high"][:200]]
        lines = ["coupon %s %s" % t for t in ins]
        io, ioc, ierr = core.run_impl(exe, lines, ["coupon"], timeout=120)
        mo, moc, merr = core.run_model("dsmodel_hll", "coupon", lines, timeout=120)
        d = core.first_diff(io, mo)
        rep.cov["coupon_tie_inputs"] = len(lines)
        if ioc != "ok" or moc != "ok" or d is not None:
            what = "coupon of `%s`: impl=%r model=%r" % (lines[d], io[d] if d < len(io) else None, mo[d] if d < len(mo) else None) if d is not None else "%s/%s" % (ioc, moc)
            rep.violation("coupon-function-differs", dict(kind="correspondence", part="coupon"), [lines[d]] if d is not None else [], d is not None, what)


SPEC = C03()

CLAIM = dict(
    text=("Kernel-checked theorems over ALL coupon streams, lg_k, target types and tunables of an executable Lean model of hll_sketch: "
          "in HLL mode every register is the maximum coupon value of its slot (hll_regs_max); LIST/SET mode holds exactly the distinct "
          "coupons (hll_coupons_exact); mode, coupon set and registers are a function of the SET of distinct coupons - order and "
          "multiplicity do not matter (hll_content_fun_of_set); HLL_4/6/8, a start-full-size sketch and a converted copy hold the same "
          "content (hll_types_agree, hll_start_full_agrees, hll_convert_preserves); emptiness is exact (hll_empty_iff); the concrete "
          "arrays refine the register abstraction: HLL_4 nibbles + cur_min + aux exceptions + shiftToBiggerCurMin with every throw branch "
          "unreachable (hll4_refines, hll4_stream_agrees), HLL_6 bit packing (hll6_refines), HLL_8 (hll8_refines); in exact arithmetic "
          "kxq0+kxq1 = sum of 2^-register, so the composite estimate is a function of the registers (hll_kxq_exact, table obligation "
          "gen_invPow2_exact). The model (incl. the estimators executed in the code's floating-point operation order, compared bit for "
          "bit) is tied to the real headers by differential correspondence on generated histories, by the property oracle on every "
          "implementation trace, and by tables/constants regenerated from the headers and cross-checked against the compiled values."),
    note=("Modelled, not verified: MurmurHash3 transcription (tied differentially through the coupon function); floating-point estimates "
          "and the bound order lb <= est <= ub are executed, compared and checked by the oracle but not proved (accuracy: C06); the "
          "hash-set duplicate test is modelled as membership and the aux-map open addressing as an association list; register values "
          "above ~25 are never produced by hashing within the search budget (the theorems cover them, correspondence does not)."),
    technique="Lean 4 invariant/refinement proofs + differential correspondence (model vs real headers, ASan/UBSan) + trace oracle + translator tie",
    design="DESIGN.md §3 C03")

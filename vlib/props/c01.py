"""C01 — Theta update sketch is an exact hash-threshold sample (DESIGN.md 3 C01)."""
from .. import core, gen
from ..runner import Spec, Part

MAXT = 2**63 - 1


def model_hashes(inputs):
    """[(ty, lit, seed)] -> list of h1>>1 (int) or None (ignored), via the Lean Murmur/Canon model."""
    lines = ["hash %s %s %s" % t for t in inputs]
    out, oc, err = core.run_model("dsmodel_theta", "hash", lines)
    res = []
    for l in out:
        w = l.split()
        res.append(int(w[1], 16) if w and w[0] == "H1" else None)
    if len(res) != len(inputs):
        raise RuntimeError("hash model failed: %s %s" % (oc, err[-300:]))
    return res


def parse_T(line):
    w = line.split()
    if not w or w[0] != "T":
        return None
    d = dict(theta=int(w[1]), empty=w[2] == "1", est_mode=w[3] == "1", ordered=w[4] == "1", n=int(w[5]), est=w[6], seedhash=int(w[7]))
    if len(w) > 8 and w[8] == "fold":
        d["ents"] = None
    else:
        d["ents"] = [int(x) for x in w[8:]]
    return d


class C01(Spec):
    pid = "C01"
    props_modules = ["DSProofs.Props.C01", "DSProofs.Props.C01_Table", "DSProofs.Gen.Theta"]
    harness = "theta_h"
    model_exe = "dsmodel_theta"
    family = "theta"
    tfamilies = ["theta"]
    rule = ("histories over 1-3 live update sketches (lg_k 5-7 quick / 5-10 thorough, all resize factors, p in {1,.5,.1,1e-3,1-2^-24}, "
            "seeds {9001, random}) with updates of all 12 overloads incl. boundary literals and 0-90% duplicates, interleaved "
            "trim/reset/compact/copy; a history is non-trivial when some sketch reached estimation mode by a rebuild (theta below "
            "its starting value) or was trimmed/reset after >= 10 updates; distinct = distinct (lg_k, rf, p, seed, final theta, final n) signature")
    trusted_base = ["Lean 4.33 kernel", "axioms: propext, Quot.sound, Classical.choice",
                    "DSModel/Murmur3.lean is the published MurmurHash3_x64_128 (hand transcription, tied to the code by hash correspondence)",
                    "correspondence harness harness/theta_h.cpp + generators (sampled histories; public-API observations)",
                    "L1 abstracts the table to a sorted association list; L2 models the open-addressing table with a proved refinement (advisory slot-order tie)"]
    assumptions = ["theorems are about DSModel/Theta/Update.lean; the tie to theta_update_sketch_base_impl.hpp is differential (sampled)",
                   "63-bit hash value 0 is dropped by design (reserved empty-slot marker)"]

    def generate(self, rng, tier):
        nh = 120 if tier == "quick" else 1200
        hs = []
        for i in range(nh):
            h = []
            nsk = rng.choice([1, 1, 2, 3])
            cfgs = []
            for s in range(nsk):
                lgk = rng.choice([5, 5, 6, 7] if tier == "quick" else [5, 6, 7, 8, 9, 10])
                rf = rng.randrange(4)
                p = rng.choice(gen.P_CHOICES)[0] if rng.random() < 0.5 else "3f800000"
                seed = 9001 if rng.random() < 0.7 else rng.randrange(1, 2**64)
                h.append("new %d %d %d %s %d" % (s, lgk, rf, p, seed))
                cfgs.append((lgk, rf, p, seed))
            nops = rng.choice([20, 80, 200, 400]) if tier == "quick" else rng.choice([50, 400, 1500, 4000])
            live = list(range(nsk))
            nxt = nsk
            compacts = []
            for s, (lgk, rf, p, seed) in enumerate(cfgs):
                pass
            universe = rng.choice([8, 40, 200, 4000])
            types = None if rng.random() < 0.6 else [rng.choice(["u64", "i64", "i32", "f64", "str", "u8", "raw"])]
            for j in range(nops):
                r = rng.random()
                s = rng.choice(live)
                if r < 0.9:
                    ty, lit = gen.rand_input(rng, universe, types)
                    h.append("upd %d %s %s" % (s, ty, lit))
                elif r < 0.92:
                    h.append("trim %d" % s)
                elif r < 0.93:
                    h.append("reset %d" % s)
                elif r < 0.96:
                    h.append("compact %d %d %d" % (s, 100 + len(compacts), rng.randrange(2)))
                    compacts.append(100 + len(compacts))
                elif r < 0.98 and nxt < 8:
                    h.append("copy %d %d" % (s, nxt))
                    live.append(nxt)
                    nxt += 1
                elif r < 0.985 and len(live) > 1:
                    # assignment into a live sketch of another configuration (the harness assigns when the target exists), then reset
                    # and reuse: everything the target does afterwards must follow the SOURCE's configuration (p, lg_k, seed, resize factor)
                    d = rng.choice([x for x in live if x != s])
                    h.append("copy %d %d" % (s, d))
                    if rng.random() < 0.7:
                        h.append("reset %d" % d)
                    for _ in range(rng.choice([3, 30, 120])):
                        ty, lit = gen.rand_input(rng, universe, types)
                        h.append("upd %d %s %s" % (d, ty, lit))
                elif compacts:
                    c = rng.choice(compacts)
                    h.append("compact %d %d %d" % (c, 100 + len(compacts), rng.randrange(2)))
                    compacts.append(100 + len(compacts))
            hs.append(h)
        return hs

    # ---- the property statement itself, on one implementation trace
    def oracle(self, hist, impl_out):
        bad = []
        cfg = {}      # id -> dict(lgk, p, seed, theta0)
        seen = {}     # id -> set of hashes since last reset (None = compact: frozen snapshot)
        last = {}     # id -> last observation
        inputs = []
        for l in hist:
            w = l.split()
            if w[0] == "new":
                cfg[int(w[1])] = dict(lgk=int(w[2]), seed=int(w[5]))
            if w[0] == "copy" and int(w[1]) in cfg:
                cfg[int(w[2])] = cfg[int(w[1])]
            if w[0] == "upd":
                inputs.append((w[2], w[3], cfg[int(w[1])]["seed"]))
        try:
            hashes = model_hashes(inputs) if inputs else []
        except Exception as e:
            return []
        cfg = {}
        hi = 0
        for i, l in enumerate(hist):
            if i >= len(impl_out):
                break
            w = l.split()
            o = parse_T(impl_out[i])
            if o is None:
                if impl_out[i].strip() != "throw":
                    bad.append(("bad-observation", impl_out[i][:80], i))
                if w[0] == "upd":
                    hi += 1
                continue
            op = w[0]
            if op == "new":
                sid = int(w[1])
                cfg[sid] = dict(lgk=int(w[2]), seed=int(w[5]), theta0=gen.theta0_of_p(w[4]), upd=True)
                seen[sid] = set()
                last[sid] = None
                tgt = sid
            elif op == "upd":
                sid = int(w[1])
                hv = hashes[hi]
                hi += 1
                if hv is not None:
                    seen[sid] = seen[sid] | {hv}
                    cfg[sid] = dict(cfg[sid], touched=True)
                tgt = sid
            elif op == "trim":
                tgt = int(w[1])
                if o["n"] > 2 ** cfg[tgt]["lgk"]:
                    bad.append(("trim-leaves-more-than-k", "n=%d k=%d" % (o["n"], 2 ** cfg[tgt]["lgk"]), i))
            elif op == "reset":
                tgt = int(w[1])
                seen[tgt] = set()
                cfg[tgt] = dict(cfg[tgt], touched=False)
                last[tgt] = None
                if not o["empty"] or o["n"] != 0 or o["theta"] != MAXT:
                    bad.append(("reset-not-empty", impl_out[i][:80], i))
            elif op == "copy":
                src, tgt = int(w[1]), int(w[2])
                cfg[tgt] = dict(cfg[src])
                seen[tgt] = set(seen[src]) if seen[src] is not None else None
                last[tgt] = last.get(src)
                if last.get(src) is not None and (o["theta"], o["empty"], o["ents"]) != (last[src]["theta"], last[src]["empty"], last[src]["ents"]):
                    bad.append(("copy-differs", impl_out[i][:80], i))
            elif op == "compact":
                src, tgt = int(w[1]), int(w[2])
                cfg[tgt] = dict(cfg[src], upd=False)
                seen[tgt] = None
                ls = last.get(src)
                if ls is not None:
                    if (o["theta"], o["empty"]) != (ls["theta"], ls["empty"]) or sorted(o["ents"] or []) != sorted(ls["ents"] or []):
                        bad.append(("compact-differs-from-source", impl_out[i][:80], i))
                    want_ord = (w[3] == "1") or ls["ordered"]
                    if o["ordered"] != want_ord:
                        bad.append(("compact-ordered-flag", impl_out[i][:80], i))
                if o["ordered"] and o["ents"] is not None and o["ents"] != sorted(o["ents"]):
                    bad.append(("ordered-form-not-sorted", impl_out[i][:80], i))
                last[tgt] = o
                continue
            else:
                continue
            c = cfg[tgt]
            if o["ents"] is None:
                last[tgt] = o
                continue
            if c.get("upd") and seen.get(tgt) is not None:
                sn = seen[tgt]
                theta = o["theta"]
                if o["empty"]:
                    if c.get("touched"):
                        bad.append(("empty-after-update", impl_out[i][:80], i))
                    if theta != MAXT or o["n"] != 0:
                        bad.append(("empty-sketch-theta-or-count", impl_out[i][:80], i))
                else:
                    want = sorted(x for x in sn if 0 < x < theta)
                    got = sorted(o["ents"])
                    if got != want or o["n"] != len(got):
                        missing = [x for x in want if x not in got][:3]
                        extra = [x for x in got if x not in want][:3]
                        dup = len(got) != len(set(got))
                        bad.append(("retained-not-exact", "missing=%s extra=%s dup=%s theta=%d" % (missing, extra, dup, theta), i))
                    if not (theta == c["theta0"] or theta in sn):
                        bad.append(("theta-not-start-or-seen", "theta=%d" % theta, i))
                    if theta > c["theta0"]:
                        bad.append(("theta-above-start", "theta=%d" % theta, i))
                    if theta < c["theta0"] and o["n"] < 2 ** c["lgk"]:
                        bad.append(("theta-below-start-with-fewer-than-k", "theta=%d n=%d" % (theta, o["n"]), i))
                    pl = last.get(tgt)
                    if pl is not None and not pl["empty"] and theta > pl["theta"]:
                        bad.append(("theta-increased", "%d -> %d" % (pl["theta"], theta), i))
                    nd = len([x for x in sn if 0 < x])
                    if c["theta0"] == MAXT and nd <= 2 ** c["lgk"] and MAXT not in sn:
                        if theta != MAXT or o["n"] != nd or o["est"] != gen.f64hex(float(nd)):
                            bad.append(("not-exact-while-fits", "distinct=%d n=%d theta=%d est=%s" % (nd, o["n"], theta, o["est"]), i))
            last[tgt] = o
        return bad

    def nontrivial_key(self, hist, impl_out):
        if not impl_out:
            return None
        news = [l.split() for l in hist if l.startswith("new ")]
        th0 = {int(w[1]): gen.theta0_of_p(w[4]) for w in news}
        rebuilt = False
        fin = []
        lastobs = {}
        for l, o in zip(hist, impl_out):
            w = l.split()
            if w[0] in ("new", "upd", "trim", "reset"):
                d = parse_T(o)
                if d:
                    lastobs[int(w[1])] = d
                    if not d["empty"] and int(w[1]) in th0 and d["theta"] < th0[int(w[1])]:
                        rebuilt = True
        big = sum(1 for l in hist if l.startswith("upd")) >= 10 and any(l.startswith(("trim", "reset")) for l in hist)
        if not (rebuilt or big):
            return None
        return tuple(tuple(w[2:6]) for w in news) + tuple((k, v["theta"], v["n"]) for k, v in sorted(lastobs.items()))


class C01L2(Part):
    """L2 tie: the concrete open-addressing table model against the real table's own slot (= iteration) order.
    Until the first rebuild of a sketch the order is fully determined (stride probing, resize re-insertion order);
    after a rebuild std::nth_element's output order is unspecified, so only the set is compared."""
    name = "l2table"
    advisory = True
    harness = "theta_h"
    harness_args = ("raw",)
    model_exe = "dsmodel_theta"
    family = "thetaL2"

    def generate(self, rng, tier):
        hs = []
        for _ in range(40 if tier == "quick" else 400):
            lgk = rng.choice([5, 5, 6, 7] if tier == "quick" else [5, 6, 7, 8, 9])
            h = ["new 0 %d %d %s %d" % (lgk, rng.randrange(4), rng.choice(["3f800000", "3f800000", "3f000000"]),
                                        9001 if rng.random() < 0.7 else rng.randrange(1, 2**40))]
            universe = rng.choice([50, 500, 5000])
            for _j in range(rng.choice([30, 100, 300] if tier == "quick" else [100, 600, 3000])):
                r = rng.random()
                if r < 0.97:
                    h.append("upd 0 u64 %d" % rng.randrange(universe))
                elif r < 0.985:
                    h.append("trim 0")
                else:
                    h.append("reset 0")
            hs.append(h)
        return hs

    def diff(self, hist, impl_out, model_out):
        n = max(len(impl_out), len(model_out))
        for i in range(n):
            a = impl_out[i].split() if i < len(impl_out) else ["<missing>"]
            b = model_out[i].split() if i < len(model_out) else ["<missing>"]
            if a[0] != "W" or b[0] != "W":
                if a != b:
                    return i
                continue
            if a[1:4] != b[1:4]:
                return i
            ka, kb = a[5:], b[5:]
            if b[4] == "R":
                if ka != kb:
                    return i
            elif sorted(ka, key=int) != sorted(kb, key=int):
                return i
        return None

    def nontrivial_key(self, hist, impl_out):
        if not impl_out:
            return None
        last = impl_out[-1].split()
        if len(last) > 3 and last[0] == "W" and int(last[3]) >= 20:
            return (hist[0], last[1], last[3])
        return None


class C01Hash(Part):
    """Hash tie: the code's MurmurHash3_x64_128 (raw bytes, every length 0..80 incl. every tail residue, several seeds) and its
    canonicalisation of each update overload, against the Lean transcription."""
    name = "hash"
    harness = "theta_h"
    harness_args = ("hash",)
    model_exe = "dsmodel_theta"
    family = "hash"

    def generate(self, rng, tier):
        hs = []
        for _ in range(6 if tier == "quick" else 60):
            h = []
            for n in range(0, 81):
                data = "".join("%02x" % rng.randrange(256) for _ in range(n)) or "-"
                h.append("mm %s %d" % (data, rng.choice([0, 9001, rng.randrange(2**64)])))
            for _j in range(300):
                ty, lit = gen.rand_input(rng, rng.choice([10, 1000, 10**9]))
                h.append("hash %s %s %d" % (ty, lit, rng.choice([9001, 9001, rng.randrange(1, 2**64)])))
            for _j in range(5):
                h.append("seedhash %d" % rng.randrange(2**64))
            hs.append(h)
        return hs

    def nontrivial_key(self, hist, impl_out):
        return (hist[1], len(impl_out))


class C01Spec(C01):
    def parts(self):
        return [self, L2PART, HASHPART]


HASHPART = C01Hash()


L2PART = C01L2()
SPEC = C01Spec()

CLAIM = dict(
    text=("Kernel-checked theorems over ALL operation histories and configurations of an executable Lean model of the update theta "
          "sketch (retained set = distinct nonzero hashes below theta, sorted/distinct; theta antitone, theta in seen or start value, "
          "theta<start => >=k entries, exact while the stream fits, trim<=k, compact exposes the same content), plus a differential tie "
          "of that model and of the Lean MurmurHash3/canonicalisation to the real headers on generated histories, plus the property "
          "oracle on every implementation trace."),
    note=("Two layers: L1 abstracts the table to a key-sorted association list; L2 (DSModel/Theta/Table.lean) models the open-addressing "
          "table itself (odd-stride probing, insert, resize, rebuild) with a kernel-checked refinement to L1 for whole histories "
          "(C01_table_run_refines), tied to the real table's slot order by the advisory part `l2table`. Unspecified and not modelled: the "
          "order std::nth_element leaves (the refinement does not depend on it). Hash value 0 is dropped by design."),
    technique="Lean 4 invariant proof by induction over operation lists + differential correspondence (model vs real headers) + trace oracle",
    design="DESIGN.md §3 C01")

"""C16 — VarOpt: total weight conserved, heavy items exact (DESIGN.md 3 C16)."""
import os, struct
from .. import core
from ..runner import Spec

W_MAX = 2 ** 30

_FLAGS = None


def source_flags():
    """source-shape flags regenerated from the CURRENT headers by tools/trules/varopt.py at the start of this run
    (lean/DSGen/VarOpt.lean).  All false = the tree the check was first built on; a missing file = all false."""
    global _FLAGS
    if _FLAGS is None:
        import re
        try:
            txt = open(os.path.join(core.LEAN, "DSGen", "VarOpt.lean")).read()
            _FLAGS = {k: v == "true" for k, v in re.findall(r"def varopt_(\w+) : Bool := (true|false)", txt)}
        except Exception:
            _FLAGS = {}
    return _FLAGS


def flag(name):
    return bool(source_flags().get(name)) or os.environ.get("C16_UNRESTRICTED") == "1"


# The generators keep away from an operation only while the defect behind it is present in the CURRENT source (flag off):
#   get_result() on a deserialized estimation-mode union : needs deserializeM0 (else it throws) and marksInit (else UBSan)
#   reset() of a deserialized sketch / union             : needs resetRealloc (else heap overflow on the next updates)
# Both remain exercised by the dedicated witnesses of extra_stages.  C16_UNRESTRICTED=1 lifts everything.
def may_use_deserialized_union():
    return flag("deserializeM0") and flag("marksInit")


def may_reset_deserialized():
    return flag("resetRealloc")


def fh(x):
    return "%016x" % struct.unpack("<Q", struct.pack("<d", float(x)))[0]


def hf(s):
    return struct.unpack("<d", struct.pack("<Q", int(s, 16)))[0]


# ------------------------------------------------------------------------------------------------ generator

PATTERNS = ["uniform", "exp", "heavy", "inc", "dec", "giant", "equal", "two", "bigfrac"]


def weights(rng, pattern, n):
    """n integer weights in [1, 2^30) following one of the named patterns."""
    if pattern == "uniform":
        hi = rng.choice([3, 50, 1000, W_MAX - 1])
        return [rng.randint(1, hi) for _ in range(n)]
    if pattern == "exp":
        return [2 ** rng.randint(0, 29) + (rng.randint(0, 3) if rng.random() < 0.3 else 0) for _ in range(n)]
    if pattern == "heavy":
        return [max(1, min(W_MAX - 1, int((1.0 - rng.random()) ** -1.5))) for _ in range(n)]
    if pattern == "inc":
        step = rng.choice([1, 7, 1000])
        return [min(W_MAX - 1, 1 + i * step) for i in range(n)]
    if pattern == "dec":
        step = rng.choice([1, 7, 1000])
        return [max(1, 1 + (n - i) * step) for i in range(n)]
    if pattern == "giant":
        g = rng.randrange(n) if n else 0
        return [(2 ** 29 + rng.randint(0, 5)) if i == g else rng.randint(1, 10) for i in range(n)]
    if pattern == "equal":
        v = rng.choice([1, 5, 2 ** 20])
        return [v] * n
    if pattern == "two":
        a, b = rng.choice([(1, 2), (10, 11), (3, 1000)])
        return [rng.choice([a, b]) for _ in range(n)]
    # "bigfrac": large weights whose averages are not representable (tau = total/r is inexact)
    return [2 ** 29 + rng.randint(0, 9) for _ in range(n)]


def unit_hex(rng):
    r = rng.random()
    if r < 0.03:
        return "3ca0000000000000"        # 2^-53
    if r < 0.06:
        return "3fefffffffffffff"        # 1 - 2^-53
    if r < 0.08:
        return "3fe0000000000000"
    return fh(rng.random() or 0.25)


def draws(rng, nd, ni):
    ds = []
    for _ in range(nd):
        if rng.random() < 0.04:
            ds.append("0000000000000000")   # next_double_exclude_zero() must redraw
        ds.append(unit_hex(rng))
    return "D " + " ".join(ds) + " I " + " ".join(str(rng.randrange(2 ** 32)) for _ in range(ni))


class Gen:
    def __init__(self, rng):
        self.rng = rng
        self.lines = []
        self.next_id = 0
        self.next_item = 0

    def new_id(self):
        self.next_id += 1
        return self.next_id - 1

    def upd(self, sid, w, item=None):
        if item is None:
            item = self.next_item
            self.next_item += 1
        self.lines.append("upd %d %d %s %s" % (sid, item, fh(w) if not isinstance(w, str) else w, draws(self.rng, 1, 1)))

    def sketch(self, k, rf, n, pattern):
        sid = self.new_id()
        self.lines.append("new %d %d %d" % (sid, k, rf))
        for w in weights(self.rng, pattern, n):
            self.upd(sid, w)
        return sid


def gen_single(rng, tier):
    g = Gen(rng)
    k = rng.choice([1, 1, 2, 2, 3, 4, 5, 7, 8, 13, 16, 31, 32]) if rng.random() < 0.7 else rng.randint(1, 32)
    rf = rng.randrange(4)
    pattern = rng.choice(PATTERNS)
    n = rng.choice([k // 2, k, k + 1, k + 2, 2 * k + 3, 4 * k + 5, 8 * k + 1]) + (rng.randint(0, 40) if tier != "quick" else 0)
    sid = g.new_id()
    g.lines.append("new %d %d %d" % (sid, k, rf))
    live = [sid]
    deser = set()      # ids that came out of deserialize(): not reset (known finding reset-after-deserialize, extra stage)
    ws = weights(rng, pattern, n)
    if rng.random() < 0.3:      # mix in a second pattern half way
        ws = ws[: n // 2] + weights(rng, rng.choice(PATTERNS), n - n // 2)
    for w in ws:
        r = rng.random()
        tgt = rng.choice(live) if rng.random() < 0.15 else sid
        g.upd(tgt, w)
        if r < 0.04 and len(live) < 6:
            d = g.new_id()
            g.lines.append("copy %d %d" % (tgt, d))
            live.append(d)
        elif r < 0.09 and len(live) < 6:
            d = g.new_id()
            g.lines.append("serde %d %d" % (tgt, d))
            deser.add(d)
            if rng.random() < 0.5:
                live.append(d)          # keep using the deserialized sketch
        elif r < 0.10 and (tgt not in deser or may_reset_deserialized()):
            g.lines.append("reset %d" % tgt)
    return g.lines


def gen_union(rng, tier):
    g = Gen(rng)
    nsk = rng.choice([2, 2, 3, 4])
    sks = []
    for _ in range(nsk):
        k = rng.choice([1, 2, 3, 4, 6, 8, 12, 16, 32])
        fill = rng.choice(["empty", "under", "full", "over1", "over", "over", "far"])
        n = dict(empty=0, under=max(0, k // 2), full=k, over1=k + 1, over=2 * k + rng.randint(0, 5), far=6 * k + rng.randint(0, 9))[fill]
        sid = g.sketch(k, rng.randrange(4), n, rng.choice(PATTERNS))
        if rng.random() < 0.15:     # go through bytes first
            d = g.new_id()
            g.lines.append("serde %d %d" % (sid, d))
            sid = d
        sks.append((sid, k, n))
    maxk = rng.choice([1, 2, 4, 8, 16, 32, 40])
    uid = g.new_id()
    g.lines.append("unew %d %d" % (uid, maxk))
    results = []

    def res(u):
        d = g.new_id()
        g.lines.append("ures %d %d %s" % (u, d, draws(rng, maxk + 3, maxk + 3)))
        results.append(d)
        return d
    order = list(sks)
    rng.shuffle(order)
    if rng.random() < 0.25:
        order.append(rng.choice(sks))      # the same sketch twice (equal tau)
    fed, any_est = 0, False
    deser_unions = set()   # not reset: reset() after deserialize() is an open finding (RESET_WITNESS)
    for i, (sid, k, n) in enumerate(order):
        g.lines.append("umerge %d %d %s" % (uid, sid, draws(rng, k + 2, k + 2)))
        fed += min(n, k)
        any_est = any_est or n > k
        r = rng.random()
        if r < 0.3:
            res(uid)
        elif r < 0.42:
            d = g.new_id()
            g.lines.append("userde %d %d" % (uid, d))
            deser_unions.add(d)
            if (fed > maxk or any_est) and not may_use_deserialized_union():
                # The gadget went through deserialize() in estimation mode: on the pinned code every later update
                # throws (known finding update-after-deserialize) and get_result() can read uninitialised marks
                # (known finding, demonstrated by a dedicated witness in extra_stages): exhibit the throw, move on.
                if rng.random() < 0.7:
                    g.lines.append("umerge %d %d %s" % (d, rng.choice(sks)[0], draws(rng, 34, 34)))
            else:
                if rng.random() < 0.5:
                    res(d)
                if rng.random() < 0.5:
                    uid = d
        elif r < 0.47:
            d = g.new_id()
            g.lines.append("ucopy %d %d" % (uid, d))
            if uid in deser_unions:
                deser_unions.add(d)
            uid = d
    if rng.random() < 0.35 and uid not in deser_unions:
        # ASSIGN the union into another live union that holds something else (nothing, an exact sketch, a sampling sketch): every bit
        # of gadget bookkeeping (marks in H, outer tau) has to travel with the items; then resolve both
        t = g.new_id()
        g.lines.append("unew %d %d" % (t, rng.choice([maxk, 4, 32])))
        if rng.random() < 0.6:
            g.lines.append("umerge %d %d %s" % (t, rng.choice(sks)[0], draws(rng, 34, 34)))
        g.lines.append("ucopy %d %d" % (uid, t))
        res(t)
        if rng.random() < 0.5:
            g.lines.append("umerge %d %d %s" % (t, rng.choice(sks)[0], draws(rng, 34, 34)))
            res(t)
    d = res(uid)
    # the result is an ordinary sketch: keep updating it
    if rng.random() < 0.7:
        for w in weights(rng, rng.choice(PATTERNS), rng.choice([1, 3, 10, 40])):
            g.upd(d, w)
        if rng.random() < 0.3:
            u2 = g.new_id()
            g.lines.append("unew %d %d" % (u2, rng.choice([2, 8, 32])))
            g.lines.append("umerge %d %d %s" % (u2, d, draws(rng, 45, 45)))
            res(u2)
    if rng.random() < 0.1 and (uid not in deser_unions or may_reset_deserialized()):
        g.lines.append("ureset %d" % uid)
        res(uid)
    return g.lines


def gen_pseudo_exact(rng, tier):
    """estimation-mode inputs that fit into the gadget without down-sampling (the pseudo-exact coercer paths)."""
    g = Gen(rng)
    sks = []
    for _ in range(rng.choice([1, 2, 3])):
        k = rng.choice([1, 2, 3, 4])
        sks.append(g.sketch(k, 0, k + rng.randint(1, 4), rng.choice(PATTERNS)))
    if rng.random() < 0.6:
        k = rng.choice([4, 8])
        sks.append(g.sketch(k, 0, rng.randint(1, k), rng.choice(PATTERNS)))
    if rng.random() < 0.4:
        sks.append(rng.choice(sks))
    rng.shuffle(sks)
    uid = g.new_id()
    maxk = rng.choice([16, 32, 40])
    g.lines.append("unew %d %d" % (uid, maxk))
    if rng.random() < 0.5:
        # a union that has ALREADY been in sampling mode, was reset() and is reused: whatever the gadget accumulated before the reset
        # (R-region weight, marks, outer tau) must be gone when the pseudo-exact resolution reads it
        big = g.sketch(rng.choice([maxk, 2 * maxk]), 0, 3 * maxk + rng.randint(0, 9), rng.choice(PATTERNS))
        g.lines.append("umerge %d %d %s" % (uid, big, draws(rng, 2 * maxk + 2, 2 * maxk + 2)))
        if rng.random() < 0.5:
            g.lines.append("ures %d %d %s" % (uid, g.new_id(), draws(rng, 45, 45)))
        g.lines.append("ureset %d" % uid)
        if rng.random() < 0.3:
            g.lines.append("ures %d %d %s" % (uid, g.new_id(), draws(rng, 45, 45)))
    for s in sks:
        g.lines.append("umerge %d %d %s" % (uid, s, draws(rng, 10, 10)))
    d = g.new_id()
    g.lines.append("ures %d %d %s" % (uid, d, draws(rng, 45, 45)))
    for w in weights(rng, rng.choice(PATTERNS), rng.choice([0, 2, 8, 30])):
        g.upd(d, w)
    return g.lines


def gen_malformed(rng, tier):
    g = Gen(rng)
    bad_w = ["0000000000000000", "8000000000000000", "bff0000000000000", "7ff8000000000000", "7ff0000000000000",
             "fff0000000000000", "0000000000000001", "7e37e43c8800759c"]
    g.lines.append("new 0 %d 0" % rng.choice([0, 2 ** 31 - 1, 2 ** 31 - 2 if False else 3]))
    g.lines.append("new 1 3 %d" % rng.randrange(4))
    for i in range(rng.randint(3, 12)):
        if rng.random() < 0.5:
            g.upd(1, rng.choice(bad_w))
        else:
            g.upd(1, rng.randint(1, 9))
        if rng.random() < 0.2:
            g.upd(0, 1)
    g.lines.append("unew 2 %d" % rng.choice([0, 4]))
    g.lines.append("umerge 2 1 %s" % draws(rng, 6, 6))
    g.lines.append("ures 2 3 %s" % draws(rng, 6, 6))
    g.lines.append("umerge 2 0")
    g.lines.append("serde 0 4")
    g.lines.append("serde 1 5")
    return g.lines


# ------------------------------------------------------------------------------------------------ oracle

def parse_S(line):
    w = line.split()
    if not w or w[0] != "S":
        return None
    parts = " ".join(w[1:]).split("|")
    if len(parts) != 5:
        return None
    hd = parts[0].split()
    items = []
    for t in parts[1].split():
        a, b = t.split(":")
        items.append((int(a), hf(b)))
    subs = []
    for p in parts[2:]:
        q = p.split()
        subs.append(None if q == ["throw"] else tuple(hf(x) for x in q))
    return dict(n=int(hd[0]), k=int(hd[1]), ns=int(hd[2]), items=items, subs=subs)


def close(a, b, rel):
    return abs(a - b) <= rel * max(abs(a), abs(b), 1e-300)


PREDS = [lambda x: True, lambda x: x % 2 == 0, lambda x: x % 3 == 0]


class Lin:
    """what the history says about one sketch object"""
    def __init__(self, k):
        self.k = k
        self.inputs = {}        # item -> true weight (a fresh item id is used for every update of a history)
        self.mult = {}          # item -> multiplicity (> 1 only when a sketch reaches a union more than once)
        self.n = 0
        self.total = 0.0
        self.exact = True       # totals are sums of integers < 2^53: compare with ==
        self.kind = "plain"     # plain | result (came out of a union)
        self.stale = False      # went through deserialize() while in estimation mode
        self.tainted = False    # a violation was already reported on this lineage: consequences are not re-reported
        self.pe_shaped = False  # union result built from a gadget that never down-sampled but held reservoir items of its
                                # inputs: the pseudo-exact coercer may have produced it (known findings on the pinned code)
        self.last_tau = None
        self.obs = None

    def clone(self):
        c = Lin(self.k)
        c.__dict__.update(self.__dict__)
        c.inputs = dict(self.inputs)
        c.mult = dict(self.mult)
        return c


class ULin:
    def __init__(self, maxk):
        self.maxk = maxk
        self.n = 0
        self.total = 0.0
        self.inputs = {}
        self.mult = {}
        self.stale = False
        self.tainted = False
        self.merged = 0
        self.fed = 0
        self.any_est = False

    def clone(self):
        c = ULin(self.maxk)
        c.__dict__.update(self.__dict__)
        c.inputs = dict(self.inputs)
        c.mult = dict(self.mult)
        return c


def check_sketch(L, o, bad, i, tag=""):
    """the property statement on one observed sketch state `o` with history summary `L`."""
    if L.tainted:
        return
    nbad = len(bad)
    rel = 0.0 if L.exact else 1e-9
    items = o["items"]
    if o["n"] != L.n:
        bad.append((tag + "n-differs-from-history", "n=%d expected %d" % (o["n"], L.n), i))
    if o["k"] > L.k if L.kind == "result" else o["k"] != L.k:
        bad.append((tag + "k-wrong", "k=%d expected %s%d" % (o["k"], "<=" if L.kind == "result" else "", L.k), i))
    if len(items) != o["ns"]:
        bad.append((tag + "iterator-length-differs-from-num_samples", "%d vs %d" % (len(items), o["ns"]), i))
    if L.kind == "plain" and o["ns"] != min(L.n, L.k):
        bad.append((tag + "num_samples-not-min-n-k", "num_samples=%d n=%d k=%d" % (o["ns"], L.n, L.k), i))
    if o["ns"] > o["k"] or o["ns"] > o["n"]:
        bad.append((tag + "more-samples-than-k-or-n", "num_samples=%d k=%d n=%d" % (o["ns"], o["k"], o["n"]), i))
    cnt = {}
    for x, w in items:
        cnt[x] = cnt.get(x, 0) + 1
    for x, c in cnt.items():
        if x not in L.inputs:
            bad.append((tag + "sample-not-an-input", "item %d" % x, i))
            L.tainted = True
            return
        if c > L.mult.get(x, 1):
            bad.append((tag + "sample-more-often-than-in-input", "item %d: %d times, offered %d times" % (x, c, L.mult.get(x, 1)), i))
    s = sum(w for _, w in items)
    if not close(s, L.total, max(rel, 1e-12)):
        bad.append((tag + "adjusted-weights-do-not-sum-to-total", "sum=%r total=%r" % (s, L.total), i))
    est_mode = o["n"] > o["ns"]
    if not est_mode:
        got = sorted(items)
        want = sorted(L.inputs.items())
        if L.kind == "plain" and got != want:
            bad.append((tag + "exact-mode-samples-differ-from-inputs", "%s vs %s" % (got[:4], want[:4]), i))
    else:
        tau = items[-1][1] if items else 0.0
        light = [(x, w) for x, w in items if w < tau and not close(w, tau, rel)]
        if light:
            bad.append((tag + "sample-lighter-than-tau", "item %d weight %r < tau %r" % (light[0][0], light[0][1], tau), i))
        for x, w in items:
            if w > tau and not close(w, tau, max(rel, 1e-12)) and w != L.inputs[x]:
                bad.append((tag + "heavy-sample-without-its-exact-weight", "item %d has %r, input weight %r" % (x, w, L.inputs[x]), i))
                break
        for x, w in L.inputs.items():
            if w > tau and not close(w, tau, max(rel, 1e-12)) and cnt.get(x, 0) != L.mult.get(x, 1):
                bad.append((tag + "heavy-item-missing", "item %d weight %r > tau %r: %d of %d copies in the sample" % (x, w, tau, cnt.get(x, 0), L.mult.get(x, 1)), i))
                break
        # H is exposed first and in array order, R (all weights exactly tau) last: H must be a binary min-heap,
        # otherwise peek_min() is not the minimum and later updates evict the wrong items
        ntrail = 0
        while ntrail < len(items) and items[len(items) - 1 - ntrail][1] == tau:
            ntrail += 1
        hp = [w for _, w in items[:len(items) - ntrail]]
        for j in range(1, len(hp)):
            if hp[(j - 1) // 2] > hp[j]:
                bad.append((tag + "not-heap-ordered", "H weights %s: slot %d (%r) lighter than its parent (%r)" % (hp[:8], j, hp[j], hp[(j - 1) // 2]), i))
                break
        if L.last_tau is not None and tau < L.last_tau and not close(tau, L.last_tau, max(rel, 1e-12)):
            bad.append((tag + "tau-decreased", "%r -> %r" % (L.last_tau, tau), i))
        L.last_tau = tau
    for j, sub in enumerate(o["subs"]):
        if sub is None:
            bad.append((tag + "estimate_subset_sum-throws", "predicate %d" % j, i))
            continue
        lb, est, ub, tot = sub
        if not (lb <= est <= ub):
            bad.append((tag + "subset-sum-bounds-out-of-order", "pred %d: lb=%r est=%r ub=%r" % (j, lb, est, ub), i))
        if j == 0 and not close(est, L.total, rel):
            bad.append((tag + "subset-sum-of-everything-is-not-the-total", "est=%r total=%r" % (est, L.total), i))
        if est_mode and not close(tot, L.total, rel):
            bad.append((tag + "total_sketch_weight-wrong", "%r vs %r" % (tot, L.total), i))
        if not est_mode and L.kind == "plain":
            want = float(sum(w for x, w in L.inputs.items() if PREDS[j](x)))
            if est != want or lb != want or ub != want:
                bad.append((tag + "exact-mode-subset-sum-wrong", "pred %d: %r %r %r want %r" % (j, lb, est, ub, want), i))
        # the estimate can never exceed what the whole sketch weighs
        if est > L.total and not close(est, L.total, max(rel, 1e-12)):
            bad.append((tag + "subset-estimate-above-total", "pred %d: %r > %r" % (j, est, L.total), i))
    if len(bad) > nbad:
        L.tainted = True


PE_SYMPTOMS = set("union-result-lineage-" + x for x in
                  ("not-heap-ordered", "sample-lighter-than-tau", "heavy-item-missing", "tau-decreased",
                   "heavy-sample-without-its-exact-weight"))


def valid_weight(x):
    return x == x and x not in (float("inf"), float("-inf")) and x >= 0.0


class C16(Spec):
    pid = "C16"
    props_modules = ["DSProofs.Props.C16", "DSProofs.Props.C16_Repaired"]
    harness = "varopt_h"
    model_exe = "dsmodel_varopt"
    family = "varopt"
    tfamilies = ["varopt"]
    timeout = 180
    rule = ("histories over several live var_opt_sketch<int64> / var_opt_union<int64> objects: k 1..32, all resize factors, integer "
            "weights < 2^30 in nine patterns (uniform, exponentially spread, heavy-tailed, increasing, decreasing, one giant item, all "
            "equal, two values, large-with-inexact-averages), streams of 0..8k+41 items, copies / serialize->deserialize (bytes and "
            "stream) / reset in between, unions of 2-5 sketches of different k and fill (empty, under-full, exactly full, k+1, far "
            "over) into max_k 1..40 with intermediate get_result / union serialize->deserialize / copy, further updates of union "
            "results, dedicated pseudo-exact unions, plus a malformed stream (k=0, k>MAX_K, weights 0/-0/negative/NaN/inf/denormal, "
            "dead objects); get_result() on deserialized unions and reset() of deserialized objects are generated whenever the source-shape "
            "flags say the corresponding repair is present; every uniform draw is supplied on the op line through the H2 hook (incl. 0.0 "
            "redraws and boundary values). "
            "A history is non-trivial when some sketch reached estimation mode or a union result was produced; "
            "distinct = distinct (k's, final n's, final sample counts, number of draws consumed) signature")
    trusted_base = ["Lean 4.33 kernel", "axioms: propext, Quot.sound, Classical.choice",
                    "theorems are about the Rat instance of DSModel/VarOpt/*.lean (exact arithmetic); the Float instance of the SAME "
                    "definitions is what is compared bit for bit with the real headers (floating-point rounding is not modelled in theorems)",
                    "correspondence harness harness/varopt_h.cpp + generators (sampled histories; public-API observations; ASan+UBSan)",
                    "random-source hook H2 (var_opt_sketch::next_int / next_double_exclude_zero read the harness-supplied draws)",
                    "tools/trules/varopt.py (MAX_K, MIN_LG_ARR_ITEMS, DEFAULT_KAPPA, default resize factor, coercer tolerance, valid-mode slack, erf "
                    "coefficients, and seven source-shape flags selecting the model variant / generator restrictions; unknown shape = translation failure)"]
    assumptions = ["items are int64 (the harness instantiation); item identity plays no role in the algorithm",
                   "pseudo_hypergeometric_{lb,ub}_on_p are abstract in vo_subset_bounds_partial: hypothesis 0 <= lb <= r_true/r <= ub",
                   "serialize->deserialize is modelled as a state transformer (byte layout: C09/C10)",
                   "array capacities (curr_items_alloc_, resize factor) are modelled but unobservable through the public API"]

    # ---- witness of the uninitialised-marks read (a sanitizer abort cannot be an observation line, so it cannot live in
    #      the regress corpus; the generators keep away from get_result() on a deserialized estimation-mode union)
    UNINIT_MARKS_WITNESS = (
        ["new 0 2 0"] + ["upd 0 %d %s D %s I 1" % (i, fh(10), fh(0.5)) for i in (1, 2, 3)] +
        ["new 1 4 0"] + ["upd 1 %d %s D %s I 1" % (i, fh(1), fh(0.5)) for i in (4, 5)] +
        ["unew 2 3", "umerge 2 0 D %s %s %s I 1 2 3" % (fh(0.5), fh(0.25), fh(0.75)),
         "umerge 2 1 D %s %s %s I 1 2 3" % (fh(0.5), fh(0.25), fh(0.75)), "userde 2 3",
         "ures 3 4 D %s %s %s I 1 2 3" % (fh(0.5), fh(0.25), fh(0.75))])

    # ---- witness of reset() after deserialize() of an under-full sketch (heap overflow on the following updates)
    RESET_WITNESS = (["new 0 16 1", "upd 0 2 %s" % fh(5), "serde 0 2", "reset 2"] +
                     ["upd 2 %d %s" % (i, fh(3)) for i in range(3, 9)])

    def extra_stages(self, rep, tier, rng, broken):
        ok, exe, hlog = core.compile_harness(self.harness)
        if not ok:
            return
        io, ioc, ierr = core.run_impl(exe, self.RESET_WITNESS, (), timeout=60)
        rep.cov["reset_witness_outcome"] = ioc
        if ioc == "asan" and "heap-buffer-overflow" in ierr and "update_warmup_phase" in ierr:
            rep.violation("heap-overflow-after-reset-of-deserialized-sketch", dict(kind="safety", part="main"),
                          self.RESET_WITNESS, True,
                          "reset() of a deserialized under-full sketch records the initial capacity without reallocating the smaller "
                          "arrays; the next updates write past them (ASan heap-buffer-overflow in update_warmup_phase)")
        elif ioc != "ok":
            rep.violation("safety:%s" % ioc, dict(kind="safety", part="main"), self.RESET_WITNESS, True,
                          "implementation outcome %s on the reset-after-deserialize witness: %s" % (ioc, ierr[-400:]))
        io, ioc, ierr = core.run_impl(exe, self.UNINIT_MARKS_WITNESS, (), timeout=60)
        rep.cov["uninit_marks_witness_outcome"] = ioc
        if ioc == "ubsan" and "not a valid value for type 'bool'" in ierr and "decrease_k_by_1" in ierr:
            rep.violation("uninitialized-marks-read-after-union-deserialize", dict(kind="safety", part="main"),
                          self.UNINIT_MARKS_WITNESS, True,
                          "get_result() on a deserialized union: decrease_k_by_1 -> swap_values reads the never-initialised marks_[k]")
        elif ioc != "ok":
            rep.violation("safety:%s" % ioc, dict(kind="safety", part="main"), self.UNINIT_MARKS_WITNESS, True,
                          "implementation outcome %s on the union-deserialize witness: %s" % (ioc, ierr[-400:]))

    def generate(self, rng, tier):
        q = tier == "quick"
        hs = []
        for _ in range(140 if q else 5000):
            hs.append(gen_single(rng, tier))
        for _ in range(120 if q else 5000):
            hs.append(gen_union(rng, tier))
        for _ in range(60 if q else 2000):
            hs.append(gen_pseudo_exact(rng, tier))
        for _ in range(10 if q else 200):
            hs.append(gen_malformed(rng, tier))
        return hs

    # ---- the property statement itself, on one implementation trace (independent of the Lean step model)
    def oracle(self, hist, impl_out):
        bad = []
        sk, un, dead = {}, {}, set()
        for i, l in enumerate(hist):
            if i >= len(impl_out):
                break
            w = l.split()
            out = impl_out[i].strip()
            op = w[0]
            hd = []
            for t in w:
                if t in ("D", "I"):
                    break
                hd.append(t)
            if out == "bad-op":
                bad.append(("bad-observation", l[:60], i))
                continue
            if op == "new":
                sid, k = int(hd[1]), int(hd[2])
                if out == "throw":
                    if 1 <= k <= 2 ** 31 - 2:
                        bad.append(("constructor-throws-for-valid-k", "k=%d" % k, i))
                    sk.pop(sid, None); dead.add(sid)
                    continue
                if not (1 <= k <= 2 ** 31 - 2):
                    bad.append(("constructor-accepts-invalid-k", "k=%d" % k, i))
                o = parse_S(out)
                if o is None:
                    bad.append(("bad-observation", out[:60], i)); continue
                L = Lin(k)
                sk[sid] = L; dead.discard(sid)
                check_sketch(L, o, bad, i)
                L.obs = o
            elif op == "upd":
                sid = int(hd[1])
                if sid not in sk:
                    if out != "dead":
                        bad.append(("op-on-dead-object-not-reported", out[:40], i))
                    continue
                L = sk[sid]
                item, wt = int(hd[2]), hf(hd[3])
                if not valid_weight(wt):
                    if out != "throw":
                        bad.append(("invalid-weight-accepted", "weight %r" % wt, i))
                    continue
                if out == "throw":
                    key = ("update-throws-after-deserialize" if L.stale else
                           "union-result-not-heap-ordered" if L.pe_shaped else
                           "update-throws-on-union-result" if L.kind == "result" else "update-throws")
                    if not L.tainted:
                        bad.append((key, "update(%d, %r) threw on a sketch with n=%d k=%d" % (item, wt, L.n, L.k), i))
                    del sk[sid]; dead.add(sid)
                    continue
                o = parse_S(out)
                if o is None:
                    bad.append(("bad-observation", out[:60], i)); continue
                if wt > 0.0:
                    L.inputs[item] = wt
                    L.mult[item] = L.mult.get(item, 0) + 1
                    L.n += 1
                    L.total += wt
                    if L.total >= 2.0 ** 53:
                        L.exact = False
                tag = "union-result-lineage-" if L.kind == "result" else ""
                nb = len(bad)
                check_sketch(L, o, bad, i, tag)
                if L.pe_shaped:
                    # the H region of such a result is not observable as H at get_result() time when some of its items
                    # weigh exactly tau; a malformed H (not heapified / lighter than tau) shows on later updates only
                    for j in range(nb, len(bad)):
                        k0, what, idx = bad[j]
                        if k0 in PE_SYMPTOMS:
                            bad[j] = ("union-result-not-heap-ordered", "after further updates: %s: %s" % (k0, what), idx)
                L.obs = o
            elif op in ("copy", "serde"):
                src, dst = int(hd[1]), int(hd[2])
                if src not in sk:
                    if out != "dead":
                        bad.append(("op-on-dead-object-not-reported", out[:40], i))
                    continue
                L = sk[src].clone()
                if out == "throw":
                    bad.append(("%s-throws" % op, "n=%d k=%d" % (L.n, L.k), i))
                    sk.pop(dst, None)
                    continue
                o = parse_S(out)
                if o is None:
                    bad.append(("bad-observation", out[:60], i)); continue
                if L.obs is not None and not L.tainted and (o["n"], o["k"], o["ns"], o["items"], o["subs"]) != (L.obs["n"], L.obs["k"], L.obs["ns"], L.obs["items"], L.obs["subs"]):
                    bad.append(("%s-differs-from-source" % op, out[:80], i))
                if op == "serde" and o["n"] > o["ns"] and not source_flags().get("deserializeM0"):
                    L.stale = True      # the unrepaired reader leaves m_ = 1: the known root cause of later throws
                sk[dst] = L
                L.obs = o
            elif op == "reset":
                sid = int(hd[1])
                if sid not in sk:
                    continue
                L = Lin(sk[sid].k if sk[sid].kind == "plain" else (sk[sid].obs or {}).get("k", sk[sid].k))
                sk[sid] = L
                o = parse_S(out)
                if o is None:
                    bad.append(("bad-observation", out[:60], i)); continue
                check_sketch(L, o, bad, i, "reset-")
                L.obs = o
            elif op == "unew":
                uid, mk = int(hd[1]), int(hd[2])
                if out == "throw":
                    if 1 <= mk <= 2 ** 31 - 2:
                        bad.append(("constructor-throws-for-valid-k", "max_k=%d" % mk, i))
                    un.pop(uid, None)
                    continue
                un[uid] = ULin(mk)
            elif op == "umerge":
                uid, sid = int(hd[1]), int(hd[2])
                if uid not in un or sid not in sk:
                    if out != "dead":
                        bad.append(("op-on-dead-object-not-reported", out[:40], i))
                    continue
                U, L = un[uid], sk[sid]
                if out == "throw":
                    key = "union-throws-after-deserialize" if U.stale else "union-update-throws"
                    if not (U.tainted or L.tainted):
                        bad.append((key, "update(sketch n=%d k=%d) threw" % (L.n, L.k), i))
                    del un[uid]
                    continue
                U.n += L.n
                U.total += L.total
                U.inputs.update(L.inputs)
                for x, c in L.mult.items():
                    U.mult[x] = U.mult.get(x, 0) + c
                U.merged += 1
                U.tainted = U.tainted or L.tainted
                if L.obs is not None:
                    U.fed += L.obs["ns"]
                    if L.obs["n"] > L.obs["ns"]:
                        U.any_est = True
            elif op == "ures":
                uid, dst = int(hd[1]), int(hd[2])
                if uid not in un:
                    if out != "dead":
                        bad.append(("op-on-dead-object-not-reported", out[:40], i))
                    continue
                U = un[uid]
                if out == "throw":
                    key = "union-throws-after-deserialize" if U.stale else "union-result-throws"
                    if not U.tainted:
                        bad.append((key, "get_result() threw (union n=%d, max_k=%d, %d sketches merged)" % (U.n, U.maxk, U.merged), i))
                    sk.pop(dst, None)
                    continue
                o = parse_S(out)
                if o is None:
                    bad.append(("bad-observation", out[:60], i)); continue
                L = Lin(U.maxk)
                L.kind = "result"
                L.inputs = dict(U.inputs)
                L.mult = dict(U.mult)
                L.tainted = U.tainted
                L.n, L.total, L.exact = U.n, U.total, False
                L.stale = U.stale and o["n"] > o["ns"]
                L.pe_shaped = (U.any_est and U.fed <= U.maxk and o["n"] > o["ns"] and
                               not (source_flags().get("coercerOuterTau") and source_flags().get("coercerHeapify")))
                check_sketch(L, o, bad, i, "union-result-")
                L.k = o["k"]
                L.obs = o
                sk[dst] = L
            elif op in ("ucopy", "userde"):
                src, dst = int(hd[1]), int(hd[2])
                if src not in un:
                    continue
                if out == "throw":
                    bad.append(("union-%s-throws" % op, "", i))
                    un.pop(dst, None)
                    continue
                U = un[src].clone()
                if op == "userde" and (U.any_est or U.fed > U.maxk) and not source_flags().get("deserializeM0"):
                    U.stale = True       # the gadget was in estimation mode when it went through deserialize()
                un[dst] = U
            elif op == "ureset":
                uid = int(hd[1])
                if uid in un:
                    un[uid] = ULin(un[uid].maxk)
        return bad

    def nontrivial_key(self, hist, impl_out):
        est = False
        sig = []
        for l, o in zip(hist, impl_out):
            if o.startswith("S "):
                d = parse_S(o)
                if d:
                    if d["n"] > d["ns"] or l.startswith("ures"):
                        est = True
                    if l.startswith(("ures", "upd")):
                        sig.append((d["k"], d["n"], d["ns"]))
        if not est:
            return None
        cons = sum(1 for o in impl_out if " c=1" in o or ",1 " in o)
        return (tuple(sorted(set(sig)))[-6:], cons, len(hist))


SPEC = C16()

CLAIM = dict(
    text=("Kernel-checked theorems (Rat instance of the model; every configuration incl. every source-shape variant `T`, every stream of "
          "positive weights, every draw sequence, no length bounds) about an executable Lean model of var_opt_sketch / var_opt_union "
          "that follows the code slot by slot (H min-heap sifts as coded, M/R regions, warm-up, transition, light / heavy r=1 / heavy "
          "general update, grow/downsample/choose_delete_slot, decrease_k_by_1, gadget marks, merge_items with the weight-correcting "
          "R iterator, resolve_tau, the three get_result coercers, serialize->deserialize as a state transformer): "
          "vo_size (update never throws; n counted; h + r = num_samples = min(n,k); H entries are inputs with their weights, R items are "
          "input items); vo_weight_conserved (sum_H w + total_wt_r = sum of inputs; iterator weights and estimate_subset_sum(true) equal "
          "the total); vo_heavy_exact (tau never decreases along a stream; every H entry >= tau incl. peek_min; every input heavier "
          "than tau is in H with its exact weight); vo_subset_bounds_partial (lb <= estimate <= ub for every predicate, given that the "
          "two fraction bounds bracket r_true/r); vo_one_step_unbiased (exact u-intervals of choose_delete_slot: P[keep j]*tau' = w_j "
          "for M candidates, tau/tau' for R items); vo_union (no update of a union throws; n = sum n_i; any returned result has that n, "
          "represents exactly the combined weight, h + r <= k_result <= max_k, no marks). For the source shapes that /repo carries "
          "NOW (read from the headers by the translator on every run: vo_source_shapes_current) the two statements that were false on "
          "the tree the check was first built on hold in full: vo_serde_update_current (a sketch left by any stream, in any mode, sent "
          "through serialize->deserialize keeps accepting every update) and vo_union_wellformed_current (whatever get_result returns "
          "is a valid estimation-mode state: H a min-heap, no H item below tau; uses the resolve_tau bookkeeping invariant). The old "
          "shapes stay covered: vo_serde_update_full_false / vo_union_wellformed_full_false (concrete witnesses at the all-flags-off "
          "tunables) with vo_serde_update_partial / vo_union_wellformed_partial. The Float instance of the same definitions, with the "
          "flags of the current headers, reproduces the real headers bit for bit (iterator weights, lb/est/ub/total of three "
          "predicates, draws consumed) on generated histories with hook-supplied draws, and the property oracle (totals, heavy-item "
          "inclusion, tau monotone, heap order, bounds order, no throw on valid use) runs on every trace."),
    note=("Defects FOUND by this check on the pinned tree and REPAIRED in /repo (known_findings.json status fixed; proposed_fixes/C16-*): "
          "dbbe534 deserialize() restored an estimation-mode sketch/union with m_ = 1 so every later update threw; cb4d600 deserialize() "
          "left marks_ beyond h uninitialised (UBSan in decrease_k_by_1 after union deserialize); 9b12d7b reset() kept the too-small "
          "arrays of a deserialized sketch (ASan heap-buffer-overflow); 74c906d the pseudo-exact union coercer compared H items with a "
          "NaN tau and did not re-heapify (results with H items below tau / unordered H; later updates threw or evicted heavy items); "
          "dc2ac23 its absolute 1e-10 tolerance made get_result() throw (and leak) for equal-tau inputs with large weights; ff5b1bd "
          "update()'s sanity check compared peek_min with the rounded tau exactly (spurious logic_error on union results and inside "
          "var_opt_union::update). The generators and the oracle keying follow the source-shape flags: on the repaired tree nothing is "
          "steered around (get_result() on deserialized unions, reset() of deserialized objects are in the random streams) and no "
          "symptom is attributed to a known root cause; reverting any one fix flips its flag and yields a VIOLATION with a failing "
          "input (checked for all six). A source shape that is neither the old nor the repaired one is a translation failure. "
          "NOT formalised: the global 'subset-sum estimates are unbiased over the sampling randomness' statement about whole histories "
          "(only the one-step identity vo_one_step_unbiased is proved; the martingale argument is not). Floating-point rounding is not "
          "modelled in the theorems: the tolerance and rounded-tau repairs have no counterpart over Rat (the Float instance + oracle "
          "cover them); the marks-initialisation and reset repairs are below the level of the model (dedicated sanitizer witnesses). "
          "Integer weights < 2^30 keep plain-sketch totals exact in the correspondence runs, union totals are compared to 1e-9. The "
          "analytic fact lb_frac <= r_true/r <= ub_frac about bounds_binomial_proportions (sqrt/exp/pow) is a hypothesis of "
          "vo_subset_bounds_partial and is checked on traces only. get_result() 'returns' is a hypothesis of vo_union (it can throw "
          "for k <= 1 corner cases). 'Smallest effective k' is read as the k of the returned sketch (<= max_k): an exact-mode input "
          "contributes all its items, so min k_i of the inputs is not a bound the algorithm has. A change of the heap's tie-breaking "
          "is reported as a correspondence divergence (no failing input) although it preserves the property: array order of H is "
          "observable through the iterator and decides which slot a draw deletes."),
    technique="Lean 4 invariant proofs over an ops-only numeric class (Rat), parametric in the source-shape flags read from the headers + bit-exact differential correspondence (Float) with hook-supplied draws + trace oracle",
    design="DESIGN.md §3 C16")

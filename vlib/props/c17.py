"""C17 — t-digest conserves weight, keeps exact extremes, is monotone (DESIGN.md 3 C17)."""
import math, os, struct
from .. import core
from ..runner import Spec, Part

KS = [10, 20, 50, 100]
NAN64, NAN32 = "7ff8000000000000", "7fc00000"


def f64(h):
    return struct.unpack("<d", struct.pack("<Q", int(h, 16)))[0]


def f32(h):
    return struct.unpack("<f", struct.pack("<I", int(h, 16)))[0]


def h64(x):
    return "%016x" % struct.unpack("<Q", struct.pack("<d", x))[0]


def h32(x):
    return "%08x" % struct.unpack("<I", struct.pack("<f", x))[0]


_CONSTS = {}


def gen_consts():
    if "v" not in _CONSTS:
        _CONSTS["v"] = _read_consts()
    return _CONSTS["v"]


def _read_consts():
    """the constants the translator extracted from the current headers (lean/DSGen/TDigest.lean)"""
    import re
    d = dict(tdigest_CAPACITY_K_MULT=2, tdigest_FUDGE_THRESHOLD=30, tdigest_FUDGE_SMALL_K=30, tdigest_FUDGE_LARGE_K=10,
             tdigest_BUFFER_MULTIPLIER=4, tdigest_MIN_K=10)
    try:
        txt = open(os.path.join(core.LEAN, "DSGen", "TDigest.lean")).read()
        for m in re.finditer(r"def (tdigest_\w+) : Nat := (\d+)", txt):
            d[m.group(1)] = int(m.group(2))
        for m in re.finditer(r"def (tdigest_\w+) : Bool := (true|false)", txt):
            d[m.group(1)] = m.group(2) == "true"
    except OSError:
        pass
    return d


def add_overflow_safe():
    """shape of centroid::add in the current header (read by the translator): overflow-safe (repaired) or plain"""
    return bool(gen_consts().get("tdigest_CENTROID_ADD_OVERFLOW_SAFE", False))


ADD_OVERFLOW_KEY = "minmax-not-exact-centroid-add-overflow"


def capacity(k):
    c = gen_consts()
    return c["tdigest_CAPACITY_K_MULT"] * k + (c["tdigest_FUDGE_SMALL_K"] if k < c["tdigest_FUDGE_THRESHOLD"] else c["tdigest_FUDGE_LARGE_K"])


def buffer_capacity(k):
    return capacity(k) * gen_consts()["tdigest_BUFFER_MULTIPLIER"]


class Ty:
    def __init__(self, t):
        self.t = t
        self.dec = f64 if t == "d" else f32
        self.enc = h64 if t == "d" else (lambda x: h32(max(-3.0e38, min(3.0e38, x))))
        self.nan = NAN64 if t == "d" else NAN32
        self.inf = ("7ff0000000000000", "fff0000000000000") if t == "d" else ("7f800000", "ff800000")
        self.qtol = 1e-12 if t == "d" else 2e-6
        self.fmax = 1.7976931348623157e308 if t == "d" else 3.4028234663852886e38
        self.henc = h64 if t == "d" else h32

    def huge(self, rng):
        """a finite value within a factor 4 of the largest finite T, either sign (hex)"""
        r = rng.random()
        m = self.fmax if r < 0.2 else (self.fmax / 2 if r < 0.3 else self.fmax * rng.uniform(0.25, 1.0))
        return self.henc(m if rng.random() < 0.5 else -m)


def stream(rng, n, allow_nan=True):
    """n finite values (python floats) of one of the stream shapes of the property's quantifier; NaN marked as None."""
    kind = rng.choice(["sorted", "reversed", "random", "gauss", "clustered", "constant", "fewdistinct", "ints",
                       "alternating", "logmix", "ties-at-ends"])
    if os.environ.get("VERIF_C17_DISTINCT"):      # self-test knob: streams without ties (continuous draws only)
        kind = rng.choice(["sorted", "reversed", "random", "gauss", "logmix"])
    scale = rng.choice([1.0, 1.0, 100.0, 1e-3, 1e6, 1e-30, 1e30])
    off = rng.choice([0.0, 0.0, -50.0, 1000.0]) * scale
    if kind in ("sorted", "reversed", "random"):
        v = [off + rng.random() * scale for _ in range(n)]
        if kind != "random":
            v.sort(reverse=(kind == "reversed"))
    elif kind == "gauss":
        v = [off + rng.gauss(0, 1) * scale for _ in range(n)]
    elif kind == "clustered":
        centers = [off + rng.uniform(-1, 1) * scale for _ in range(rng.randrange(1, 5))]
        v = [rng.choice(centers) + rng.gauss(0, 1e-3) * scale for _ in range(n)]
    elif kind == "constant":
        c = off + rng.random() * scale
        v = [c] * n
    elif kind == "fewdistinct":
        vals = [off + rng.randrange(-3, 4) * scale for _ in range(rng.randrange(1, 5))]
        v = [rng.choice(vals) for _ in range(n)]
    elif kind == "ints":
        m = rng.choice([2, 7, 50, 100000])
        v = [float(rng.randrange(-m, m)) for _ in range(n)]
    elif kind == "alternating":
        a, b = off, off + scale
        v = [a if i % 2 == 0 else b for i in range(n)]
    elif kind == "logmix":
        v = [rng.choice([-1, 1]) * 10 ** rng.uniform(-5, 5) for _ in range(n)]
    else:
        lo, hi = off, off + scale
        v = [rng.choice([lo, lo, hi, hi, off + rng.random() * scale]) for _ in range(n)]
    if allow_nan and rng.random() < 0.25:
        v = [None if rng.random() < 0.06 else x for x in v]
    if rng.random() < 0.1:
        v = [(-0.0 if (x == 0 and rng.random() < 0.5) else x) if x is not None else None for x in v]
    return v


class TdPart(Part):
    harness = "tdigest_h"
    model_exe = "dsmodel_tdigest"
    family = "tdigest"
    timeout = 300

    # ------------------------------------------------------------------ generator helpers
    def enc_vals(self, ty, vals):
        return [ty.nan if x is None else ty.enc(x) for x in vals]

    def feed(self, rng, h, ty, sid, vals):
        vals = self.enc_vals(ty, vals)
        i = 0
        while i < len(vals):
            if rng.random() < 0.15:
                h.append("upd %d %s" % (sid, vals[i])); i += 1
            else:
                c = rng.choice([1, 3, 17, 60, 200, 1000])
                h.append("updn %d %s" % (sid, " ".join(vals[i:i + c]))); i += c

    def queries(self, rng, h, ty, sid, pool, tier, heavy=True):
        """a burst of queries on digest `sid`; `pool` = finite python floats seen by it (may be empty)."""
        lo, hi = (min(pool), max(pool)) if pool else (0.0, 1.0)
        span = (hi - lo) or 1.0
        r = rng.random()
        if r < 0.2:
            h.append("compress %d" % sid)
        elif r < 0.3:
            h.append("ser %d" % sid)
        if heavy and rng.random() < 0.8:
            h.append("rgrid %d %d" % (sid, rng.choice([3, 10, 40])))
            h.append("qgrid %d %d" % (sid, rng.choice([3, 10, 40, 100])))
        for _ in range(rng.randrange(0, 4)):
            x = rng.choice([lo, hi, lo - span, hi + span, lo + span * rng.random(), rng.choice(pool) if pool else 0.5])
            h.append("rank %d %s" % (sid, ty.enc(x)))
        if rng.random() < 0.1:
            h.append("rank %d %s" % (sid, rng.choice([ty.nan, ty.inf[0], ty.inf[1]])))
        for _ in range(rng.randrange(0, 4)):
            q = rng.choice([0.0, 1.0, 0.5, rng.random(), rng.random() ** 4, 1 - rng.random() ** 4])
            h.append("quant %d %s" % (sid, h64(q)))
        if rng.random() < 0.1:
            h.append("quant %d %s" % (sid, h64(rng.choice([-0.01, 1.0000001, -1e-300, 2.0]))))
        if rng.random() < 0.5:
            m = rng.randrange(0, 6)
            pts = sorted(set(ty.dec(ty.enc(lo - 0.1 * span + 1.2 * span * rng.random())) for _ in range(m)))
            enc = [ty.enc(x) for x in pts]
            if rng.random() < 0.15 and len(enc) >= 1:        # malformed split points
                bad = rng.choice(["dup", "unsorted", "nan"])
                if bad == "dup":
                    enc.insert(rng.randrange(len(enc)), rng.choice(enc))
                elif bad == "unsorted" and len(enc) >= 2:
                    enc[0], enc[-1] = enc[-1], enc[0]
                else:
                    enc.insert(rng.randrange(len(enc) + 1), ty.nan)
            h.append("cdf %d %s" % (sid, " ".join(enc)))
            h.append("pmf %d %s" % (sid, " ".join(enc)))
            for e in enc:
                if e != ty.nan:
                    h.append("rank %d %s" % (sid, e))
        if rng.random() < 0.5:
            h.append("dump %d" % sid)

    def sizes(self, rng, k, tier):
        cap = buffer_capacity(k)
        big = [cap - 1, cap, cap + 1, 2 * cap + 7, 3 * cap] if tier == "quick" else [cap - 1, cap, cap + 1, 2 * cap + 7, 5 * cap, 12 * cap]
        return rng.choice([0, 1, 2, 3, 5, 9, 17, 40, 100] + big + big)

    def one_history(self, rng, tier):
        h = ["consts"]
        ty = Ty(rng.choice(["d", "d", "f"]))
        nd = rng.choice([1, 1, 2, 3, 4, 5])
        ks = [rng.choice(KS + ([rng.randrange(10, 70)] if rng.random() < 0.2 else [])) for _ in range(nd)]
        if rng.random() < 0.6:
            ks = [ks[0]] * nd
        pools = []
        for s in range(nd):
            h.append("new %d %s %d" % (s, ty.t, ks[s]))
            pools.append([])
        if rng.random() < 0.05:
            h.append("new 9 %s %d" % (ty.t, rng.choice([0, 5, 9])))
        # phase 1: feed every digest, with queries in between (compress points induced by queries / serialization)
        for s in range(nd):
            for _ in range(rng.choice([1, 1, 2, 3])):
                n = self.sizes(rng, ks[s], tier)
                vals = stream(rng, n)
                self.feed(rng, h, ty, s, vals)
                pools[s] += [ty.dec(ty.enc(x)) for x in vals if x is not None]
                if rng.random() < 0.6:
                    self.queries(rng, h, ty, s, pools[s], tier, heavy=rng.random() < 0.5)
        # phase 2: a merge tree over the digests (targets keep absorbing; occasional self-merge and more updates)
        live = list(range(nd))
        steps = rng.randrange(0, 2 * nd + 1) if nd > 1 else rng.choice([0, 0, 1])
        distinct = bool(os.environ.get("VERIF_C17_DISTINCT"))
        for _ in range(steps):
            a = rng.choice(live)
            b = rng.choice(live)
            if distinct:                 # no self-merge, every operand merged once (no ties created by merging)
                if a == b or len(live) < 2:
                    continue
                live.remove(b)
            h.append("merge %d %d" % (a, b))
            pools[a] = pools[a] + pools[b]
            if rng.random() < 0.7:
                self.queries(rng, h, ty, a, pools[a], tier)
            if rng.random() < 0.3:
                vals = stream(rng, self.sizes(rng, ks[a], tier))
                self.feed(rng, h, ty, a, vals)
                pools[a] += [ty.dec(ty.enc(x)) for x in vals if x is not None]
        for s in live:
            if rng.random() < 0.7:
                self.queries(rng, h, ty, s, pools[s], tier)
            h.append("dump %d" % s)
        return h

    def generate(self, rng, tier):
        n = 200 if tier == "quick" else 1500
        return [self.one_history(rng, tier) for _ in range(n)]

    # ------------------------------------------------------------------ the property statement on one implementation trace
    check_queries = True
    check_dump = True

    def oracle(self, hist, impl_out):
        bad = []
        hugeseen = {}  # id -> the digest holds a finite value within 2^-16 of the largest finite T
        ty = {}       # id -> Ty
        kk = {}
        vals = {}     # id -> accepted finite/inf values (python floats), merged ones included
        epoch = {}    # id -> (state string, {"rank": [(x, r)], "quant": [(r, q)], "cdf": {pts: [..]}})
        for i, l in enumerate(hist):
            if i >= len(impl_out):
                break
            w = l.split()
            o = impl_out[i]
            res, _, st = o.partition(" | ")
            res = res.split()
            stw = st.split()
            op = w[0]
            if op == "consts":
                continue
            if op == "new":
                if o.strip() == "throw":
                    if int(w[3]) >= gen_consts()["tdigest_MIN_K"]:
                        bad.append(("constructor-rejects-valid-k", o[:80], i))
                    continue
                sid = int(w[1])
                ty[sid] = Ty(w[2]); kk[sid] = int(w[3]); vals[sid] = []; epoch[sid] = (None, None); hugeseen[sid] = False
                if int(w[3]) < gen_consts()["tdigest_MIN_K"]:
                    bad.append(("constructor-accepts-k-below-minimum", o[:80], i))
            else:
                sid = int(w[1])
                if sid not in ty:
                    continue
            T = ty[sid]
            if o.strip() == "bad-op" or not stw or stw[0] != "S":
                bad.append(("bad-observation", o[:80], i))
                continue
            # ---- bookkeeping of the accepted values
            if op in ("upd", "updn"):
                for hx in w[2:]:
                    x = T.dec(hx)
                    if not math.isnan(x):
                        vals[sid].append(x)
                        if math.isfinite(x) and abs(x) >= T.fmax / 65536.0:
                            hugeseen[sid] = True
            elif op == "merge":
                vals[sid] = vals[sid] + vals[int(w[2])]
                hugeseen[sid] = hugeseen[sid] or hugeseen.get(int(w[2]), False)
            V = vals[sid]
            # ---- weight / extremes on every observed state
            tw = int(stw[1])
            if tw != len(V):
                bad.append(("total-weight-not-number-of-accepted-values", "weight=%d accepted=%d" % (tw, len(V)), i))
                continue
            mn = mx = None
            nc = nb = None
            if stw[3] == "E":
                pass
            elif stw[3] == "V":
                mn = mx = T.dec(stw[4])
            else:
                nc, nb = int(stw[3]), int(stw[4])
                mn, mx = T.dec(stw[5]), T.dec(stw[6])
            if V:
                # pinned shape of centroid::add + values near the largest finite T: the known overflow defect
                # (its own key, so that every other wrong extreme is still reported); repaired shape: exact, always
                ovf = hugeseen[sid] and not add_overflow_safe()
                if mn is None or mn != min(V):
                    bad.append((ADD_OVERFLOW_KEY if ovf else "min-not-exact", "min=%r expected=%r" % (mn, min(V)), i))
                if mx is None or mx != max(V):
                    bad.append((ADD_OVERFLOW_KEY if ovf else "max-not-exact", "max=%r expected=%r" % (mx, max(V)), i))
            if nc is not None and nc > capacity(kk[sid]):
                bad.append(("centroid-count-exceeds-capacity", "centroids=%d k=%d capacity=%d" % (nc, kk[sid], capacity(kk[sid])), i))
            if op == "dump" and self.check_dump and res[:1] == ["D"] and not (hugeseen[sid] and not add_overflow_safe()):
                toks = res[1:]
                bi = toks.index("B")
                cents = [(T.dec(t.split(":")[0]), int(t.split(":")[1])) for t in toks[:bi]]
                nbuf = len(toks) - bi - 1
                if V and len(V) > 1:
                    if sum(wt for _, wt in cents) + nbuf != len(V):
                        bad.append(("centroid-weights-do-not-sum-to-total", "%d+%d vs %d" % (sum(wt for _, wt in cents), nbuf, len(V)), i))
                    ms = [m for m, _ in cents]
                    if any(a > b for a, b in zip(ms, ms[1:])):
                        bad.append(("centroids-not-sorted", repr(ms[:8]), i))
                    if any(not (mn <= m <= mx) for m in ms):
                        bad.append(("centroid-mean-outside-min-max", "min=%r max=%r" % (mn, mx), i))
                    if any(wt < 1 for _, wt in cents):
                        bad.append(("centroid-weight-zero", "", i))
            if not self.check_queries:
                continue
            # ---- queries: one epoch = same digest, same state after the call
            if epoch[sid][0] != st:
                epoch[sid] = (st, dict(rank=[], quant=[], cdf={}))
            ep = epoch[sid][1]
            threw = res[:1] == ["throw"]
            if op == "rank":
                x = T.dec(w[2])
                if threw:
                    if V and not math.isnan(x):
                        bad.append(("rank-throws-on-nonempty", o[:60], i))
                    continue
                if not V or math.isnan(x):
                    bad.append(("rank-no-throw-on-empty-or-nan", o[:60], i)); continue
                ep["rank"].append((x, f64(res[1])))
                bad += self.check_ranks(ep["rank"], mn, mx, i)
                for pts, c in ep["cdf"].items():
                    for p, r in zip(pts, c):
                        if p == x and h64(r) != res[1]:
                            bad.append(("cdf-differs-from-rank", "x=%r cdf=%r rank=%s" % (x, r, f64(res[1])), i))
            elif op == "rgrid":
                if threw:
                    if V:
                        bad.append(("rank-throws-on-nonempty", o[:60], i))
                    continue
                pr = [(T.dec(a), f64(b)) for a, b in zip(res[1::2], res[2::2])]
                ep["rank"] += pr
                bad += self.check_ranks(ep["rank"], mn, mx, i)
            elif op == "quant":
                r = f64(w[2])
                if threw:
                    if V and 0 <= r <= 1:
                        bad.append(("quantile-throws-on-valid-rank", o[:60], i))
                    continue
                if not V or not (0 <= r <= 1):
                    bad.append(("quantile-no-throw-on-empty-or-bad-rank", o[:60], i)); continue
                ep["quant"].append((r, T.dec(res[1])))
                bad += self.check_quants(ep["quant"], mn, mx, T, i)
            elif op == "qgrid":
                if threw:
                    if V:
                        bad.append(("quantile-throws-on-valid-rank", o[:60], i))
                    continue
                ep["quant"] += [(f64(a), T.dec(b)) for a, b in zip(res[1::2], res[2::2])]
                bad += self.check_quants(ep["quant"], mn, mx, T, i)
            elif op in ("cdf", "pmf"):
                pts = [T.dec(x) for x in w[2:]]
                valid = all(not math.isnan(p) for p in pts) and all(a < b for a, b in zip(pts, pts[1:]))
                if threw:
                    if valid and V:
                        bad.append(("cdf-pmf-throws-on-valid-split-points", o[:60], i))
                    continue
                if not valid:
                    bad.append(("split-points-not-validated", l[:80], i)); continue
                if not V and pts:
                    bad.append(("cdf-pmf-no-throw-on-empty", o[:60], i)); continue
                c = [f64(x) for x in res[1:]]
                if len(c) != len(pts) + 1:
                    bad.append(("cdf-pmf-wrong-length", "%d for %d split points" % (len(c), len(pts)), i)); continue
                if op == "cdf":
                    ep["cdf"][tuple(pts)] = c
                    if c[-1] != 1.0:
                        bad.append(("cdf-last-not-one", repr(c[-1]), i))
                    if any(a > b for a, b in zip(c, c[1:])) or any(not (0 <= a <= 1) for a in c):
                        bad.append(("cdf-not-monotone-in-unit-interval", repr(c[:6]), i))
                    for p, r in zip(pts, c):
                        for (x, rr) in ep["rank"]:
                            if x == p and rr != r:
                                bad.append(("cdf-differs-from-rank", "x=%r cdf=%r rank=%r" % (p, r, rr), i))
                else:
                    cd = ep["cdf"].get(tuple(pts))
                    if cd is not None:
                        want = [cd[0]] + [b - a for a, b in zip(cd, cd[1:])]
                        if [h64(x) for x in want] != [h64(x) for x in c]:
                            bad.append(("pmf-differs-from-cdf-differences", "pmf=%r cdf=%r" % (c[:5], cd[:5]), i))
                    if abs(sum(c) - 1.0) > 1e-9:
                        bad.append(("pmf-sum-not-one", repr(sum(c)), i))
                    if any(x < 0 for x in c):
                        bad.append(("pmf-negative-mass", repr(c[:6]), i))
        return bad

    @staticmethod
    def check_ranks(pairs, mn, mx, i):
        bad = []
        ps = sorted(pairs)
        for x, r in ps:
            if not (0.0 <= r <= 1.0):
                bad.append(("rank-outside-unit-interval", "x=%r rank=%r" % (x, r), i)); break
            if x < mn and r != 0.0:
                bad.append(("rank-below-min-not-zero", "x=%r rank=%r" % (x, r), i)); break
            if x > mx and r != 1.0:
                bad.append(("rank-above-max-not-one", "x=%r rank=%r" % (x, r), i)); break
        for (x1, r1), (x2, r2) in zip(ps, ps[1:]):
            if r2 < r1 or (x1 == x2 and r1 != r2):
                bad.append(("rank-not-monotone", "rank(%r)=%r > rank(%r)=%r" % (x1, r1, x2, r2), i)); break
        return bad

    @staticmethod
    def check_quants(pairs, mn, mx, T, i):
        bad = []
        ps = sorted(pairs)
        tol = T.qtol * max(abs(mn), abs(mx), abs(mx - mn)) if all(map(math.isfinite, (mn, mx))) else 0.0
        for r, q in ps:
            if not (mn - tol <= q <= mx + tol):
                bad.append(("quantile-outside-min-max", "q(%r)=%r min=%r max=%r" % (r, q, mn, mx), i)); break
            if r == 0.0 and q != mn:
                bad.append(("quantile-0-not-min", "q(0)=%r min=%r" % (q, mn), i)); break
            if r == 1.0 and q != mx:
                bad.append(("quantile-1-not-max", "q(1)=%r max=%r" % (q, mx), i)); break
        for (r1, q1), (r2, q2) in zip(ps, ps[1:]):
            if q2 < q1 - tol:
                bad.append(("quantile-not-monotone", "q(%r)=%r > q(%r)=%r" % (r1, q1, r2, q2), i)); break
        return bad

    def nontrivial_key(self, hist, impl_out):
        """non-trivial: some digest was clustered (fewer centroids+buffered than total weight) and was queried."""
        clustered = False
        last = {}
        for l, o in zip(hist, impl_out):
            st = o.partition(" | ")[2].split()
            if len(st) >= 8 and len(l.split()) > 1:
                if int(st[3]) + int(st[4]) < int(st[1]):
                    clustered = True
                last[l.split()[1]] = (st[1], st[3], st[7])
        queried = any(l.split()[0] in ("rgrid", "qgrid", "rank", "quant", "cdf") for l in hist)
        if not (clustered and queried):
            return None
        return tuple(sorted(last.items())) + tuple(l for l in hist if l.startswith("new"))


class InfPart(TdPart):
    """Streams with +-inf (and NaN) and with finite values within a factor 4 of the largest finite T (mixed signs, mixed
    with small values), several merges incl. self-merges: safety (sanitizers, no hang), total weight and EXACT extremes.
    The centroid means may become NaN (inf - inf), after which the order of std::stable_sort is unspecified: no model
    comparison, no query oracle, no centroid-list oracle."""
    name = "inf"
    compare_model = False
    check_queries = False
    check_dump = False

    def huge_mix(self, rng, ty, enc):
        """overwrite a share of the encoded stream with near-overflow finite values (and a few small negative ones)"""
        p = rng.choice([0.02, 0.2, 0.5])
        small = [ty.enc(-47.0), ty.enc(-49.0), ty.enc(3.0)]
        for j in range(len(enc)):
            r = rng.random()
            if r < p:
                enc[j] = ty.huge(rng)
            elif r < p + 0.1:
                enc[j] = rng.choice(small)
        return enc

    def generate(self, rng, tier):
        hs = []
        if os.environ.get("VERIF_C17_DISTINCT"):
            return hs
        for _ in range(50 if tier == "quick" else 400):
            ty = Ty(rng.choice(["d", "f"]))
            h = []
            nd = rng.choice([1, 2, 3])
            with_huge = rng.random() < 0.4
            for s in range(nd):
                k = rng.choice(KS)
                h.append("new %d %s %d" % (s, ty.t, k))
                n = self.sizes(rng, k, tier) if not with_huge else rng.choice([2, 5, 9, 17, 40, 100, buffer_capacity(k) + 1])
                vals = stream(rng, n)
                enc = self.enc_vals(ty, vals)
                for j in range(len(enc)):
                    if rng.random() < rng.choice([0.002, 0.02, 0.3]) and not (with_huge and rng.random() < 0.7):
                        enc[j] = rng.choice(ty.inf)
                if with_huge:
                    enc = self.huge_mix(rng, ty, enc)
                i = 0
                while i < len(enc):
                    c = rng.choice([1, 17, 200, 1000])
                    h.append("updn %d %s" % (s, " ".join(enc[i:i + c]))); i += c
                    if rng.random() < 0.5:
                        self.queries(rng, h, ty, s, [0.0, 1.0], tier)
                        if rng.random() < 0.2:
                            h.append("quant %d %s" % (s, NAN64))
            for _ in range(rng.randrange(0, 4) + (rng.randrange(1, 4) if with_huge else 0)):
                a, b = rng.randrange(nd), rng.randrange(nd)
                if with_huge and rng.random() < 0.4:
                    b = a                                   # self-merge
                h.append("merge %d %d" % (a, b))
                self.queries(rng, h, ty, a, [0.0, 1.0], tier)
            hs.append(h)
        return hs

    def nontrivial_key(self, hist, impl_out):
        return None


class BigPart(InfPart):
    """FINITE values only, within a factor 4 of the largest finite T with mixed signs, mixed with small values; updates,
    compress, serialize, merge trees incl. self-merges, centroid dumps; no rank/quantile queries (their interpolation
    overflows at these magnitudes: out of scope).  With the overflow-safe centroid::add the model is compared bit for bit
    (this is the tie of the fallback branch) and total weight, exact extremes, sorted centroids with means inside
    [min,max] are demanded; with the pinned shape the part runs for safety and weight only (known finding)."""
    name = "big"
    check_queries = False
    check_dump = True

    @property
    def compare_model(self):
        return add_overflow_safe()

    def generate(self, rng, tier):
        hs = []
        if os.environ.get("VERIF_C17_DISTINCT"):
            return hs
        for _ in range(40 if tier == "quick" else 300):
            ty = Ty(rng.choice(["d", "f"]))
            h = []
            nd = rng.choice([1, 2, 3])
            for s in range(nd):
                k = rng.choice(KS)
                h.append("new %d %s %d" % (s, ty.t, k))
                n = rng.choice([2, 5, 9, 17, 40, 100, 300, buffer_capacity(k) + 1, 2 * buffer_capacity(k) + 3])
                enc = self.huge_mix(rng, ty, self.enc_vals(ty, stream(rng, n, allow_nan=rng.random() < 0.2)))
                i = 0
                while i < len(enc):
                    c = rng.choice([1, 9, 17, 200, 1000])
                    h.append("updn %d %s" % (s, " ".join(enc[i:i + c]))); i += c
                    r = rng.random()
                    if r < 0.3:
                        h.append("compress %d" % s)
                    elif r < 0.4:
                        h.append("ser %d" % s)
                    if rng.random() < 0.3:
                        h.append("dump %d" % s)
            for _ in range(rng.randrange(1, 6)):
                a, b = rng.randrange(nd), rng.randrange(nd)
                if rng.random() < 0.4:
                    b = a
                h.append("merge %d %d" % (a, b))
                h.append("dump %d" % a)
                if rng.random() < 0.3:
                    h.append("updn %d %s" % (a, " ".join(ty.huge(rng) for _ in range(rng.choice([1, 3, 30])))))
            for s in range(nd):
                h.append("compress %d" % s)
                h.append("dump %d" % s)
            hs.append(h)
        return hs


class C17(Spec, TdPart):
    pid = "C17"
    props_modules = ["DSProofs.Props.C17"]
    tfamilies = ["tdigest"]
    rule = ("histories over 1-5 live digests (tdigest<double> and tdigest<float>; k in {10,20,50,100} plus random k in [10,70)) fed with "
            "streams of 11 shapes (sorted, reversed, uniform, gaussian, clustered, constant, few distinct, small integers, alternating "
            "extremes, log-magnitude mix, ties at the extremes; 25% of streams with NaN; sizes 0..12x the buffer capacity incl. capacity-1/"
            "capacity/capacity+1), interleaved with compress(), serialize(), get_rank/get_quantile (incl. out-of-range, NaN, +-inf arguments), "
            "CDF/PMF with valid and malformed split points, query grids derived from the digest's own centroids (every mean, midpoints, "
            "min, max, +-1, an even grid; every centroid centre +-0.5 in weight), then a random merge tree (incl. self-merges, different k) "
            "with further updates and queries; part `inf`: streams with +-inf and with finite values within a factor 4 of the largest finite T (mixed signs, several merges "
            "incl. self-merges): safety + weight + exact extremes; part `big`: such finite streams only, model compared bit for bit "
            "(tie of the overflow fallback of centroid::add) + weight + exact extremes + sorted centroids with means in [min,max]. "
            "A history is non-trivial when some digest was clustered (centroids+buffered < total weight) and queried; distinct = distinct "
            "(per-digest final weight, centroid count, content fold; configurations) signature")
    trusted_base = ["Lean 4.33 kernel", "axioms: propext, Quot.sound, Classical.choice",
                    "floating point: theorems are over Rat (exact arithmetic); the Float/Float32 instance of the same definitions is only "
                    "executed and compared bit for bit with the implementation",
                    "correspondence harness harness/tdigest_h.cpp + generators (sampled histories; public-API observations; centroid list, "
                    "buffer and reverse flag read from serialize(0, with_buffer=true))",
                    "tools/trules/tdigest.py (constants and statement shapes read from the headers)",
                    "std::stable_sort / lower_bound / upper_bound modelled by their specifications (stable insertion sort, partition points)"]
    assumptions = ["theorems are about DSModel/TDigest/Model.lean instantiated with Rat; the tie to tdigest_impl.hpp is differential (sampled, bit-exact)",
                   "weights are natural numbers (no uint32/uint64 wrap-around: fewer than 2^32 values)",
                   "rounding and overflow of float/double arithmetic are not modelled; the trace oracle allows 1e-12 (double) / 2e-6 (float) of the "
                   "value range on quantile range/monotonicity checks and is exact everywhere else",
                   "values within a factor 4 of the largest finite T: centroid::add of the pinned tree overflowed there (means -inf/NaN, wrong "
                   "min/max after merges: finding minmax-not-exact-centroid-add-overflow, repaired by the overflow-safe shape, which the "
                   "translator recognises and the Float model follows); with the repaired shape weight, exact extremes and the centroid list "
                   "are demanded on such streams (parts `inf`, `big`); get_rank / get_quantile interpolation still overflows at these "
                   "magnitudes (inf/inf), query results there are not judged",
                   "scale function abstract in the theorems; td_extremes_singleton needs only `max 1 normalizer = 0` (discharged for k2)",
                   "digests read from foreign (reference-format) images are outside C17: their first/last centroids need not be singletons"]

    def parts(self):
        return [self, INF, BIG]


INF = InfPart()
BIG = BigPart()
SPEC = C17()

CLAIM = dict(
    text=("Kernel-checked theorems over ALL update/compress/merge histories (every stream, merge tree, compress point, k, tunable) of an "
          "executable Lean model of tdigest<T>: total weight = number of accepted values (for every numeric instance, NaN included), and in "
          "exact arithmetic min/max exact, centroids sorted with means in [min,max], first/last centroid = (min,1)/(max,1) after every "
          "compress, rank = 0 below min / 1 above max / in [0,1] / non-decreasing, quantile in [min,max] with q(0)=min and q(1)=max "
          "and non-decreasing in the rank (td_quantile_mono_current: for the constants and the argument order of the interpolation call "
          "that the translator reads from the header on every run), "
          "CDF = ranks ++ [1] and PMF sums to 1; the model is executed with Float/Float32 and compared bit for bit with the real headers on "
          "generated histories; the property itself is checked on every implementation trace."),
    note=("Quantile monotonicity was FALSE of the pinned code (interpolation weights swapped in get_quantile; td_quantile_mono_full_false keeps "
          "the witness); the defect was found by this check and repaired in /repo (fix: commit a0ece21, known_findings.json: fixed). Not decided: centroid-count bound in k (monitored against the reserved capacity on "
          "traces) and the accuracy profile. Rounding/overflow not modelled."),
    technique="Lean 4 invariant proof over history trees, generic numeric class (Rat for proofs, Float/Float32 for bit-exact execution) + differential correspondence + trace oracle",
    design="DESIGN.md §3 C17")

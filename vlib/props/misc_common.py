"""Shared machinery of the `misc` wire group (t-digest, Bloom filter, density sketch) for C09 / C10 / C11.

One C++ harness (harness/wire_misc_h.cpp) drives real sketches and prints, per `ser` op,
    IMG <kind> <hex> | <canonical API content> | CHK <ok | failed C++-alone checks>
per `cont` op `CONT ...`, per `sweep` op `SWEEP ...` (exhaustive prefixes + preamble corruptions, every reader path),
per `img` op `IMGDEC ...`.  The Lean driver dsmodel_wire_misc reads `IMG <kind> <hex>` and prints
    DEC <project> | reenc=<0|1> size=<n> minpfx=<n> fmt=<main|leg1|leg2>      (or `DEC reject`).
The tie is two-phase: the model decodes what the implementation wrote (`model_lines` / `expected_model_out`).
"""
import os, re, struct, glob
from .. import core
from ..runner import Part

HARNESS = "wire_misc_h"
MODEL = "dsmodel_wire_misc"
FAMILY_OF_KIND = {"bloom": "bloom", "td.d": "tdigest", "td.f": "tdigest", "den.f": "density", "den.d": "density"}


# ----------------------------------------------------------------------------- line parsing

def parse_img(line):
    """IMG <kind> <hex> | <content> | CHK ...  -> dict or None"""
    if not line.startswith("IMG "):
        return None
    parts = line.split(" | ")
    w = parts[0].split()
    if len(w) != 3 or len(parts) < 3:
        return None
    chk = parts[-1].strip()
    fails = [] if chk == "CHK ok" else chk[4:].split(",")
    return dict(kind=w[1], hex=w[2], content=" | ".join(parts[1:-1]).strip(), fails=fails, size=0 if w[2] == "-" else len(w[2]) // 2)


def parse_sweep(line):
    if not line.startswith("SWEEP "):
        return None
    parts = line.split(" | ")
    w = parts[0].split()
    d = dict(kind=w[1], full={}, prefix={}, corrupt={})
    for t in w[2:]:
        k, v = t.split("=", 1)
        d[k] = v
    d["size"] = int(d["size"]); d["npre"] = int(d["npre"])
    for p in parts[1:]:
        t = p.split()
        if t[0] == "F":
            d["full"][t[1]] = t[2]
        elif t[0] == "P":
            out = []
            if t[2] != "-":
                for item in t[2].split(","):
                    tok, n = item.rsplit("*", 1)
                    out += [tok] * int(n)
            d["prefix"][t[1]] = out
        elif t[0] == "C":
            c = dict(bad=[])
            for f in t[2:]:
                k, v = f.split("=", 1)
                if k == "bad":
                    if v != "-":
                        for b in v.split(","):
                            pos, val, oc = b.split(":", 2)
                            c["bad"].append((int(pos), val, oc))
                else:
                    c[k] = int(v)
            d["corrupt"][t[1]] = c
    return d


def parse_imgdec(line):
    """IMGDEC <kind> || path :: content || ...  -> (kind, {path: content})"""
    if not line.startswith("IMGDEC "):
        return None
    parts = line.split(" || ")
    kind = parts[0].split()[1]
    res = {"size": int(parts[0].split()[2].split("=")[1])}
    for p in parts[1:]:
        name, c = p.split(" :: ", 1)
        res[name.strip()] = c.strip()
    return kind, res


def _hexval(tok):
    """8 / 16 hex digits -> float value of that IEEE bit pattern, else None"""
    try:
        if len(tok) == 16:
            return struct.unpack("<d", struct.pack("<Q", int(tok, 16)))[0]
        if len(tok) == 8:
            return struct.unpack("<f", struct.pack("<I", int(tok, 16)))[0]
    except ValueError:
        pass
    return None


def _num_close(dec, hx):
    """decimal text printed with 6 significant digits (to_string) vs exact value decoded from the image"""
    v = _hexval(hx)
    try:
        d = float(dec)
    except ValueError:
        return False
    if v is None:
        return False
    if d != d or v != v:
        return d != d and v != v
    if d == v:
        return True
    return abs(d - v) <= 2e-5 * max(abs(d), abs(v)) + 1e-300


def content_cmp(x, y):
    """expected (from the implementation) vs model line.
    * `DEC *` = wildcard segment; token `C*` = ignore the rest of the segment (single-value images: buffer or centroid is not stored)
    * a decimal number (to_string: 6 significant digits) matches the hex bit pattern of a value within 2e-5 relative;
      `mean:weight` pairs compare the weight exactly"""
    if x == y:
        return True
    xs, ys = x.split(" | "), y.split(" | ")
    if len(xs) != len(ys):
        return False
    for a, b in zip(xs, ys):
        if a == b or a.strip() == "DEC *":
            continue
        at, bt = a.split(), b.split()
        if "C*" in at:
            n = at.index("C*")
            at, bt = at[:n], bt[:n]
        if len(at) != len(bt):
            return False
        for p, q in zip(at, bt):
            if p == q:
                continue
            if ":" in p and ":" in q:
                pm, pw = p.rsplit(":", 1)
                qm, qw = q.rsplit(":", 1)
                if pw == qw and (pm == qm or _num_close(pm, qm)):
                    continue
                return False
            if _num_close(p, q):
                continue
            return False
    return True


def trailing_empty_offset(kind, img):
    """offset at which the run of trailing EMPTY levels of a density image starts (len(img) if there is none)"""
    tsz = 4 if kind == "den.f" else 8
    if len(img) < 24 or img[0] != 6:
        return len(img)
    dim = struct.unpack_from("<I", img, 8)[0]
    off, last_nonempty_end = 24, 24
    while off + 4 <= len(img):
        n = struct.unpack_from("<I", img, off)[0]
        off += 4 + n * dim * tsz
        if n > 0:
            last_nonempty_end = off
    return last_nonempty_end if off == len(img) else len(img)



def dec_expected(content, size, fmt="main", kind=None, hexs=None):
    eff = size
    if kind and kind.startswith("den") and hexs and hexs != "-":
        eff = trailing_empty_offset(kind, bytes.fromhex(hexs))     # trailing empty levels are not read back (open finding)
    mm = re.search(r"empty=1 bits=([0-9a-f]+)", content) if kind == "bloom" else None
    if mm and mm.group(1).strip("0"):
        content = "*"      # is_empty() although bits are set (stale-count finding): the image is the empty form; reported by the oracle
    if kind and kind.startswith("td.") and " w=1 " in content and " C " in content:
        content = content.split(" C ")[0] + " C*"   # single value: the image does not say buffer or centroid
    mm = re.search(r" n=(\d+) nr=0 empty=1", content) if kind and kind.startswith("den") else None
    if mm and mm.group(1) != "0":
        content = "*"      # nothing retained but n > 0: serialized as the EMPTY image (n-lost finding); reported by the oracle
    if eff != size:
        content = "*"      # the reader sees fewer levels than the sketch has: reported by the oracle, not compared here
    return "DEC %s | reenc=%d size=%d minpfx=%d fmt=%s" % (content, 1 if eff == size else 0, eff, eff, fmt)


# ----------------------------------------------------------------------------- generators (small parameters)

def f64hex(x):
    return "%016x" % struct.unpack("<Q", struct.pack("<d", x))[0]


def f32hex(x):
    return "%08x" % struct.unpack("<I", struct.pack("<f", x))[0]


def gen_bloom(rng, tier, extra):
    """one Bloom history; `extra(id)` -> list of additional op lines issued at every state class (ser / cont / sweep)."""
    h = []
    nbits = rng.choice([1, 63, 64, 65, 100, 128, 200, 500, 1000] + ([4096, 10000] if tier != "quick" else []))
    nh = rng.choice([1, 2, 3, 5, 7] + ([16, 300] if rng.random() < 0.1 else []))   # not 65535: `for (uint16_t i = 1; i <= num_hashes_; i++)` never ends there (C15 matter)
    seed = rng.choice([9001, 0, 2**64 - 1, rng.randrange(2**64), rng.randrange(2**32)])
    h.append("bf.new 0 %d %d %d" % (nbits, nh, seed))
    h += extra(0, "empty")
    n1 = rng.choice([1, 2, 5, 20, 100])
    if rng.random() < 0.5:
        h.append("bf.updn 0 %d %d" % (n1, rng.randrange(1000)))
    else:
        # query_and_update only on a filter whose count is current (see the dedicated stale-count histories in C09)
        style = rng.choice(["upd", "qupd"])
        if style == "qupd":
            h.append("bf.used 0")
        for _ in range(min(n1, 6)):
            h.append("bf.%s 0 %d" % (style, rng.randrange(4096)))
    h += extra(0, "dirty-or-counted")
    h.append("bf.used 0")
    h += extra(0, "counted")
    # second filter, set algebra
    h.append("bf.new 1 %d %d %d" % (nbits, nh, seed))
    h.append("bf.updn 1 %d %d" % (rng.choice([1, 10, 60]), rng.randrange(1000)))
    op = rng.choice(["union", "inter", "inv", "reset"])
    if op in ("union", "inter"):
        h.append("bf.%s 0 1" % op)
    else:
        h.append("bf.%s 0" % op)
    h += extra(0, "post-" + op)
    # filter initialised in caller memory
    h.append("bf.mem 2 %d %d %d %d" % (nbits, nh, seed, rng.choice([0, 0, 8, 13])))
    h += extra(2, "mem-empty")
    h.append("bf.updn 2 %d %d" % (rng.choice([1, 3, 30]), rng.randrange(1000)))
    h += extra(2, "mem-dirty")
    if rng.random() < 0.5:
        h.append("bf.used 2")
        h.append("bf.qupd 2 %d" % rng.randrange(4096))
        h += extra(2, "mem-counted")
    return h


TD_KS = [10, 10, 11, 20, 30, 50, 100, 200]


def gen_tdigest(rng, tier, extra):
    h = []
    T = rng.choice(["d", "f"])
    k = rng.choice(TD_KS if tier == "quick" else TD_KS + [500, 65535])
    h.append("td.new 0 %s %d" % (T, k))
    h += extra(0, "empty", rng.randrange(2))
    # single value: buffered, then compressed
    v = rng.choice([0.0, -0.0, 1.0, -1.5, 1e-300 if T == "d" else 1e-30, 3.0e38 if T == "f" else 1.7e308, rng.uniform(-100, 100)])
    h.append("td.upd 0 %s" % (f64hex(v) if T == "d" else f32hex(v)))
    h += extra(0, "single-buffered", 1)
    if rng.random() < 0.5:
        h.append("td.compress 0")
        h += extra(0, "single-compressed", rng.randrange(2))
    cap = 4 * (2 * k + (30 if k < 30 else 10))
    n = rng.choice([1, 2, 5, 50, cap - 2, cap - 1, cap, cap + 1, 3 * cap + 7])
    n = min(n, 1500 if tier == "quick" else 12000)      # keeps images below ~100 KB
    mode = rng.randrange(6)
    h.append("td.updn 0 %d %d %d" % (n, rng.randrange(1000), mode))
    h += extra(0, "buffered", 1)
    h += extra(0, "general", 0)
    h.append("td.compress 0")
    h += extra(0, "compressed", rng.randrange(2))
    # merge
    h.append("td.new 1 %s %d" % (T, rng.choice([k, 10, 100])))
    h.append("td.updn 1 %d %d %d" % (rng.choice([1, 30, 400]), rng.randrange(1000), rng.randrange(6)))
    h.append("td.merge 0 1")
    h += extra(0, "post-merge", rng.randrange(2))
    h.append("td.updn 0 %d %d %d" % (rng.choice([1, 3, 17]), rng.randrange(1000), rng.randrange(6)))
    h += extra(0, "post-merge-buffered", 1)
    if rng.random() < 0.35:
        # total weight beyond 2^31 and 2^32 (reached by doubling: a digest merged with itself): every counter that is re-derived or
        # narrowed on the way through an image shows here
        # (tdigest<float> keeps 32-bit centroid weights, in memory and in the image: there the doubling stops while the total - and so
        #  every centroid - is below 2^32; the double digest goes beyond 2^32)
        import math
        d = rng.choice([22, 24, 33]) if T == "d" else int(math.floor(math.log2(2 ** 32 / float(n + 4000))))      # (+4000: the values the checks themselves feed)
        for _ in range(max(1, d)):
            h.append("td.merge 0 0")
        h += extra(0, "huge-weight", rng.randrange(2))
    return h


def gen_density(rng, tier, extra):
    h = []
    T = rng.choice(["f", "d"])
    k = rng.choice([2, 3, 4, 5, 8] + ([16] if tier != "quick" else []))
    dim = rng.choice([1, 1, 2, 3] + ([7] if tier != "quick" else []))
    h.append("rng %d" % rng.randrange(1, 2**32))
    h.append("den.new 0 %s %d %d" % (T, k, dim))
    h += extra(0, "empty")
    if rng.random() < 0.5:
        lit = [rng.choice([0.0, -0.0, 1.0, -2.5, 1e-30, 1e30]) for _ in range(dim)]
        h.append("den.upd 0 " + " ".join(f32hex(x) if T == "f" else f64hex(x) for x in lit))
        h += extra(0, "single")
    n = rng.choice([1, k - 1, k, k + 1, 2 * k, 2 * k + 1, 7 * k, 30 * k])
    mode = rng.choice([0, 0, 1, 2])
    h.append("den.updn 0 %d %d %d" % (n, rng.randrange(1000), mode))
    h += extra(0, "exact-or-estimation")
    h.append("den.updn 0 %d %d %d" % (rng.choice([1, k, 5 * k]), rng.randrange(1000), mode))
    h += extra(0, "estimation")
    h.append("den.new 1 %s %d %d" % (T, rng.choice([k, 2, 6]), dim))
    h.append("den.updn 1 %d %d %d" % (rng.choice([1, 3 * k, 20 * k]), rng.randrange(1000), rng.choice([0, 1, 2])))
    h.append("den.merge 0 1")
    h += extra(0, "post-merge")
    return h


# ----------------------------------------------------------------------------- corpus + shipped images

def corpus_lines(family):
    """committed baseline corpus: lines `IMG <kind> <hex> | <content>` and `SK <repo-relative path> <kind> | <content>`"""
    res = []
    for f in sorted(glob.glob(os.path.join(core.ROOT, "corpus", "baseline", family, "*.txt"))):
        for l in open(f):
            l = l.rstrip("\n")
            if not l.strip() or l.startswith("#"):
                continue
            head, content = l.split(" | ", 1)
            w = head.split()
            if w[0] == "IMG":
                res.append(dict(src=os.path.basename(f), kind=w[1], hex=w[2], content=content.strip()))
            elif w[0] == "SK":
                p = os.path.join(core.REPO, w[1])
                try:
                    hx = open(p, "rb").read().hex()
                except OSError:
                    hx = None
                res.append(dict(src=w[1], kind=w[2], hex=hx, content=content.strip(), shipped=True))
    return res


# ----------------------------------------------------------------------------- legacy (reference format) images

def be_legacy_big(mn, mx, comp, cents):
    b = b"\x00\x00\x00\x01" + struct.pack(">ddd", mn, mx, comp) + struct.pack(">i", len(cents))
    for w, m in cents:
        b += struct.pack(">dd", w, m)
    return b


def be_legacy_small(mn, mx, comp, cents, cap1=0, cap2=0):
    b = b"\x00\x00\x00\x02" + struct.pack(">dd", mn, mx) + struct.pack(">f", comp) + struct.pack(">HHH", cap1, cap2, len(cents))
    for w, m in cents:
        b += struct.pack(">ff", w, m)
    return b


# ----------------------------------------------------------------------------- base part

class MiscPart(Part):
    harness = HARNESS
    model_exe = MODEL
    family = None
    timeout = 600
    cmp = staticmethod(content_cmp)

    def __init__(self, name):
        self.name = name

    # the model decodes what the implementation wrote
    def model_lines(self, hist, impl_out):
        res = []
        for l in impl_out:
            d = parse_img(l)
            if d:
                res.append("IMG %s %s" % (d["kind"], d["hex"]))
        return res

    def expected_model_out(self, hist, impl_out):
        res = []
        for l in impl_out:
            d = parse_img(l)
            if d:
                res.append(dec_expected(d["content"], d["size"], kind=d["kind"], hexs=d["hex"]))
        return res


def unexpected(hist, impl_out, allowed_throw=()):
    """generic sanity of a trace: no bad-op, no DIED, no unexplained throw"""
    bad = []
    for i, (l, o) in enumerate(zip(hist, impl_out)):
        op = l.split()[0]
        if o.startswith("DIED "):
            w = o.split()
            bad.append(("%s/%s/died/%s" % (fam_of_op(op), op.split(".")[-1], w[2].split(":")[0] + (":" + w[2].split(":")[1] if w[2].startswith("asan:") else "")), o, i))
        elif o == "bad-op":
            bad.append(("bad-op", l, i))
        elif o == "throw" and op not in allowed_throw:
            bad.append(("%s/%s/unexpected-throw" % (fam_of_op(op), op.split(".")[-1]), l, i))
    if len(impl_out) < len(hist):
        bad.append(("trace-short", "%d of %d ops answered" % (len(impl_out), len(hist)), len(impl_out)))
    return bad


def fam_of_op(op):
    return {"bf": "bloom", "td": "tdigest", "den": "density"}.get(op.split(".")[0], op)

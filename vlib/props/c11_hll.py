"""C11 (HLL group) — truncated / corrupted HLL images are rejected safely (DESIGN.md 3 C11, docs/WIRE_GUIDE.md)."""
from ..runner import Spec
from . import hll_wire_common as W


def hex_class(hx):
    b = bytes.fromhex(hx) if hx != "-" else b""
    if len(b) < 8:
        return "short"
    if b[0] == 2:
        return "list"
    if b[0] == 3:
        return "set"
    return "hll%d" % {0: 4, 1: 6, 2: 8}.get((b[7] >> 2) & 3, 0)


def split_line(l):
    """PFX|COR <kind> <hex> | k=v ... -> (kind, hex, dict)"""
    head, tail = l.split(" | ", 1)
    w = head.split()
    return w[1], w[2], dict(t.split("=", 1) for t in tail.split() if "=" in t)


SAFE = ("T", "A=", "A")

FIELDS = {0: "pre_ints", 1: "ser_ver", 2: "family", 3: "lg_k", 4: "lg_arr", 5: "flags", 7: "mode"}


def field_name(cls, pos):
    """name of the preamble field that byte `pos` belongs to (documented layout)"""
    if pos in FIELDS:
        return FIELDS[pos]
    if pos == 6:
        return "count" if cls == "list" else ("unused6" if cls == "set" else "cur_min")
    if cls == "set" and 8 <= pos < 12:
        return "count"
    if cls.startswith("hll"):
        for lo, hi, nm in ((8, 16, "hip"), (16, 24, "kxq0"), (24, 32, "kxq1"), (32, 36, "num_at_cur_min"), (36, 40, "aux_count")):
            if lo <= pos < hi:
                return nm
    return "byte%d" % pos


def norm_outcome(o):
    """stable signature of a safety outcome: sanitizer class + kind + first library frame (no addresses / numbers)"""
    site = ""
    if "@" in o:
        o, site = o.split("@", 1)
        site = "@" + site
    extra = ""
    if "+" in o:
        o, extra = o.split("+", 1)
        extra = "+" + extra
    if o.startswith("ubsan:"):
        m = o[6:]
        for pat, nm in (("shift_exponent", "shift-exponent"), ("left_shift_of", "left-shift-overflow"), ("misaligned", "misaligned-access"),
                        ("null_pointer", "null-pointer"), ("downcast_of", "bad-downcast"), ("signed_integer_overflow", "signed-overflow"), ("out_of_bounds", "index-out-of-bounds"),
                        ("not_a_valid_value", "invalid-enum-or-bool-load"), ("outside_the_range", "float-cast-overflow")):
            if pat in m:
                m = nm
                break
        o = "ubsan-" + m
    elif o.startswith("asan:"):
        o = "asan-" + o[5:]
    return o + extra + site


class HllC11(W.WirePart):
    name = "hll"

    def __init__(self):
        self.stats = dict(images=0, prefixes=0, exhaustive=True, by_class={}, padding_accepts=0, corrupt_cases=0,
                          corrupt_accept=0, corrupt_throw=0, corrupt_unsafe=0)

    def generate(self, rng, tier):
        nh = 20 if tier == "quick" else 150
        hs = []
        for i in range(nh):
            h = []
            cls = W.CLASSES[i % len(W.CLASSES)]
            L, _ = W.recipe(rng, tier, 0, cls, [])
            h += L
            h.append("pfx 0 c")
            h.append("pfx 0 u")
            # corruption: every preamble byte x 8 replacement values x 2 paths; every state class gets both kinds
            if tier == "quick":
                h.append("cor 0 %s" % ("c" if (i // len(W.CLASSES)) % 2 == 0 else "u"))
            else:
                h += ["cor 0 c", "cor 0 u"]
            hs.append(h)
        return hs

    def oracle(self, hist, impl_out):
        bad = []
        for i, l in enumerate(impl_out):
            if i >= len(hist):
                break
            op = hist[i].split()[0]
            if l.strip() == "throw" and op in ("pfx", "cor", "pfxi", "cori"):
                bad.append(("hll/%s/harness-op-threw" % op, hist[i][:200], i))
                continue
            if l.startswith("PFX "):
                kind, hx, f = split_line(l)
                img = bytes.fromhex(hx)
                cls = hex_class(hx)
                for path in ("bytes", "stream"):
                    got = W.rle_expand(f.get(path, "-"))
                    if len(got) != len(img):
                        bad.append(("hll/%s/prefix/not-exhaustive" % path, "%d outcomes for %d prefixes" % (len(got), len(img)), i))
                        continue
                    for n, o in enumerate(got):
                        if o == "T":
                            continue
                        if o == "A=":
                            # allowed only where the missing tail is reserved padding that carries no information
                            if any(img[n:]):
                                bad.append(("hll/%s/prefix/accepts-truncated-image/%s-%s" % (path, cls, kind),
                                            "prefix %d of %d accepted although non-zero bytes are missing" % (n, len(img)), i))
                            continue
                        if o == "A!":
                            bad.append(("hll/%s/prefix/accepts-with-different-content/%s-%s" % (path, cls, kind),
                                        "prefix %d of %d yields another sketch" % (n, len(img)), i))
                            continue
                        no = norm_outcome(o)
                        key = "hll/%s/prefix/%s" % (path, no)
                        if "@" not in no:
                            key += "/%s" % ("hll" if cls.startswith("hll") else cls)
                        bad.append((key, "prefix length %d of %d (%s %s): %s" % (n, len(img), cls, kind, o), i))
            elif l.startswith("COR "):
                kind, hx, f = split_line(l)
                cls = hex_class(hx)
                b = f.get("bad", "-")
                if b != "-":
                    for item in b.split(","):
                        pos, val, path, o = item.split(":", 3)
                        pathn = "bytes" if path == "b" else "stream"
                        no = norm_outcome(o)
                        key = "hll/%s/corrupt/%s" % (pathn, no)
                        if "@" not in no:
                            key += "/%s.%s" % ("hll" if cls.startswith("hll") else cls, field_name(cls, int(pos)))
                        bad.append((key, "byte %s (%s) := 0x%s of a %s %s image: %s" % (pos, field_name(cls, int(pos)), val, cls, kind, o), i))
        # one entry per key and line
        seen, out = set(), []
        for k, w, i in bad:
            if (k, i) not in seen:
                seen.add((k, i))
                out.append((k, w, i))
        return out

    def nontrivial_key(self, hist, impl_out):
        sig = []
        st = self.stats
        for l in impl_out:
            if l.startswith("PFX "):
                kind, hx, f = split_line(l)
                n = len(hx) // 2
                cls = hex_class(hx)
                st["images"] += 1
                st["prefixes"] += 2 * n
                tag = "%s-%s" % (cls, kind)
                st["by_class"][tag] = st["by_class"].get(tag, 0) + 1
                for path in ("bytes", "stream"):
                    got = W.rle_expand(f.get(path, "-"))
                    st["padding_accepts"] += sum(1 for o in got if o == "A=")
                    if len(got) != n:
                        st["exhaustive"] = False
                sig.append((tag, n, hash(hx) & 0xffff))
            elif l.startswith("COR "):
                kind, hx, f = split_line(l)
                for path in ("bytes", "stream"):
                    s = f.get(path, "")
                    st["corrupt_cases"] += len(s)
                    st["corrupt_accept"] += s.count("A")
                    st["corrupt_throw"] += s.count("T")
                    st["corrupt_unsafe"] += s.count("X")
        return tuple(sig) if sig else None


class C11Hll(Spec, HllC11):
    pid = "C11"
    props_modules = ["DSProofs.Props.C11_Hll"]
    tfamilies = ["wire_hll"]
    level = "proof"
    rule = ("per history one real hll_sketch in a state class (empty / list / set / HLL_4,6,8 with cur_min shifts / HLL_4 aux "
            "exceptions / start_full_size / out-of-order union result / reset), serialized compact and updatable; for each image "
            "EVERY prefix length 0..size-1 is deserialized from an exact-size heap block (ASan red zones; length 0 at the end of a "
            "block) and from a stream ending there, in a forked child per sanitizer abort, with a 256 MiB allocation cap, a 3 s "
            "watchdog and allocation-balance accounting (replaced operator new/delete); outcomes are compared with the strict and "
            "the lenient Lean reader (reject <-> throw; accept only where the lenient reader accepts and only the same content). "
            "Corruption: every preamble byte (8 / 12 / 40) x {00,01,7f,80,ff,b^1,b^80,b+1} x {bytes, stream}; an accepted sketch is "
            "probed (getters, to_string, both serializers, 12 updates); only safety outcomes are violations. "
            "non-trivial = every image (all have >= 8 prefixes); distinct = (class, kind, size, bytes hash)")
    trusted_base = ["Lean 4.33 kernel", "axioms: propext, Quot.sound, Classical.choice",
                    "g++ 12 ASan/UBSan as the detector of out-of-bounds accesses in the C++ readers (runtime behaviour, not proved)",
                    "harness/wire_hll_h.cpp: fork-per-abort driver, replaced global operator new/delete (allocation cap and balance)",
                    "prefix enumeration is complete per image; the set of images is sampled"]
    assumptions = ["theorems are about the specification readers `decode` / `decodeCore` of DSModel/Wire/Hll.lean",
                   "reserved padding = the empty aux area of an updatable HLL_4 image and the 8 zero slots of an updatable empty list image"]

    def __init__(self):
        HllC11.__init__(self)

    def parts(self):
        return [self]

    def extra_stages(self, rep, tier, rng, broken):
        rep.cov["hll_wire"] = self.stats
        rep.cov["exhaustive"] = True


SPEC = C11Hll()
PARTS = [SPEC]
CLAIM_TEXT = ("HLL: kernel-checked prefix safety of the specification readers (every strict prefix of every well-formed image is "
              "rejected; the lenient reader accepts exactly where only reserved zero padding is missing and then returns the same "
              "image), decode_bounded (tables no larger than the input); every prefix length and every preamble-byte corruption of "
              "sampled real images is run through deserialize(bytes,n) and deserialize(istream) under ASan/UBSan with allocation cap, "
              "watchdog and allocation balance, and compared with the Lean verdicts.")
CLAIM = dict(text=CLAIM_TEXT,
             note="Memory safety of the C++ readers is observed under sanitizers on sampled images (exhaustive in the prefix length), not proved.",
             technique="Lean 4 prefix-safety theorem for reader combinators + exhaustive-prefix / corruption differential runs under sanitizers",
             design="DESIGN.md §3 C11")

"""C11 — combined over the wire-format family groups (parts built separately: c11_<group>)."""
from ..combine import combined_spec

SPEC = combined_spec("C11", ["c11_theta", "c11_hll", "c11_cpc", "c11_quant", "c11_count", "c11_misc"], "C11")

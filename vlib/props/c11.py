"""C11 — combined over family parts (built separately: c11_theta, c11_hll, c11_cpc, c11_quant, c11_count, c11_misc)."""
from ..combine import combined_spec

SPEC = combined_spec("C11", ['c11_theta', 'c11_hll', 'c11_cpc', 'c11_quant', 'c11_count', 'c11_misc'], "C11")
CLAIM_TEXT = ('Truncated/corrupted images: per family kernel-checked prefix safety of the specification readers (built from prefix-safe combinators; every strict prefix of every well-formed image is rejected, or — only for reserved padding — yields the same image) and `decode_bounded` (counts accepted are bounded by the input length); on the real code every prefix length 0..size-1 and every structural/preamble byte x a fixed replacement set is run on the bytes, stream (and wrap) paths under ASan/UBSan/LSan with allocation cap, balance check after throw and a CPU watchdog. '
              + "Parts: " + " ".join(SPEC.claim_texts))
CLAIM = dict(text=CLAIM_TEXT,
             note='Memory safety of the C++ is observed (sanitizers) per sampled image, prefix/corruption enumeration per image is exhaustive; the theorems are about the specification readers.',
             technique='Lean 4 prefix-safety proofs of reader combinators + exhaustive prefix/corruption sweeps of the real readers under sanitizers',
             design='DESIGN.md §3 C11')

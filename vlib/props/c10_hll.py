"""C10 (HLL group) — documented HLL layout; baseline images stay readable (DESIGN.md 3 C10, docs/WIRE_GUIDE.md).

`python3 -m vlib.props.c10_hll --write-corpus` (re)writes corpus/baseline/hll/*.txt from the tree at $VERIF_REPO — done ONCE
from the pinned tree; the committed files are the reference afterwards."""
import os, re, sys, random
from .. import core
from ..runner import Spec
from . import hll_wire_common as W


def legacy_variant(kind, hx):
    """image as an older writer produced it: lg_arr byte (4) absent = 0. Only where the readers recompute it:
    set images, and compact HLL_4 images with aux entries.  -> hex or None"""
    b = bytearray.fromhex(hx)
    if len(b) < 8 or b[4] == 0:
        return None
    if b[0] == 3 or (b[0] == 10 and kind == "compact" and ((b[7] >> 2) & 3) == 0 and len(b) >= 40 and any(b[36:40])):
        b[4] = 0
        return b.hex()
    return None


class HllLive(W.WirePart):
    """tie (i): bytes written by the current implementation decode — in Lean, from the documentation alone — to the
    content the API reports"""
    name = "hll"

    def __init__(self, stats):
        self.stats = stats

    def generate(self, rng, tier):
        nh = 30 if tier == "quick" else 300
        hs = []
        for i in range(nh):
            h = []
            for j in range(rng.choice([1, 2])):
                L, _ = W.recipe(rng, tier, j, W.CLASSES[(i + 5 * j) % len(W.CLASSES)], [])
                h += L + ["ser %d c" % j, "ser %d u" % j]
            hs.append(h)
        return hs

    def oracle(self, hist, impl_out):
        bad = []
        for i, l in enumerate(impl_out):
            if i < len(hist) and hist[i].startswith("ser") and l.strip() == "throw":
                bad.append(("hll/ser/throws", hist[i], i))
            im = W.parse_img(l)
            if im and im["checks"].get("deser") != "ok":
                bad.append(("hll/%s-%s/restored-content-differs" % (W.img_class(im["content"]), im["kind"]), "deser=%s" % im["checks"].get("deser"), i))
        return bad

    def nontrivial_key(self, hist, impl_out):
        sig = []
        for l in impl_out:
            im = W.parse_img(l)
            if im:
                self.stats["live_images"] += 1
                sig.append((W.img_class(im["content"]), im["kind"], im["size"], hash(im["hex"]) & 0xffff))
        return tuple(sig) if sig else None


class HllBaseline(W.WirePart):
    """ties (iii)/(iv): every image of the committed baseline corpus (and its older-writer variant with the lg_arr byte
    absent) must deserialize — in C++ from the current tree and in Lean — to the recorded content"""
    name = "hll_baseline"

    def __init__(self, stats):
        self.stats = stats
        self.recorded = {}
        for kind, hx, content in W.corpus_lines():
            self.recorded[hx] = (kind, content, False)
            lv = legacy_variant(kind, hx)
            if lv and lv not in self.recorded:
                self.recorded[lv] = (kind, content, True)

    def generate(self, rng, tier):
        items = sorted(self.recorded.items())
        hs, cur = [], []
        for hx, (kind, content, legacy) in items:
            cur.append("load %s %s" % ("c" if kind == "compact" else "u", hx))
            if len(cur) == 12:
                hs.append(cur); cur = []
        if cur:
            hs.append(cur)
        return hs

    def search_histories(self, rng, tier, around=None):
        return []

    def oracle(self, hist, impl_out):
        bad = []
        for i, l in enumerate(impl_out):
            if i >= len(hist):
                break
            w = hist[i].split()
            if w[0] != "load":
                continue
            rec = self.recorded.get(w[2])
            if rec is None:
                continue
            kind, content, legacy = rec
            tag = "%s-%s%s" % (W.img_class(content), kind, "-legacy-lgarr0" if legacy else "")
            if l.strip() == "throw":
                bad.append(("hll/baseline/%s/rejected" % tag, "baseline image no longer deserializes: %s..." % w[2][:48], i))
                continue
            im = W.parse_img(l)
            if not im:
                bad.append(("hll/baseline/%s/bad-observation" % tag, l[:120], i))
                continue
            if im["content"] != content:
                bad.append(("hll/baseline/%s/content-differs" % tag, "recorded %s | now %s" % (content[:160], im["content"][:160]), i))
            elif im["checks"].get("deser") != "ok":
                bad.append(("hll/baseline/%s/bytes-vs-stream-differ" % tag, "deser=%s" % im["checks"].get("deser"), i))
            elif not legacy:
                for key in ("reser", "resers"):
                    v = im["checks"].get(key, "-")
                    if not (v == "eq" or v.startswith("perm@")):
                        bad.append(("hll/baseline/%s/reserialized-differs" % tag, "%s=%s" % (key, v), i))
        return bad

    def nontrivial_key(self, hist, impl_out):
        n = sum(1 for l in impl_out if l.startswith("IMG "))
        self.stats["baseline_images"] += n
        self.stats["baseline_legacy_variants"] += sum(1 for l in hist if self.recorded.get(l.split()[2], (0, 0, False))[2])
        return tuple(hash(l) & 0xffffff for l in hist) if n else None


def parse_dsgen():
    vals = {}
    p = os.path.join(core.LEAN, "DSGen", "WireHll.lean")
    if not os.path.exists(p):
        return vals
    for m in re.finditer(r"^def whll_(\w+) : (?:Nat|List Nat) := (.*)$", open(p).read(), flags=re.M):
        vals[m.group(1)] = m.group(2).strip()
    return vals


class C10Hll(Spec):
    pid = "C10"
    props_modules = ["DSProofs.Props.C10_Hll"]
    tfamilies = ["wire_hll"]
    harness = "wire_hll_h"
    model_exe = "dsmodel_wire_hll"
    family = "hll"
    rule = ("(i) images written by real sketches in all state classes (as C09) are decoded by the Lean reader written from the "
            "documented layout and must give the API content; (ii) every image of the committed baseline corpus "
            "corpus/baseline/hll/*.txt (all state classes x compact/updatable, written once from the pinned tree) and its "
            "older-writer variant (lg_arr byte absent) is deserialized by the current C++ (bytes and stream) and by the Lean reader "
            "and must give the recorded content; (iii) constants parsed by the translator == constants dumped from the compiled "
            "headers. No .sk reference images for HLL are shipped in the repository. distinct = distinct image bytes")
    trusted_base = ["Lean 4.33 kernel", "axioms: propext, Quot.sound, Classical.choice",
                    "Props/C10_Hll.lean `docConsts` / literals: the documented contract, transcribed by hand from the layout comments",
                    "tools/trules/wire_hll.py, cross-checked against the compiled constants (harness op `consts`)",
                    "the baseline corpus was written by the pinned tree's own writer (no Java/Python producer available offline)"]
    assumptions = ["hashing of input types is tied to MurmurHash3 by the C03 harness (not repeated here)"]

    def __init__(self):
        self.stats = dict(live_images=0, baseline_images=0, baseline_legacy_variants=0, consts_compared=0)
        self._parts = [HllLive(self.stats), HllBaseline(self.stats)]

    def parts(self):
        return self._parts

    def extra_stages(self, rep, tier, rng, broken):
        rep.cov["hll_wire"] = self.stats
        # translator tie: generated values == values dumped from the compiled headers
        ok, exe, log = core.compile_harness("wire_hll_h")
        if not ok:
            return
        out, oc, err = core.run_impl(exe, ["consts"])
        gen = parse_dsgen()
        if oc != "ok" or not out or not out[0].startswith("CONSTS"):
            broken.append(("translator-tie", "wire_hll consts dump", "harness `consts` failed: %s %s" % (oc, err[-300:])))
            return
        comp = dict(t.split("=", 1) for t in out[0].split()[1:])
        bad = []
        for k, v in comp.items():
            if k == "ARR":
                want = []
                try:
                    for lgk in range(4, 13):
                        a4 = 1 << (lgk - int(gen["ARR4_SHIFT_SUB"]))
                        a6 = (((1 << lgk) * int(gen["ARR6_MUL"])) >> int(gen["ARR6_SHR"])) + int(gen["ARR6_ADD"])
                        a8 = 1 << (lgk - int(gen["ARR8_SHIFT_SUB"]))
                        want.append("%d/%d/%d" % (a4, a6, a8))
                except KeyError as e:
                    bad.append("missing %s" % e)
                if ",".join(want) != v:
                    bad.append("ARR formulas: compiled %s, translated %s" % (v, ",".join(want)))
            elif k == "LG_AUX_ARR_INTS":
                g = gen.get(k, "").strip("[]").replace(" ", "")
                if g != v:
                    bad.append("%s: compiled %s, translated %s" % (k, v, g))
            else:
                if gen.get(k) != v:
                    bad.append("%s: compiled %s, translated %s" % (k, v, gen.get(k)))
            self.stats["consts_compared"] += 1
        if bad:
            broken.append(("translator-tie", "tools/trules/wire_hll.py", "; ".join(bad)))


SPEC = C10Hll()
PARTS = SPEC.parts()
CLAIM_TEXT = ("HLL: `wire_consts_documented` (every constant, offset, flag mask, mode-byte field and register-array size formula "
              "extracted from the current headers equals the hand-written documented value), the model's sequential layout places "
              "every field at the generated offset, older-writer set images (lg_arr absent) round-trip; the Lean reader decodes live "
              "images and the committed baseline corpus to the recorded content, as does the current C++.")
CLAIM = dict(text=CLAIM_TEXT,
             note="No HLL .sk files are shipped; cross-language compatibility is checked against the documented layout and the baseline corpus only.",
             technique="decide over regenerated constants + Lean layout theorems + baseline-corpus differential decoding",
             design="DESIGN.md §3 C10")


def write_corpus():
    """one-off: write corpus/baseline/hll/*.txt from the tree at VERIF_REPO"""
    ok, exe, log = core.compile_harness("wire_hll_h")
    if not ok:
        print(log); return 1
    rng = random.Random(20240926)
    by_cls = {}
    seen = set()
    for rnd in range(60):
        h = []
        cls = W.CLASSES[rnd % len(W.CLASSES)]
        L, _ = W.recipe(rng, "quick", 0, cls, [])
        h += L + ["ser 0 c", "ser 0 u"]
        out, oc, err = core.run_impl(exe, h)
        if oc != "ok":
            print("harness failed", oc, err[-500:]); return 1
        for l in out:
            im = W.parse_img(l)
            if not im or im["hex"] in seen or im["size"] > 1200:
                continue
            seen.add(im["hex"])
            tag = W.img_class(im["content"])
            by_cls.setdefault(tag, []).append("IMG %s %s | %s" % (im["kind"], im["hex"], im["content"]))
    d = os.path.join(core.ROOT, "corpus", "baseline", "hll")
    os.makedirs(d, exist_ok=True)
    n = 0
    for tag, lines in sorted(by_cls.items()):
        with open(os.path.join(d, tag + ".txt"), "w") as f:
            f.write("# baseline HLL images (%s), written by harness/wire_hll_h.cpp from the pinned tree; IMG <kind> <hex> | <content>\n" % tag)
            for l in lines:
                f.write(l + "\n"); n += 1
    print("wrote %d images in %d files" % (n, len(by_cls)))
    return 0


if __name__ == "__main__":
    if "--write-corpus" in sys.argv:
        sys.exit(write_corpus())

"""C10 (group `count`) — documented layout; images of the baseline release stay readable."""
from ..runner import Spec
from . import wire_count_common as W

PARTS = [W.C10Part(f) for f in W.FAMILIES]

CLAIM_TEXT = ("count-min / frequent items / VarOpt sketch / VarOpt union / EBPPS: `wire_consts_documented` — every wire constant "
              "re-extracted from the current headers (family ids 18/10/13/14/19, serial versions, preamble sizes, flag bits/masks, "
              "first-byte packing and mark packing literals, k limits) equals the documented value (`decide`); `encode`/`decode` are the "
              "documented layouts (field order included). Tie: the documented Lean reader recovers the API content from the code's bytes "
              "and re-encodes them identically; a committed baseline corpus (every family x state class, written from the pinned tree) must "
              "decode in C++ from the current tree (bytes and stream) and in Lean to the recorded content. These families have no legacy "
              "formats and no shipped .sk files.")


class C10Count(Spec):
    pid = "C10"
    props_modules = ["DSProofs.Props.C10_CountMin", "DSProofs.Props.C10_Fi", "DSProofs.Props.C10_VarOpt", "DSProofs.Props.C10_Ebpps"]
    harness = W.HARNESS
    model_exe = W.MODEL
    tfamilies = ["wire_count"]
    rule = ("every line of corpus/baseline/{countmin,fi,varopt,ebpps}/*.txt (load: C++ bytes + stream readers and the Lean reader must give "
            "the recorded content) plus fresh images of every state class; non-trivial = image longer than 16 bytes")
    trusted_base = W.TRUSTED + ["corpus/baseline/* was written once by this harness from the pinned tree (commit recorded in the files' header)"]
    assumptions = ["hash definitions (MurmurHash3 for the count-min seed hash) are tied by the theta group; here only the seed hash of the "
                   "image is recomputed from the seed with DSModel/Murmur3.lean",
                   "no Java/Python-produced images are available offline"]

    def parts(self):
        return PARTS


SPEC = C10Count()

CLAIM = dict(text=CLAIM_TEXT, note="Big-endian hosts and foreign-language producers are not covered.",
             technique="translator-extracted constants pinned by `decide` + documented-reader correspondence + baseline corpus",
             design="DESIGN.md §3 C10")

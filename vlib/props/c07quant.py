"""C07, part "quantiles" — the classic quantiles_sketch conserves weight, keeps exact extremes and answers coherently
(DESIGN.md 3 C07).  Also holds the helpers shared with c08quant.py (item codecs, shape simulator, line parsers)."""
import math, struct
from .. import core
from ..runner import Spec, Part

# ------------------------------------------------------------------------------------------------ item codecs

NAN_BITS = ["7ff8000000000000", "fff8000000000000", "7ff0000000000001", "7ff4000000000000"]


def f64_of_hex(h):
    return struct.unpack("<d", struct.pack("<Q", int(h, 16)))[0]


def hex_of_f64(x):
    if x == 0.0:
        return "0000000000000000"
    return "%016x" % struct.unpack("<Q", struct.pack("<d", x))[0]


class IntCodec:
    name = "i64"

    @staticmethod
    def parse(s):
        return int(s)

    @staticmethod
    def render(x):
        return str(x)

    @staticmethod
    def is_nan(x):
        return False


class F64Codec:
    name = "f64"

    @staticmethod
    def parse(s):
        return f64_of_hex(s)

    @staticmethod
    def render(x):
        return hex_of_f64(x)

    @staticmethod
    def is_nan(x):
        return x != x


class StrCodec:
    """std::string items under the harness' LengthFirst comparator: parsed to (length, text) so that Python's tuple order is that order"""
    name = "str"

    @staticmethod
    def parse(s):
        return (len(s), s)

    @staticmethod
    def render(x):
        return x[1]

    @staticmethod
    def is_nan(x):
        return False


CODECS = {"i64": IntCodec, "f64": F64Codec, "str": StrCodec}


def str_item(v):
    """small integers -> short words over {a, b, c} of length 1..3 (many duplicates, several lengths)"""
    v = abs(int(v)) % 39
    if v < 3:
        return "abc"[v]
    if v < 12:
        v -= 3
        return "abc"[v // 3] + "abc"[v % 3]
    v -= 12
    return "abc"[v // 9] + "abc"[(v // 3) % 3] + "abc"[v % 3]


# ------------------------------------------------------------------------------------------------ shape simulator
# (k, n) level companion of the sketch: how many random choices an operation consumes, as a function of shapes only.
# Used by the generators to size coin trees; independent re-statement of `flips_shape_only`.


def bit_len(x):
    return x.bit_length()


def ripple_ar(length, bits):
    out = []
    while length > 0 and bits % 2 == 1:
        out.append(2)
        bits //= 2
        length -= 1
    return out


def update_ar(k, n):
    if (n + 1) % (2 * k) == 0:
        return [2] + ripple_ar(bit_len((n + 1) // (2 * k)), n // (2 * k))
    return []


def updates_ar(k, n, m):
    out = []
    for j in range(m):
        out += update_ar(k, n + j)
    return out


def level_merge_ar(factor, tk, tn, sk, sn):
    if sn == 0:
        return []
    bb = sn % (2 * sk)
    out = updates_ar(tk, tn, bb)
    lg = factor.bit_length() - 1
    tlen = bit_len((sn + tn) // (2 * tk))
    tbits = (tn + bb) // (2 * tk)
    pat = sn // (2 * sk)
    lvl = 0
    while pat:
        if pat & 1:
            if factor != 1:
                out.append(factor)
            out += ripple_ar(tlen - (lvl + lg), tbits >> (lvl + lg))
            tbits += 1 << (lvl + lg)
        pat >>= 1
        lvl += 1
    return out


def merge_ar(tk, tn, sk, sn):
    if sn == 0:
        return []
    if sn // (2 * sk) == 0:
        return updates_ar(tk, tn, sn)
    if tn // (2 * tk) != 0:
        if tk == sk:
            return level_merge_ar(1, tk, tn, sk, sn)
        if tk > sk:
            return level_merge_ar(tk // sk, sk, sn, tk, tn)
        return level_merge_ar(sk // tk, tk, tn, sk, sn)
    if tk <= sk:
        return updates_ar(sk, sn, tn)
    return level_merge_ar(tk // sk, sk, sn, tk, tn)


def merge_k(tk, tn, sk, sn):
    if sn == 0 or sn // (2 * sk) == 0:
        return tk
    if tn // (2 * tk) != 0:
        return min(tk, sk)
    return sk


def valid_k(k):
    return 2 <= k <= 32768 and (k & (k - 1)) == 0


class Shapes:
    """tracks (k, n) and the true accepted items per object while a history is being generated / checked"""

    def __init__(self, codec):
        self.codec = codec
        self.kn = {}
        self.truth = {}

    def apply(self, w):
        """-> list of arities consumed (by the shape rules), or None if the op is invalid (throws / bad-op)"""
        op = w[0]
        if op == "new":
            k = int(w[2])
            if not valid_k(k):
                return None
            self.kn[int(w[1])] = (k, 0)
            self.truth[int(w[1])] = []
            return []
        if op == "upd":
            i = int(w[1])
            if i not in self.kn:
                return None
            x = self.codec.parse(w[2])
            if self.codec.is_nan(x):
                return []
            k, n = self.kn[i]
            self.kn[i] = (k, n + 1)
            self.truth[i] = self.truth[i] + [x]
            return update_ar(k, n)
        if op == "merge":
            d, s = int(w[1]), int(w[2])
            if d == s or d not in self.kn or s not in self.kn:
                return None
            (tk, tn), (sk, sn) = self.kn[d], self.kn[s]
            self.kn[d] = (merge_k(tk, tn, sk, sn), tn + sn)
            self.truth[d] = self.truth[d] + self.truth[s]
            return merge_ar(tk, tn, sk, sn)
        if op == "copy":
            s, d = int(w[1]), int(w[2])
            if s not in self.kn:
                return None
            self.kn[d] = self.kn[s]
            self.truth[d] = list(self.truth[s])
            return []
        if op == "view":
            return [] if int(w[1]) in self.kn else None
        return None


# ------------------------------------------------------------------------------------------------ observation parsers

def parse_O(line, codec):
    w = line.split()
    if len(w) < 9 or w[0] != "O" or w[8] != "I":
        return None
    d = dict(k=int(w[1]), n=int(w[2]), mn=None if w[3] == "-" else codec.parse(w[3]), mx=None if w[4] == "-" else codec.parse(w[4]),
             retained=int(w[5]), est=w[6] == "1", consumed=int(w[7]))
    it = []
    for t in w[9:]:
        a, b = t.rsplit(":", 1)
        it.append((codec.parse(a), int(b)))
    d["iter"] = it
    return d


def parse_view_entries(s, codec):
    if not s:
        return []
    out = []
    for t in s.split(","):
        a, b = t.rsplit("*", 1)
        out.append((codec.parse(a), int(b)))
    return out


def weighted_sorted(pairs):
    """[(item, weight)] -> sorted by item with cumulative weights"""
    out, c = [], 0
    for x, wt in sorted(pairs, key=lambda p: p[0]):
        c += wt
        out.append((x, c))
    return out


def rank_of(cum, total, x, incl):
    """the definition: cumulative weight of the retained items <= x (inclusive) / < x (exclusive), over the total"""
    num = 0
    for y, c in cum:
        if (y <= x) if incl else (y < x):
            num = c
        else:
            break
    return 0.0 if num == 0 else float(num) / float(total)


def quantile_of(cum, total, r, incl):
    wt = int(math.ceil(r * float(total))) if incl else int(r * float(total))
    for y, c in cum:
        if (c >= wt) if incl else (c > wt):
            return y
    return cum[-1][0]


def project(line):
    """coin-independent part of an observation line: items held in levels (weight > 1), the content of the sorted view
    and the answers of an estimating sketch depend on the coin values; everything else does not (DESIGN 2.11)."""
    w = line.split()
    if not w:
        return line
    if w[0] == "O" and len(w) >= 9:
        out = w[:9]
        for t in w[9:]:
            a, b = t.rsplit(":", 1)
            out.append(t if b == "1" else "*:" + b)
        return " ".join(out)
    if w[0] == "V" and len(w) >= 3:
        return " ".join(w) if w[1] == w[2] else " ".join(w[:3])
    if w[0] in ("R", "Q", "C", "P") and len(w) >= 2 and w[1] == "1":
        return " ".join(w[:2]) + " n=%d" % (len(w) - 2)
    return " ".join(w)


_tol = core.float_tol_cmp(12)


def line_cmp(x, y):
    """x = implementation line, y = model line. The model's `Q e ub` (NaN rank: the code's answer comes out of an
    undefined double->uint64 cast) matches any implementation outcome; otherwise compare the coin-independent parts."""
    yw = y.split()
    if len(yw) == 3 and yw[0] == "Q" and yw[2] == "ub":
        return True
    px, py = project(x), project(y)
    return px == py or _tol(px, py)


def mask_consumed(line):
    w = line.split()
    if w and w[0] == "O" and len(w) >= 9:
        w[7] = "_"
    if w and w[0] == "RND":
        w = w[:1]
    return " ".join(w)


def mask_for_c08(line):
    """C08 observes get_sorted_view / get_rank and the random choices consumed; min/max and the iterator are C07's"""
    w = line.split()
    if w and w[0] == "O" and len(w) >= 9:
        w = w[:3] + ["_", "_"] + w[5:8]
    return " ".join(w)


def line_cmp_c08(x, y):
    return line_cmp(mask_for_c08(x), mask_for_c08(y))


def line_cmp_c07(x, y):
    """C07 does not look at the number of random choices consumed (that is C08's flips_shape_only)"""
    return line_cmp(mask_consumed(x), mask_consumed(y))


# ------------------------------------------------------------------------------------------------ generator pieces

def rand_item(rng, codec, universe, pattern, j):
    if codec is StrCodec:
        if pattern == "asc":
            return str_item(j)
        if pattern == "desc":
            return str_item(38 - j % 39)
        if pattern == "const":
            return "bb"
        if pattern == "dups":
            return str_item(rng.randrange(3) * 5)
        return str_item(rng.randrange(39))
    if codec is IntCodec:
        if pattern == "asc":
            v = j
        elif pattern == "desc":
            v = -j
        elif pattern == "const":
            v = 7
        elif pattern == "dups":
            v = rng.randrange(3)
        elif pattern == "zig":
            v = j if j % 2 == 0 else -j
        else:
            v = rng.randrange(-universe, universe)
        if rng.random() < 0.02:
            v = rng.choice([2**63 - 1, -2**63, 0])
        return str(v)
    if rng.random() < 0.06:
        return rng.choice(NAN_BITS)
    if rng.random() < 0.04:
        return rng.choice(["8000000000000000", "0000000000000000", "7ff0000000000000", "fff0000000000000", "0000000000000001",
                           "7fefffffffffffff", "ffefffffffffffff"])
    if pattern == "asc":
        v = j / 2.0
    elif pattern == "desc":
        v = -j / 3.0
    elif pattern == "const":
        v = 2.5
    elif pattern == "dups":
        v = float(rng.randrange(3))
    elif pattern == "zig":
        v = float(j if j % 2 == 0 else -j)
    else:
        v = rng.randrange(-universe, universe) / rng.choice([1.0, 2.0, 3.0])
    return "%016x" % struct.unpack("<Q", struct.pack("<d", v))[0]


RANKS_OK = [0.0, 1.0, 0.5, 0.25, 0.75, 0.1, 0.9, 1e-9, 0.999999, 1.0 / 3.0]
RANKS_BAD = [-0.1, 1.5, -1e-300, 1.0000000000000002, float("inf"), float("-inf")]


def rank_hex(r):
    return "%016x" % struct.unpack("<Q", struct.pack("<d", r))[0]


class QuantPart(Part):
    name = "quantiles"
    harness = "quantiles_h"
    model_exe = "dsmodel_quantiles"
    family = "quantiles"
    cmp = staticmethod(line_cmp_c07)
    timeout = 180

    KS_QUICK = [2, 2, 4, 4, 8, 16]
    KS_THOROUGH = [2, 4, 8, 16, 32, 64, 128]

    # ------------------------------------------------------------------ generation
    def witness_histories(self):
        """fixed histories: the NaN-rank finding and boundary cases"""
        return [
            ["T f64", "new 0 4"] + ["upd 0 %s" % rank_hex(float(i)) for i in range(1, 21)] +
            ["quant 0 7ff8000000000000 1", "quant 0 7ff8000000000000 0", "quant 0 %s 1" % rank_hex(1.5), "quant 0 %s 0" % rank_hex(-0.5)],
            ["T i64", "new 0 2", "quant 0 %s 1" % rank_hex(0.5), "rank 0 1 1", "cdf 0 1 1 2", "pmf 0 0 1", "view 0", "new 1 3", "new 1 0", "new 1 65536",
             "new 1 32768", "upd 1 5", "quant 1 %s 1" % rank_hex(0.0), "quant 1 %s 0" % rank_hex(1.0)],
        ]

    def one_history(self, rng, tier):
        tname = rng.choice(["i64", "i64", "i64", "f64", "f64", "str"])
        codec = CODECS[tname]
        ks = self.KS_QUICK if tier == "quick" else self.KS_THOROUGH
        h = ["T " + tname]
        sh = Shapes(codec)
        nsk = rng.choice([1, 2, 2, 3, 4])
        samek = rng.random() < 0.4
        k0 = rng.choice(ks)
        patterns = {}

        def emit(line):
            w = line.split()
            if w[0] in ("new", "upd", "merge", "copy", "view"):
                sh.apply(w)
            h.append(line)

        def refill():
            h.append("rand " + " ".join(str(rng.randrange(1 << 30)) for _ in range(48)))
        refill()
        for s in range(nsk):
            emit("new %d %d" % (s, k0 if samek else rng.choice(ks)))
            patterns[s] = rng.choice(["asc", "desc", "rand", "rand", "const", "dups", "zig"])
        live = list(range(nsk))
        nxt = nsk
        nops = rng.choice([15, 40, 90, 160]) if tier == "quick" else rng.choice([40, 150, 400, 1200])
        universe = rng.choice([4, 30, 1000])
        cnt = {s: 0 for s in live}
        since = 0
        j = 0
        while j < nops:
            j += 1
            r = rng.random()
            s = rng.choice(live)
            since += 1
            if since >= 40:
                refill()
                since = 0
            if r < 0.62:
                burst = rng.choice([1, 1, 1, 3, 8, 20])
                for _ in range(burst):
                    cnt[s] = cnt.get(s, 0) + 1
                    emit("upd %d %s" % (s, rand_item(rng, codec, universe, patterns.get(s, "rand"), cnt[s])))
                j += burst - 1
            elif r < 0.74 and len(live) > 1:
                d = rng.choice([x for x in live if x != s])
                qb = rng.random() < 0.6
                if qb:      # query -> merge -> query with no update in between: the queries cache the sorted view, the merge must drop it
                    emit("quant %d %s %d" % (d, rank_hex(rng.choice([0.0, 0.5, 1.0])), rng.randrange(2)))
                emit("merge %d %d %s" % (d, s, rng.choice("lr")))
                if qb:
                    emit("view %d" % d)
                    emit("quant %d %s %d" % (d, rank_hex(1.0), 1))
                    emit("quant %d %s %d" % (d, rank_hex(0.0), 0))
                    emit("quant %d %s %d" % (d, rank_hex(0.5), rng.randrange(2)))
            elif r < 0.77 and nxt < 6:
                emit("copy %d %d" % (s, nxt))
                patterns[nxt] = rng.choice(["rand", "asc", "dups"])
                cnt[nxt] = cnt.get(s, 0)
                live.append(nxt)
                nxt += 1
            elif r < 0.79 and nxt < 6:
                emit("new %d %d" % (nxt, rng.choice(ks)))
                patterns[nxt] = rng.choice(["rand", "desc", "const"])
                cnt[nxt] = 0
                live.append(nxt)
                nxt += 1
            elif r < 0.83:
                emit("view %d" % s)
            elif r < 0.88:
                x = rand_item(rng, codec, universe, rng.choice(["rand", "dups"]), j)
                if codec is F64Codec and codec.is_nan(codec.parse(x)):
                    x = rank_hex(0.5)
                emit("rank %d %s %d" % (s, x, rng.randrange(2)))
            elif r < 0.93:
                rr = rng.choice(RANKS_OK) if rng.random() < 0.85 else rng.choice(RANKS_BAD)
                if rng.random() < 0.3:
                    rr = rng.random()
                emit("quant %d %s %d" % (s, rank_hex(rr), rng.randrange(2)))
            elif r < 0.97:
                m = rng.choice([0, 1, 2, 3, 5])
                if codec is StrCodec:
                    pts = sorted(set(StrCodec.parse(str_item(rng.randrange(39))) for _ in range(m)))
                    lits = [p[1] for p in pts]
                    if rng.random() < 0.2 and len(lits) >= 2:
                        i = rng.randrange(len(lits) - 1)
                        lits[i + 1] = lits[i] if rng.random() < 0.5 else lits[0]
                elif codec is IntCodec:
                    pts = sorted(rng.sample(range(-universe - 2, universe + 2), min(m, 2 * universe)))
                    lits = [str(p) for p in pts]
                    if rng.random() < 0.2 and len(lits) >= 2:
                        i = rng.randrange(len(lits) - 1)
                        lits[i + 1] = lits[i] if rng.random() < 0.5 else str(int(lits[i]) - 1)
                else:
                    pts = sorted(set(rng.randrange(-universe, universe) / 2.0 for _ in range(m)))
                    lits = [rank_hex(p) for p in pts]
                    if rng.random() < 0.2 and lits:
                        lits[rng.randrange(len(lits))] = rng.choice(NAN_BITS)
                    elif rng.random() < 0.15 and len(lits) >= 2:
                        i = rng.randrange(len(lits) - 1)
                        lits[i + 1] = lits[i]
                emit("%s %d %d %s" % (rng.choice(["cdf", "pmf"]), s, rng.randrange(2), " ".join(lits)))
            elif r < 0.985:
                emit("err %d %d" % (s, rng.randrange(2)))
            else:
                emit("new %d %d" % (9, rng.choice([0, 1, 3, 6, 12, 40000, 65536, 70000])))
        for s in live:
            emit("view %d" % s)
            emit("quant %d %s %d" % (s, rank_hex(0.5), 1))
        return h

    def generate(self, rng, tier):
        nh = 140 if tier == "quick" else 700
        return self.witness_histories() + [self.one_history(rng, tier) for _ in range(nh)]

    # ------------------------------------------------------------------ the property statement on one implementation trace
    def oracle(self, hist, impl_out):
        bad = []
        codec = None
        sh = None
        last = {}        # id -> last O observation
        for i, l in enumerate(hist):
            if i >= len(impl_out):
                break
            w = l.split()
            o = impl_out[i].strip()
            op = w[0]
            if op == "T":
                codec = CODECS.get(w[1])
                sh = Shapes(codec)
                continue
            if codec is None:
                continue
            if op == "rand":
                continue
            if op in ("new", "upd", "merge", "copy"):
                before = dict(sh.kn)
                ar = sh.apply(w)
                tgt = int(w[2]) if op == "copy" else int(w[1])
                if ar is None:
                    if op == "new" and o != "throw":
                        bad.append(("invalid-k-accepted", o[:80], i))
                    continue
                if o in ("throw", "bad-op"):
                    bad.append(("valid-op-threw", "%s -> %s" % (l[:60], o), i))
                    continue
                ob = parse_O(o, codec)
                if ob is None:
                    bad.append(("bad-observation", o[:80], i))
                    continue
                bad += self.check_state(ob, sh.kn[tgt], sh.truth[tgt], i, op, before, w)
                last[tgt] = ob
                continue
            if op == "view":
                sid = int(w[1])
                if sid not in sh.kn:
                    continue
                ww = o.split()
                if not ww or ww[0] != "V":
                    bad.append(("valid-op-threw", "%s -> %s" % (l[:60], o[:40]), i))
                    continue
                total, cnt = int(ww[1]), int(ww[2])
                ents = parse_view_entries(ww[3] if len(ww) > 3 else "", codec)
                truth = sh.truth[sid]
                if total != len(truth) or (ents and ents[-1][1] != total) or (not ents and total != 0):
                    bad.append(("view-total-not-n", "total=%d n=%d" % (total, len(truth)), i))
                if cnt != len(ents):
                    bad.append(("view-count", o[:60], i))
                if any(ents[j][0] > ents[j + 1][0] for j in range(len(ents) - 1)):
                    bad.append(("view-not-sorted", o[:80], i))
                if any(ents[j][1] >= ents[j + 1][1] for j in range(len(ents) - 1)) or (ents and ents[0][1] <= 0):
                    bad.append(("view-cum-not-increasing", o[:80], i))
                lo = last.get(sid)
                if lo is not None:
                    if cnt != lo["retained"]:
                        bad.append(("view-size-not-retained", "%d vs %d" % (cnt, lo["retained"]), i))
                    prev = 0
                    got = []
                    for x, c in ents:
                        got.append((codec.render(x), c - prev))
                        prev = c
                    want = [(codec.render(x), wt) for x, wt in lo["iter"]]
                    if sorted(got) != sorted(want):
                        bad.append(("view-not-the-retained-items", o[:80], i))
                continue
            if op in ("rank", "quant", "cdf", "pmf"):
                sid = int(w[1])
                if sid not in sh.kn:
                    continue
                truth = sh.truth[sid]
                lo = last.get(sid)
                empty = len(truth) == 0
                if op == "quant":
                    r = f64_of_hex(w[2])
                    invalid = empty or (r != r) or r < 0.0 or r > 1.0
                    key = "empty-query-answered" if empty else ("nan-rank-answered" if r != r else "invalid-rank-answered")
                elif op == "rank":
                    invalid, key = empty, "empty-query-answered"
                else:
                    sp = [codec.parse(x) for x in w[3:]]
                    nanp = any(codec.is_nan(x) for x in sp)
                    noninc = any(not (sp[j] < sp[j + 1]) for j in range(len(sp) - 1))
                    invalid = empty or nanp or noninc
                    key = "empty-query-answered" if empty else "bad-split-points-answered"
                if invalid:
                    if o != "throw":
                        bad.append((key, "%s -> %s" % (l[:60], o[:60]), i))
                    continue
                if o == "throw" or o == "bad-op":
                    bad.append(("valid-query-threw", "%s -> %s" % (l[:60], o), i))
                    continue
                if lo is None:
                    continue
                incl = (w[3] if op in ("rank", "quant") else w[2]) == "1"
                exact = len(truth) < 2 * lo["k"]
                sample = [(x, 1) for x in truth] if exact else lo["iter"]
                cum = weighted_sorted(sample)
                total = len(truth)
                ow = o.split()
                if op == "rank":
                    want = rank_of(cum, total, codec.parse(w[2]), incl)
                    if len(ow) != 3 or f64_of_hex(ow[2]) != want:
                        bad.append(("rank-not-exact-in-exact-mode" if exact else "rank-not-weight-below", "%s -> %s want %s" % (l[:50], o, hex_of_f64(want)), i))
                    other = rank_of(cum, total, codec.parse(w[2]), not incl)
                    if (incl and want < other) or (not incl and want > other):
                        bad.append(("rank-incl-lt-excl", l[:50], i))
                elif op == "quant":
                    want = quantile_of(cum, total, f64_of_hex(w[2]), incl)
                    if len(ow) != 3 or codec.render(codec.parse(ow[2])) != codec.render(want):
                        bad.append(("quantile-not-exact-in-exact-mode" if exact else "quantile-not-by-definition", "%s -> %s want %s" % (l[:50], o, codec.render(want)), i))
                else:
                    sp = [codec.parse(x) for x in w[3:]]
                    cdf = [rank_of(cum, total, x, incl) for x in sp] + [1.0]
                    want = cdf if op == "cdf" else [cdf[0]] + [cdf[j] - cdf[j - 1] for j in range(1, len(cdf))]
                    got = [f64_of_hex(x) for x in ow[2:]]
                    if got != want:
                        bad.append(("cdf-not-rank" if op == "cdf" else "pmf-not-cdf-differences", "%s -> %s" % (l[:50], o[:80]), i))
                    if op == "cdf" and (not got or got[-1] != 1.0):
                        bad.append(("cdf-last-not-one", o[:60], i))
                    if op == "pmf" and abs(sum(got) - 1.0) > 1e-9:
                        bad.append(("pmf-sum-not-one", o[:60], i))
                    if op == "cdf" and any(got[j] > got[j + 1] for j in range(len(got) - 1)):
                        bad.append(("rank-not-monotone", o[:60], i))
                continue
        return bad

    def check_state(self, ob, kn, truth, i, op, before, w):
        bad = []
        codec_items = truth
        k, n = ob["k"], ob["n"]
        if n != len(truth):
            bad.append(("n-not-accepted-count", "n=%d accepted=%d after %s" % (n, len(truth), op), i))
        if op == "merge":
            ks = (before[int(w[1])][0], before[int(w[2])][0])
            if k not in ks:
                bad.append(("k-after-merge", "k=%d operands %s" % (k, ks), i))
        elif k != kn[0]:
            bad.append(("k-changed", "k=%d expected %d" % (k, kn[0]), i))
        if truth:
            if ob["mn"] is None or ob["mx"] is None or ob["mn"] != min(truth) or ob["mx"] != max(truth):
                bad.append(("minmax-not-extremes", "min=%s max=%s" % (ob["mn"], ob["mx"]), i))
        elif ob["mn"] is not None or ob["mx"] is not None:
            bad.append(("minmax-on-empty", "", i))
        it = ob["iter"]
        if len(it) != ob["retained"]:
            bad.append(("iterator-count-not-num-retained", "pairs=%d num_retained=%d" % (len(it), ob["retained"]), i))
        if sum(wt for _, wt in it) != n:
            bad.append(("weights-do-not-sum-to-n", "sum=%d n=%d" % (sum(wt for _, wt in it), n), i))
        if k > 0:
            bits = n // (2 * k)
            if ob["retained"] != n % (2 * k) + k * bin(bits).count("1"):
                bad.append(("retained-bound", "retained=%d n=%d k=%d" % (ob["retained"], n, k), i))
            if ob["est"] != (n >= 2 * k):
                bad.append(("estimation-mode-flag", "est=%s n=%d k=%d" % (ob["est"], n, k), i))
            # structure of the iterator output: base buffer (weight 1) first, then levels in increasing weight 2^(i+1)
            groups = []
            for x, wt in it:
                if groups and groups[-1][0] == wt:
                    groups[-1][1].append(x)
                else:
                    groups.append((wt, [x]))
            wts = [g[0] for g in groups]
            if wts != sorted(set(wts)):
                bad.append(("iterator-weights-not-grouped-increasing", str(wts)[:60], i))
            for wt, items in groups:
                if wt == 1:
                    if len(items) != n % (2 * k):
                        bad.append(("base-buffer-count", "%d vs n mod 2k = %d" % (len(items), n % (2 * k)), i))
                    continue
                lvl = wt.bit_length() - 2
                if wt != 1 << (lvl + 1) or lvl < 0 or not (bits >> lvl) & 1:
                    bad.append(("level-weight-not-flagged-by-bit-pattern", "weight=%d bits=%s" % (wt, bin(bits)), i))
                if len(items) != k:
                    bad.append(("level-size-not-k", "weight=%d size=%d k=%d" % (wt, len(items), k), i))
                if any(items[j] > items[j + 1] for j in range(len(items) - 1)):
                    bad.append(("level-not-sorted", "weight=%d" % wt, i))
        # retained items are a sub-multiset of the accepted items; equal to it while exact
        pool = {}
        for x in truth:
            pool[x] = pool.get(x, 0) + 1
        okk = True
        for x, _ in it:
            if pool.get(x, 0) <= 0:
                okk = False
                break
            pool[x] -= 1
        if not okk:
            bad.append(("retained-item-not-from-stream", "", i))
        elif k > 0 and n < 2 * k and any(v != 0 for v in pool.values()):
            bad.append(("exact-mode-lost-item", "", i))
        return bad

    def nontrivial_key(self, hist, impl_out):
        if not impl_out or len(hist) < 2:
            return None
        codec = CODECS.get(hist[0].split()[1]) if hist[0].startswith("T ") else None
        if codec is None:
            return None
        est = False
        merges = 0
        fin = {}
        for l, o in zip(hist, impl_out):
            w = l.split()
            if w[0] in ("new", "upd", "merge", "copy") and o.startswith("O "):
                ob = parse_O(o, codec)
                if ob:
                    fin[int(w[2]) if w[0] == "copy" else int(w[1])] = (ob["k"], ob["n"], ob["retained"])
                    if ob["est"]:
                        est = True
                    if w[0] == "merge":
                        merges += 1
        if not est:
            return None
        return (codec.name, merges, tuple(sorted(fin.items())))


PART = QuantPart()

CLAIM_TEXT = ("classic quantiles_sketch: kernel-checked theorems over ALL histories (updates, merges incl. unequal k / down-sampling, "
              "copies, view queries) and ALL coin/draw outcomes of an executable Lean model written as explicit choice trees: n = number of "
              "accepted items, min/max are extremes of the accepted items, the iterator as coded yields num_retained pairs whose weights sum "
              "to n, retained = |base buffer| + k*popcount(n/2k) with bit_pattern = n/2k, all levels sorted, exact mode (n < 2k) holds exactly "
              "the accepted items so every rank/quantile is the true one, empty-sketch / out-of-range-rank / bad-split-point queries are "
              "rejected and NaN updates ignored; get_quantile(NaN) is answered (finding nan-rank-answered). The model is tied to "
              "quantiles_sketch_impl.hpp differentially with the verif random source installed, and the statements are re-checked by an "
              "independent oracle on every implementation trace.")


class C07Quant(Spec):
    pid = "C07"
    props_modules = ["DSProofs.Props.C07_Quantiles"]
    tfamilies = ["quantiles"]
    rule = ("histories over 1-6 live classic quantiles sketches of int64 / double / std::string (custom length-first comparator) items (k in {2,4,8,16} quick, up to 128 thorough; equal and "
            "mixed k), update bursts (ascending, descending, random, constant, heavy duplicates, zig-zag, NaN / +-inf / +-0 / denormal "
            "doubles), merges lvalue/rvalue in random trees, copies, get_sorted_view, rank / quantile / CDF / PMF queries incl. invalid ones, "
            "recorded random choices fed to both sides; a history is non-trivial when some sketch reached estimation mode; distinct = "
            "distinct (type, #merges, final (k, n, retained) per object)")
    trusted_base = ["Lean 4.33 kernel", "axioms: propext, Quot.sound, Classical.choice",
                    "correspondence harness harness/quantiles_h.cpp + generators (sampled histories; public-API observations; ASan+UBSan)",
                    "vector capacities / integer widths / allocators of quantiles_sketch are not modelled",
                    "tools/trules/quantiles.py (MIN_K, MAX_K, rank-error literals read from the headers)"]
    assumptions = ["theorems are about DSModel/Quantiles/*.lean; the tie to quantiles_sketch_impl.hpp is differential (sampled)",
                   "the comparator is a strict weak order on the accepted items (int64 <; double < restricted to non-NaN values, NaN never enters: "
                   "C07q_nan_update_ignored / RelC.ok; std::string length-first)",
                   "self-merge a.merge(a) is excluded", "n < 2^64, k <= 32768 (no integer overflow modelled)"]

    def parts(self):
        return [PART]


SPEC = C07Quant()

CLAIM = dict(text=CLAIM_TEXT,
             note="Part 'quantiles' of C07 (classic sketch only). Float arithmetic of rank/quantile thresholds is executed, not proved.",
             technique="Lean 4 invariant proofs over choice trees + differential correspondence (model vs real headers, random source hooked) + trace oracle",
             design="DESIGN.md §3 C07")

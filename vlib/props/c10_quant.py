"""C10 (KLL / REQ / classic quantiles) — documented layout; old images stay readable (DESIGN.md 3 C10, docs/WIRE_GUIDE.md).

`python3 -m vlib.props.c10_quant --write-baseline` (re)writes corpus/baseline/{kll,req,quantiles}/ from $VERIF_REPO
(to be run once on the pinned tree; the files are committed)."""
import os, sys, random, glob
from .. import core
from ..runner import Spec
from . import quant_wire as qw

CORPUS_DIR = {"kll": "kll", "req": "req", "quant": "quantiles"}
SHIPPED = {"kll": [("kll/test/kll_sketch_float_one_item_v1.sk", "kll.f32")],
           "req": [],
           "quant": [("quantiles/test/Qk128_n%d_v%s.sk" % (n, v), "quant.f64") for n in (50, 1000) for v in ("0.3.0", "0.6.0", "0.8.0", "0.8.3")]}


def img_op(s, sid):
    return "img %d" % sid


def corpus_lines(fam):
    """(kind, hex, content, src) from the committed baseline corpus and the shipped files of the CURRENT tree"""
    out = []
    d = os.path.join(core.ROOT, "corpus", "baseline", CORPUS_DIR[fam])
    for f in sorted(glob.glob(os.path.join(d, "*.txt"))):
        for l in open(f):
            l = l.strip()
            if l.startswith("IMG "):
                head, content = l.split(" | ", 1)
                w = head.split()
                out.append((w[1], w[2], content.split(" | ")[0], "baseline"))
            elif l.startswith("SHIPPED "):
                head, content = l.split(" | ", 1)
                w = head.split()
                p = os.path.join(core.REPO, w[1])
                hx = open(p, "rb").read().hex() if os.path.exists(p) else "-"
                out.append((w[2], hx, content, "shipped"))
    return out


def _item_key(ty, hx):
    import struct
    b = bytes.fromhex(hx) if hx != "-" else b""
    if ty == "f32":
        return struct.unpack("<f", b)[0]
    if ty == "f64":
        return struct.unpack("<d", b)[0]
    if ty == "i64":
        return struct.unpack("<q", b)[0]
    return b


def legacy_lines(fam, rng, count):
    """legacy images made by the Lean legacy ENCODERS from random contents (model first, implementation second)"""
    q = []
    for _ in range(count):
        ty = rng.choice(qw.TYPES)
        if fam == "kll":
            q.append("LEGACY kll.%s %d %d %s" % (ty, rng.choice([8, 9, 33, 200, 257, 65535]), rng.randrange(2), qw.gen_values(rng, ty, 1)[0]))
        elif fam == "quant":
            ver = rng.choice([1, 2])
            k = rng.choice([2, 2, 4, 8, 16])
            n = rng.choice([1, 2, k, 2 * k - 1, 2 * k, 2 * k + 1, 4 * k, 5 * k + 3, 6 * k, 7 * k + 1, rng.randrange(1, 16 * k)])
            bb = n % (2 * k)
            ex = (2 * k - bb) if (ver == 1 and n // (2 * k) > 0) else 0
            cnt = bb + ex + bin(n // (2 * k)).count("1") * k
            vals = qw.gen_values(rng, ty, cnt + 2)
            # every level of a real image is sorted (only the base buffer of an image without the ORDERED flag is in arrival order)
            nb = bb + ex
            lv = vals[2 + nb:]
            vals = vals[:2 + nb] + [x for j in range(0, len(lv), k) for x in sorted(lv[j:j + k], key=lambda h_: _item_key(ty, h_))]
            q.append("LEGACY quant.%s %d %d %d %d %d %s" % (ty, ver, k, rng.choice([0, 1, 0xd156]), rng.choice([0, 64, 2**40]) if ver == 1 else 0, n, " ".join(vals)))
    if not q:
        return []
    try:
        ans = qw.model_query(q)
    except Exception:
        return []
    out = []
    for a in ans:
        if a.startswith("IMG "):
            head, content = a.split(" | ", 1)
            w = head.split()
            out.append((w[1], w[2], content, "legacy"))
    return out


class C10Part(qw.WirePart):
    def generate(self, rng, tier):
        hs = qw.generate_for(self.fam, img_op, rng, tier, nrand=(12 if tier == "quick" else 150))
        ext = corpus_lines(self.fam) + legacy_lines(self.fam, rng, 0 if self.fam == "req" else (40 if tier == "quick" else 400))
        for i in range(0, len(ext), 25):
            hs.append(["deser %s %s | %s | src=%s" % e for e in ext[i:i + 25]])
        return hs

    @staticmethod
    def deser_info(line):
        parts = line.split(" | ")
        w = parts[0].split()
        return dict(kind=w[1], hex=w[2], content=parts[1].strip(), src=parts[2].strip().split("=", 1)[1] if len(parts) > 2 else "external")

    def model_lines(self, hist, impl_out):
        ml = []
        for l, o in zip(hist, impl_out):
            if l.startswith("deser "):
                d = self.deser_info(l)
                ml.append("IMG %s %s" % (d["kind"], d["hex"]))
            elif o.startswith("IMG "):
                g = qw.parse_img(o)
                if g:
                    ml.append("IMG %s %s" % (g["kind"], g["hex"]))
        return ml

    def expected_model_out(self, hist, impl_out):
        ex = []
        for l, o in zip(hist, impl_out):
            if l.startswith("deser "):
                ex.append(("deser", "OK %s" % self.deser_info(l)["content"], None))
            elif o.startswith("IMG "):
                g = qw.parse_img(o)
                if g:
                    ex.append(("img", "OK %s | reenc=1 size=%d minpref=%d rest=0" % (g["content"], g["size"], g["size"]), g))
        return ex

    def diff(self, hist, impl_out, model_out):
        ex = self.expected_model_out(hist, impl_out)
        for j in range(max(len(ex), len(model_out))):
            if j >= len(ex) or j >= len(model_out):
                return j
            kind, e, g = ex[j]
            m = model_out[j]
            if kind == "deser":
                m = m.split(" | ")[0]       # legacy / shipped images: only the content is compared (re-encoding is the same version by construction)
            elif g is not None and qw.d2_state(g):
                e = qw.strip_weights(e.split(" | ")[0]) + " | " + e.split(" | ", 1)[-1]
                m = qw.strip_weights(m.split(" | ")[0]) + " | " + m.split(" | ", 1)[-1]
            if core.norm(e) != core.norm(m):
                return j
        return None

    def oracle(self, hist, impl_out):
        bad = []
        for i, l in enumerate(hist):
            if i >= len(impl_out):
                break
            o = impl_out[i].strip()
            if l.startswith("deser "):
                d = self.deser_info(l)
                if o == "throw" or o.startswith("throw "):
                    bad.append(("%s/%s-image-rejected" % (self.fam, d["src"]), "%s %s" % (d["kind"], d["hex"][:100]), i))
                elif o != "CONTENT " + d["content"]:
                    bad.append(("%s/%s-image-content-differs" % (self.fam, d["src"]), "%s %s: expected %s got %s" % (d["kind"], d["hex"][:80], d["content"][:150], o[:150]), i))
            elif l.startswith("img "):
                g = qw.parse_img(o)
                if g is None:
                    bad.append(("%s/img-%s" % (self.fam, "threw" if o.startswith("throw") else "bad-observation"), o[:120], i))
                    continue
                for f in g["fails"]:
                    # one sketch, two writers, two different images: at most one of them is the documented layout
                    bad.append(("%s/%s" % (self.fam, f.split(":")[0]), "%s: the byte-vector writer and the stream writer disagree (stream image %s)" % (g["kind"], g["hex"][:100]), i))
                # the documented reader (Lean) must recover the content the API reports
                try:
                    m = qw.model_query(["IMG %s %s" % (g["kind"], g["hex"])])[0]
                except Exception:
                    continue
                mc = m.split(" | ")[0]
                if mc == "OK " + g["content"]:
                    continue
                if qw.d2_state(g) and qw.strip_weights(mc) == qw.strip_weights("OK " + g["content"]):
                    bad.append(("kll/api-weights-ne-documented-weights:iterator-with-empty-level-0", "the API reports weights summing to %s for n=%s; image %s" % (g["info"].get("wsum"), g["info"].get("n"), g["hex"][:100]), i))
                else:
                    bad.append(("%s/documented-reader-content-differs" % self.fam, "%s api: %s documented reader: %s" % (g["kind"], g["content"][:150], mc[:150]), i))
            elif o == "throw":
                bad.append(("%s/%s-threw" % (self.fam, l.split()[0]), l[:80], i))
        return bad

    def nontrivial_key(self, hist, impl_out):
        sig = set()
        for l, o in zip(hist, impl_out):
            if l.startswith("deser "):
                d = self.deser_info(l)
                self.count("images_" + d["src"])
                if len(d["hex"]) > 16:
                    sig.add((d["kind"], d["src"], min(len(d["hex"]) // 128, 8)))
            else:
                g = qw.parse_img(o) if o.startswith("IMG ") else None
                if g:
                    self.count("images_live")
                if g and g["size"] > 8:
                    sig.add((g["kind"], "live", min(g["size"] // 64, 8)))
        return tuple(sorted(sig)) if sig else None


PARTS = [C10Part(f) for f in qw.FAMS_ON]

CLAIM_TEXT = ("KLL, REQ and classic-quantiles images: every wire constant the translator extracts from the current headers (family ids, serial "
              "versions, preamble sizes, flag bit positions, data offsets, the quantiles header-validity table) equals the documented value "
              "(`wire_consts_documented`, by `decide`); legacy formats (KLL serial version 1 single item, quantiles serial versions 1 and 2) "
              "have encoders + round-trip and same-content theorems; the documented readers (Lean) recover the API content of every "
              "implementation image; legacy images made by the Lean encoders, the shipped .sk files and the committed baseline corpus "
              "decode in C++ (current tree) and in Lean to the recorded content.")


class C10Quant(Spec):
    pid = "C10"
    props_modules = ["DSProofs.Props.C10_" + qw.LEAN_NAME[f] for f in qw.FAMS_ON]
    tfamilies = ["wire_quant"]
    rule = ("live images of the C09 state classes (anchors + seeded random histories) decoded by the documented readers; "
            "baseline corpus corpus/baseline/{kll,req,quantiles}/*.txt (written once from the pinned tree) + the 9 shipped .sk files + "
            "40 (quick) / 400 (thorough) legacy images per family from the Lean encoders, each deserialized in C++ on both paths and in Lean; "
            "non-trivial = image beyond the preamble; distinct = distinct set of (kind, source, size bucket)")
    trusted_base = ["Lean 4.33 kernel", "axioms: propext, Quot.sound, Classical.choice",
                    "tools/trules/wire_quant.py (wire constants re-read from the headers every run)",
                    "the documented constants written by hand in Props/C09_*.lean (docCfg) from the layout comments",
                    "corpus/baseline (recorded from the pinned tree) and harness/wire_quant_h.cpp"]
    assumptions = ["no Java/Python producer is available offline: cross-language compatibility is checked against the documented layout, the shipped files and the Lean legacy encoders",
                   "hash definitions are not part of these three families"]

    def parts(self):
        return PARTS

    def extra_stages(self, rep, tier, rng, broken):
        for p in PARTS:
            p._rep, p.stats = rep, {}


SPEC = C10Quant()


def write_baseline():
    """run the harness of $VERIF_REPO (the pinned tree) on fixed-seed histories and record images + API content"""
    ok, exe, log = core.compile_harness(qw.HARNESS)
    if not ok:
        print(log[-2000:]); return 1
    for fam in qw.FAMS:
        rng = random.Random(20260926 + sum(map(ord, fam)))
        hs = qw.generate_for(fam, img_op, rng, "quick", nrand=40)
        seen, lines = set(), []
        for h in hs:
            io, oc, err = core.run_impl(exe, h, timeout=300)
            if oc != "ok":
                print("harness outcome", oc, err[-500:]); return 1
            for o in io:
                g = qw.parse_img(o) if o.startswith("IMG ") else None
                if not g or qw.d2_state(g) or g["size"] > 1500 or (g["kind"], g["hex"]) in seen:
                    continue
                seen.add((g["kind"], g["hex"]))
                lines.append("IMG %s %s | %s" % (g["kind"], g["hex"], g["content"]))
        lines = lines[:160]
        d = os.path.join(core.ROOT, "corpus", "baseline", CORPUS_DIR[fam])
        os.makedirs(d, exist_ok=True)
        with open(os.path.join(d, "images.txt"), "w") as f:
            f.write("# baseline corpus: images written by the pinned tree with the content its API reported (harness/wire_quant_h.cpp `img`)\n")
            f.write("\n".join(lines) + "\n")
        sh = []
        for rel, kind in SHIPPED[fam]:
            hx = open(os.path.join(core.REPO, rel), "rb").read().hex()
            io, oc, err = core.run_impl(exe, ["deser %s %s" % (kind, hx)], timeout=60)
            if oc != "ok" or not io or not io[0].startswith("CONTENT "):
                print("shipped file", rel, "->", oc, io[:1]); return 1
            sh.append("SHIPPED %s %s | %s" % (rel, kind, io[0][len("CONTENT "):]))
        if sh:
            with open(os.path.join(d, "shipped.txt"), "w") as f:
                f.write("# reference images shipped with the repository: content as deserialized by the pinned tree\n")
                f.write("\n".join(sh) + "\n")
        print(fam, len(lines), "images,", len(sh), "shipped")
    return 0


if __name__ == "__main__":
    if "--write-baseline" in sys.argv:
        sys.exit(write_baseline())

"""C11 (group `count`) — truncated or corrupted images are rejected safely."""
from ..runner import Spec
from . import wire_count_common as W

PARTS = [W.C11Part(f) for f in W.FAMILIES]

CLAIM_TEXT = ("count-min / frequent items / VarOpt sketch / VarOpt union / EBPPS: the specification readers are built only from "
              "bounded combinators (`decode_PS`), hence `prefix_rejected`: EVERY strict prefix of EVERY valid image is rejected (no "
              "padding case in these families), and `decode_bounded`: element counts of any accepted image are at most the input length. "
              "Tie: for sampled images of every state class, every prefix length 0..size-1 is fed to deserialize(bytes,n) from an exact-size "
              "heap block and to deserialize(istream) (two stack-fill patterns), and every preamble byte x 8 replacement values to both "
              "paths followed by getters/updates/serialize on whatever was accepted; outcomes throw/accept/asan/ubsan/timeout/alloc_cap/"
              "leak; any non-throw on a prefix and any safety outcome on a corruption is a violation.")


class C11Count(Spec):
    pid = "C11"
    props_modules = ["DSProofs.Props.C11_CountMin", "DSProofs.Props.C11_Fi", "DSProofs.Props.C11_VarOpt", "DSProofs.Props.C11_Ebpps"]
    harness = W.HARNESS
    model_exe = W.MODEL
    tfamilies = ["wire_count"]
    rule = ("one image per state class and family (see C09), each with ALL prefix lengths on the bytes path and the stream path and all "
            "(preamble byte, replacement) pairs on both paths; non-trivial = image longer than 16 bytes")
    trusted_base = W.TRUSTED + ["ASan/UBSan red zones and the 256 MiB-per-request allocation cap define 'out of bounds' and 'allocation bomb'"]
    assumptions = ["memory safety of the C++ readers is runtime behaviour: the theorems are about the specification readers, the exhaustive "
                   "per-image prefix/corruption runs under sanitizers carry them over to the code; the set of images is sampled",
                   "stream readers that do not check the stream state read indeterminate stack contents; the stream path is therefore run "
                   "under two stack-fill patterns (0xFE, 0x01)"]

    def parts(self):
        return PARTS

    def extra_stages(self, rep, tier, rng, broken):
        st = {}
        for p in PARTS:
            p.stats = st
        rep.cov["c11_stats"] = st          # filled while the oracle runs
        rep.cov["exhaustive_per_image"] = True


SPEC = C11Count()

CLAIM = dict(text=CLAIM_TEXT, note="Images are sampled; multi-byte (consistent multi-field) corruptions are outside the fixed replacement set.",
             technique="prefix-safety of reader combinators (Lean) + exhaustive per-image prefix/corruption runs on the real readers under ASan/UBSan",
             design="DESIGN.md §3 C11")

"""C04 — HLL union equals the sketch of the concatenated streams at reduced precision (DESIGN.md 3 C04).

The oracle is a small nondeterministic SPECIFICATION of the union, written independently of the Lean union model: for every
union it keeps a set of candidate explanations (current lg_k, exact coupons offered, registers of the HLL-mode inputs).  The
defect-free candidate implements the property statement.  Two extra, tagged transitions describe the two defects that this
check found in the pinned code (D1: a down-sampled gadget reported `is_empty` and was replaced by the next sketch input; D14:
`reset()` kept a reduced lg_k).  They exist in the specification ONLY while the translator reads the corresponding PINNED source
shape from the current headers (tools/trules/hll.py -> DSGen/Hll.lean); on the repaired shapes (fix commits d4d0266 / 0ffb856 in
/repo) every union is specified strictly after every reset and down-sampling, and the old behaviour is a plain violation.  An
observation explained only by tagged candidates is reported under the tag's key; one explained by no candidate is a violation.
"""
import os, zlib
from .. import core, gen
from ..runner import Spec
from . import c03
from .c03 import lean_coupons, parse_F, regs_of, close, KEY_BITS

K_D1 = "gadget-reports-empty-after-downsampling-next-input-replaces-it"
K_D14 = "reset-keeps-reduced-lgk"
TAGKEY = {"D1": K_D1, "D14": K_D14}


def fold_regs(regs, src_lgk, lgk):
    """registers of a 2^src_lgk array folded to 2^lgk slots (lgk <= src_lgk)"""
    out = [0] * (1 << lgk)
    m = (1 << lgk) - 1
    for i, v in enumerate(regs):
        if v > out[i & m]:
            out[i & m] = v
    return out


class Cand:
    __slots__ = ("lgk", "coupons", "hsrc", "stale", "selfhll", "tags")

    def __init__(self, lgk, coupons=frozenset(), hsrc=(), stale=False, selfhll=False, tags=frozenset()):
        self.lgk, self.coupons, self.hsrc, self.stale, self.selfhll, self.tags = lgk, coupons, hsrc, stale, selfhll, tags

    def key(self):
        return (self.lgk, self.coupons, self.hsrc, self.stale, self.selfhll, self.tags)

    def has_content(self):
        return bool(self.coupons) or bool(self.hsrc)

    def expected_regs(self, lgk):
        r = regs_of(self.coupons, lgk)
        for (sl, regs) in self.hsrc:
            if sl < lgk:
                return None
            f = fold_regs(regs, sl, lgk)
            r = [max(a, b) for a, b in zip(r, f)]
        return r


FIXED = {"D1": False, "D14": False}     # source shapes of the CURRENT headers (set from DSGen/Hll.lean by source_shapes())


def source_shapes():
    """the two source-shape flags the translator read from $VERIF_REPO's HllUnion-internal.hpp (tools/trules/hll.py):
    with a repaired shape the corresponding tagged defect transition does not exist in the specification, so the behaviour
    of the pinned code is a plain violation there."""
    import re
    try:
        txt = open(os.path.join(core.LEAN, "DSGen", "Hll.lean")).read()
        f1 = re.search(r"def hll_unionDownsampleRebuilds : Bool := (true|false)", txt)
        f2 = re.search(r"def hll_unionResetToMaxK : Bool := (true|false)", txt)
        FIXED["D1"] = bool(f1) and f1.group(1) == "true"
        FIXED["D14"] = bool(f2) and f2.group(1) == "true"
    except OSError:
        pass
    return dict(FIXED)


def dedup(cands):
    seen, out = set(), []
    if FIXED["D1"]:
        for c in cands:
            c.stale = False          # a down-sampled gadget has valid counters: it never wrongly reports empty
    for c in cands:
        k = c.key()
        if k not in seen:
            seen.add(k); out.append(c)
    # keep the least-tagged explanations first; bound the set
    out.sort(key=lambda c: (len(c.tags), c.stale))
    return out[:24]


class C04(Spec):
    pid = "C04"
    props_modules = ["DSProofs.Props.C04", "DSProofs.Props.C04_Repaired"]
    harness = "hll_h"
    model_exe = "dsmodel_hll"
    family = "hll"
    tfamilies = ["hll"]
    timeout = 300
    rule = ("histories over 1-3 hll_unions (lg_max_k 4-9 quick / 4-12 thorough) and 1-6 source sketches (lg_k 4-9 / 4-12, HLL_4/6/8, "
            "empty / LIST / SET / HLL mode incl. start_full_size) presented as lvalue or rvalue in several orders to the different unions, "
            "raw items of all update overloads, interleaved get_result(HLL_4/6/8) (full HLL_8-image observation), get_estimate / "
            "composite / bounds, reset; results are occasionally fed into other unions. non-trivial = some union result observed in HLL "
            "mode after >= 2 sketch inputs; distinct = distinct (lg_max_k, input (lg_k, type, mode) sequence, result lg_k, register crc)")
    trusted_base = c03.C03.trusted_base
    assumptions = ["theorems are about DSModel/Hll/Union.lean; the tie to HllUnion-internal.hpp is differential (sampled)",
                   "mergeHll is modelled on registers (the per-width byte decoding of the three source types is covered by correspondence only)"]

    # ------------------------------------------------------------------ generator
    def gen_history(self, rng, tier):
        quick = tier == "quick"
        lgs = [4, 5, 6, 7, 8, 9] if quick else [4, 5, 6, 7, 8, 9, 10, 11, 12]
        h = []
        nsrc = rng.choice([1, 2, 3, 4, 5, 6])
        style = rng.choice(["mixed", "mixed", "samek", "bigfirst", "smallmodes"])
        base_lg = rng.choice(lgs)
        srcs = []
        for s in range(nsrc):
            if style == "samek":
                lgk = base_lg
            elif style == "bigfirst":
                lgk = min(lgs[-1], base_lg + rng.choice([0, 1, 2, 3])) if s == 0 else rng.choice(lgs)
            else:
                lgk = rng.choice(lgs)
            tt = rng.choice([4, 6, 8])
            sf = rng.random() < 0.2
            h.append("new %d %d %d %d" % (s, lgk, tt, 1 if sf else 0))
            mode = rng.choice(["empty", "list", "set", "hll", "hll", "hll"]) if style != "smallmodes" else rng.choice(["empty", "list", "list", "set", "hll"])
            if mode == "empty":
                n = 0
            elif mode == "list":
                n = rng.randrange(1, 8)
            elif mode == "set":
                n = rng.randrange(8, 8 + (3 << max(lgk - 3, 3)) // 4)
            else:
                n = rng.choice([1 << lgk, 3 << lgk, 40, 200]) if quick else rng.choice([1 << lgk, 4 << lgk, 2000])
                n = min(n, 700 if quick else 5000)
            if mode == "hll" and rng.random() < 0.4:
                ins = c03.magic_stream(rng, lgk, tier)[:n + 50]
            else:
                uni = rng.choice([60, 1000, 100000])
                ins = [gen.rand_input(rng, uni, ["u64", "i64", "str", "f64", "u32"] if rng.random() < 0.8 else None) for _ in range(n)]
            for ty, lit in ins:
                h.append("upd %d %s %s" % (s, ty, lit))
            srcs.append(s)
        nun = rng.choice([1, 2, 2, 3])
        nxt = 100
        for u in range(nun):
            uid = 50 + u
            if style == "samek":
                lgm = base_lg
            elif style == "bigfirst":
                lgm = max(4, base_lg - rng.choice([0, 1, 2]))
            else:
                lgm = rng.choice(lgs)
            h.append("unew %d %d" % (uid, lgm))
            order = list(srcs)
            rng.shuffle(order)
            if rng.random() < 0.3:
                order += [rng.choice(srcs) for _ in range(rng.randrange(1, 3))]
            for s in order:
                r = rng.random()
                if r < 0.12:
                    h.append("uest %d %s" % (uid, rng.choice(["est", "comp", "lb1", "lb2", "lb3", "ub1", "ub2", "ub3"])))
                elif r < 0.2:
                    h.append("ures %d %d %d" % (uid, nxt, rng.choice([4, 6, 8]))); nxt += 1
                elif r < 0.25:
                    h.append("ureset %d" % uid)
                elif r < 0.4:
                    for _ in range(rng.choice([1, 3, 10, 30])):
                        ty, lit = gen.rand_input(rng, 3000, ["u64", "i32", "str"] if rng.random() < 0.5 else None)     # the union has its own 12 update overloads
                        h.append("upd %d %s %s" % (uid, ty, lit))
                h.append("obs %d" % s)
                if rng.random() < 0.3:
                    h.append("copy %d %d" % (s, nxt))
                    h.append("obs %d" % nxt)
                    h.append("umerge %d %d 1" % (uid, nxt)); nxt += 1
                else:
                    h.append("umerge %d %d 0" % (uid, s))
            if rng.random() < 0.5:
                h.append("uest %d %s" % (uid, rng.choice(["est", "comp", "lb2", "ub1"])))
            for tt in rng.sample([4, 6, 8], rng.choice([1, 2, 3])):
                h.append("ures %d %d %d" % (uid, nxt, tt)); nxt += 1
            if rng.random() < 0.25 and u + 1 < nun:
                srcs.append(nxt - 1)       # feed this result into the later unions
            if rng.random() < 0.3:
                h.append("ureset %d" % uid)
                for s in rng.sample(srcs, min(len(srcs), rng.choice([0, 1, 2]))):
                    h.append("obs %d" % s)
                    h.append("umerge %d %d 0" % (uid, s))
                for _ in range(rng.choice([0, 5, 20])):
                    ty, lit = gen.rand_input(rng, 3000, ["u64"])
                    h.append("upd %d %s %s" % (uid, ty, lit))
                h.append("ures %d %d %d" % (uid, nxt, rng.choice([4, 6, 8]))); nxt += 1
        return h

    def gen_far_apart(self, rng, tier):
        """precisions 8 and more levels apart (any fold count kept in a narrow integer wraps at 2^8): an HLL-mode source far larger
        than lg_max_k, and a gadget in HLL mode shrunk by a far smaller HLL-mode input, every type, both presentation orders"""
        big = rng.choice([12, 13] if tier == "quick" else [12, 13, 14, 16])
        small = rng.choice([4, 5]) if big <= 13 else rng.choice([4, 5, 6, 8])
        small = min(small, big - 8)
        tb, ts = rng.choice([4, 6, 8, 8]), rng.choice([4, 6, 8])
        h = ["new 0 %d %d %d" % (big, tb, rng.randrange(2)), "new 1 %d %d %d" % (small, ts, rng.randrange(2))]
        nb = rng.choice([(1 << big) // 4, 1 << big, 3000])
        base = rng.randrange(1 << 40)
        for i in range(min(nb, 2500 if tier == "quick" else 12000)):
            h.append("upd 0 u64 %d" % (base + i))
        for i in range(rng.choice([40, 200, 5 << small])):
            h.append("upd 1 u64 %d" % (base + 10 ** 7 + i))
        h += ["obs 0", "obs 1"]
        nxt = 100
        for uid, (lgm, order) in enumerate([(small, [0]), (small, [0, 1]), (big, [0, 1]), (big, [1, 0]), (rng.choice([small, small + 1]), [1, 0])], 50):
            h.append("unew %d %d" % (uid, lgm))
            for s_ in order:
                h.append("umerge %d %d %d" % (uid, s_, 0))
                if rng.random() < 0.3:
                    h.append("uest %d est" % uid)
            for _ in range(rng.choice([0, 3])):
                h.append("upd %d u64 %d" % (uid, rng.randrange(1 << 30)))
            for tt in (4, 6, 8):
                h.append("ures %d %d %d" % (uid, nxt, tt)); nxt += 1
        return h

    def generate(self, rng, tier):
        n = 260 if tier == "quick" else 1800
        hs = [self.gen_history(rng, tier) for _ in range(n)]
        hs += [self.gen_far_apart(rng, tier) for _ in range(6 if tier == "quick" else 40)]
        # raw items through EVERY update overload of the union (boundary literals of each type), alone and on top of a sketch fed the
        # same items through its own overloads: the union must canonicalise each type exactly as the sketch does
        m = gen.edge_matrix(rng, 30 if tier == "quick" else 300)
        for lgm, tt in ((8, 8), (10, 4), (6, 6)):
            h = ["new 0 %d %d 0" % (lgm, tt)] + ["upd 0 %s %s" % x for x in m] + ["obs 0",
                 "unew 50 %d" % lgm] + ["upd 50 %s %s" % x for x in m] + ["ures 50 100 %d" % tt,
                 "unew 51 %d" % lgm, "umerge 51 0 0"] + ["upd 51 %s %s" % x for x in m] + ["ures 51 101 8", "uest 51 est"]
            hs.append(h)
        hs.append(["unew 0 3", "unew 1 22", "unew 2 4", "ures 2 3 4", "uest 2 est", "ureset 2", "ures 2 4 8"])
        return hs

    # ------------------------------------------------------------------ oracle
    def oracle(self, hist, impl_out):
        bad = []
        inputs = [(l.split()[2], l.split()[3]) for l in hist if l.startswith("upd ") and len(l.split()) == 4]
        try:
            cps = lean_coupons(inputs)
        except Exception:
            return []
        source_shapes()
        sk = {}        # sketch id -> dict(lgk, items:set|None, obs: last parsed F)
        un = {}        # union id -> dict(lgmax, cands:[Cand]|None)
        reported = set()
        by_content = {}
        ci = 0

        def report(key, what, i):
            if (key, i) not in reported:
                reported.add((key, i))
                bad.append((key, what, i))

        def settle(u, i, what):
            """after pruning: no candidate -> new violation; only tagged candidates -> the tagged findings"""
            if u["cands"] is None:
                return
            if not u["cands"]:
                report("union-behaviour-not-explained", what, i)
                u["cands"] = None
                return
            mt = min(len(c.tags) for c in u["cands"])
            if mt > 0:
                best = [c for c in u["cands"] if len(c.tags) == mt]
                for t in sorted(best[0].tags - u.get("seen_tags", set())):
                    report(TAGKEY[t], what, i)
                u["seen_tags"] = u.get("seen_tags", set()) | best[0].tags
                u["cands"] = best + [c for c in u["cands"] if len(c.tags) > mt]
                if "D14" in best[0].tags:
                    # a union restarted at a reduced lg_k (known defect D14): its later behaviour (lvalue/rvalue adoption of the stale
                    # gadget, self-promotion at the wrong lg_k ...) is not specified any further
                    u["cands"] = None

        for i, l in enumerate(hist):
            w = l.split()
            op = w[0]
            o = impl_out[i] if i < len(impl_out) else None
            if o is None:
                break
            c = None
            if op == "upd":
                c = cps[ci]; ci += 1
            if o.strip() == "bad-op":
                continue
            if o.strip() == "throw":
                ok_throw = (op in ("new", "unew") and not (4 <= int(w[2]) <= 21))
                if not ok_throw:
                    report("valid-call-throws", l, i)
                continue
            ow = o.split()
            if op == "new":
                sk[int(w[1])] = dict(lgk=int(w[2]), items=set(), obs=None)
            elif op == "unew":
                if not (4 <= int(w[2]) <= 21):
                    report("invalid-lgk-accepted", l, i); continue
                un[int(w[1])] = dict(lgmax=int(w[2]), cands=[Cand(int(w[2]))])
            elif op == "copy":
                d = sk[int(w[1])]
                sk[int(w[2])] = dict(lgk=d["lgk"], items=None if d["items"] is None else set(d["items"]), obs=d["obs"])
            elif op == "obs":
                d = sk.get(int(w[1]))
                if d is not None:
                    d["obs"] = parse_F(o)
            elif op == "upd":
                tid = int(w[1])
                if tid in sk:
                    if c is not None and sk[tid]["items"] is not None:
                        sk[tid]["items"].add(c)
                    sk[tid]["obs"] = None
                    continue
                u = un[tid]
                if u["cands"] is not None and c is not None:
                    u["cands"] = dedup([Cand(x.lgk, x.coupons | {c}, x.hsrc, x.stale, x.selfhll, x.tags) for x in u["cands"]] +
                                       [Cand(x.lgk, x.coupons | {c}, x.hsrc, x.stale, True, x.tags) for x in u["cands"] if x.tags and not x.selfhll and not x.hsrc])
            elif op == "ureset":
                u = un[int(w[1])]
                if u["cands"] is not None:
                    nc = [Cand(u["lgmax"], tags=x.tags) for x in u["cands"]]
                    if not FIXED["D14"]:
                        nc += [Cand(x.lgk, selfhll=sh, tags=x.tags | {"D14"}) for x in u["cands"] if x.lgk != u["lgmax"] for sh in (False, True)]
                    u["cands"] = dedup(nc)
            elif op == "uest":
                u = un[int(w[1])]
                if u["cands"] is not None:
                    u["cands"] = dedup([Cand(x.lgk, x.coupons, x.hsrc, False, x.selfhll, x.tags) for x in u["cands"]])
                ow = ow[2:]       # "E <hex> U lgk empty" -> "U lgk empty"
            elif op == "umerge":
                u = un[int(w[1])]
                sid = int(w[2])
                X = sk[sid]
                rv = w[3] == "1"
                F = X["obs"]
                if rv:
                    del sk[sid]
                if u["cands"] is not None:
                    if F is None:
                        u["cands"] = None       # generator always observes the input first
                    elif not F["empty"]:
                        xl = X["lgk"]
                        if F["mode"] != 2:
                            xitems = frozenset(X["items"]) if X["items"] is not None else frozenset(F["coupons"])
                            nc = []
                            for x in u["cands"]:
                                nc.append(Cand(x.lgk, x.coupons | xitems, x.hsrc, x.stale, x.selfhll, x.tags))
                                if x.tags and not x.selfhll and not x.hsrc:
                                    nc.append(Cand(x.lgk, x.coupons | xitems, x.hsrc, x.stale, True, x.tags))
                                adopt = rv and F["tt"] == 8 and xl == u["lgmax"]
                                if adopt and not x.has_content():
                                    nc.append(Cand(u["lgmax"], xitems, (), False, False, x.tags))
                                if x.stale and x.has_content() and xl == x.lgk and not adopt:
                                    nc.append(Cand(xl, xitems, (), False, False, x.tags | {"D1"}))
                            u["cands"] = dedup(nc)
                        else:
                            regs = tuple(regs_of(X["items"], xl)) if X["items"] is not None else (tuple(F["regs"]) if F.get("regs") is not None else None)
                            if regs is None:
                                u["cands"] = None
                            else:
                                nc = []
                                for x in u["cands"]:
                                    if not x.hsrc:
                                        # gadget still LIST/SET: copy_or_downsample(src, lg_max_k) + mergeList; or in HLL mode at its own
                                        # lg_k (promoted by itself, or re-created full-size by reset). The two coincide unless a defect
                                        # left the gadget at lg_k != lg_max_k; in such tagged candidates every sub-case is allowed.
                                        opts = set()
                                        if not x.selfhll:
                                            opts.add((min(xl, u["lgmax"]), xl > u["lgmax"], False))
                                        if x.selfhll or x.coupons:
                                            opts.add((min(xl, x.lgk), x.stale or xl < x.lgk, True))
                                        if x.tags:
                                            opts.add((min(xl, x.lgk), True, True))
                                            opts.add((min(xl, u["lgmax"]), xl > u["lgmax"], False))
                                            for (l_, st_, sh_) in list(opts):
                                                opts.add((l_, True, sh_))
                                        for (l_, st_, sh_) in sorted(opts):
                                            nc.append(Cand(l_, x.coupons, ((xl, regs),), st_, sh_, x.tags))
                                    else:
                                        nc.append(Cand(min(xl, x.lgk), x.coupons, x.hsrc + ((xl, regs),), x.stale or xl < x.lgk, x.selfhll, x.tags))
                                    adopt = rv and F["tt"] == 8 and xl <= u["lgmax"]
                                    if x.stale and x.has_content() and not adopt:
                                        nl = min(xl, u["lgmax"])
                                        nc.append(Cand(nl, frozenset(), ((xl, regs),), xl > u["lgmax"], False, x.tags | {"D1"}))
                                u["cands"] = dedup(nc)
            elif op == "ures":
                u = un[int(w[1])]
                F = parse_F(o)
                nid = int(w[2])
                if F is None:
                    report("bad-observation", o[:80], i); continue
                sk[nid] = dict(lgk=F["lgk"], items=None, obs=F)
                if F["tt"] != int(w[3]):
                    report("result-type-wrong", o[:60], i)
                if u["cands"] is not None:
                    def consistent(x):
                        if x.lgk != F["lgk"] or F["empty"] != (not x.has_content()):
                            return False
                        if F["mode"] != 2:
                            return not x.hsrc and sorted(x.coupons) == F["coupons"] and F["count"] == len(x.coupons)
                        if F["regs"] is None:
                            return True
                        return x.expected_regs(F["lgk"]) == F["regs"]
                    before = u["cands"]
                    u["cands"] = [x for x in before if consistent(x)]
                    if not u["cands"]:
                        x0 = before[0]
                        exp = x0.expected_regs(F["lgk"]) if F["mode"] == 2 and F["regs"] is not None else None
                        diff = [(s, F["regs"][s], exp[s]) for s in range(len(exp)) if exp[s] != F["regs"][s]][:3] if exp else None
                        settle(u, i, "result lg_k=%d mode=%d empty=%s; expected lg_k=%d content=%s; (slot, got, want)=%s" %
                               (F["lgk"], F["mode"], F["empty"], x0.lgk, x0.has_content(), diff))
                    else:
                        settle(u, i, "result lg_k=%d explained only by a known defect" % F["lgk"])
                # same content => same composite estimate (order, types, lvalue/rvalue, interleaved calls)
                content = (F["lgk"], F["mode"], tuple(F["regs"]) if F.get("regs") is not None else (tuple(F["coupons"]) if F["mode"] != 2 else F.get("regfold")))
                prev = by_content.get(content)
                if prev is None:
                    by_content[content] = F["comp"]
                elif not close(prev, F["comp"]):
                    report("composite-estimate-differs-for-same-content", "%s vs %s" % (prev, F["comp"]), i)
                if F["mode"] == 2 and F["regs"] is not None and F["curmin8"] == 0 and F["nacm8"] != sum(1 for x in F["regs"] if x == 0):
                    report("result-zero-count-wrong", "numAtCurMin=%d zeros=%d" % (F["nacm8"], sum(1 for x in F["regs"] if x == 0)), i)
                continue
            else:
                continue
            # union ops: the `U lgk empty` observation prunes the candidates
            if op in ("upd", "ureset", "uest", "umerge", "unew") and len(ow) >= 3 and ow[0] == "U":
                uid = int(w[1])
                u = un.get(uid)
                if u is None or u["cands"] is None:
                    continue
                lgk, emp = int(ow[1]), ow[2] == "1"
                before = u["cands"]
                keep = []
                for x in before:
                    if x.lgk != lgk:
                        continue
                    if emp == (not x.has_content()):
                        keep.append(x)
                    elif emp and x.stale:
                        keep.append(Cand(x.lgk, x.coupons, x.hsrc, x.stale, x.selfhll, x.tags | {"D1"}))
                u["cands"] = dedup(keep)
                x0 = before[0] if before else None
                settle(u, i, "after `%s`: union lg_k=%d is_empty=%s; expected lg_k=%s content=%s" %
                       (l, lgk, emp, x0.lgk if x0 else None, x0.has_content() if x0 else None))
        return bad

    def extra_stages(self, rep, tier, rng, broken):
        self._trans = rep.cov.setdefault("transitions_hit", {})
        rep.cov["source_shapes"] = {"unionDownsampleRebuilds": source_shapes()["D1"], "unionResetToMaxK": FIXED["D14"]}

    def nontrivial_key(self, hist, impl_out):
        sig = []
        nmerge = {}
        t = getattr(self, "_trans", None)
        lgk_of = {}
        for l, o in zip(hist, impl_out):
            w = l.split()
            if t is not None:
                ow = o.split()
                if w[0] == "umerge":
                    t["updates_rvalue" if w[3] == "1" else "updates_lvalue"] = t.get("updates_rvalue" if w[3] == "1" else "updates_lvalue", 0) + 1
                if w[0] in ("umerge", "upd", "ureset", "unew") and len(ow) >= 3 and ow[0] == "U":
                    prev = lgk_of.get(w[1])
                    if prev is not None and int(ow[1]) < prev:
                        t["gadget_downsampled"] = t.get("gadget_downsampled", 0) + 1
                    if w[0] == "ureset":
                        t["resets"] = t.get("resets", 0) + 1
                    lgk_of[w[1]] = int(ow[1])
                if w[0] == "uest":
                    t["estimate_calls"] = t.get("estimate_calls", 0) + 1
                if w[0] == "ures":
                    F = parse_F(o)
                    if F:
                        k = "results_mode_%s" % ("list", "set", "hll")[F["mode"]]
                        t[k] = t.get(k, 0) + 1
            if w[0] == "umerge":
                nmerge[w[1]] = nmerge.get(w[1], 0) + 1
            if w[0] == "ures" and nmerge.get(w[1], 0) >= 2:
                F = parse_F(o)
                if F and F["mode"] == 2:
                    sig.append((F["lgk"], zlib.crc32(o.encode())))
        if not sig:
            return None
        return (tuple(l for l in hist if l.startswith(("new", "unew"))), tuple(sig[-3:]))


SPEC = C04()

CLAIM = dict(
    text=("Kernel-checked theorems over an executable Lean model of hll_union (gadget, every case of union_impl, "
          "copy_or_downsample, mergeHll/mergeList, deferred rebuild, rvalue adoption, reset) that follows the source shapes the "
          "translator reads from the current headers. For the CURRENT (repaired) shape the full statements are proved for ALL "
          "histories of genuine inputs - lvalue/rvalue updates of any lg_k, type and mode with precision reduction in either "
          "direction, raw items, estimate calls, resets (Props/C04_Repaired.lean): union_lgk (result lg_k = min(lg_max_k, lg_k of the "
          "non-empty HLL-mode inputs since the last reset)), union_content (the result is exactly the sketch of that lg_k of every "
          "offered item: per-slot maxima / exact coupon set), union_perm_invariant, union_estimate_pure, union_lvalue_eq_rvalue, "
          "union_reset (reset = fresh union, no side condition), and repaired_current ties the generated flags to the repaired "
          "shape. For the PINNED shape the same statements are PROVED FALSE with concrete witnesses (Props/C04.lean ..._full_false; "
          "partial versions proved): these are the two defects this check found, repaired in /repo by d4d0266 (copy_or_downsample "
          "rebuilds the counters) and 0ffb856 (reset() returns to lg_max_k). The model is tied to the real headers by differential "
          "correspondence; an independent nondeterministic specification oracle recomputes every union result from the inputs' own "
          "item lists and specifies every union after resets and down-samplings; reverting either fix gives a VIOLATION with a "
          "failing input."),
    note=("The per-width byte decoding inside mergeHll is modelled on registers (covered by correspondence for HLL_4/6/8 sources); "
          "equality of the result MODE across permutations is not stated (lg_k, registers and coupon sets are); HIP/ooo values of the "
          "gadget are compared with the code but nothing is proved about them."),
    technique="Lean 4 proofs + refutation witnesses for the pinned shape + differential correspondence + independent specification oracle whose defect transitions follow the source-shape flags",
    design="DESIGN.md §3 C04")

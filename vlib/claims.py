"""MANIFEST source: claims live next to each spec (vlib/props/cxx.py: CLAIM); this module collects them."""
import importlib, os

TB = ("Trusted: Lean 4.33 kernel; axioms propext/Quot.sound/Classical.choice only (audited by #print axioms every run; no sorry, "
      "no native_decide, no own axioms); tools/translate.py (constants/tables regenerated from the headers every run); the "
      "correspondence harness + generators (sampled histories, public-API observations, ASan+UBSan). ")

ALL = ["C%02d" % i for i in range(1, 21)]
PENDING_REASON = "check not built yet (model/theorems/correspondence pending); see DESIGN.md section 6 build order"
NA = {}      # property -> reason, for properties deliberately not claimed
HOLD = {}


def collect():
    claims = {}
    for pid in ALL:
        f = os.path.join(os.path.dirname(__file__), "props", pid.lower() + ".py")
        if not os.path.exists(f):
            continue
        mod = importlib.import_module("vlib.props." + pid.lower())
        c = getattr(mod, "CLAIM", None)
        if pid in HOLD:
            NA[pid] = HOLD[pid]
            continue
        if c:
            c = dict(c)
            c["note"] = TB + c["note"]
            claims[pid] = c
    return claims


HOOK_COMMITS = ["a712e9f", "7431040", "c80c6b7", "4a0f536"]

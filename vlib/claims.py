"""Single source for MANIFEST.json: which properties are claimed, with what level text. `tools/mkmanifest.py` renders it."""

TB = ("Trusted: Lean 4.33 kernel; axioms propext/Quot.sound/Classical.choice only (audited by #print axioms every run; no sorry, "
      "no native_decide, no own axioms); tools/translate.py (constants/tables regenerated from the headers every run); the "
      "correspondence harness + generators (sampled histories, public-API observations, ASan+UBSan). ")

CLAIMS = {
    "C01": dict(
        text=("Kernel-checked theorems over ALL operation histories and configurations of an executable Lean model of the update theta "
              "sketch (retained set = distinct nonzero hashes below theta, sorted/distinct; theta antitone, theta in seen or start value, "
              "theta<start => >=k entries, exact while the stream fits, trim<=k, compact exposes the same content), plus a differential tie "
              "of that model and of the Lean MurmurHash3/canonicalisation to the real headers on generated histories, plus the property "
              "oracle on every implementation trace."),
        note=TB + "Modelled, not verified: the open-addressing table layout (abstracted to a sorted association list; L1). "
                  "Hash value 0 is dropped by design and excluded from the statement.",
        technique="Lean 4 invariant proof by induction over operation lists + differential correspondence (model vs real headers) + trace oracle",
        design="DESIGN.md §3 C01"),
}

PENDING_REASON = "check not built yet in this round (model/theorems/correspondence pending); see DESIGN.md §6 build order"
ALL = ["C%02d" % i for i in range(1, 21)]

"""Core machinery shared by every check: builds, the two ties, verdict logic, evidence.

Stages of a check run (DESIGN.md 2.6):
  0 rebuild   translate.py -> DSGen; lake build; g++ harness from /repo's working tree (hooks on)
  1 proof     Props/<id>.lean elaborates; audit (no sorry/axiom/native_decide...); #print axioms
  2 translator tie   generated values == values dumped from the compiled headers
  3 correspondence   model output == implementation output on regress corpus + generated histories
  4 oracle    the property statement itself checked on every implementation trace
  5 verdict
"""
import os, sys, json, re, subprocess, time, hashlib, random, shutil, tempfile
from concurrent.futures import ThreadPoolExecutor

ROOT = os.path.dirname(os.path.dirname(os.path.abspath(__file__)))
REPO = os.environ.get("VERIF_REPO", "/repo")
LEAN = os.path.join(ROOT, "lean")
BUILD = os.path.join(ROOT, ".build")
BIN = os.path.join(LEAN, ".lake", "build", "bin")
NCPU = int(os.environ.get("VERIF_JOBS", str(os.cpu_count() or 8)))
GUARD = "DATASKETCHES_VERIF"

MODULE_DIRS = ["common", "theta", "tuple", "hll", "cpc", "kll", "req", "quantiles", "fi", "count",
               "sampling", "tdigest", "filters", "density"]
ALLOWED_AXIOMS = {"propext", "Quot.sound", "Classical.choice"}
FORBIDDEN = re.compile(r"\b(sorry|admit|native_decide|bv_decide|implemented_by|unsafe|ofReduceBool)\b|^\s*axiom\s|maxHeartbeats\s+0")


def log(*a):
    print(*a, file=sys.stderr, flush=True)


def sh(cmd, cwd=None, timeout=None, input=None, env=None):
    p = subprocess.run(cmd, cwd=cwd, timeout=timeout, input=input, env=env,
                       stdout=subprocess.PIPE, stderr=subprocess.STDOUT, text=True)
    return p.returncode, p.stdout


# ----------------------------------------------------------------------------- stage 0: builds

def translate():
    """Regenerate lean/DSGen/*.lean from /repo's current headers. Returns per-family status {fam: {ok, errors}}."""
    rc, out = sh([sys.executable, os.path.join(ROOT, "tools", "translate.py"), "--repo", REPO,
                  "--out", os.path.join(LEAN, "DSGen")])
    try:
        st = json.load(open(os.path.join(LEAN, "DSGen", "_status.json")))
    except Exception as e:
        st = {}
    st["_log"] = dict(ok=(rc == 0), errors=[out[-3000:]])
    return st


def lake_build(targets, timeout=3600):
    t0 = time.time()
    rc, out = sh(["lake", "build"] + list(targets), cwd=LEAN, timeout=timeout)
    return rc == 0, out, time.time() - t0


def harness_flags():
    inc = []
    for m in MODULE_DIRS:
        inc += ["-I", os.path.join(REPO, m, "include")]
    inc += ["-I", os.path.join(REPO, "common", "test")]
    return ["-std=c++17", "-O1", "-g", "-fsanitize=address,undefined", "-fno-sanitize-recover=all",
            "-fno-omit-frame-pointer", "-D" + GUARD, "-I", os.path.join(ROOT, "harness")] + inc


def source_digest(paths):
    h = hashlib.sha256()
    for p in sorted(paths):
        if os.path.isdir(p):
            for dp, _, fs in sorted(os.walk(p)):
                for f in sorted(fs):
                    if f.endswith((".hpp", ".h", ".cpp")):
                        fp = os.path.join(dp, f)
                        h.update(fp.encode()); h.update(open(fp, "rb").read())
        elif os.path.exists(p):
            h.update(p.encode()); h.update(open(p, "rb").read())
    return h.hexdigest()


def compile_harness(name, extra_flags=()):
    """Compile harness/<name>.cpp against /repo's working tree. Cached on a digest of all headers + harness."""
    os.makedirs(BUILD, exist_ok=True)
    src = os.path.join(ROOT, "harness", name + ".cpp")
    exe = os.path.join(BUILD, name)
    dig = source_digest([os.path.join(REPO, m, "include") for m in MODULE_DIRS] +
                        [os.path.join(REPO, "common", "test"), os.path.join(ROOT, "harness")]) + " ".join(extra_flags)
    stamp = exe + ".digest"
    if os.path.exists(exe) and os.path.exists(stamp) and open(stamp).read() == dig:
        return True, exe, "cached"
    t0 = time.time()
    rc, out = sh(["g++"] + harness_flags() + list(extra_flags) + [src, "-o", exe], timeout=900)
    if rc != 0:
        if os.path.exists(stamp):
            os.remove(stamp)
        return False, exe, out
    open(stamp, "w").write(dig)
    return True, exe, "compiled in %.1fs" % (time.time() - t0)


# ----------------------------------------------------------------------------- running both sides

ASAN_ENV = dict(os.environ, ASAN_OPTIONS="detect_leaks=1:abort_on_error=0:exitcode=66:allocator_may_return_null=1:max_allocation_size_mb=512",
                UBSAN_OPTIONS="print_stacktrace=1:halt_on_error=1:exitcode=67")


def run_lines(argv, lines, timeout=60, env=None):
    """Feed op lines, return (output lines, outcome, stderr-tail). outcome in ok|asan|ubsan|timeout|crash:<rc>."""
    data = "\n".join(lines) + "\n"
    try:
        p = subprocess.run(argv, input=data, stdout=subprocess.PIPE, stderr=subprocess.PIPE, text=True, errors="replace",
                           timeout=timeout, env=env)
    except subprocess.TimeoutExpired as e:
        out = e.stdout or ""
        if isinstance(out, bytes):
            out = out.decode(errors="replace")
        return out.splitlines(), "timeout", ""
    outcome = "ok"
    if p.returncode != 0:
        err = p.stderr or ""
        if "AddressSanitizer" in err or "LeakSanitizer" in err or p.returncode == 66:
            outcome = "leak" if "LeakSanitizer" in err and "AddressSanitizer:" not in err else "asan"
        elif "runtime error" in err or p.returncode == 67:
            outcome = "ubsan"
        else:
            outcome = "crash:%d" % p.returncode
    return p.stdout.splitlines(), outcome, (p.stderr or "")[-3000:]


def safety_key(outcome, err):
    """`safety:<outcome>[:<kind>@<library header>]` — the sanitizer's error kind and the first frame inside the library's
    headers make the key specific enough for known-finding matching while staying stable under line shifts."""
    kind = ""
    m = re.search(r"AddressSanitizer: ([a-z\-]+)|runtime error: ([^\n]{0,60})|LeakSanitizer: ([a-z ]+)", err or "")
    if m:
        kind = (m.group(1) or m.group(2) or m.group(3) or "").strip().replace(" ", "-")[:40]
    fr = re.search(r"#\d+ [^\n]*?/((?:common|theta|tuple|hll|cpc|kll|req|quantiles|fi|count|sampling|tdigest|filters|density)/include/[\w\-\.]+):\d+", err or "")
    key = "safety:" + outcome
    if kind or fr:
        key += ":" + kind + ("@" + os.path.basename(fr.group(1)) if fr else "")
    return key


def run_impl(exe, lines, args=(), timeout=60):
    return run_lines([exe] + list(args), lines, timeout, env=ASAN_ENV)


def run_model(exe, family, lines, timeout=120):
    return run_lines([os.path.join(BIN, exe)] + ([family] if family else []), lines, timeout)


def norm(s):
    return " ".join(s.split())


def first_diff(a, b, cmp=None):
    """index of first differing observation line, or None."""
    n = max(len(a), len(b))
    for i in range(n):
        x = norm(a[i]) if i < len(a) else "<missing>"
        y = norm(b[i]) if i < len(b) else "<missing>"
        if x != y and not (cmp and cmp(x, y)):
            return i
    return None


def float_tol_cmp(tol_bits=12):
    """Comparator: tokens that are 16-hex-digit doubles may differ in the low `tol_bits` bits (re-association is not an alarm)."""
    hx = re.compile(r"^[0-9a-f]{16}$")

    def cmp(x, y):
        xs, ys = x.split(), y.split()
        if len(xs) != len(ys):
            return False
        for p, q in zip(xs, ys):
            if p == q:
                continue
            if hx.match(p) and hx.match(q) and abs(int(p, 16) - int(q, 16)) < (1 << tol_bits):
                continue
            return False
        return True
    return cmp


def pmap(fn, items, jobs=None):
    with ThreadPoolExecutor(max_workers=jobs or NCPU) as ex:
        return list(ex.map(fn, items))


# ----------------------------------------------------------------------------- stage 1: proof obligations

def theorems_in(props_file):
    txt = open(props_file).read()
    txt = re.sub(r"/-.*?-/", "", txt, flags=re.S)
    txt = re.sub(r"--.*", "", txt)
    return re.findall(r"^\s*theorem\s+([A-Za-z0-9_.']+)", txt, flags=re.M)


def strip_comments(txt):
    txt = re.sub(r"/-.*?-/", "", txt, flags=re.S)
    return re.sub(r"--.*", "", txt)


def audit_sources(files):
    """No sorry/admit/axiom/native_decide/... outside comments."""
    bad = []
    for f in files:
        body = strip_comments(open(f).read())
        for i, line in enumerate(body.splitlines(), 1):
            if FORBIDDEN.search(line):
                bad.append("%s: %s" % (os.path.relpath(f, ROOT), line.strip()[:120]))
    return bad


def lean_deps(module, seen=None):
    """Transitive closure of our own modules (DSModel/DSGen/DSProofs) imported by `module`."""
    seen = seen if seen is not None else set()
    if module in seen:
        return seen
    path = os.path.join(LEAN, module.replace(".", "/") + ".lean")
    if not os.path.exists(path):
        return seen
    seen.add(module)
    for m in re.findall(r"^import\s+([A-Za-z0-9_.]+)", open(path).read(), flags=re.M):
        if m.split(".")[0] in ("DSModel", "DSGen", "DSProofs"):
            lean_deps(m, seen)
    return seen


def print_axioms(module, theorems, namespace_opens=()):
    """Returns {theorem: set(axioms)} via `#print axioms`; a theorem that does not exist is absent."""
    if not theorems:
        return {}, ""
    os.makedirs(BUILD, exist_ok=True)
    f = os.path.join(BUILD, "axioms_%s.lean" % module.replace(".", "_"))
    with open(f, "w") as fh:
        fh.write("import %s\n" % module)
        for t in theorems:
            fh.write("#print axioms %s\n" % t)
    rc, out = sh(["lake", "env", "lean", f], cwd=LEAN, timeout=900)
    res = {}
    # "'name' depends on axioms: [a, b]" or "'name' does not depend on any axioms"
    for m in re.finditer(r"'([^']+)' depends on axioms: \[([^\]]*)\]", out.replace("\n", " ")):
        res[m.group(1)] = set(x.strip() for x in m.group(2).split(",") if x.strip())
    for m in re.finditer(r"'([^']+)' does not depend on any axioms", out):
        res[m.group(1)] = set()
    return res, out


def check_obligations(props_module):
    """Build the Props module, audit it and its dependencies, print axioms.
    Returns dict(required=[...], discharged=[...], broken=[(thm, why)], log=str)."""
    path = os.path.join(LEAN, props_module.replace(".", "/") + ".lean")
    res = dict(required=[], discharged=[], broken=[], log="", axioms={})
    if not os.path.exists(path):
        res["broken"].append((props_module, "props file missing"))
        return res
    thms = theorems_in(path)
    res["required"] = thms
    ok, out, dt = lake_build([props_module])
    res["log"] = out[-6000:]
    res["build_s"] = dt
    if not ok:
        # which theorems failed? those named in error lines, else all
        failed = set()
        for m in re.finditer(r"error: ([^\n]*)", out):
            pass
        res["broken"] = [(t, "lake build of %s failed" % props_module) for t in thms] or [(props_module, "build failed")]
        return res
    deps = lean_deps(props_module)
    files = [os.path.join(LEAN, m.replace(".", "/") + ".lean") for m in deps]
    bad = audit_sources(files)
    if bad:
        res["broken"] = [(t, "audit: " + "; ".join(bad[:5])) for t in thms]
        return res
    # theorem names are fully qualified by the namespace used in the props file
    ns = re.findall(r"^namespace\s+([A-Za-z0-9_.]+)", strip_comments(open(path).read()), flags=re.M)
    qual = [(ns[0] + "." + t if ns else t) for t in thms]
    ax, axlog = print_axioms(props_module, qual)
    res["axioms"] = {k: sorted(v) for k, v in ax.items()}
    for t, q in zip(thms, qual):
        if q not in ax:
            res["broken"].append((t, "not found by #print axioms"))
        elif not ax[q] <= ALLOWED_AXIOMS:
            res["broken"].append((t, "axioms: %s" % sorted(ax[q] - ALLOWED_AXIOMS)))
        else:
            res["discharged"].append(t)
    return res


def leanchecker(module, timeout=1800):
    """`lake env leanchecker <Module>`: Lean's independent re-checker replays the module's .olean in a fresh kernel."""
    if shutil.which("leanchecker") is None:
        return True, "leanchecker not installed (skipped)"
    try:
        p = subprocess.run(["lake", "env", "leanchecker", module], cwd=LEAN, stdout=subprocess.PIPE, stderr=subprocess.STDOUT, text=True, errors="replace", timeout=timeout)
    except subprocess.TimeoutExpired:
        return False, "leanchecker timeout"
    return p.returncode == 0, p.stdout


# ----------------------------------------------------------------------------- known findings / verdict

def load_known():
    p = os.path.join(ROOT, "known_findings.json")
    if not os.path.exists(p):
        return []
    return json.load(open(p))


def write_replay(pid, seed, n, header, lines):
    d = os.path.join(ROOT, "replays")
    os.makedirs(d, exist_ok=True)
    path = os.path.join(d, "%s-%s-%d.txt" % (pid, seed, n))
    with open(path, "w") as f:
        f.write("# property=%s\n" % pid)
        for k, v in header.items():
            f.write("# %s=%s\n" % (k, str(v).replace("\n", " | ")[:4000]))
        for l in lines:
            f.write(l + "\n")
    return os.path.relpath(path, ROOT)


def read_replay(path):
    hdr, lines = {}, []
    for l in open(path):
        l = l.rstrip("\n")
        if l.startswith("# ") and "=" in l:
            k, v = l[2:].split("=", 1)
            hdr[k] = v
        elif l.strip():
            lines.append(l)
    return hdr, lines


def ddmin(lines, fails, budget=200, keep_prefix=0, shrink_line=None):
    """Greedy delta debugging on an op list: `fails(lines)` -> bool. Keeps the first keep_prefix lines.
    `shrink_line(line) -> [smaller candidate lines]` (optional) is tried on every remaining line afterwards."""
    cur = list(lines)
    n = 2
    calls = 0
    while len(cur) - keep_prefix >= 2 and calls < budget:
        body = cur[keep_prefix:]
        chunk = max(1, len(body) // n)
        reduced = False
        for i in range(0, len(body), chunk):
            cand = cur[:keep_prefix] + body[:i] + body[i + chunk:]
            calls += 1
            if calls > budget:
                break
            if fails(cand):
                cur = cand
                n = max(n - 1, 2)
                reduced = True
                break
        if not reduced:
            if chunk == 1:
                break
            n = min(len(body), n * 2)
    if shrink_line is not None:
        progress = True
        while progress and calls < budget:
            progress = False
            for i in range(keep_prefix, len(cur)):
                for cand_line in shrink_line(cur[i]):
                    calls += 1
                    if calls > budget:
                        break
                    cand = cur[:i] + [cand_line] + cur[i + 1:]
                    if fails(cand):
                        cur = cand
                        progress = True
                        break
    return cur


class Report:
    """Collects findings of one check run and renders verdict + evidence."""

    def __init__(self, pid, tier, seed, level="proof"):
        self.pid, self.tier, self.seed, self.level = pid, tier, seed, level
        self.t0 = time.time()
        self.violations = []       # (key, replay_path, found_input: bool, what)
        self.known_hit = []
        self.cov = dict(obligations=0, discharged=0, checker_cmd="", trusted_base=[], samples=[],
                        evaluations=0, distinct_nontrivial=0, rule="", traces_validated_against_impl=0)
        self.assumptions = []
        self.nrep = 0
        self.known = [k for k in load_known() if k.get("property") == pid]

    def is_known(self, key):
        return any(k.get("status") == "open" and k.get("key") == key for k in self.known)

    def violation(self, key, header, lines, found_input, what):
        """Register a violation; suppressed into KNOWN-FINDING only for *open* known findings with the same key."""
        for k in self.known:
            if k.get("status") == "open" and k.get("key") == key:
                if key not in [x[0] for x in self.known_hit]:
                    self.known_hit.append((key, what))
                return
        self.nrep += 1
        hdr = dict(header)
        hdr.update(tier=self.tier, seed=self.seed, key=key, what=what)
        path = write_replay(self.pid, self.seed, self.nrep, hdr, lines)
        self.violations.append((key, path, found_input, what))

    def finish(self, write_evidence=True):
        cov = self.cov
        ev = dict(property_id=self.pid, tier=self.tier, seed=self.seed, level=self.level, coverage=cov,
                  assumptions=self.assumptions, wall_s=round(time.time() - self.t0, 2),
                  violations=len(self.violations))
        ev["known_findings_hit"] = [k for k, _ in self.known_hit]
        if write_evidence:
            os.makedirs(os.path.join(ROOT, "evidence"), exist_ok=True)
            with open(os.path.join(ROOT, "evidence", self.pid + ".json"), "w") as f:
                json.dump(ev, f, indent=1, sort_keys=True)
        for key, what in self.known_hit:
            print("KNOWN-FINDING: property=%s %s %s" % (self.pid, key, what))
        # one VIOLATION line per distinct key; inputs found first
        seen = set()
        for key, path, found, what in sorted(self.violations, key=lambda v: not v[2]):
            if key in seen:
                continue
            seen.add(key)
            print("VIOLATION property=%s replay=%s%s" % (self.pid, path, "" if found else " no-failing-input-found"))
        sys.stdout.flush()
        return 1 if self.violations else 0

/-
Classic quantiles sketch image (quantiles/include/quantiles_sketch.hpp "Serialized sketch layout",
quantiles_sketch_impl.hpp serialize / deserialize / check_header_validity).

  byte 0 preamble_longs | 1 serial version | 2 family 8 | 3 flags (bit2 empty, bit3 compact, bit4 sorted) | 4-5 k u16 | 6-7 unused
  non-empty: 8-15 n u64 | min | max | [serial version 1 only: 8 bytes, no longer used] |
             base buffer: n mod 2k items (non-compact images that have levels store all 2k slots; the surplus is skipped) |
             for every set bit i of n / 2k, in ascending order: level i = k items (weight 2^(i+1)).
  Valid (compact, empty, version, preamble_longs) combinations: the table of check_header_validity.
The current writer emits version 3, compact, sorted (preamble_longs 1 empty / 2). Versions 1 and 2 are read only.

One reader/writer pair covers every version the C++ reader accepts; `Current` singles out what the writer emits.
Core Lean only.
-/
import DSModel.Wire.Serde
namespace DS.Wire.Quantiles
open Reader

structure Cfg where
  family : Nat
  ver1 : Nat
  ver2 : Nat
  ver3 : Nat
  preShort : Nat
  preFull : Nat
  bitEmpty : Nat
  bitCompact : Nat
  bitSorted : Nat
  emptySize : Nat
  dataStart : Nat
  minK : Nat
  maxK : Nat
  validHeaders : List Nat
  deriving DecidableEq, Repr

structure Body where
  n : Nat
  min : Item
  max : Item
  v1pad : Nat                 -- serial version 1: the 8 bytes after max (no longer used); 0 otherwise
  bb : List Item              -- base buffer, n mod 2k items
  extra : List Item           -- non-compact image with levels: the remaining 2k - (n mod 2k) base-buffer slots
  levels : List (List Item)   -- the valid levels (set bits of n / 2k, ascending), k items each
  deriving DecidableEq, Repr

structure Image where
  pre : Nat
  ver : Nat
  flags : Nat
  k : Nat
  unused : Nat
  body : Option Body
  deriving DecidableEq, Repr

def bit (f i : Nat) : Bool := (f / 2 ^ i) % 2 == 1

/-- number of set bits (n < 2^64) -/
def popAux : Nat → Nat → Nat
  | 0, _ => 0
  | f + 1, n => n % 2 + popAux f (n / 2)
def popCount (n : Nat) : Nat := popAux 64 n

/-- positions of the set bits, ascending -/
def setBitsAux : Nat → Nat → Nat → List Nat
  | 0, _, _ => []
  | f + 1, i, n => (if n % 2 == 1 then [i] else []) ++ setBitsAux f (i + 1) (n / 2)
def setBits (n : Nat) : List Nat := setBitsAux 64 0 n

def isPow2 (k : Nat) : Bool := (List.range 17).any (fun i => k == 2 ^ i)

def validK (c : Cfg) (k : Nat) : Bool := decide (c.minK ≤ k) && decide (k ≤ c.maxK) && isPow2 k

/-- `check_serial_version` + `check_header_validity` -/
def headerValid (c : Cfg) (pre ver flags : Nat) : Bool :=
  (ver == c.ver1 || ver == c.ver2 || ver == c.ver3) && decide (pre < 64) &&
  c.validHeaders.contains ((if bit flags c.bitCompact then 1 else 0) + 2 * (if bit flags c.bitEmpty then 1 else 0) + 4 * ver + 32 * pre)

def isCompact (c : Cfg) (ver flags : Nat) : Bool := ver == c.ver2 || bit flags c.bitCompact

/-- number of surplus base-buffer slots stored after the n mod 2k live ones -/
def extraCount (c : Cfg) (ver flags k n : Nat) : Nat :=
  if n / (2 * k) == 0 || isCompact c ver flags then 0 else 2 * k - n % (2 * k)

def header (c : Cfg) (s : Image) : Bytes :=
  w8 s.pre ++ (w8 s.ver ++ (w8 c.family ++ (w8 s.flags ++ (w16 s.k ++ w16 s.unused))))

def encodeBody (sd : Serde) (c : Cfg) (ver : Nat) (b : Body) : Bytes :=
  w64 b.n ++ (sd.enc b.min ++ (sd.enc b.max ++ ((if ver == c.ver1 then w64 b.v1pad else []) ++
    (encItems sd b.bb ++ (encItems sd b.extra ++ encList (encItems sd) b.levels)))))

def encode (sd : Serde) (c : Cfg) (s : Image) : Bytes :=
  header c s ++ (match s.body with | none => [] | some b => encodeBody sd c s.ver b)

def serializedSize (sd : Serde) (c : Cfg) (s : Image) : Nat :=
  match s.body with
  | none => c.emptySize
  | some b => c.dataStart + (sd.enc b.min).length + (sd.enc b.max).length + (if s.ver == c.ver1 then 8 else 0) +
      sizeItems sd b.bb + sizeItems sd b.extra + (encList (encItems sd) b.levels).length

def decodeBody (sd : Serde) (c : Cfg) (pre ver flags k unused : Nat) : Reader Image :=
  Reader.bind u64 fun n =>
  Reader.bind (guard (decide (1 ≤ n))) fun _ =>
  Reader.bind sd.dec fun mn =>
  Reader.bind sd.dec fun mx =>
  Reader.bind (if ver == c.ver1 then u64 else Reader.pure 0) fun pad =>
  Reader.bind (repeatN sd.dec (n % (2 * k))) fun bb =>
  Reader.bind (repeatN sd.dec (extraCount c ver flags k n)) fun extra =>
  Reader.bind (repeatN (repeatN sd.dec k) (popCount (n / (2 * k)))) fun levels =>
  Reader.pure { pre := pre, ver := ver, flags := flags, k := k, unused := unused,
                body := some { n := n, min := mn, max := mx, v1pad := pad, bb := bb, extra := extra, levels := levels } }

def decode (sd : Serde) (c : Cfg) : Reader Image :=
  Reader.bind u8 fun pre =>
  Reader.bind u8 fun ver =>
  Reader.bind u8 fun fam =>
  Reader.bind u8 fun flags =>
  Reader.bind u16 fun k =>
  Reader.bind u16 fun unused =>
  Reader.bind (guard (fam == c.family && validK c k && headerValid c pre ver flags)) fun _ =>
  if bit flags c.bitEmpty then
    Reader.pure { pre := pre, ver := ver, flags := flags, k := k, unused := unused, body := none }
  else decodeBody sd c pre ver flags k unused

def bodyWF (sd : Serde) (c : Cfg) (ver flags k : Nat) (b : Body) : Bool :=
  decide (1 ≤ b.n) && decide (b.n < 2 ^ 64) && sd.wf b.min && sd.wf b.max &&
  decide (b.v1pad < 2 ^ 64) && (ver == c.ver1 || b.v1pad == 0) &&
  b.bb.length == b.n % (2 * k) && allWf sd b.bb &&
  b.extra.length == extraCount c ver flags k b.n && allWf sd b.extra &&
  b.levels.length == popCount (b.n / (2 * k)) && b.levels.all (fun l => l.length == k && allWf sd l)

def WF (sd : Serde) (c : Cfg) (s : Image) : Bool :=
  decide (s.pre < 256) && decide (s.ver < 256) && decide (s.flags < 256) && decide (s.k < 2 ^ 16) && decide (s.unused < 2 ^ 16) &&
  validK c s.k && headerValid c s.pre s.ver s.flags &&
  (match s.body with
   | none => bit s.flags c.bitEmpty
   | some b => !bit s.flags c.bitEmpty && bodyWF sd c s.ver s.flags s.k b)

/-- what the current writer emits: serial version 3, compact + sorted flags (and empty when empty), zero padding -/
def Current (c : Cfg) (s : Image) : Bool :=
  s.ver == c.ver3 && s.unused == 0 &&
  (match s.body with
   | none => s.pre == c.preShort && s.flags == 2 ^ c.bitEmpty + 2 ^ c.bitCompact + 2 ^ c.bitSorted
   | some _ => s.pre == c.preFull && s.flags == 2 ^ c.bitCompact + 2 ^ c.bitSorted)

/-- number of items the image holds (incl. skipped surplus slots) -/
def Image.count (s : Image) : Nat :=
  match s.body with
  | none => 0
  | some b => b.bb.length + b.extra.length + (b.levels.map List.length).sum

/-! ### API content -/

def weighLevels : List (List Item) → List Nat → List (Item × Nat)
  | l :: ls, i :: is => l.map (fun it => (it, 2 ^ (i + 1))) ++ weighLevels ls is
  | _, _ => []

def project (s : Image) : Content :=
  match s.body with
  | none => { n := 0, k := s.k, est := false }
  | some b =>
    { n := b.n, k := s.k, est := decide (0 < b.n / (2 * s.k)), min := some b.min, max := some b.max,
      items := b.bb.map (fun it => (it, 1)) ++ weighLevels b.levels (setBits (b.n / (2 * s.k))) }

def fields (sd : Serde) (isStr : Bool) (c : Cfg) (s : Image) : Fields :=
  [("pre", 1), ("ver", 1), ("fam", 1), ("flags", 1), ("k", 2), ("unused", 2)] ++
  (match s.body with
   | none => []
   | some b =>
     [("n", 8)] ++ itemFields sd isStr "min" b.min ++ itemFields sd isStr "max" b.max ++
     (if s.ver == c.ver1 then [("v1pad", 8)] else []) ++
     ((b.bb ++ b.extra ++ b.levels.flatten).map (itemFields sd isStr "item")).flatten)

/-! ### legacy images (serial versions 1 and 2): built from the same logical content -/

/-- serial version 2 (always compact; flags carry only the sorted bit as the 0.6.0 images do) -/
def legacyV2 (c : Cfg) (k unused : Nat) (b : Body) : Image :=
  { pre := 2, ver := c.ver2, flags := 0, k := k, unused := unused, body := some { b with v1pad := 0, extra := [] } }

/-- serial version 1 (never compact: all 2k base-buffer slots are stored once there are levels) -/
def legacyV1 (c : Cfg) (k unused : Nat) (b : Body) : Image :=
  { pre := 5, ver := c.ver1, flags := 0, k := k, unused := unused, body := some b }

def encodeLegacy (sd : Serde) (c : Cfg) (s : Image) : Bytes := encode sd c s
def decodeLegacy (sd : Serde) (c : Cfg) : Reader Image := decode sd c

end DS.Wire.Quantiles

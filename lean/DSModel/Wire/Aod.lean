/-
Array-of-doubles compact sketch images (`tuple/include/array_tuple_sketch_impl.hpp`).

  byte 0 preamble longs (always 1; not read) · byte 1 serial version (1) · byte 2 family (9) · byte 3 sketch type (3)
  byte 4 flags (bit 2 empty, bit 3 has entries, bit 4 ordered) · byte 5 number of values per key · bytes 6-7 seed hash
  u64 theta (always) · if entries: u32 count, u32 unused, u64 keys[count], f64 values[count · num_values]
Core Lean only.
-/
import DSModel.Wire.Reader
import DSModel.Wire.Theta
namespace DS.Wire.Aod
open DS.Wire DS.Wire.Reader

structure Consts where
  serVer : Nat
  family : Nat
  sketchType : Nat
  fEmpty : Nat
  fHasEntries : Nat
  fOrdered : Nat
deriving DecidableEq, Repr

def documented : Consts := { serVer := 1, family := 9, sketchType := 3, fEmpty := 2, fHasEntries := 3, fOrdered := 4 }

def Consts.ok (c : Consts) : Bool :=
  c.serVer < 256 && c.family < 256 && c.sketchType < 256 && c.fEmpty < 8 && c.fHasEntries < 8 && c.fOrdered < 8 &&
  c.fEmpty != c.fHasEntries && c.fEmpty != c.fOrdered && c.fHasEntries != c.fOrdered

structure Image where
  isEmpty : Bool
  isOrdered : Bool
  seedHash : Nat
  theta : Nat
  numValues : Nat
  entries : List (Nat × List Nat)     -- key, values as f64 bit patterns
deriving DecidableEq, Repr

def maxTheta : Nat := Theta.maxTheta
def Image.estMode (s : Image) : Bool := decide (s.theta < maxTheta) && !s.isEmpty

def flagsByte (c : Consts) (s : Image) : Nat :=
  Theta.flagBit c.fEmpty s.isEmpty ||| Theta.flagBit c.fHasEntries (s.entries.length != 0) ||| Theta.flagBit c.fOrdered s.isOrdered

def wValues : List (Nat × List Nat) → Bytes
  | [] => []
  | (_, vs) :: t => Theta.wU64s vs ++ wValues t

def WF (s : Image) : Prop :=
  s.seedHash < 2 ^ 16 ∧ s.theta < 2 ^ 64 ∧ s.numValues < 256 ∧ s.entries.length < 2 ^ 32 ∧
  (∀ e ∈ s.entries, e.1 < 2 ^ 64 ∧ e.2.length = s.numValues ∧ ∀ v ∈ e.2, v < 2 ^ 64) ∧
  (s.entries.length ≤ 1 → s.isOrdered = true)

instance (s : Image) : Decidable (WF s) := by unfold WF; infer_instance

def encode (c : Consts) (s : Image) : Bytes :=
  w8 1 ++ (w8 c.serVer ++ (w8 c.family ++ (w8 c.sketchType ++ (w8 (flagsByte c s) ++ (w8 s.numValues ++ (w16 s.seedHash ++ (w64 s.theta ++
  (if s.entries.length != 0 then
     w32 s.entries.length ++ (w32 0 ++ (Theta.wU64s (s.entries.map (·.1)) ++ wValues s.entries))
   else []))))))))

def serializedSize (s : Image) : Nat :=
  16 + (if s.entries.length != 0 then 8 else 0) + (8 + 8 * s.numValues) * s.entries.length

def decode (c : Consts) (expSeedHash : Nat) : Reader Image :=
  Reader.bind (skip 1) fun _ =>
  Reader.bind u8 fun sv =>
  Reader.bind u8 fun fam =>
  Reader.bind u8 fun ty =>
  Reader.bind u8 fun fl =>
  Reader.bind u8 fun nv =>
  Reader.bind u16 fun sh =>
  Reader.bind (guard (sv == c.serVer && fam == c.family && ty == c.sketchType)) fun _ =>
  Reader.bind (guard (!fl.testBit c.fHasEntries || sh == expSeedHash)) fun _ =>
  Reader.bind u64 fun theta =>
  if fl.testBit c.fHasEntries then
    Reader.bind u32 fun n =>
    Reader.bind (skip 4) fun _ =>
    Reader.bind (repeatN u64 n) fun keys =>
    Reader.bind (repeatN (repeatN u64 nv) n) fun vals =>
    Reader.pure ⟨fl.testBit c.fEmpty, fl.testBit c.fOrdered || decide (n ≤ 1), sh, theta, nv, keys.zip vals⟩
  else Reader.pure ⟨fl.testBit c.fEmpty, true, sh, theta, nv, []⟩

end DS.Wire.Aod

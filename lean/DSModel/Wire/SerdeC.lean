/-
Item serdes used by the frequent-items / VarOpt / EBPPS images (group `count`; another group keeps its own
copy, the integrator unifies):
  * arithmetic items  — raw `sizeof(T)` bytes, here 8-byte items carried as their 64-bit pattern (`Nat`),
  * `std::string`     — `u32` length (little-endian) followed by the bytes.
Plus small generic helpers shared by the models of this group.  Core Lean only.
-/
import DSModel.Wire.Reader
import DSModel.Util
namespace DS.Wire

/-- `(m >>= f)` on readers is `Reader.bind` (used to normalise `do` blocks in proofs) -/
theorem bind_def {α β : Type} (m : Reader α) (f : α → Reader β) : (m >>= f) = Reader.bind m f := rfl
theorem pure_def {α : Type} (a : α) : (Pure.pure a : Reader α) = Reader.pure a := rfl

/-- An item serde: writer, reader and the items the writer can represent. -/
structure Serde (ι : Type) where
  enc : ι → Bytes
  dec : Reader ι
  ok : ι → Prop
  show_ : ι → String

/-- 8-byte arithmetic item (int64 / uint64 / double) as its bit pattern -/
def serdeU64 : Serde Nat where
  enc := w64
  dec := u64
  ok := fun x => x < 2 ^ 64
  show_ := fun x => hexN 16 x

def strEnc (s : Bytes) : Bytes := w32 s.length ++ s
def strDec : Reader Bytes := Reader.bind u32 (fun n => bytesN n)

/-- `std::string` item: u32 length + bytes -/
def serdeStr : Serde Bytes where
  enc := strEnc
  dec := strDec
  ok := fun s => s.length < 2 ^ 32
  show_ := fun s => if s.isEmpty then "e" else listBytesHex s

/-- items written back to back -/
def encItems {ι : Type} (sd : Serde ι) : List ι → Bytes
  | [] => []
  | x :: t => sd.enc x ++ encItems sd t

def decItems {ι : Type} (sd : Serde ι) (n : Nat) : Reader (List ι) := repeatN sd.dec n

/-- wire size of an item list (`Σ size_of_item`) -/
def itemsBytes {ι : Type} (sd : Serde ι) : List ι → Nat
  | [] => 0
  | x :: t => (sd.enc x).length + itemsBytes sd t

/-- 64-bit words written back to back -/
def encU64s : List Nat → Bytes
  | [] => []
  | x :: t => w64 x ++ encU64s t

def decU64s (n : Nat) : Reader (List Nat) := repeatN u64 n

/-! ### printing helpers for `project` -/

def showU64s (l : List Nat) : String := ",".intercalate (l.map (hexN 16))

def insertStr (x : String) : List String → List String
  | [] => [x]
  | y :: t => if x ≤ y then x :: y :: t else y :: insertStr x t
def sortStr (l : List String) : List String := l.foldr insertStr []

/-- bits of a double (as `Nat`) -> `Float` -/
def f64 (bits : Nat) : Float := Float.ofBits (UInt64.ofNat bits)
def f64bits (x : Float) : Nat := x.toBits.toNat

/-! ### IEEE-754 binary64 integer part, on the bit pattern (used by EBPPS: the number of full items is ⌊c⌋) -/

def f64Exp (bits : Nat) : Nat := (bits / 2 ^ 52) % 2 ^ 11
def f64Man (bits : Nat) : Nat := bits % 2 ^ 52
def f64Neg (bits : Nat) : Bool := decide (2 ^ 63 ≤ bits)

/-- for a finite non-negative double: (⌊x⌋, whether the fractional part is non-zero); `none` for negative
    (other than −0), NaN, infinities -/
def f64FloorFrac (bits : Nat) : Option (Nat × Bool) :=
  if bits = 2 ^ 63 then some (0, false)          -- −0.0 : `c < 0.0` is false, modf gives (−0, −0)
  else if f64Neg bits then none
  else
    let e := f64Exp bits
    let m := f64Man bits
    if e = 2047 then none
    else if e = 0 then some (0, decide (m ≠ 0))   -- zero / subnormal
    else
      let sig := 2 ^ 52 + m                        -- value = sig · 2^(e − 1075)
      if 1075 ≤ e then some (sig * 2 ^ (e - 1075), false)
      else
        let sh := 1075 - e
        some (sig / 2 ^ sh, decide (sig % 2 ^ sh ≠ 0))

end DS.Wire

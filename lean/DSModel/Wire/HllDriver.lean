/- Line protocol of dsmodel_wire_hll (second phase of the two-phase wire tie): the model decodes what the
implementation wrote.
  IMG <kind> <hex>  -> D <project> | reenc=<0|1> size=<serializedSize> len=<bytes> core=<coreSize> cflag=<0|1> perm=<off>:<n>
                       or REJECT
  PFX <kind> <hex>  -> P strict=<runs> core=<runs>   verdict per prefix length 0..len-1, run-length coded:
                       R reject, A accept with the image state of the full image, B accept with another state
  COR <kind> <hex>  -> K <one letter per (preamble byte position, replacement value)>: A accept / R reject of the
                       corrupted image by the strict reader (remainder allowed, as deserialize(bytes, n) ignores a tail)
  NOP               -> -
Core Lean only. -/
import DSModel.Wire.HllGen

namespace DS.Wire.Hll
open DS

def rle (l : List Char) : String :=
  let rec go : List Char → Char → Nat → List String → List String
    | [], c, n, acc => (s!"{c}*{n}" :: acc).reverse
    | x :: t, c, n, acc => if x == c then go t c (n + 1) acc else go t x 1 (s!"{c}*{n}" :: acc)
  match l with
  | [] => "-"
  | x :: t => ",".intercalate (go t x 1 [])

def verdict (rd : Reader Img) (full : Option Img) (b : Bytes) : Char :=
  match rd b with
  | none => 'R'
  | some (s, _) => if some s == full then 'A' else 'B'

def preambleLen (c : Consts) (b : Bytes) : Nat :=
  match b with
  | [] => 0
  | x :: _ => if x.toNat == c.hllPreInts then 40 else if x.toNat == c.setPreInts then 12 else 8

def replacements (x : UInt8) : List UInt8 :=
  [0x00, 0x01, 0x7F, 0x80, 0xFF, x ^^^ 1, x ^^^ 0x80, x + 1]

def imgLine (c : Consts) (b : Bytes) : String :=
  match decode c b with
  | some (s, []) =>
    let re := encode c s == b
    let (po, pn) := permRange c s
    s!"D {project c s} | reenc={boolStr re} size={serializedSize c s} len={b.length} core={coreSize c s} " ++
    s!"cflag={boolStr (s.hdr.compact c)} perm={po}:{pn}"
  | some (_, r) => s!"REJECT trailing={r.length}"
  | none => "REJECT"

def pfxLine (c : Consts) (b : Bytes) : String :=
  let full := match decode c b with
    | some (s, []) => some s
    | _ => none
  let ns := List.range b.length
  let st := ns.map fun n => verdict (decode c) full (b.take n)
  let co := ns.map fun n => verdict (decodeCore c) full (b.take n)
  s!"P strict={rle st} core={rle co}"

def corLine (c : Consts) (b : Bytes) : String :=
  let pre := min (preambleLen c b) b.length
  let cases := (List.range pre).flatMap fun pos =>
    (replacements (b.getD pos 0)).map fun v =>
      match decode c (b.set pos v) with
      | none => 'R'
      | some _ => 'A'
  "K " ++ String.ofList cases

def step (c : Consts) (w : List String) : String :=
  match w with
  | ["IMG", _, hex] => match parseHexBytes hex with
    | some b => imgLine c b.toList
    | none => "bad-hex"
  | ["PFX", _, hex] => match parseHexBytes hex with
    | some b => pfxLine c b.toList
    | none => "bad-hex"
  | ["COR", _, hex] => match parseHexBytes hex with
    | some b => corLine c b.toList
    | none => "bad-hex"
  | ["NOP"] => "-"
  | _ => "bad-op"

end DS.Wire.Hll

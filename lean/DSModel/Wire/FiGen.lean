/- Frequent-items wire constants as read from the CURRENT headers by the translator. -/
import DSModel.Wire.Fi
import DSGen.WireCount
namespace DS.Wire.Fi

def generated : FiConsts :=
  { familyId := DSGen.wc_fi_FAMILY_ID, serVer := DSGen.wc_fi_SERIAL_VERSION, preEmpty := DSGen.wc_fi_PREAMBLE_LONGS_EMPTY,
    preNonEmpty := DSGen.wc_fi_PREAMBLE_LONGS_NONEMPTY, lgMin := DSGen.wc_fi_LG_MIN_MAP_SIZE,
    emptyBit1 := DSGen.wc_fi_flag_IS_EMPTY_1, emptyBit2 := DSGen.wc_fi_flag_IS_EMPTY_2,
    epsNum := DSGen.wc_fi_EPSILON_FACTOR_num, epsDen := DSGen.wc_fi_EPSILON_FACTOR_den }

end DS.Wire.Fi

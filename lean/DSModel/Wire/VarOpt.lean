/-
VarOpt sketch image (family 13, serial version 2) and VarOpt union image (family 14, serial version 2), as described
by the "Serialized sketch layout" comments of var_opt_sketch_impl.hpp / var_opt_union_impl.hpp and written by
their `serialize` methods.

Sketch:  byte 0 = preamble longs (1 empty, 3 warm-up, 4 full) in the low 6 bits, resize factor in the high 2 bits
         1 serial version · 2 family id · 3 flags (4 = empty, 128 = gadget) · 4..7 k u32
         non-empty: 8..15 n u64 · 16..19 h u32 · 20..23 r u32 · [r > 0: 24..31 total_wt_r f64]
                    · weights f64[h] · [gadget: marks of the h heavy items, 8 per byte, item i = bit (i mod 8) of byte i/8]
                    · H items (serde)[h] · R items (serde)[r]
Union:   byte 0 preamble longs (1 empty, 4) · 1 serial version · 2 family id · 3 flags (4 = empty) · 4..7 max_k u32
         non-empty: 8..15 n u64 · 16..23 outer tau numerator f64 · 24..31 outer tau denominator u64 · gadget image (a sketch image)
Doubles are carried as their bit patterns.  All constants are parameters, instantiated from the current headers.
Core Lean only.
-/
import DSModel.Wire.SerdeC
namespace DS.Wire.VarOpt
open DS.Wire

structure VoConsts where
  familyId : Nat
  serVer : Nat
  preEmpty : Nat
  preWarmup : Nat
  preFull : Nat
  emptyMask : Nat
  gadgetMask : Nat
  maxK : Nat
  preLongsMask : Nat    -- writer: `(preLongs & 0x3F) | (rf << 6)`; reader: `first_byte & 0x3f`, `(first_byte >> 6) & 0x03`
  rfShift : Nat
  rfMask : Nat
  markIdxMask : Nat     -- `val |= 0x1 << (i & 0x7)`
  deriving Repr, DecidableEq

def documented : VoConsts :=
  { familyId := 13, serVer := 2, preEmpty := 1, preWarmup := 3, preFull := 4, emptyMask := 4, gadgetMask := 128,
    maxK := 2147483646, preLongsMask := 63, rfShift := 6, rfMask := 3, markIdxMask := 7 }

def flagsOf (c : VoConsts) (empty gadget : Bool) : Nat := (if gadget then c.gadgetMask else 0) ||| (if empty then c.emptyMask else 0)
def isEmptyFlags (c : VoConsts) (flags : Nat) : Bool := flags &&& c.emptyMask != 0
def isGadgetFlags (c : VoConsts) (flags : Nat) : Bool := flags &&& c.gadgetMask != 0

def firstByte (c : VoConsts) (pre rf : Nat) : Nat := (pre &&& c.preLongsMask) ||| (rf <<< c.rfShift)
def preOfFirst (c : VoConsts) (b : Nat) : Nat := b &&& c.preLongsMask
def rfOfFirst (c : VoConsts) (b : Nat) : Nat := (b >>> c.rfShift) &&& c.rfMask

def flagsRT (c : VoConsts) (e g : Bool) : Prop :=
  flagsOf c e g < 256 ∧ isEmptyFlags c (flagsOf c e g) = e ∧ isGadgetFlags c (flagsOf c e g) = g
instance (c : VoConsts) (e g : Bool) : Decidable (flagsRT c e g) := by unfold flagsRT; infer_instance

def firstRT (c : VoConsts) (pre rf : Nat) : Prop :=
  firstByte c pre rf < 256 ∧ preOfFirst c (firstByte c pre rf) = pre ∧ rfOfFirst c (firstByte c pre rf) = rf
instance (c : VoConsts) (p r : Nat) : Decidable (firstRT c p r) := by unfold firstRT; infer_instance

/-- decidable side conditions under which the layout round-trips: ids fit a byte, the three preamble sizes are
distinguishable, every flag combination and every (preamble longs, resize factor) first byte reads back, marks are packed
8 per byte -/
def VoConsts.ok (c : VoConsts) : Prop :=
  c.familyId < 256 ∧ c.serVer < 256 ∧ c.preWarmup ≠ c.preFull ∧ c.markIdxMask = 7 ∧
  flagsRT c false false ∧ flagsRT c false true ∧ flagsRT c true false ∧ flagsRT c true true ∧
  (∀ rf, rf < 4 → firstRT c c.preEmpty rf ∧ firstRT c c.preWarmup rf ∧ firstRT c c.preFull rf)
instance (c : VoConsts) : Decidable c.ok := by unfold VoConsts.ok; infer_instance

/-! ### marks: 8 per byte, least significant bit first -/

def packByte : List Bool → Nat
  | [] => 0
  | b :: t => (if b then 1 else 0) + 2 * packByte t

def unpackByte : Nat → Nat → List Bool
  | 0, _ => []
  | n + 1, x => (x % 2 == 1) :: unpackByte n (x / 2)

/-- `nb` bytes for the marks `l` -/
def packMarksN : Nat → List Bool → Bytes
  | 0, _ => []
  | nb + 1, l => UInt8.ofNat (packByte (l.take 8)) :: packMarksN nb (l.drop 8)

def marksBytes (h : Nat) : Nat := (h + 7) / 8
def packMarks (l : List Bool) : Bytes := packMarksN (marksBytes l.length) l

/-- reads `nb` bytes holding `h` marks -/
def marksRd : Nat → Nat → Reader (List Bool)
  | 0, _ => Reader.pure []
  | nb + 1, h => Reader.bind byte (fun x => Reader.bind (marksRd nb (h - 8)) (fun t =>
      Reader.pure (unpackByte (min h 8) x.toNat ++ t)))

/-! ### the sketch image -/

structure Body (ι : Type) where
  n : Nat
  /-- total weight of the R region (bits of a double); stored only when `rItems` is non-empty, else 0 -/
  totalWtR : Nat
  weights : List Nat
  /-- marks of the H items (gadget images only, else `[]`) -/
  marks : List Bool
  hItems : List ι
  rItems : List ι
  deriving Repr, DecidableEq

structure Image (ι : Type) where
  rf : Nat
  k : Nat
  gadget : Bool
  body : Option (Body ι)
  deriving Repr, DecidableEq

variable {ι : Type}

/-- strictly positive, not NaN (what the reader demands of weights and of total_wt_r; +∞ passes, as in the code) -/
def posF64 (bits : Nat) : Bool := decide (0 < bits) && decide (bits ≤ 0x7FF0000000000000)

def WFBody (sd : Serde ι) (k : Nat) (gadget : Bool) (b : Body ι) : Prop :=
  b.n < 2 ^ 64 ∧ b.weights.length < 2 ^ 32 ∧ b.rItems.length < 2 ^ 32 ∧ b.totalWtR < 2 ^ 64 ∧
  b.hItems.length = b.weights.length ∧ b.marks.length = (if gadget then b.weights.length else 0) ∧
  (∀ w ∈ b.weights, w < 2 ^ 64 ∧ posF64 w = true) ∧ (∀ x ∈ b.hItems, sd.ok x) ∧ (∀ x ∈ b.rItems, sd.ok x) ∧
  (if b.rItems.length = 0 then b.n = b.weights.length ∧ b.n ≤ k ∧ b.totalWtR = 0
   else k < b.n ∧ b.weights.length + b.rItems.length = k ∧ posF64 b.totalWtR = true)

def WF (c : VoConsts) (sd : Serde ι) (s : Image ι) : Prop :=
  s.rf < 4 ∧ s.k < 2 ^ 32 ∧ 1 ≤ s.k ∧ s.k ≤ c.maxK ∧
  match s.body with
  | none => True
  | some b => WFBody sd s.k s.gadget b

def preOf (c : VoConsts) (s : Image ι) : Nat :=
  match s.body with
  | none => c.preEmpty
  | some b => if b.rItems.length = 0 then c.preWarmup else c.preFull

def encodeBody (sd : Serde ι) (gadget : Bool) : Option (Body ι) → Bytes
  | none => []
  | some b => w64 b.n ++ (w32 b.weights.length ++ (w32 b.rItems.length ++
      ((if b.rItems.length = 0 then [] else w64 b.totalWtR) ++ (encU64s b.weights ++
      ((if gadget then packMarks b.marks else []) ++ (encItems sd b.hItems ++ encItems sd b.rItems))))))

def encode (c : VoConsts) (sd : Serde ι) (s : Image ι) : Bytes :=
  w8 (firstByte c (preOf c s) s.rf) ++ (w8 c.serVer ++ (w8 c.familyId ++ (w8 (flagsOf c s.body.isNone s.gadget) ++
  (w32 s.k ++ encodeBody sd s.gadget s.body))))

def decodeBody (c : VoConsts) (sd : Serde ι) (pre k : Nat) (gadget : Bool) : Reader (Option (Body ι)) :=
  Reader.bind u64 (fun n =>
  Reader.bind u32 (fun h =>
  Reader.bind u32 (fun r =>
  -- validate_and_get_target_size
  Reader.bind (guard (if n ≤ k then pre == c.preWarmup && n == h && r == 0 else pre == c.preFull && h + r == k)) (fun _ =>
  Reader.bind (if pre == c.preFull then Reader.bind u64 (fun t => Reader.bind (guard (posF64 t && r != 0)) (fun _ => Reader.pure t))
               else Reader.pure 0) (fun twr =>
  Reader.bind (decU64s h) (fun ws =>
  Reader.bind (guard (ws.all posF64)) (fun _ =>
  Reader.bind (if gadget then marksRd (marksBytes h) h else Reader.pure []) (fun marks =>
  Reader.bind (decItems sd h) (fun hIt =>
  Reader.bind (decItems sd r) (fun rIt =>
  Reader.pure (some { n := n, totalWtR := twr, weights := ws, marks := marks, hItems := hIt, rItems := rIt })))))))))))

/-- the reader written from the documentation (with the validity rules of `validate_and_get_target_size`) -/
def decode (c : VoConsts) (sd : Serde ι) : Reader (Image ι) :=
  Reader.bind u8 (fun first =>
  Reader.bind u8 (fun sv =>
  Reader.bind u8 (fun fam =>
  Reader.bind u8 (fun flags =>
  Reader.bind u32 (fun k =>
  Reader.bind (guard (if isEmptyFlags c flags then preOfFirst c first == c.preEmpty
                      else preOfFirst c first == c.preWarmup || preOfFirst c first == c.preFull)) (fun _ =>
  Reader.bind (guard (fam == c.familyId && sv == c.serVer)) (fun _ =>
  Reader.bind (guard (decide (1 ≤ k) && decide (k ≤ c.maxK))) (fun _ =>
  Reader.bind (if isEmptyFlags c flags then Reader.pure none
               else decodeBody c sd (preOfFirst c first) k (isGadgetFlags c flags)) (fun body =>
  Reader.pure { rf := rfOfFirst c first, k := k, gadget := isGadgetFlags c flags, body := body })))))))))

/-- `get_serialized_size_bytes` -/
def serializedSize (c : VoConsts) (sd : Serde ι) (s : Image ι) : Nat :=
  match s.body with
  | none => c.preEmpty * 8
  | some b => (if b.rItems.length = 0 then c.preWarmup else c.preFull) * 8 + 8 * b.weights.length +
      (if s.gadget then marksBytes b.weights.length else 0) + itemsBytes sd b.hItems + itemsBytes sd b.rItems

def count (s : Image ι) : Nat :=
  match s.body with | none => 0 | some b => b.weights.length + b.hItems.length + b.rItems.length

/-- the (item, weight) pairs the iterator reports: H items with their weights, then R items with tau = total_wt_r / r -/
def showItems (sd : Serde ι) (b : Body ι) : String :=
  let tau := f64 b.totalWtR / Float.ofNat b.rItems.length
  let hs := (b.hItems.zip b.weights).map (fun p => sd.show_ p.1 ++ ":" ++ hexN 16 p.2)
  let rs := b.rItems.map (fun x => sd.show_ x ++ ":" ++ hexF tau)
  ",".intercalate (hs ++ rs)

/-- canonical API content: get_k, get_n, get_num_samples, the iterator's (item, weight) sequence -/
def projectAs (tag : String) (sd : Serde ι) (k n : Nat) (body : Option (Body ι)) : String :=
  match body with
  | none => s!"{tag} k={k} n=0 ns=0 items="
  | some b => s!"{tag} k={k} n={n} ns={b.weights.length + b.rItems.length} items={showItems sd b}"

def project (sd : Serde ι) (s : Image ι) : String :=
  projectAs "VO" sd s.k (match s.body with | none => 0 | some b => b.n) s.body

def layoutFrom (sd : Serde ι) (off : Nat) (s : Image ι) : List (String × Nat) :=
  [("pre", off)] ++ (match s.body with
    | none => []
    | some b =>
      let full := b.rItems.length != 0
      let w0 := off + (if full then 32 else 24)
      let m0 := w0 + 8 * b.weights.length
      let i0 := m0 + (if s.gadget then marksBytes b.weights.length else 0)
      [("n", off + 8), ("h_r", off + 16)] ++ (if full then [("total_wt_r", off + 24)] else []) ++
      [("weights", w0)] ++ (if s.gadget then [("marks", m0)] else []) ++ [("h_items", i0), ("r_items", i0 + itemsBytes sd b.hItems)])

def layout (sd : Serde ι) (s : Image ι) : List (String × Nat) := layoutFrom sd 0 s

/-! ### the union image -/

structure VuConsts where
  familyId : Nat
  serVer : Nat
  preEmpty : Nat
  preNonEmpty : Nat
  emptyMask : Nat
  maxK : Nat
  deriving Repr, DecidableEq

def documentedU : VuConsts := { familyId := 14, serVer := 2, preEmpty := 1, preNonEmpty := 4, emptyMask := 4, maxK := 2147483646 }

def uFlagsOf (c : VuConsts) (empty : Bool) : Nat := if empty then c.emptyMask else 0
def uIsEmptyFlags (c : VuConsts) (flags : Nat) : Bool := flags &&& c.emptyMask != 0

def VuConsts.ok (c : VuConsts) : Prop :=
  c.familyId < 256 ∧ c.serVer < 256 ∧ c.preEmpty < 256 ∧ c.preNonEmpty < 256 ∧
  uFlagsOf c true < 256 ∧ uIsEmptyFlags c (uFlagsOf c true) = true ∧ uIsEmptyFlags c (uFlagsOf c false) = false
instance (c : VuConsts) : Decidable c.ok := by unfold VuConsts.ok; infer_instance

structure UBody (ι : Type) where
  n : Nat
  outerTauNum : Nat      -- bits of a double
  outerTauDen : Nat
  gadget : Image ι
  deriving Repr, DecidableEq

structure UImage (ι : Type) where
  maxK : Nat
  body : Option (UBody ι)
  deriving Repr, DecidableEq

def UWF (cu : VuConsts) (c : VoConsts) (sd : Serde ι) (s : UImage ι) : Prop :=
  s.maxK < 2 ^ 32 ∧ 1 ≤ s.maxK ∧ s.maxK ≤ cu.maxK ∧
  match s.body with
  | none => True
  | some b => b.n < 2 ^ 64 ∧ b.outerTauNum < 2 ^ 64 ∧ b.outerTauDen < 2 ^ 64 ∧ WF c sd b.gadget

def uEncodeBody (c : VoConsts) (sd : Serde ι) : Option (UBody ι) → Bytes
  | none => []
  | some b => w64 b.n ++ (w64 b.outerTauNum ++ (w64 b.outerTauDen ++ encode c sd b.gadget))

def uEncode (cu : VuConsts) (c : VoConsts) (sd : Serde ι) (s : UImage ι) : Bytes :=
  w8 (if s.body.isNone then cu.preEmpty else cu.preNonEmpty) ++ (w8 cu.serVer ++ (w8 cu.familyId ++
  (w8 (uFlagsOf cu s.body.isNone) ++ (w32 s.maxK ++ uEncodeBody c sd s.body))))

def uDecodeBody (c : VoConsts) (sd : Serde ι) (empty : Bool) : Reader (Option (UBody ι)) :=
  if empty then Reader.pure none
  else
    Reader.bind u64 (fun n =>
    Reader.bind u64 (fun num =>
    Reader.bind u64 (fun den =>
    Reader.bind (decode c sd) (fun g =>
    Reader.pure (some { n := n, outerTauNum := num, outerTauDen := den, gadget := g })))))

def uDecode (cu : VuConsts) (c : VoConsts) (sd : Serde ι) : Reader (UImage ι) :=
  Reader.bind u8 (fun pre =>
  Reader.bind u8 (fun sv =>
  Reader.bind u8 (fun fam =>
  Reader.bind u8 (fun flags =>
  Reader.bind u32 (fun maxK =>
  Reader.bind (guard (pre == (if uIsEmptyFlags cu flags then cu.preEmpty else cu.preNonEmpty))) (fun _ =>
  Reader.bind (guard (fam == cu.familyId && sv == cu.serVer)) (fun _ =>
  Reader.bind (guard (decide (1 ≤ maxK) && decide (maxK ≤ cu.maxK))) (fun _ =>
  Reader.bind (uDecodeBody c sd (uIsEmptyFlags cu flags)) (fun body =>
  Reader.pure { maxK := maxK, body := body })))))))))

def uSerializedSize (cu : VuConsts) (c : VoConsts) (sd : Serde ι) (s : UImage ι) : Nat :=
  match s.body with
  | none => cu.preEmpty * 8
  | some b => cu.preNonEmpty * 8 + serializedSize c sd b.gadget

def uCount (s : UImage ι) : Nat := match s.body with | none => 0 | some b => count b.gadget

/-- does the gadget carry marked heavy items? (then `get_result()` has to resolve them with random draws) -/
def hasMarks (s : UImage ι) : Bool :=
  match s.body with
  | none => false
  | some b => match b.gadget.body with | none => false | some g => g.marks.any id

/-- the marks of the gadget's H items in image order, as a 0/1 string (documented layout: bit `i % 8` of mark byte `i / 8`) -/
def gadgetMarks (s : UImage ι) : String :=
  match s.body with
  | none => ""
  | some b => match b.gadget.body with
    | none => ""
    | some g => String.ofList (g.marks.map (fun m => if m then '1' else '0'))

/-- canonical API content = content of `get_result()`: without marked items it is the gadget read as a sketch with the
union's `n`; with marked items the image alone determines `n` and which H items are marked (marker `M gm=<marks>`) -/
def uProject (sd : Serde ι) (s : UImage ι) : String :=
  match s.body with
  | none => s!"VU k={s.maxK} n=0 ns=0 items="
  | some b => if hasMarks s then s!"VU n={b.n} M gm={gadgetMarks s}" else projectAs "VU" sd b.gadget.k b.n b.gadget.body

def uLayout (sd : Serde ι) (s : UImage ι) : List (String × Nat) :=
  [("upre", 0)] ++ (match s.body with
    | none => []
    | some b => [("un", 8), ("outer_tau_num", 16), ("outer_tau_den", 24)] ++ (layoutFrom sd 32 b.gadget).map (fun p => ("g." ++ p.1, p.2)))

end DS.Wire.VarOpt

/-
HLL serialized images (C09 / C10 / C11), as documented in hll/include/HllUtil.hpp (byte offsets, flag masks),
HllSketchImpl-internal.hpp (mode byte), CouponList/CouponHashSet/HllArray/AuxHashMap-internal.hpp.

One *image state* record per image kind holding exactly what the image stores (raw header bytes, raw 64-bit patterns
of the doubles, raw tables), `encode`, `decode` (built ONLY from the Reader combinators), `serializedSize`,
`maxSerializedSize`, `project` (the canonical API content line).  Every value constant comes from the CURRENT headers
through `Consts` (instantiated with DSGen.WireHll by the driver); theorems are parametric in it.

Layout (all little-endian), bytes 0..7 common:
  0 preamble ints (list 2, set 3, hll 10) · 1 ser ver (1) · 2 family (7) · 3 lg_k · 4 lg_arr · 5 flags
  (4 empty, 8 compact, 16 out-of-order, 32 full-size) · 6 list count / cur_min · 7 mode (cur_mode low 2 bits: 0 list,
  1 set, 2 hll; tgt_type next 2 bits: 0 HLL_4, 1 HLL_6, 2 HLL_8)
  list:  coupons u32[] from 8   (compact: `count` of them; updatable: 2^LG_INIT_LIST_SIZE slots, empty slots 0)
  set:   count u32 @8 · coupons u32[] from 12 (compact: `count`; updatable: the raw 2^lg_arr open-addressing table)
  hll:   hip f64 @8 · kxq0 f64 @16 · kxq1 f64 @24 · num_at_cur_min u32 @32 · aux_count u32 @36 · registers from 40
         (4-bit: 2^(lg_k-1) bytes, 6-bit: 3·2^lg_k/4+1, 8-bit: 2^lg_k) · HLL_4 only: aux area
         (compact: aux_count pairs u32; updatable: the raw 2^lg_aux table, lg_aux = byte 4 when aux_count>0, else
          LG_AUX_ARR_INTS[lg_k] zero-filled slots)
Core Lean only.
-/
import DSModel.Wire.Reader
import DSModel.Util

namespace DS.Wire.Hll
open DS.Wire DS.Wire.Reader

/-- value constants of the wire contract, taken from the current headers (DSGen.WireHll) -/
structure Consts where
  serVer : Nat
  familyId : Nat
  listPreInts : Nat
  setPreInts : Nat
  hllPreInts : Nat
  emptyMask : Nat
  compactMask : Nat
  oooMask : Nat
  fullSizeMask : Nat
  lgInitListSize : Nat
  lgInitSetSize : Nat
  resizeNumer : Nat
  resizeDenom : Nat
  lgAuxArrInts : List Nat
  keyBits : Nat
  deriving Repr

/-- side conditions under which the round-trip theorems hold (discharged by `decide` for the generated constants) -/
def Consts.ok (c : Consts) : Bool :=
  c.serVer < 256 && c.familyId < 256 && c.listPreInts < 256 && c.setPreInts < 256 && c.hllPreInts < 256 &&
  c.hllPreInts != c.setPreInts && c.hllPreInts != c.listPreInts && c.setPreInts != c.listPreInts

/-- bytes 3..7 as stored -/
structure Hdr where
  lgK : Nat
  lgArr : Nat
  flags : Nat
  b6 : Nat
  mode : Nat
  deriving DecidableEq, Repr

def hasFlag (flags mask : Nat) : Bool := (flags &&& mask) != 0

def Hdr.curMode (h : Hdr) : Nat := h.mode % 4
def Hdr.tgt (h : Hdr) : Nat := (h.mode / 4) % 4
def Hdr.compact (c : Consts) (h : Hdr) : Bool := hasFlag h.flags c.compactMask
def Hdr.emptyFlag (c : Consts) (h : Hdr) : Bool := hasFlag h.flags c.emptyMask
def Hdr.ooo (c : Consts) (h : Hdr) : Bool := hasFlag h.flags c.oooMask
def Hdr.fullSize (c : Consts) (h : Hdr) : Bool := hasFlag h.flags c.fullSizeMask

def Hdr.inRange (h : Hdr) : Prop := h.lgK < 256 ∧ h.lgArr < 256 ∧ h.flags < 256 ∧ h.b6 < 256 ∧ h.mode < 256
instance (h : Hdr) : Decidable h.inRange := by unfold Hdr.inRange; infer_instance

/-! ### u32 arrays -/

def wU32s : List Nat → Bytes
  | [] => []
  | x :: t => w32 x ++ wU32s t

/-! ### header -/

def encodeHdr (c : Consts) (pre : Nat) (h : Hdr) : Bytes :=
  w8 pre ++ (w8 c.serVer ++ (w8 c.familyId ++ (w8 h.lgK ++ (w8 h.lgArr ++ (w8 h.flags ++ (w8 h.b6 ++ w8 h.mode))))))

/-- bytes 1..7 (byte 0 has been read by the dispatcher) -/
def decodeHdrRest (c : Consts) : Reader Hdr :=
  Reader.bind u8 fun sv =>
  Reader.bind (guard (sv == c.serVer)) fun _ =>
  Reader.bind u8 fun fam =>
  Reader.bind (guard (fam == c.familyId)) fun _ =>
  Reader.bind u8 fun lgK =>
  Reader.bind u8 fun lgArr =>
  Reader.bind u8 fun flags =>
  Reader.bind u8 fun b6 =>
  Reader.bind u8 fun mode =>
  Reader.pure { lgK := lgK, lgArr := lgArr, flags := flags, b6 := b6, mode := mode }

/-! ### list mode -/

structure ListImg where
  h : Hdr
  coupons : List Nat      -- the stored u32 slots
  deriving DecidableEq, Repr

/-- number of u32 slots a list image stores -/
def listLen (c : Consts) (h : Hdr) : Nat := if h.compact c then h.b6 else 2 ^ c.lgInitListSize

/-- the reserved, information-free tail of an image (C11): for a list image the 2^LG_INIT_LIST_SIZE zero slots of an
updatable image whose empty flag is set -/
def listPad (c : Consts) (h : Hdr) : Bool := !h.compact c && h.emptyFlag c

def encodeList (c : Consts) (s : ListImg) : Bytes := encodeHdr c c.listPreInts s.h ++ wU32s s.coupons

/-- `lenient = true`: the reader that does not insist on the information-free tail being present -/
def decodeListBody (c : Consts) (lenient : Bool) (h : Hdr) : Reader ListImg :=
  Reader.bind (guard (h.curMode == 0)) fun _ =>
  Reader.bind (guard (h.tgt != 3)) fun _ =>
  if lenient && listPad c h then Reader.pure { h := h, coupons := List.replicate (listLen c h) 0 }
  else Reader.bind (repeatN u32 (listLen c h)) fun cs => Reader.pure { h := h, coupons := cs }

def listSize (c : Consts) (s : ListImg) : Nat := 8 + 4 * listLen c s.h

def ListImg.nonzero (s : ListImg) : List Nat := s.coupons.filter (· != 0)

def ListImg.WF (c : Consts) (s : ListImg) : Prop :=
  s.h.inRange ∧ s.h.curMode = 0 ∧ s.h.tgt ≠ 3 ∧ s.coupons.length = listLen c s.h ∧ (∀ x ∈ s.coupons, x < 2 ^ 32) ∧
  -- writer consistency: count byte = number of stored coupons; empty flag ⇔ no coupon; empty slots only after the coupons
  s.h.b6 = s.nonzero.length ∧ (s.h.emptyFlag c = (s.h.b6 == 0)) ∧ s.coupons.drop s.h.b6 = List.replicate (s.coupons.length - s.h.b6) 0
instance (c : Consts) (s : ListImg) : Decidable (s.WF c) := by unfold ListImg.WF; infer_instance

/-! ### set mode -/

structure SetImg where
  h : Hdr
  count : Nat
  slots : List Nat
  deriving DecidableEq, Repr

/-- ceil(log2 n) for n ≥ 1 (0 ↦ 0) -/
def clog2 (n : Nat) : Nat := if n ≤ 1 then 0 else Nat.log2 (n - 1) + 1

/-- `HllUtil::computeLgArrInts` for SET/HLL (used when the image does not carry lg_arr) -/
def computeLgArr (c : Consts) (floor count : Nat) : Nat :=
  let lg := clog2 count
  let lg := if c.resizeDenom * count > c.resizeNumer * 2 ^ lg then lg + 1 else lg
  max floor lg

def setLgArr (c : Consts) (h : Hdr) (count : Nat) : Nat :=
  if h.lgArr < c.lgInitSetSize then computeLgArr c c.lgInitSetSize count else h.lgArr

def setLen (c : Consts) (h : Hdr) (count : Nat) : Nat := if h.compact c then count else 2 ^ setLgArr c h count

def encodeSet (c : Consts) (s : SetImg) : Bytes := encodeHdr c c.setPreInts s.h ++ (w32 s.count ++ wU32s s.slots)

def decodeSetBody (c : Consts) (h : Hdr) : Reader SetImg :=
  Reader.bind (guard (h.curMode == 1)) fun _ =>
  Reader.bind (guard (h.tgt != 3)) fun _ =>
  Reader.bind (guard (decide (7 < h.lgK))) fun _ =>
  Reader.bind u32 fun count =>
  Reader.bind (repeatN u32 (setLen c h count)) fun sl =>
  Reader.pure { h := h, count := count, slots := sl }

def setSize (c : Consts) (s : SetImg) : Nat := 12 + 4 * setLen c s.h s.count

def SetImg.nonzero (s : SetImg) : List Nat := s.slots.filter (· != 0)

/-- what the reader needs: field ranges and the table length implied by the header (lg_arr byte, or — images of
older writers that left byte 4 zero — the size recomputed from the count) -/
def SetImg.Valid (c : Consts) (s : SetImg) : Prop :=
  s.h.inRange ∧ s.h.curMode = 1 ∧ s.h.tgt ≠ 3 ∧ 7 < s.h.lgK ∧ s.count < 2 ^ 32 ∧
  s.slots.length = setLen c s.h s.count ∧ (∀ x ∈ s.slots, x < 2 ^ 32)
instance (c : Consts) (s : SetImg) : Decidable (s.Valid c) := by unfold SetImg.Valid; infer_instance

def SetImg.WF (c : Consts) (s : SetImg) : Prop :=
  s.Valid c ∧
  -- writer consistency: byte 6 unused, lg_arr is the real table size and at most lg_k - 3, count = stored coupons
  s.h.b6 = 0 ∧ c.lgInitSetSize ≤ s.h.lgArr ∧ s.h.lgArr + 3 ≤ s.h.lgK ∧ s.count = s.nonzero.length ∧
  (s.h.emptyFlag c = (s.count == 0))
instance (c : Consts) (s : SetImg) : Decidable (s.WF c) := by unfold SetImg.WF; infer_instance

/-! ### HLL mode -/

structure HllImg where
  h : Hdr
  hip : Nat
  kxq0 : Nat
  kxq1 : Nat
  numAtCurMin : Nat
  auxCount : Nat
  regs : Bytes
  aux : List Nat
  deriving DecidableEq, Repr

def arrBytes (tgt lgK : Nat) : Nat :=
  if tgt = 0 then 2 ^ (lgK - 1) else if tgt = 1 then 3 * 2 ^ lgK / 4 + 1 else 2 ^ lgK

def lgAuxDefault (c : Consts) (lgK : Nat) : Nat := c.lgAuxArrInts.getD lgK 0

/-- log2 of the number of u32 slots in the aux area of an updatable HLL_4 image -/
def lgAuxOf (c : Consts) (h : Hdr) (auxCount : Nat) : Nat := if auxCount = 0 then lgAuxDefault c h.lgK else h.lgArr

def auxLen (c : Consts) (h : Hdr) (auxCount : Nat) : Nat :=
  if h.tgt = 0 then (if h.compact c then auxCount else 2 ^ lgAuxOf c h auxCount) else 0

/-- the reserved, information-free tail (C11): the always-written empty aux area of an updatable HLL_4 image -/
def hllPad (c : Consts) (h : Hdr) (auxCount : Nat) : Bool := h.tgt == 0 && !h.compact c && auxCount == 0

def encodeHll (c : Consts) (s : HllImg) : Bytes :=
  encodeHdr c c.hllPreInts s.h ++ (w64 s.hip ++ (w64 s.kxq0 ++ (w64 s.kxq1 ++ (w32 s.numAtCurMin ++ (w32 s.auxCount ++
    (s.regs ++ wU32s s.aux))))))

def decodeHllBody (c : Consts) (lenient : Bool) (h : Hdr) : Reader HllImg :=
  Reader.bind (guard (h.curMode == 2)) fun _ =>
  Reader.bind (guard (h.tgt != 3)) fun _ =>
  Reader.bind u64 fun hip =>
  Reader.bind u64 fun kxq0 =>
  Reader.bind u64 fun kxq1 =>
  Reader.bind u32 fun nacm =>
  Reader.bind u32 fun auxCount =>
  Reader.bind (guard (h.tgt == 0 || auxCount == 0)) fun _ =>
  Reader.bind (bytesN (arrBytes h.tgt h.lgK)) fun regs =>
  if lenient && hllPad c h auxCount then
    Reader.pure { h := h, hip := hip, kxq0 := kxq0, kxq1 := kxq1, numAtCurMin := nacm, auxCount := auxCount, regs := regs,
                  aux := List.replicate (auxLen c h auxCount) 0 }
  else Reader.bind (repeatN u32 (auxLen c h auxCount)) fun aux =>
    Reader.pure { h := h, hip := hip, kxq0 := kxq0, kxq1 := kxq1, numAtCurMin := nacm, auxCount := auxCount, regs := regs, aux := aux }

def hllSize (c : Consts) (s : HllImg) : Nat := 40 + arrBytes s.h.tgt s.h.lgK + 4 * auxLen c s.h s.auxCount

def HllImg.auxNonzero (s : HllImg) : List Nat := s.aux.filter (· != 0)

/-- number of 4-bit registers holding the exception token 15 -/
def nibbleTokens : Bytes → Nat
  | [] => 0
  | b :: t => (if b.toNat % 16 = 15 then 1 else 0) + (if b.toNat / 16 = 15 then 1 else 0) + nibbleTokens t

def HllImg.WF (c : Consts) (s : HllImg) : Prop :=
  s.h.inRange ∧ s.h.curMode = 2 ∧ s.h.tgt ≠ 3 ∧ s.hip < 2 ^ 64 ∧ s.kxq0 < 2 ^ 64 ∧ s.kxq1 < 2 ^ 64 ∧
  s.numAtCurMin < 2 ^ 32 ∧ s.auxCount < 2 ^ 32 ∧ (s.h.tgt = 0 ∨ s.auxCount = 0) ∧
  s.regs.length = arrBytes s.h.tgt s.h.lgK ∧ s.aux.length = auxLen c s.h s.auxCount ∧ (∀ x ∈ s.aux, x < 2 ^ 32) ∧
  -- writer consistency: aux_count = stored pairs = exception tokens among the nibbles; lg_arr byte 0 without aux map;
  -- empty flag ⇔ cur_min = 0 and all 2^lg_k registers at cur_min
  s.auxCount = s.auxNonzero.length ∧ (s.h.tgt = 0 → s.auxCount = nibbleTokens s.regs) ∧ (s.auxCount = 0 → s.h.lgArr = 0) ∧
  (s.h.emptyFlag c = (s.h.b6 == 0 && s.numAtCurMin == 2 ^ s.h.lgK))
instance (c : Consts) (s : HllImg) : Decidable (s.WF c) := by unfold HllImg.WF; infer_instance

/-! ### all image kinds -/

inductive Img where
  | list (s : ListImg)
  | set (s : SetImg)
  | hll (s : HllImg)
  deriving DecidableEq, Repr

def encode (c : Consts) : Img → Bytes
  | .list s => encodeList c s
  | .set s => encodeSet c s
  | .hll s => encodeHll c s

/-- the generic reader; dispatch on the preamble-ints byte as `HllSketchImplFactory::deserialize` does -/
def decodeG (c : Consts) (lenient : Bool) : Reader Img :=
  Reader.bind u8 fun pre =>
  Reader.bind (decodeHdrRest c) fun h =>
  if pre == c.hllPreInts then Reader.bind (decodeHllBody c lenient h) fun s => Reader.pure (Img.hll s)
  else if pre == c.setPreInts then Reader.bind (decodeSetBody c h) fun s => Reader.pure (Img.set s)
  else if pre == c.listPreInts then Reader.bind (decodeListBody c lenient h) fun s => Reader.pure (Img.list s)
  else Reader.fail

/-- the specification reader: consumes exactly the image -/
def decode (c : Consts) : Reader Img := decodeG c false
/-- the reader that tolerates a missing information-free tail (see `isPadding`) -/
def decodeCore (c : Consts) : Reader Img := decodeG c true

def serializedSize (c : Consts) : Img → Nat
  | .list s => listSize c s
  | .set s => setSize c s
  | .hll s => hllSize c s

/-- length of the information-carrying part: the image minus its reserved tail -/
def coreSize (c : Consts) : Img → Nat
  | .list s => if listPad c s.h then 8 else listSize c s
  | .set s => setSize c s
  | .hll s => if hllPad c s.h s.auxCount then 40 + arrBytes s.h.tgt s.h.lgK else hllSize c s

/-- prefix lengths at which only reserved padding is missing -/
def isPadding (c : Consts) (s : Img) (n : Nat) : Bool := coreSize c s ≤ n && n < serializedSize c s

def Img.hdr : Img → Hdr
  | .list s => s.h
  | .set s => s.h
  | .hll s => s.h

def Img.WF (c : Consts) : Img → Prop
  | .list s => s.WF c
  | .set s => s.WF c
  | .hll s => s.WF c
instance (c : Consts) (s : Img) : Decidable (s.WF c) := by cases s <;> (unfold Img.WF; infer_instance)

/-- `hll_sketch::get_max_updatable_serialization_bytes(lg_k, tgt_type)` -/
def maxSerializedSize (c : Consts) (lgK tgt : Nat) : Nat :=
  40 + arrBytes tgt lgK + (if tgt = 0 then 4 * 2 ^ lgAuxDefault c lgK else 0)

/-- number of stored table entries / register bytes (what a reader has to allocate) -/
def footprint : Img → Nat
  | .list s => 4 * s.coupons.length
  | .set s => 4 * s.slots.length
  | .hll s => s.regs.length + 4 * s.aux.length

/-! ### projection to the API content -/

def modeName (m : Nat) : String := if m = 0 then "LIST" else if m = 1 then "SET" else "HLL"
def typeNum (t : Nat) : Nat := if t = 0 then 4 else if t = 1 then 6 else 8

def couponsStr (l : List Nat) : String :=
  if l.isEmpty then "-" else ",".intercalate ((DS.sortNat l).map (DS.hexN 8))

/-- value stored for `slot` in the aux table: the entry whose low lg_k bits of the 26-bit key equal the slot -/
def auxFind (keyBits lgK : Nat) (aux : List Nat) (slot : Nat) : Option Nat :=
  match aux.find? (fun e => e != 0 && (e % 2 ^ keyBits) % 2 ^ lgK == slot) with
  | some e => some (e / 2 ^ keyBits)
  | none => none

def reg4 (c : Consts) (s : HllImg) (i : Nat) : Option Nat :=
  let b := (s.regs.getD (i / 2) 0).toNat
  let nib := if i % 2 = 1 then b / 16 else b % 16
  if nib = 15 then auxFind c.keyBits s.h.lgK s.aux i else some (nib + s.h.b6)

def reg6 (s : HllImg) (i : Nat) : Nat :=
  let start := 6 * i
  let j := start / 8
  let two := (s.regs.getD (j + 1) 0).toNat * 256 + (s.regs.getD j 0).toNat
  (two / 2 ^ (start % 8)) % 64

def reg8 (s : HllImg) (i : Nat) : Nat := (s.regs.getD i 0).toNat

def regAt (c : Consts) (s : HllImg) (i : Nat) : Option Nat :=
  if s.h.tgt = 0 then reg4 c s i else if s.h.tgt = 1 then some (reg6 s i) else some (reg8 s i)

def regsStr (c : Consts) (s : HllImg) : String :=
  let vals := (List.range (2 ^ s.h.lgK)).map (regAt c s)
  if vals.any (·.isNone) then "invalid" else String.join (vals.map fun v => DS.hexN 2 (v.getD 0))

def hdrStr (c : Consts) (h : Hdr) (empty : Bool) : String :=
  s!"lgk={h.lgK} type={typeNum h.tgt} mode={modeName h.curMode} empty={DS.boolStr empty} compact=0 " ++
  s!"ooo={DS.boolStr (h.ooo c)} full={DS.boolStr (h.fullSize c)}"

/-- canonical API content (what hll_sketch reports after deserialize; `compact=0`: every restored sketch is an
updatable heap object, `is_compact()` is constantly false in this port) -/
def project (c : Consts) : Img → String
  | .list s => hdrStr c s.h (s.h.b6 == 0) ++ s!" n={s.h.b6} coupons={couponsStr ((s.coupons.take s.h.b6).filter (· != 0))}"
  | .set s => hdrStr c s.h (s.count == 0) ++ s!" n={s.count} coupons={couponsStr s.nonzero}"
  | .hll s =>
    let empty := s.h.b6 == 0 && s.numAtCurMin == 2 ^ s.h.lgK
    hdrStr c s.h empty ++ s!" curmin={s.h.b6} nacm={s.numAtCurMin} hip={if s.h.ooo c then "-" else DS.hexN 16 s.hip} " ++
    s!"kxq0={DS.hexN 16 s.kxq0} kxq1={DS.hexN 16 s.kxq1} regs={regsStr c s}"

/-- which part of an image may legitimately differ after deserialize + re-serialize (documented table-order freedom):
the byte range holding an unordered hash table whose slot order depends on insertion history.
 * set, compact: the `count` coupons from byte 12 (written in table order of the rebuilt set)
 * HLL_4 with aux_count > 0, compact: the aux_count pairs after the registers; updatable: the 2^lg_aux slot table
 everything else (list, updatable set — the raw table is copied —, HLL_6, HLL_8, HLL_4 without exceptions) is byte-exact.
Returns (offset, number of u32 entries) of the permutable range. -/
def permRange (c : Consts) : Img → Nat × Nat
  | .list _ => (0, 0)
  | .set s => if s.h.compact c then (12, s.slots.length) else (0, 0)
  | .hll s => if s.h.tgt = 0 && s.auxCount != 0 then (40 + s.regs.length, s.aux.length) else (0, 0)

end DS.Wire.Hll

/- Driver lines for the bit-packing tie: evaluate the IR translated from bit_packing.hpp on concrete values. Core Lean only. -/
import DSModel.Util
import DSModel.Wire.BitPack
import DSGen.BitPackIR
namespace DS.Wire.BitPack
open DS DS.Wire

def natsOfBytes (b : Bytes) : List Nat := b.map (·.toNat)
def bytesOfNats (l : List Nat) : Bytes := l.map UInt8.ofNat

/-- `BP pack n v0..v7` | `BP unpack n hex` | `BPT eb v1..vk` -/
def bpLine (w : List String) : String :=
  match w with
  | "BP" :: "pack" :: n :: vs =>
    match n.toNat?, vs.mapM String.toNat? with
    | some n, some vals =>
      -- through the dispatcher table, as pack_bits_block8 does
      match lookupNat n DSGen.BitPackIR.packDispatch >>= fun r => lookupNat r DSGen.BitPackIR.packRoutines with
      | some st =>
        match evalPack st vals (List.replicate n 0xAA) with
        | some mem => s!"BP {listBytesHex (bytesOfNats mem)} spec={boolStr (bytesOfNats mem == packFields n vals)}"
        | none => "BP error"
      | none => "throw"
    | _, _ => "bad-op"
  | ["BP", "unpack", n, hex] =>
    match n.toNat?, parseHexBytes hex with
    | some n, some b =>
      match lookupNat n DSGen.BitPackIR.unpackDispatch >>= fun r => lookupNat r DSGen.BitPackIR.unpackRoutines with
      | some st =>
        match evalUnpack st (natsOfBytes b.toList) (List.replicate 8 0xDEADBEEF) with
        | some vals => s!"BPU {joinSp (vals.map toString)} spec={boolStr (vals == unpackFields n 8 b.toList)}"
        | none => "BPU error"
      | none => "throw"
    | _, _ => "bad-op"
  | "BPT" :: eb :: vs =>
    match eb.toNat?, vs.mapM String.toNat? with
    | some eb, some vals =>
      let b := packFields eb vals
      s!"BPT {listBytesHex b} rt={boolStr (unpackFields eb vals.length b == vals)}"
    | _, _ => "bad-op"
  | _ => "bad-op"

end DS.Wire.BitPack

/- The t-digest wire constants as extracted from the CURRENT headers (DSGen/WireMisc.lean, regenerated every run). -/
import DSModel.Wire.TDigest
import DSGen.WireMisc
namespace DS.Wire.TDigest

def genConsts : Consts :=
  { preSingle := DSGen.tdigest_PREAMBLE_LONGS_EMPTY_OR_SINGLE, preMulti := DSGen.tdigest_PREAMBLE_LONGS_MULTIPLE,
    serVer := DSGen.tdigest_SERIAL_VERSION, sketchType := DSGen.tdigest_SKETCH_TYPE,
    emptyBit := DSGen.tdigest_FLAG_IS_EMPTY, singleBit := DSGen.tdigest_FLAG_IS_SINGLE_VALUE,
    reverseBit := DSGen.tdigest_FLAG_REVERSE_MERGE,
    compatDouble := DSGen.tdigest_COMPAT_DOUBLE, compatFloat := DSGen.tdigest_COMPAT_FLOAT }

/-- sizeof(W) for tdigest<double> / tdigest<float> as declared (`using W = std::conditional<...>`) -/
def genWszDouble : Nat := DSGen.tdigest_WEIGHT_BYTES_double
def genWszFloat : Nat := DSGen.tdigest_WEIGHT_BYTES_float

end DS.Wire.TDigest

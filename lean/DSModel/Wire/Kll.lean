/-
KLL sketch image (kll/include/kll_sketch.hpp "Serialized sketch layout", kll_sketch_impl.hpp serialize/deserialize).

  byte 0 preamble_ints (2 = empty or single item, 5 = full) | 1 serial version (1; 2 = single item) | 2 family 15
  | 3 flags (bit0 empty, bit1 level-zero-sorted, bit2 single-item) | 4-5 k u16 | 6 m (= 8) | 7 unused 0
  single item: the item follows at byte 8.
  full: 8-15 n u64 | 16-17 min_k u16 | 18 num_levels u8 | 19 unused | levels u32[num_levels] (the last boundary,
  = total capacity of (k, m, num_levels), is NOT stored) | min | max | retained items (capacity - levels[0] of them).

The decoder is written only with the reader combinators; every wire constant is a field of `Cfg`
(filled from the CURRENT headers by the translator, pinned to the documented values by C10).
Core Lean only.
-/
import DSModel.Wire.Serde
namespace DS.Wire.Kll
open Reader

structure Cfg where
  family : Nat
  preShort : Nat
  preFull : Nat
  ver1 : Nat
  ver2 : Nat
  m : Nat
  bitEmpty : Nat
  bitLz : Nat
  bitSingle : Nat
  emptySize : Nat
  dataStartSingle : Nat
  dataStart : Nat
  deriving DecidableEq, Repr

/-- what an image stores -/
inductive Image where
  | empty (k : Nat) (lz : Bool)
  | single (k : Nat) (lz : Bool) (item : Item)
  | full (k : Nat) (lz : Bool) (n minK : Nat) (levels : List Nat) (min max : Item) (items : List Item)
  deriving DecidableEq, Repr

/-! ### capacity of a sketch with `numLevels` levels (kll_helper::compute_total_capacity) -/

/-- `int_cap_aux_aux`: k·(2/3)^depth rounded to nearest -/
def intCapAuxAux (k depth : Nat) : Nat := ((2 * k * 2 ^ depth) / 3 ^ depth + 1) / 2

def intCapAux (k depth : Nat) : Nat :=
  if depth ≤ 30 then intCapAuxAux k depth
  else intCapAuxAux (intCapAuxAux k (depth / 2)) (depth - depth / 2)

/-- capacity of the level at `depth` below the top level -/
def depthCapacity (k m depth : Nat) : Nat := max m (intCapAux k depth)

/-- Σ over the levels; level `h` of `numLevels` has depth `numLevels - h - 1`, so the sum runs over depths 0..numLevels-1 -/
def totalCapacity (k m : Nat) : Nat → Nat
  | 0 => 0
  | d + 1 => totalCapacity k m d + depthCapacity k m d

/-- `ub_on_num_levels(n)` = 1 + ⌊log2 n⌋ (1 for n = 0) -/
def ubLevels (n : Nat) : Nat := if n = 0 then 1 else 1 + Nat.log2 n

/-! ### flags -/

def bit (f i : Nat) : Bool := (f / 2 ^ i) % 2 == 1

def mkFlags (c : Cfg) (e lz sg : Bool) : Nat :=
  (if e then 2 ^ c.bitEmpty else 0) + (if lz then 2 ^ c.bitLz else 0) + (if sg then 2 ^ c.bitSingle else 0)

/-- boundaries ascending and within the capacity -/
def levelsOk : List Nat → Nat → Bool
  | [], _ => true
  | [x], cap => decide (x ≤ cap)
  | x :: y :: t, cap => decide (x ≤ y) && levelsOk (y :: t) cap

/-! ### writer -/

def header (c : Cfg) (pre ver flags k : Nat) : Bytes :=
  w8 pre ++ (w8 ver ++ (w8 c.family ++ (w8 flags ++ (w16 k ++ (w8 c.m ++ w8 0)))))

def encode (sd : Serde) (c : Cfg) : Image → Bytes
  | .empty k lz => header c c.preShort c.ver1 (mkFlags c true lz false) k
  | .single k lz it => header c c.preShort c.ver2 (mkFlags c false lz true) k ++ sd.enc it
  | .full k lz n minK levels mn mx items =>
      header c c.preFull c.ver1 (mkFlags c false lz false) k ++
      (w64 n ++ (w16 minK ++ (w8 levels.length ++ (w8 0 ++
      (encList w32 levels ++ (sd.enc mn ++ (sd.enc mx ++ encItems sd items)))))))

def serializedSize (sd : Serde) (c : Cfg) : Image → Nat
  | .empty _ _ => c.emptySize
  | .single _ _ it => c.dataStartSingle + (sd.enc it).length
  | .full _ _ _ _ levels mn mx items =>
      c.dataStart + 4 * levels.length + (sd.enc mn).length + (sd.enc mx).length + sizeItems sd items

/-- `get_max_serialized_size_bytes(k, n)` for items of `itemSize` bytes -/
def maxSerializedSize (c : Cfg) (k n itemSize : Nat) : Nat :=
  c.dataStart + 4 * ubLevels n + (totalCapacity k c.m (ubLevels n) + 2) * itemSize

/-! ### reader -/

def decodeFull (sd : Serde) (c : Cfg) (k : Nat) (lz : Bool) : Reader Image :=
  Reader.bind u64 fun n =>
  Reader.bind u16 fun minK =>
  Reader.bind u8 fun numLevels =>
  Reader.bind u8 fun unused =>
  Reader.bind (guard (unused == 0 && decide (1 ≤ numLevels) && decide (numLevels ≤ 61))) fun _ =>
  Reader.bind (repeatN u32 numLevels) fun levels =>
  Reader.bind (guard (levelsOk levels (totalCapacity k c.m numLevels))) fun _ =>
  Reader.bind sd.dec fun mn =>
  Reader.bind sd.dec fun mx =>
  Reader.bind (repeatN sd.dec (totalCapacity k c.m numLevels - levels.headD 0)) fun items =>
  Reader.pure (Image.full k lz n minK levels mn mx items)

def decodeBody (sd : Serde) (c : Cfg) (pre ver flags k : Nat) : Reader Image :=
  if bit flags c.bitEmpty then
    Reader.bind (guard (pre == c.preShort && ver == c.ver1 && !bit flags c.bitSingle)) fun _ =>
    Reader.pure (Image.empty k (bit flags c.bitLz))
  else if bit flags c.bitSingle then
    Reader.bind (guard (pre == c.preShort && ver == c.ver2)) fun _ =>
    Reader.bind sd.dec fun it =>
    Reader.pure (Image.single k (bit flags c.bitLz) it)
  else
    Reader.bind (guard (pre == c.preFull && ver == c.ver1)) fun _ =>
    decodeFull sd c k (bit flags c.bitLz)

def decode (sd : Serde) (c : Cfg) : Reader Image :=
  Reader.bind u8 fun pre =>
  Reader.bind u8 fun ver =>
  Reader.bind u8 fun fam =>
  Reader.bind u8 fun flags =>
  Reader.bind u16 fun k =>
  Reader.bind u8 fun m =>
  Reader.bind u8 fun unused =>
  Reader.bind (guard (fam == c.family && m == c.m && unused == 0 &&
      flags == mkFlags c (bit flags c.bitEmpty) (bit flags c.bitLz) (bit flags c.bitSingle))) fun _ =>
  decodeBody sd c pre ver flags k

/-- well-formed image: field ranges, counts matching list lengths -/
def WF (sd : Serde) (c : Cfg) : Image → Bool
  | .empty k _ => decide (k < 2 ^ 16)
  | .single k _ it => decide (k < 2 ^ 16) && sd.wf it
  | .full k _ n minK levels mn mx items =>
      decide (k < 2 ^ 16) && decide (n < 2 ^ 64) && decide (minK < 2 ^ 16) &&
      decide (1 ≤ levels.length) && decide (levels.length ≤ 61) && levels.all (fun x => decide (x < 2 ^ 32)) &&
      levelsOk levels (totalCapacity k c.m levels.length) &&
      sd.wf mn && sd.wf mx && allWf sd items &&
      items.length == totalCapacity k c.m levels.length - levels.headD 0

/-- number of retained items the image holds -/
def Image.count : Image → Nat
  | .empty _ _ => 0
  | .single _ _ _ => 1
  | .full _ _ _ _ _ _ _ items => items.length

/-! ### API content of an image -/

/-- split `items` by the level boundaries; level `l` carries weight 2^l -/
def weigh : List Nat → Nat → Nat → List Item → List (Item × Nat)
  | [], _, _, _ => []
  | [x], cap, lvl, items => (items.take (cap - x)).map (fun it => (it, 2 ^ lvl))
  | x :: y :: t, cap, lvl, items =>
      (items.take (y - x)).map (fun it => (it, 2 ^ lvl)) ++ weigh (y :: t) cap (lvl + 1) (items.drop (y - x))

/-- `get_normalized_rank_error(false)` = 2.296 / min_k^0.9723 as 16 hex digits -/
def nreHex (minK : Nat) : String := hexF (2.296 / Float.pow minK.toFloat 0.9723)

def project (c : Cfg) : Image → Content
  | .empty k _ => { n := 0, k := k, est := false, extra := " nre=" ++ nreHex k }
  | .single k _ it => { n := 1, k := k, est := false, min := some it, max := some it, items := [(it, 1)],
                        extra := " nre=" ++ nreHex k }
  | .full k _ n minK levels mn mx items =>
      { n := n, k := k, est := decide (1 < levels.length), min := some mn, max := some mx,
        items := weigh levels (totalCapacity k c.m levels.length) 0 items, extra := " nre=" ++ nreHex minK }

def fields (sd : Serde) (isStr : Bool) : Image → Fields
  | .empty _ _ => [("pre", 1), ("ver", 1), ("fam", 1), ("flags", 1), ("k", 2), ("m", 1), ("unused", 1)]
  | .single _ _ it => [("pre", 1), ("ver", 1), ("fam", 1), ("flags", 1), ("k", 2), ("m", 1), ("unused", 1)] ++
      itemFields sd isStr "item" it
  | .full _ _ _ _ levels mn mx items =>
      [("pre", 1), ("ver", 1), ("fam", 1), ("flags", 1), ("k", 2), ("m", 1), ("unused", 1),
       ("n", 8), ("min_k", 2), ("num_levels", 1), ("unused2", 1), ("levels", 4 * levels.length)] ++
      itemFields sd isStr "min" mn ++ itemFields sd isStr "max" mx ++
      (items.map (itemFields sd isStr "item")).flatten

end DS.Wire.Kll

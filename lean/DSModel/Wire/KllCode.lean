/-
KLL wire constants as the translator read them from the CURRENT headers (DSGen/WireQuant.lean), packaged
as the `Cfg` the model driver runs with; and the legacy (serial version 1) image of a single-item sketch.
Core Lean only.
-/
import DSModel.Wire.Kll
import DSGen.WireQuant
namespace DS.Wire.Kll
open DSGen.WireQuant

def codeCfg : Cfg :=
  { family := kll_FAMILY, preShort := kll_PREAMBLE_INTS_SHORT, preFull := kll_PREAMBLE_INTS_FULL,
    ver1 := kll_SERIAL_VERSION_1, ver2 := kll_SERIAL_VERSION_2, m := kll_DEFAULT_M,
    bitEmpty := kll_FLAG_IS_EMPTY, bitLz := kll_FLAG_IS_LEVEL_ZERO_SORTED, bitSingle := kll_FLAG_IS_SINGLE_ITEM,
    emptySize := kll_EMPTY_SIZE_BYTES, dataStartSingle := kll_DATA_START_SINGLE_ITEM, dataStart := kll_DATA_START }

/-- Before the single-item format (serial version 2) existed a sketch holding one item was written in the full
format with serial version 1: n = 1, min_k = k, one level whose only item sits in the last slot. The reader
still accepts this (shipped image kll_sketch_float_one_item_v1.sk). -/
def legacySingle (c : Cfg) (k : Nat) (lz : Bool) (it : Item) : Image :=
  .full k lz 1 k [totalCapacity k c.m 1 - 1] it it [it]

def encodeLegacy (sd : Serde) (c : Cfg) (k : Nat) (lz : Bool) (it : Item) : Bytes :=
  encode sd c (legacySingle c k lz it)

/-- the reader of legacy images is the same reader -/
def decodeLegacy (sd : Serde) (c : Cfg) : Reader Image := decode sd c

end DS.Wire.Kll

/-
The compressed theta writer / reader expressed over the routines TRANSLATED from bit_packing.hpp (DSGen/BitPackIR):
whole blocks of 8 deltas go through `pack_bits_block8` / `unpack_bits_block8` (dispatcher table + IR evaluation with
C semantics), the tail of < 8 deltas through the bit-stream specification (scalar `pack_bits`/`unpack_bits`).
`Props/C09_Theta.lean` proves these equal to the specification writer / reader of DSModel/Wire/Theta.lean.
Core Lean only.
-/
import DSModel.Wire.Theta
import DSGen.BitPackIR
namespace DS.Wire.BitPack
open DSGen.BitPackIR

/-- `pack_bits_block8(values, ptr, n)` on a zero-filled block, as translated -/
def irPack8 (n : Nat) (l : List Nat) : Bytes :=
  match lookupNat n packDispatch with
  | some r =>
    match lookupNat r packRoutines with
    | some pk =>
      match evalPack pk l (List.replicate n 0) with
      | some mem => mem.map UInt8.ofNat
      | none => []
    | none => []
  | none => []

/-- `unpack_bits_block8(values, ptr, n)`, as translated -/
def irUnpack8 (n : Nat) (b : Bytes) : List Nat :=
  match lookupNat n unpackDispatch with
  | some r =>
    match lookupNat r unpackRoutines with
    | some up =>
      match evalUnpack up (b.map (·.toNat)) (List.replicate 8 0) with
      | some vals => vals
      | none => []
    | none => []
  | none => []

end DS.Wire.BitPack

namespace DS.Wire.Theta
open DS.Wire DS.Wire.Reader DS.Wire.BitPack

/-- `serialize_version_4` with the block routines as translated from the header -/
def encodeV4IR (c : Consts) (s : Image) : Bytes :=
  let eb := entryBits s.entries
  let neb := numEntriesBytes s.entries.length
  w8 (if s.estMode then 2 else 1) ++ (w8 c.serVer4 ++ (w8 c.sketchType ++ (w8 eb ++ (w8 neb ++ (w8 (flagsByteV4 c) ++ (w16 s.seedHash ++
  ((if s.estMode then w64 s.theta else []) ++ (wLe neb s.entries.length ++ packBlocksWith (irPack8 eb) eb (deltas 0 s.entries)))))))))

/-- the version-4 reader with the block routines as translated from the header -/
def decodeV4IR (expSeedHash pre : Nat) : Reader Image :=
  Reader.bind u8 fun eb =>
  Reader.bind u8 fun neb =>
  Reader.bind u8 fun _fl =>
  Reader.bind u16 fun sh =>
  Reader.bind (guard (sh == expSeedHash && decide (neb ≤ 4) && decide (1 ≤ eb ∧ eb ≤ 63))) fun _ =>
  Reader.bind (if pre > 1 then u64 else Reader.pure maxTheta) fun theta =>
  Reader.bind (leNat neb) fun n =>
  Reader.bind (bytesN (bytesForBits (eb * n))) fun bs =>
  Reader.pure ⟨false, true, sh, theta, undelta 0 (unpackBlocksWith (irUnpack8 eb) eb n bs)⟩

end DS.Wire.Theta

/- The density-sketch wire constants as extracted from the CURRENT headers (DSGen/WireMisc.lean, regenerated every run). -/
import DSModel.Wire.Density
import DSGen.WireMisc
namespace DS.Wire.Density

def genConsts : Consts :=
  { preShort := DSGen.density_PREAMBLE_INTS_SHORT, preLong := DSGen.density_PREAMBLE_INTS_LONG,
    serVer := DSGen.density_SERIAL_VERSION, familyId := DSGen.density_FAMILY_ID,
    emptyBit := DSGen.density_FLAG_IS_EMPTY }

end DS.Wire.Density

/-
REQ sketch image (req/include/req_sketch_impl.hpp serialize/deserialize, req_compactor_impl.hpp).

  byte 0 preamble_ints (4 when there is more than one level, else 2) | 1 serial version 1 | 2 family 17
  | 3 flags (bit2 empty, bit3 high-rank-accuracy, bit4 raw-items, bit5 level-zero-sorted) | 4-5 k u16 | 6 num_levels u8 | 7 num_raw_items u8
  empty: nothing follows.
  more than one level: n u64 | min | max  (with one level n, min and max are derived from the items).
  raw-items format (n <= 4): the num_raw_items items.
  otherwise per level: state u64 | section_size_raw f32 (bit pattern) | lg_weight u8 | num_sections u8 | u16 0 | num_items u32 | items.

Core Lean only.
-/
import DSModel.Wire.Serde
namespace DS.Wire.Req
open Reader

structure Cfg where
  family : Nat
  ver : Nat
  preEst : Nat
  preExact : Nat
  bitEmpty : Nat
  bitHra : Nat
  bitRaw : Nat
  bitLz : Nat
  preambleSize : Nat
  rawMax : Nat          -- raw-items format is used for n <= rawMax (req_constants::MIN_K)
  deriving DecidableEq, Repr

structure Compactor where
  state : Nat
  ssr : Nat             -- bit pattern of the float section_size_raw
  lgWeight : Nat
  numSections : Nat
  items : List Item
  deriving DecidableEq, Repr

structure Image where
  k : Nat
  empty : Bool
  hra : Bool
  raw : Bool
  lz : Bool
  numLevels : Nat
  numRaw : Nat
  est : Option (Nat × Item × Item)   -- (n, min, max), stored when num_levels > 1
  rawItems : List Item
  compactors : List Compactor
  deriving DecidableEq, Repr

def bit (f i : Nat) : Bool := (f / 2 ^ i) % 2 == 1

def mkFlags (c : Cfg) (e h r l : Bool) : Nat :=
  (if e then 2 ^ c.bitEmpty else 0) + (if h then 2 ^ c.bitHra else 0) + (if r then 2 ^ c.bitRaw else 0) + (if l then 2 ^ c.bitLz else 0)

def preOf (c : Cfg) (numLevels : Nat) : Nat := if 1 < numLevels then c.preEst else c.preExact

/-! ### writer -/

def header (c : Cfg) (s : Image) : Bytes :=
  w8 (preOf c s.numLevels) ++ (w8 c.ver ++ (w8 c.family ++ (w8 (mkFlags c s.empty s.hra s.raw s.lz) ++
    (w16 s.k ++ (w8 s.numLevels ++ w8 s.numRaw)))))

def encCompactor (sd : Serde) (x : Compactor) : Bytes :=
  w64 x.state ++ (w32 x.ssr ++ (w8 x.lgWeight ++ (w8 x.numSections ++ (w16 0 ++ (w32 x.items.length ++ encItems sd x.items)))))

def encEst (sd : Serde) : Option (Nat × Item × Item) → Bytes
  | none => []
  | some (n, mn, mx) => w64 n ++ (sd.enc mn ++ sd.enc mx)

def encode (sd : Serde) (c : Cfg) (s : Image) : Bytes :=
  header c s ++ (encEst sd s.est ++ (encItems sd s.rawItems ++ encList (encCompactor sd) s.compactors))

/-- size of the image = what the stream writer emits -/
def serializedSize (sd : Serde) (c : Cfg) (s : Image) : Nat :=
  c.preambleSize + (encEst sd s.est).length + sizeItems sd s.rawItems +
    (s.compactors.map (fun x => 20 + sizeItems sd x.items)).sum

/-- `get_serialized_size_bytes` AS CODED: the raw-items format is only accounted for when n = 1; for n = 2..4 the
size of a full compactor (20-byte header + items) is reported although the raw-items format is written (defect D6) -/
def advertisedSize (sd : Serde) (c : Cfg) (s : Image) : Nat :=
  if s.empty then c.preambleSize else
  c.preambleSize + (encEst sd s.est).length +
    (if s.raw then (if s.numRaw == 1 then sizeItems sd s.rawItems else 20 + sizeItems sd s.rawItems)
     else (s.compactors.map (fun x => 20 + sizeItems sd x.items)).sum)

/-! ### reader -/

def decCompactor (sd : Serde) : Reader Compactor :=
  Reader.bind u64 fun state =>
  Reader.bind u32 fun ssr =>
  Reader.bind u8 fun lgw =>
  Reader.bind u8 fun nsec =>
  Reader.bind u16 fun pad =>
  Reader.bind (guard (pad == 0)) fun _ =>
  Reader.bind u32 fun cnt =>
  Reader.bind (repeatN sd.dec cnt) fun items =>
  Reader.pure { state := state, ssr := ssr, lgWeight := lgw, numSections := nsec, items := items }

def decEst (sd : Serde) (numLevels : Nat) : Reader (Option (Nat × Item × Item)) :=
  if 1 < numLevels then
    Reader.bind u64 fun n => Reader.bind sd.dec fun mn => Reader.bind sd.dec fun mx => Reader.pure (some (n, mn, mx))
  else Reader.pure none

/-- a one-level image derives n / min / max from its first compactor: it must hold at least one item -/
def firstNonEmpty : List Compactor → Bool
  | [] => false
  | x :: _ => !x.items.isEmpty

def shapeOk (c : Cfg) (raw : Bool) (numLevels numRaw : Nat) : Bool :=
  decide (1 ≤ numLevels) &&
  (if raw then numLevels == 1 && decide (1 ≤ numRaw) && decide (numRaw ≤ c.rawMax) else numRaw == 0)

def decodeBody (sd : Serde) (c : Cfg) (k : Nat) (hra raw lz : Bool) (numLevels numRaw : Nat) : Reader Image :=
  Reader.bind (guard (shapeOk c raw numLevels numRaw)) fun _ =>
  Reader.bind (decEst sd numLevels) fun est =>
  if raw then
    Reader.bind (repeatN sd.dec numRaw) fun items =>
    Reader.pure { k := k, empty := false, hra := hra, raw := raw, lz := lz, numLevels := numLevels, numRaw := numRaw,
                  est := est, rawItems := items, compactors := [] }
  else
    Reader.bind (repeatN (decCompactor sd) numLevels) fun cs =>
    Reader.bind (guard (decide (1 < numLevels) || firstNonEmpty cs)) fun _ =>
    Reader.pure { k := k, empty := false, hra := hra, raw := raw, lz := lz, numLevels := numLevels, numRaw := numRaw,
                  est := est, rawItems := [], compactors := cs }

def decode (sd : Serde) (c : Cfg) : Reader Image :=
  Reader.bind u8 fun pre =>
  Reader.bind u8 fun ver =>
  Reader.bind u8 fun fam =>
  Reader.bind u8 fun flags =>
  Reader.bind u16 fun k =>
  Reader.bind u8 fun numLevels =>
  Reader.bind u8 fun numRaw =>
  Reader.bind (guard (ver == c.ver && fam == c.family && pre == preOf c numLevels &&
      flags == mkFlags c (bit flags c.bitEmpty) (bit flags c.bitHra) (bit flags c.bitRaw) (bit flags c.bitLz))) fun _ =>
  if bit flags c.bitEmpty then
    Reader.pure { k := k, empty := true, hra := bit flags c.bitHra, raw := bit flags c.bitRaw, lz := bit flags c.bitLz,
                  numLevels := numLevels, numRaw := numRaw, est := none, rawItems := [], compactors := [] }
  else decodeBody sd c k (bit flags c.bitHra) (bit flags c.bitRaw) (bit flags c.bitLz) numLevels numRaw

def compactorWF (sd : Serde) (x : Compactor) : Bool :=
  decide (x.state < 2 ^ 64) && decide (x.ssr < 2 ^ 32) && decide (x.lgWeight < 256) && decide (x.numSections < 256) &&
  decide (x.items.length < 2 ^ 32) && allWf sd x.items

def estWF (sd : Serde) : Option (Nat × Item × Item) → Bool
  | none => true
  | some (n, mn, mx) => decide (n < 2 ^ 64) && sd.wf mn && sd.wf mx

def WF (sd : Serde) (c : Cfg) (s : Image) : Bool :=
  decide (s.k < 2 ^ 16) && decide (s.numLevels < 256) && decide (s.numRaw < 256) &&
  (if s.empty then s.est.isNone && s.rawItems.isEmpty && s.compactors.isEmpty
   else
    shapeOk c s.raw s.numLevels s.numRaw && (s.est.isSome == decide (1 < s.numLevels)) && estWF sd s.est &&
    (if s.raw then s.rawItems.length == s.numRaw && allWf sd s.rawItems && s.compactors.isEmpty
     else s.rawItems.isEmpty && s.compactors.length == s.numLevels && s.compactors.all (compactorWF sd) &&
          (decide (1 < s.numLevels) || firstNonEmpty s.compactors)))

def Image.count (s : Image) : Nat := s.rawItems.length + (s.compactors.map (fun x => x.items.length)).sum

/-! ### API content -/

def allItems (s : Image) : List Item := s.rawItems ++ (s.compactors.map (fun x => x.items)).flatten

def project (ty : ItemType) (s : Image) : Content :=
  if s.empty then { n := 0, k := s.k, est := false, hra := some s.hra }
  else
    let items := s.rawItems.map (fun it => (it, 1)) ++
      (s.compactors.map (fun x => x.items.map (fun it => (it, 2 ^ x.lgWeight)))).flatten
    match s.est with
    | some (n, mn, mx) => { n := n, k := s.k, est := decide (1 < s.numLevels), hra := some s.hra, min := some mn, max := some mx, items := items }
    | none =>
      -- one level: n = number of items of that level, min / max found by scanning with std::less
      let l := if s.raw then s.rawItems else (match s.compactors with | [] => [] | x :: _ => x.items)
      { n := l.length, k := s.k, est := decide (1 < s.numLevels), hra := some s.hra, min := scanMin ty l, max := scanMax ty l, items := items }

def fields (sd : Serde) (isStr : Bool) (s : Image) : Fields :=
  [("pre", 1), ("ver", 1), ("fam", 1), ("flags", 1), ("k", 2), ("num_levels8", 1), ("num_raw", 1)] ++
  (match s.est with
   | none => []
   | some (_, mn, mx) => [("n", 8)] ++ itemFields sd isStr "min" mn ++ itemFields sd isStr "max" mx) ++
  (s.rawItems.map (itemFields sd isStr "item")).flatten ++
  (s.compactors.map (fun x =>
    [("compactor.state", 8), ("compactor.section_size_raw", 4), ("compactor.lg_weight", 1), ("compactor.num_sections", 1),
     ("compactor.pad", 2), ("compactor.num_items", 4)] ++ (x.items.map (itemFields sd isStr "item")).flatten)).flatten

end DS.Wire.Req

/- EBPPS wire constants as read from the CURRENT headers by the translator. -/
import DSModel.Wire.Ebpps
import DSGen.WireCount
namespace DS.Wire.Ebpps

def generated : EbConsts :=
  { familyId := DSGen.wc_eb_FAMILY_ID, serVer := DSGen.wc_eb_SER_VER, preEmpty := DSGen.wc_eb_PREAMBLE_LONGS_EMPTY,
    preFull := DSGen.wc_eb_PREAMBLE_LONGS_FULL, emptyMask := DSGen.wc_eb_EMPTY_FLAG_MASK,
    partialMask := DSGen.wc_eb_HAS_PARTIAL_ITEM_MASK, maxK := DSGen.wc_eb_MAX_K }

end DS.Wire.Ebpps

/-
Bloom filter image (family 21, serial version 1) — the documented layout of
`filters/include/bloom_filter_impl.hpp` ("A Bloom Filter's serialized image always uses 3 longs of
preamble when empty, otherwise 4 longs"):

  byte 0 preamble longs (3 empty / 4) · 1 serial version · 2 family id · 3 flags (mask 4 = empty)
  4-5 num_hashes u16 · 6-7 unused · 8-15 hash seed u64 · 16-19 bit array length in longs (i32)
  20-23 unused · non-empty only: 24-31 num_bits_set u64 (2^64-1 = "dirty": recount from the array)
  32.. the raw bit array, num_longs*8 bytes (bit i of the filter = bit i&7 of byte i>>3)

The same bytes are what `wrap` / `writable_wrap` interpret in caller memory.
Core Lean only.  All constants are parameters (`Consts`), instantiated from DSGen by the driver.
-/
import DSModel.Wire.Reader
import DSModel.Util
namespace DS.Wire.Bloom
open DS.Wire

structure Consts where
  preEmpty : Nat
  preStd : Nat
  serVer : Nat
  familyId : Nat
  emptyMask : Nat
  dirty : Nat
deriving DecidableEq, Repr

/-- side conditions under which the layout is decodable (decidable; `by decide` for the generated values) -/
def Consts.Valid (c : Consts) : Prop :=
  c.preEmpty < 256 ∧ c.preStd < 256 ∧ c.serVer < 256 ∧ c.familyId < 256 ∧ c.emptyMask < 256 ∧
  c.emptyMask ≠ 0 ∧ c.dirty < 2^64

instance (c : Consts) : Decidable c.Valid := by unfold Consts.Valid; infer_instance

/-- exactly what a Bloom image stores -/
structure Img where
  numHashes : Nat
  seed : Nat
  numLongs : Nat
  /-- `none` = empty filter (3 preamble longs); `some (num_bits_set, bit array bytes)` -/
  body : Option (Nat × Bytes)
deriving DecidableEq, Repr

def WF (s : Img) : Prop :=
  s.numHashes < 2^16 ∧ s.seed < 2^64 ∧ s.numLongs < 2^32 ∧
  match s.body with
  | none => True
  | some (nbs, bits) => nbs < 2^64 ∧ bits.length = 8 * s.numLongs

instance (s : Img) : Decidable (WF s) := by
  unfold WF; cases s.body <;> infer_instance

def encodeBody : Option (Nat × Bytes) → Bytes
  | none => []
  | some (nbs, bits) => w64 nbs ++ bits

def encode (c : Consts) (s : Img) : Bytes :=
  w8 (if s.body.isNone then c.preEmpty else c.preStd) ++ (w8 c.serVer ++ (w8 c.familyId ++
  (w8 (if s.body.isNone then c.emptyMask else 0) ++ (w16 s.numHashes ++ (wZeros 2 ++ (w64 s.seed ++
  (w32 s.numLongs ++ (wZeros 4 ++ encodeBody s.body))))))))

def decodeBody (nh seed nl : Nat) (empty : Bool) : Reader Img :=
  if empty then Reader.pure { numHashes := nh, seed := seed, numLongs := nl, body := none }
  else Reader.bind u64 fun nbs => Reader.bind (bytesN (8 * nl)) fun bits =>
    Reader.pure { numHashes := nh, seed := seed, numLongs := nl, body := some (nbs, bits) }

def decode (c : Consts) : Reader Img :=
  Reader.bind u8 fun pre => Reader.bind u8 fun ver => Reader.bind u8 fun fam => Reader.bind u8 fun flags =>
  Reader.bind (guard (ver == c.serVer)) fun _ => Reader.bind (guard (fam == c.familyId)) fun _ =>
  Reader.bind (guard (pre == (if (flags &&& c.emptyMask) != 0 then c.preEmpty else c.preStd))) fun _ =>
  Reader.bind u16 fun nh => Reader.bind (skip 2) fun _ => Reader.bind u64 fun seed =>
  Reader.bind u32 fun nl => Reader.bind (skip 4) fun _ =>
  decodeBody nh seed nl ((flags &&& c.emptyMask) != 0)

def serializedSize (s : Img) : Nat :=
  match s.body with
  | none => 24
  | some _ => 32 + 8 * s.numLongs

/-! ### what the API reports -/

def popByte (b : UInt8) : Nat :=
  let n := b.toNat
  n % 2 + n / 2 % 2 + n / 4 % 2 + n / 8 % 2 + n / 16 % 2 + n / 32 % 2 + n / 64 % 2 + n / 128 % 2

def popCount (bits : Bytes) : Nat := bits.foldl (fun a b => a + popByte b) 0

/-- get_capacity, get_num_hashes, get_seed, get_bits_used (recounted when the image carries the dirty
marker), is_empty, and the bit array (all zero for an empty image). -/
def project (c : Consts) (s : Img) : String :=
  match s.body with
  | none => s!"cap={64 * s.numLongs} nh={s.numHashes} seed={s.seed} used=0 empty=1 bits={listBytesHex (List.replicate (8 * s.numLongs) 0)}"
  | some (nbs, bits) =>
    let used := if nbs == c.dirty then popCount bits else nbs
    s!"cap={64 * s.numLongs} nh={s.numHashes} seed={s.seed} used={used} empty={boolStr (used == 0)} bits={listBytesHex bits}"

end DS.Wire.Bloom

/- The Bloom wire constants as extracted from the CURRENT headers (DSGen/WireMisc.lean, regenerated every run). -/
import DSModel.Wire.Bloom
import DSGen.WireMisc
namespace DS.Wire.Bloom

def genConsts : Consts :=
  { preEmpty := DSGen.bloom_PREAMBLE_LONGS_EMPTY, preStd := DSGen.bloom_PREAMBLE_LONGS_STANDARD,
    serVer := DSGen.bloom_SER_VER, familyId := DSGen.bloom_FAMILY_ID,
    emptyMask := DSGen.bloom_EMPTY_FLAG_MASK, dirty := DSGen.bloom_DIRTY_BITS_VALUE }

end DS.Wire.Bloom

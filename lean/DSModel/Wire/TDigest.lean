/-
t-digest image (double: value width `tsz` = 8, weight width `wsz` = 8; float: 4 and 4) — the layout of
tdigest_impl.hpp `serialize`:

  byte 0 preamble longs (1 = empty or single value, 2 otherwise) · 1 serial version · 2 sketch type (20)
  3-4 k u16 · 5 flags (bit 0 empty, 1 single value, 2 reverse merge) · 6-7 unused
  single value: the value T at byte 8
  otherwise: 8-11 num_centroids u32 · 12-15 num_buffered u32 · min T · max T ·
             centroids (mean T, weight W)[num_centroids] · buffered values T[num_buffered]
  (serialize(with_buffer = false) compresses first, so num_buffered = 0 there).

Legacy ("reference implementation") formats the reader also accepts — BIG-endian, first three bytes 0:
  type 1 (`asBytes`):      00 00 00 01 · min f64 · max f64 · compression f64 · num_centroids i32 ·
                           (weight f64, mean f64)[n]
  type 2 (`asSmallBytes`): 00 00 00 02 · min f64 · max f64 · compression f32 · two capacities i16 i16
                           (ignored) · num_centroids i16 · (weight f32, mean f32)[n]

Values are kept as IEEE bit patterns (Nat).  Core Lean only.  Constants are parameters (`Consts`).
-/
import DSModel.Wire.Reader
namespace DS.Wire.TDigest
open DS.Wire

structure Consts where
  preSingle : Nat
  preMulti : Nat
  serVer : Nat
  sketchType : Nat
  emptyBit : Nat
  singleBit : Nat
  reverseBit : Nat
  compatDouble : Nat
  compatFloat : Nat
deriving DecidableEq, Repr

def b2n (b : Bool) : Nat := if b then 1 else 0

def flagsOf (c : Consts) (e s r : Bool) : Nat :=
  b2n e * 2 ^ c.emptyBit + b2n s * 2 ^ c.singleBit + b2n r * 2 ^ c.reverseBit

def bitAt (pos flags : Nat) : Bool := flags / 2 ^ pos % 2 == 1

def flagsRoundTrip (c : Consts) (e s r : Bool) : Bool :=
  decide (flagsOf c e s r < 256) && (bitAt c.emptyBit (flagsOf c e s r) == e) &&
  (bitAt c.singleBit (flagsOf c e s r) == s) && (bitAt c.reverseBit (flagsOf c e s r) == r)

def allBool3 (p : Bool → Bool → Bool → Bool) : Bool :=
  p false false false && p false false true && p false true false && p false true true &&
  p true false false && p true false true && p true true false && p true true true

/-- decidable side conditions: byte-sized ids and three distinct flag bits inside one byte
(checked as "every flag combination survives the flags byte") -/
def Consts.Valid (c : Consts) : Prop :=
  c.preSingle < 256 ∧ c.preMulti < 256 ∧ c.serVer < 256 ∧ c.sketchType < 256 ∧
  allBool3 (flagsRoundTrip c) = true ∧
  c.compatDouble < 256 ∧ c.compatFloat < 256 ∧ c.compatDouble ≠ c.compatFloat

instance (c : Consts) : Decidable c.Valid := by unfold Consts.Valid; infer_instance

inductive Body where
  | empty
  | single (v : Nat)
  | multi (min max : Nat) (cents : List (Nat × Nat)) (buf : List Nat)
deriving DecidableEq, Repr

/-- exactly what a t-digest image stores -/
structure Img where
  k : Nat
  reverse : Bool
  body : Body
deriving DecidableEq, Repr

def WFBody (tsz wsz : Nat) : Body → Prop
  | .empty => True
  | .single v => v < 256 ^ tsz
  | .multi mn mx cents buf =>
    mn < 256 ^ tsz ∧ mx < 256 ^ tsz ∧ cents.length < 2^32 ∧ buf.length < 2^32 ∧
    (∀ p ∈ cents, p.1 < 256 ^ tsz ∧ p.2 < 256 ^ wsz) ∧ ∀ v ∈ buf, v < 256 ^ tsz

def WF (tsz wsz : Nat) (s : Img) : Prop := s.k < 2^16 ∧ WFBody tsz wsz s.body

instance (tsz wsz : Nat) (b : Body) : Decidable (WFBody tsz wsz b) := by
  cases b <;> unfold WFBody <;> infer_instance
instance (tsz wsz : Nat) (s : Img) : Decidable (WF tsz wsz s) := by unfold WF; infer_instance

def Body.isEmpty : Body → Bool | .empty => true | _ => false
def Body.isSingle : Body → Bool | .single _ => true | _ => false

def encodeCent (tsz wsz : Nat) (p : Nat × Nat) : Bytes := wLe tsz p.1 ++ wLe wsz p.2

def encodeBody (tsz wsz : Nat) : Body → Bytes
  | .empty => []
  | .single v => wLe tsz v
  | .multi mn mx cents buf =>
    w32 cents.length ++ (w32 buf.length ++ (wLe tsz mn ++ (wLe tsz mx ++
    (cents.flatMap (encodeCent tsz wsz) ++ buf.flatMap (wLe tsz)))))

def encode (c : Consts) (tsz wsz : Nat) (s : Img) : Bytes :=
  w8 (if s.body.isEmpty || s.body.isSingle then c.preSingle else c.preMulti) ++ (w8 c.serVer ++
  (w8 c.sketchType ++ (w16 s.k ++ (w8 (flagsOf c s.body.isEmpty s.body.isSingle s.reverse) ++
  (wZeros 2 ++ encodeBody tsz wsz s.body)))))

def cent (tsz wsz : Nat) : Reader (Nat × Nat) :=
  Reader.bind (leNat tsz) fun m => Reader.bind (leNat wsz) fun w => Reader.pure (m, w)

def decodeBody (tsz wsz k : Nat) (e s r : Bool) : Reader Img :=
  if e then Reader.pure { k := k, reverse := r, body := .empty }
  else if s then Reader.bind (leNat tsz) fun v => Reader.pure { k := k, reverse := r, body := .single v }
  else Reader.bind u32 fun nc => Reader.bind u32 fun nb => Reader.bind (leNat tsz) fun mn =>
    Reader.bind (leNat tsz) fun mx => Reader.bind (repeatN (cent tsz wsz) nc) fun cents =>
    Reader.bind (repeatN (leNat tsz) nb) fun buf =>
    Reader.pure { k := k, reverse := r, body := .multi mn mx cents buf }

def decode (c : Consts) (tsz wsz : Nat) : Reader Img :=
  Reader.bind u8 fun pre => Reader.bind u8 fun ver => Reader.bind u8 fun typ =>
  Reader.bind (guard (typ == c.sketchType)) fun _ => Reader.bind (guard (ver == c.serVer)) fun _ =>
  Reader.bind u16 fun k => Reader.bind u8 fun flags =>
  Reader.bind (guard (pre == (if bitAt c.emptyBit flags || bitAt c.singleBit flags then c.preSingle else c.preMulti))) fun _ =>
  Reader.bind (skip 2) fun _ =>
  decodeBody tsz wsz k (bitAt c.emptyBit flags) (bitAt c.singleBit flags) (bitAt c.reverseBit flags)

def serializedSize (tsz wsz : Nat) (s : Img) : Nat :=
  match s.body with
  | .empty => 8
  | .single _ => 8 + tsz
  | .multi _ _ cents buf => 16 + 2 * tsz + cents.length * (tsz + wsz) + buf.length * tsz

/-! ### the big-endian reference formats -/

def beVal (bs : Bytes) : Nat := bs.foldl (fun a x => a * 256 + x.toNat) 0
def beNat (n : Nat) : Reader Nat := Reader.bind (bytesN n) fun bs => Reader.pure (beVal bs)
def wBe (n x : Nat) : Bytes := (wLe n x).reverse

inductive Legacy where
  /-- `asBytes`: all f64 bit patterns; centroids as (weight, mean) in stored order -/
  | big (min max comp : Nat) (cents : List (Nat × Nat))
  /-- `asSmallBytes`: min/max f64 bits, compression f32 bits, two i16 capacities, centroids f32 (weight, mean) -/
  | small (min max comp cap1 cap2 : Nat) (cents : List (Nat × Nat))
deriving DecidableEq, Repr

def WFLegacy : Legacy → Prop
  | .big mn mx comp cents => mn < 256 ^ 8 ∧ mx < 256 ^ 8 ∧ comp < 256 ^ 8 ∧ cents.length < 256 ^ 4 ∧
      ∀ p ∈ cents, p.1 < 256 ^ 8 ∧ p.2 < 256 ^ 8
  | .small mn mx comp c1 c2 cents => mn < 256 ^ 8 ∧ mx < 256 ^ 8 ∧ comp < 256 ^ 4 ∧ c1 < 256 ^ 2 ∧ c2 < 256 ^ 2 ∧
      cents.length < 256 ^ 2 ∧ ∀ p ∈ cents, p.1 < 256 ^ 4 ∧ p.2 < 256 ^ 4

instance (l : Legacy) : Decidable (WFLegacy l) := by cases l <;> unfold WFLegacy <;> infer_instance

def encodePairBe (n : Nat) (p : Nat × Nat) : Bytes := wBe n p.1 ++ wBe n p.2

def encodeLegacy (c : Consts) : Legacy → Bytes
  | .big mn mx comp cents =>
    wZeros 3 ++ (w8 c.compatDouble ++ (wBe 8 mn ++ (wBe 8 mx ++ (wBe 8 comp ++ (wBe 4 cents.length ++
    cents.flatMap (encodePairBe 8))))))
  | .small mn mx comp c1 c2 cents =>
    wZeros 3 ++ (w8 c.compatFloat ++ (wBe 8 mn ++ (wBe 8 mx ++ (wBe 4 comp ++ (wBe 2 c1 ++ (wBe 2 c2 ++
    (wBe 2 cents.length ++ cents.flatMap (encodePairBe 4))))))))

def pairBe (n : Nat) : Reader (Nat × Nat) :=
  Reader.bind (beNat n) fun a => Reader.bind (beNat n) fun b => Reader.pure (a, b)

def decodeLegacyBody (c : Consts) (ty : Nat) : Reader Legacy :=
  if ty == c.compatDouble then
    Reader.bind (beNat 8) fun mn => Reader.bind (beNat 8) fun mx => Reader.bind (beNat 8) fun comp =>
    Reader.bind (beNat 4) fun nc => Reader.bind (repeatN (pairBe 8) nc) fun cents =>
    Reader.pure (.big mn mx comp cents)
  else if ty == c.compatFloat then
    Reader.bind (beNat 8) fun mn => Reader.bind (beNat 8) fun mx => Reader.bind (beNat 4) fun comp =>
    Reader.bind (beNat 2) fun c1 => Reader.bind (beNat 2) fun c2 =>
    Reader.bind (beNat 2) fun nc => Reader.bind (repeatN (pairBe 4) nc) fun cents =>
    Reader.pure (.small mn mx comp c1 c2 cents)
  else Reader.fail

def decodeLegacy (c : Consts) : Reader Legacy :=
  Reader.bind u8 fun z0 => Reader.bind u8 fun z1 => Reader.bind u8 fun z2 =>
  Reader.bind (guard (z0 == 0 && z1 == 0 && z2 == 0)) fun _ =>
  Reader.bind u8 fun ty => decodeLegacyBody c ty

def legacySize : Legacy → Nat
  | .big _ _ _ cents => 32 + 16 * cents.length
  | .small _ _ _ _ _ cents => 30 + 8 * cents.length

end DS.Wire.TDigest

/- Count-min wire constants as read from the CURRENT headers by the translator. -/
import DSModel.Wire.CountMin
import DSGen.WireCount
namespace DS.Wire.CountMin

def generated : CmConsts :=
  { familyId := DSGen.wc_cm_FAMILY_ID, serVer := DSGen.wc_cm_SERIAL_VERSION_1, preLongs := DSGen.wc_cm_PREAMBLE_LONGS_SHORT,
    emptyBit := DSGen.wc_cm_flag_IS_EMPTY, minBuckets := DSGen.wc_cm_MIN_BUCKETS, lgMaxCells := DSGen.wc_cm_LG_MAX_CELLS }

end DS.Wire.CountMin

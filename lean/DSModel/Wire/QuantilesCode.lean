/-
Classic quantiles wire constants as the translator read them from the CURRENT headers (DSGen/WireQuant.lean).
Core Lean only.
-/
import DSModel.Wire.Quantiles
import DSGen.WireQuant
namespace DS.Wire.Quantiles
open DSGen.WireQuant

def codeCfg : Cfg :=
  { family := quant_FAMILY, ver1 := quant_SERIAL_VERSION_1, ver2 := quant_SERIAL_VERSION_2, ver3 := quant_SERIAL_VERSION,
    preShort := quant_PREAMBLE_LONGS_SHORT, preFull := quant_PREAMBLE_LONGS_FULL,
    bitEmpty := quant_FLAG_IS_EMPTY, bitCompact := quant_FLAG_IS_COMPACT, bitSorted := quant_FLAG_IS_SORTED,
    emptySize := quant_EMPTY_SIZE_BYTES, dataStart := quant_DATA_START, minK := quant_MIN_K, maxK := quant_MAX_K,
    validHeaders := quant_VALID_HEADERS }

end DS.Wire.Quantiles

/-
Byte-level reader/writer combinators for the serialized-image models (C09, C10, C11).
A `Reader α` consumes a prefix of a byte list or rejects; it can never read out of bounds by
construction.  All multi-byte fields are little-endian.  Core Lean only.
-/
namespace DS.Wire

abbrev Bytes := List UInt8

def Reader (α : Type) := Bytes → Option (α × Bytes)

namespace Reader
variable {α β : Type}

def pure (a : α) : Reader α := fun b => some (a, b)
def fail : Reader α := fun _ => none
def bind (m : Reader α) (f : α → Reader β) : Reader β := fun b =>
  match m b with
  | none => none
  | some (a, r) => f a r

instance : Monad Reader where
  pure := Reader.pure
  bind := Reader.bind

def run (m : Reader α) (b : Bytes) : Option (α × Bytes) := m b

/-- a full decode: succeeds only when the reader consumes the whole input -/
def runExact (m : Reader α) (b : Bytes) : Option α :=
  match m b with
  | some (a, []) => some a
  | _ => none
end Reader

open Reader

def byte : Reader UInt8
  | [] => none
  | x :: r => some (x, r)

def guard (c : Bool) : Reader Unit := if c then Reader.pure () else Reader.fail

/-- exactly `n` raw bytes -/
def bytesN : Nat → Reader Bytes
  | 0 => Reader.pure []
  | n + 1 => Reader.bind byte (fun x => Reader.bind (bytesN n) (fun r => Reader.pure (x :: r)))

/-- `n` repetitions of a reader -/
def repeatN {α : Type} (r : Reader α) : Nat → Reader (List α)
  | 0 => Reader.pure []
  | n + 1 => Reader.bind r (fun x => Reader.bind (repeatN r n) (fun t => Reader.pure (x :: t)))

/-- little-endian natural number of `n` bytes -/
def leNat : Nat → Reader Nat
  | 0 => Reader.pure 0
  | n + 1 => Reader.bind byte (fun x => Reader.bind (leNat n) (fun hi => Reader.pure (x.toNat + 256 * hi)))

def u8 : Reader Nat := leNat 1
def u16 : Reader Nat := leNat 2
def u32 : Reader Nat := leNat 4
def u64 : Reader Nat := leNat 8

/-- skip `n` bytes -/
def skip (n : Nat) : Reader Unit := Reader.bind (bytesN n) (fun _ => Reader.pure ())

/-! ### writers -/

/-- `n` little-endian bytes of `x` (taken modulo 256^n) -/
def wLe : Nat → Nat → Bytes
  | 0, _ => []
  | n + 1, x => UInt8.ofNat (x % 256) :: wLe n (x / 256)

def w8 (x : Nat) : Bytes := wLe 1 x
def w16 (x : Nat) : Bytes := wLe 2 x
def w32 (x : Nat) : Bytes := wLe 4 x
def w64 (x : Nat) : Bytes := wLe 8 x
def wZeros (n : Nat) : Bytes := List.replicate n 0

end DS.Wire

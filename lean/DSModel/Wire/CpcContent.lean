/-
What the words of a CPC image mean: the image state of a sketch (`imageOf`, = what `serialize` stores) and the sketch
an image state stands for (`expand`, = what `deserialize` builds after the layout has been read), both through the
compression model `DSModel/Cpc/Compress.lean`.  `emptyKxpIsK` is the shape of `deserialize` on an empty image that the
translator reads from the current source (C05).  Core Lean only.
-/
import DSModel.Wire.Cpc
import DSModel.Cpc.Wire
namespace DS.Wire.Cpc
open DS.Cpc

/-- the image state `serialize` stores for a sketch with HIP registers `hb` -/
def imageOf (C : CompTables) (seedHash : Nat) (s : Sketch) (hb : HipBits) : Image :=
  let z := compress C s
  let hasTable := !z.tableWords.isEmpty
  let hasWindow := !z.windowWords.isEmpty
  let hasHip := !s.merged
  let any := hasTable || hasWindow
  { lgK := s.lgK, fic := s.fic, seedHash := seedHash, hasHip := hasHip, hasTable := hasTable, hasWindow := hasWindow,
    coupons := if any then s.numCoupons else 0,
    numEntries := if hasTable && hasWindow then z.tableNumEntries else 0,
    kxp := if hasHip && any then hb.kxp else 0, hip := if hasHip && any then hb.hip else 0,
    windowWords := z.windowWords, tableWords := z.tableWords }

/-- the sketch `deserialize` builds from an image state, and its HIP registers -/
def expand (C : CompTables) (emptyKxpIsK : Bool) (img : Image) (ofBits : Nat → Float) : Sketch × HipBits :=
  let ne := if img.hasWindow then img.numEntries else img.coupons
  let tw := uncompress C { tableWords := img.tableWords, tableNumEntries := ne, windowWords := img.windowWords } img.lgK img.coupons
  let hb : HipBits := if img.coupons = 0 ∧ emptyKxpIsK = true then ⟨pow2Bits img.lgK, img.hip⟩ else ⟨img.kxp, img.hip⟩
  ({ lgK := img.lgK, numCoupons := img.coupons, table := tw.1, window := tw.2,
     offset := determineCorrectOffset img.lgK img.coupons, fic := img.fic,
     kxp := ofBits hb.kxp, hip := ofBits hb.hip, merged := !img.hasHip }, hb)

end DS.Wire.Cpc

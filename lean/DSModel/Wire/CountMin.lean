/-
Count-min sketch image (family 18, serial version 1), as documented in count_min.hpp ("The serialized
sketch binary form ...") and written by count_min_impl.hpp `serialize`:

  byte 0 preamble longs (2) · 1 serial version · 2 family id · 3 flags (bit IS_EMPTY) · 4..7 unused (0)
  8..11 num_buckets u32 · 12 num_hashes u8 · 13..14 seed hash u16 · 15 unused (0)
  non-empty only: 16..23 total weight W (8 bytes) · then num_hashes·num_buckets cells W, row-major

All constants are parameters (`CmConsts`), instantiated from the CURRENT headers by the translator
(`DSGen.WireCount`) and pinned to the documented values by C10.  Core Lean only.
-/
import DSModel.Wire.SerdeC
namespace DS.Wire.CountMin
open DS.Wire

structure CmConsts where
  familyId : Nat
  serVer : Nat
  preLongs : Nat
  emptyBit : Nat        -- enum flags {IS_EMPTY}
  minBuckets : Nat      -- constructor: `num_buckets < 3` is rejected
  lgMaxCells : Nat      -- constructor: `num_buckets * num_hashes >= 1 << 30` is rejected
  deriving Repr, DecidableEq

/-- the documented contract -/
def documented : CmConsts := { familyId := 18, serVer := 1, preLongs := 2, emptyBit := 0, minBuckets := 3, lgMaxCells := 30 }

/-- side conditions under which the layout round-trips (decidable; discharged by `decide` for the generated constants) -/
def CmConsts.ok (c : CmConsts) : Prop :=
  c.familyId < 256 ∧ c.serVer < 256 ∧ c.preLongs < 256 ∧ c.emptyBit < 8
instance (c : CmConsts) : Decidable c.ok := by unfold CmConsts.ok; infer_instance

/-- exactly what the image stores -/
structure Image where
  numBuckets : Nat
  numHashes : Nat
  seedHash : Nat
  /-- `none` = empty sketch; `some (total weight bits, cells)` -/
  body : Option (Nat × List Nat)
  deriving Repr, DecidableEq

def WF (c : CmConsts) (s : Image) : Prop :=
  s.numBuckets < 2 ^ 32 ∧ s.numHashes < 2 ^ 8 ∧ s.seedHash < 2 ^ 16 ∧
  c.minBuckets ≤ s.numBuckets ∧ s.numHashes * s.numBuckets < 2 ^ c.lgMaxCells ∧
  match s.body with
  | none => True
  | some (w, cells) => w < 2 ^ 64 ∧ cells.length = s.numHashes * s.numBuckets ∧ ∀ x ∈ cells, x < 2 ^ 64
instance (c : CmConsts) (s : Image) : Decidable (WF c s) := by
  unfold WF; cases s.body <;> infer_instance

def flagsOf (c : CmConsts) (empty : Bool) : Nat := if empty then 2 ^ c.emptyBit else 0
def isEmptyFlags (c : CmConsts) (flags : Nat) : Bool := (flags / 2 ^ c.emptyBit) % 2 == 1

def encodeBody : Option (Nat × List Nat) → Bytes
  | none => []
  | some (w, cells) => w64 w ++ encU64s cells

def encode (c : CmConsts) (s : Image) : Bytes :=
  w8 c.preLongs ++ (w8 c.serVer ++ (w8 c.familyId ++ (w8 (flagsOf c s.body.isNone) ++ (wZeros 4 ++
  (w32 s.numBuckets ++ (w8 s.numHashes ++ (w16 s.seedHash ++ (wZeros 1 ++ encodeBody s.body))))))))

def decodeBody (n : Nat) (empty : Bool) : Reader (Option (Nat × List Nat)) :=
  if empty then Reader.pure none
  else Reader.bind u64 (fun w => Reader.bind (decU64s n) (fun cells => Reader.pure (some (w, cells))))

/-- the reader written from the documentation -/
def decode (c : CmConsts) : Reader Image :=
  Reader.bind u8 (fun pre => Reader.bind (guard (pre == c.preLongs)) (fun _ =>
  Reader.bind u8 (fun sv => Reader.bind (guard (sv == c.serVer)) (fun _ =>
  Reader.bind u8 (fun fam => Reader.bind (guard (fam == c.familyId)) (fun _ =>
  Reader.bind u8 (fun flags =>
  Reader.bind (skip 4) (fun _ =>
  Reader.bind u32 (fun nb =>
  Reader.bind u8 (fun nh =>
  Reader.bind u16 (fun sh =>
  Reader.bind (skip 1) (fun _ =>
  Reader.bind (guard (decide (c.minBuckets ≤ nb) && decide (nh * nb < 2 ^ c.lgMaxCells))) (fun _ =>
  Reader.bind (decodeBody (nh * nb) (isEmptyFlags c flags)) (fun body =>
  Reader.pure { numBuckets := nb, numHashes := nh, seedHash := sh, body := body }))))))))))))))

def serializedSize (c : CmConsts) (s : Image) : Nat :=
  c.preLongs * 8 + (match s.body with | none => 0 | some _ => 8 * (1 + s.numHashes * s.numBuckets))

/-- number of variable-size elements of an image (for `decode_bounded`) -/
def count (s : Image) : Nat := match s.body with | none => 0 | some (_, cells) => cells.length

/-- canonical API content: get_num_hashes, get_num_buckets, is_empty, get_total_weight, cells (begin()..end()) -/
def project (s : Image) : String :=
  match s.body with
  | none => s!"CM nh={s.numHashes} nb={s.numBuckets} empty=1 tw={hexN 16 0} cells="
  | some (w, cells) => s!"CM nh={s.numHashes} nb={s.numBuckets} empty=0 tw={hexN 16 w} cells={showU64s cells}"

/-- field start offsets (names the region a truncation falls into) -/
def layout (s : Image) : List (String × Nat) :=
  [("pre", 0), ("cfg", 8)] ++ (match s.body with | none => [] | some _ => [("weight", 16), ("cells", 24)])

end DS.Wire.CountMin

/-
EBPPS sketch image (family 19, serial version 1), per the "Serialized sketch layout" comment of ebpps_sketch_impl.hpp
and `ebpps_sketch::serialize` / `ebpps_sample::serialize`:

  byte 0 preamble longs (1 empty, 5 non-empty) · 1 serial version · 2 family id · 3 flags (4 = empty, 8 = has partial item)
  4..7 k u32
  non-empty: 8..15 n u64 · 16..23 cumulative weight f64 · 24..31 max item weight f64 · 32..39 rho f64
             · 40..47 c f64 ("looks like part of the preamble but is serialized as part of the sample")
             · ⌊c⌋ full items (serde) · the partial item (serde) iff c has a fractional part
  The number of items is NOT stored: it is ⌊c⌋, and the partial item is present iff frac(c) ≠ 0 (and the flag must agree).
Doubles are carried as bit patterns; ⌊c⌋ / frac(c) are computed on the bit pattern (`f64FloorFrac`, SerdeC.lean).
All constants are parameters, instantiated from the current headers.  Core Lean only.
-/
import DSModel.Wire.SerdeC
namespace DS.Wire.Ebpps
open DS.Wire

structure EbConsts where
  familyId : Nat
  serVer : Nat
  preEmpty : Nat
  preFull : Nat
  emptyMask : Nat
  partialMask : Nat
  maxK : Nat
  deriving Repr, DecidableEq

def documented : EbConsts :=
  { familyId := 19, serVer := 1, preEmpty := 1, preFull := 5, emptyMask := 4, partialMask := 8, maxK := 2147483646 }

def flagsOf (c : EbConsts) (empty hasPartial : Bool) : Nat := (if empty then c.emptyMask else 0) ||| (if hasPartial then c.partialMask else 0)
def isEmptyFlags (c : EbConsts) (flags : Nat) : Bool := flags &&& c.emptyMask != 0
def isPartialFlags (c : EbConsts) (flags : Nat) : Bool := flags &&& c.partialMask != 0

def flagsRT (c : EbConsts) (e p : Bool) : Prop :=
  flagsOf c e p < 256 ∧ isEmptyFlags c (flagsOf c e p) = e ∧ isPartialFlags c (flagsOf c e p) = p
instance (c : EbConsts) (e p : Bool) : Decidable (flagsRT c e p) := by unfold flagsRT; infer_instance

/-- decidable side conditions under which the layout round-trips (the writer never sets both flags) -/
def EbConsts.ok (c : EbConsts) : Prop :=
  c.familyId < 256 ∧ c.serVer < 256 ∧ c.preEmpty < 256 ∧ c.preFull < 256 ∧
  flagsRT c true false ∧ flagsRT c false false ∧ flagsRT c false true
instance (c : EbConsts) : Decidable c.ok := by unfold EbConsts.ok; infer_instance

structure Body (ι : Type) where
  n : Nat
  cumWt : Nat
  wtMax : Nat
  rho : Nat
  c : Nat
  items : List ι
  partialItem : Option ι
  deriving Repr, DecidableEq

structure Image (ι : Type) where
  k : Nat
  body : Option (Body ι)
  deriving Repr, DecidableEq

variable {ι : Type}

def WF (c : EbConsts) (sd : Serde ι) (s : Image ι) : Prop :=
  s.k < 2 ^ 32 ∧ 1 ≤ s.k ∧ s.k ≤ c.maxK ∧
  match s.body with
  | none => True
  | some b => b.n < 2 ^ 64 ∧ b.cumWt < 2 ^ 64 ∧ b.wtMax < 2 ^ 64 ∧ b.rho < 2 ^ 64 ∧ b.c < 2 ^ 64 ∧ b.items.length < 2 ^ 32 ∧
      f64FloorFrac b.c = some (b.items.length, b.partialItem.isSome) ∧
      (∀ x ∈ b.items, sd.ok x) ∧ (∀ x, b.partialItem = some x → sd.ok x)

def encPartial (sd : Serde ι) : Option ι → Bytes
  | none => []
  | some x => sd.enc x

def encodeBody (sd : Serde ι) : Option (Body ι) → Bytes
  | none => []
  | some b => w64 b.n ++ (w64 b.cumWt ++ (w64 b.wtMax ++ (w64 b.rho ++ (w64 b.c ++ (encItems sd b.items ++ encPartial sd b.partialItem)))))

def hasPartial (s : Image ι) : Bool := match s.body with | none => false | some b => b.partialItem.isSome

def encode (c : EbConsts) (sd : Serde ι) (s : Image ι) : Bytes :=
  w8 (if s.body.isNone then c.preEmpty else c.preFull) ++ (w8 c.serVer ++ (w8 c.familyId ++
  (w8 (flagsOf c s.body.isNone (hasPartial s)) ++ (w32 s.k ++ encodeBody sd s.body))))

def decPartial (sd : Serde ι) (p : Bool) : Reader (Option ι) :=
  if p then Reader.bind sd.dec (fun x => Reader.pure (some x)) else Reader.pure none

def decodeBody (c : EbConsts) (sd : Serde ι) (flags : Nat) : Reader (Option (Body ι)) :=
  Reader.bind u64 (fun n =>
  Reader.bind u64 (fun cw =>
  Reader.bind u64 (fun wm =>
  Reader.bind u64 (fun rho =>
  Reader.bind u64 (fun cc =>
  match f64FloorFrac cc with
  | none => Reader.fail                                   -- c < 0, NaN, ∞
  | some (nfull, frac) =>
    Reader.bind (guard (decide (nfull < 2 ^ 32))) (fun _ =>
    Reader.bind (decItems sd nfull) (fun its =>
    Reader.bind (decPartial sd frac) (fun p =>
    Reader.bind (guard (frac == isPartialFlags c flags)) (fun _ =>    -- "sketch fails internal consistency check"
    Reader.pure (some { n := n, cumWt := cw, wtMax := wm, rho := rho, c := cc, items := its, partialItem := p }))))))))))

/-- the reader written from the documentation -/
def decode (c : EbConsts) (sd : Serde ι) : Reader (Image ι) :=
  Reader.bind u8 (fun pre =>
  Reader.bind u8 (fun sv =>
  Reader.bind u8 (fun fam =>
  Reader.bind u8 (fun flags =>
  Reader.bind u32 (fun k =>
  Reader.bind (guard (decide (1 ≤ k) && decide (k ≤ c.maxK))) (fun _ =>
  Reader.bind (guard (if isEmptyFlags c flags then pre == c.preEmpty && !isPartialFlags c flags else pre == c.preFull)) (fun _ =>
  Reader.bind (guard (fam == c.familyId && sv == c.serVer)) (fun _ =>
  Reader.bind (if isEmptyFlags c flags then Reader.pure none else decodeBody c sd flags) (fun body =>
  Reader.pure { k := k, body := body })))))))))

/-- `get_serialized_size_bytes` -/
def serializedSize (c : EbConsts) (sd : Serde ι) (s : Image ι) : Nat :=
  match s.body with
  | none => c.preEmpty * 8
  | some b => c.preFull * 8 + 8 + itemsBytes sd b.items + (match b.partialItem with | none => 0 | some x => (sd.enc x).length)

def count (s : Image ι) : Nat := match s.body with | none => 0 | some b => b.items.length

/-- canonical API content: get_k, get_n, is_empty, get_cumulative_weight, get_c, the full items (get_result without the
partial item) and the partial item (the extra last element of get_result when it is included) -/
def project (sd : Serde ι) (s : Image ι) : String :=
  match s.body with
  | none => s!"EB k={s.k} n=0 empty=1 cw={hexN 16 0} c={hexN 16 0} full= partial=-"
  | some b =>
    let p := match b.partialItem with | none => "-" | some x => sd.show_ x
    s!"EB k={s.k} n={b.n} empty=0 cw={hexN 16 b.cumWt} c={hexN 16 b.c} full={",".intercalate (b.items.map sd.show_)} partial={p}"

def layout (sd : Serde ι) (s : Image ι) : List (String × Nat) :=
  [("pre", 0)] ++ (match s.body with
    | none => []
    | some b => [("n", 8), ("cum_wt", 16), ("wt_max", 24), ("rho", 32), ("c", 40), ("items", 48)] ++
        (match b.partialItem with | none => [] | some _ => [("partial", 48 + itemsBytes sd b.items)]))

end DS.Wire.Ebpps

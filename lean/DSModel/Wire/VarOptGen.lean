/- VarOpt sketch / union wire constants as read from the CURRENT headers by the translator. -/
import DSModel.Wire.VarOpt
import DSGen.WireCount
namespace DS.Wire.VarOpt

def generated : VoConsts :=
  { familyId := DSGen.wc_vo_FAMILY_ID, serVer := DSGen.wc_vo_SER_VER, preEmpty := DSGen.wc_vo_PREAMBLE_LONGS_EMPTY,
    preWarmup := DSGen.wc_vo_PREAMBLE_LONGS_WARMUP, preFull := DSGen.wc_vo_PREAMBLE_LONGS_FULL,
    emptyMask := DSGen.wc_vo_EMPTY_FLAG_MASK, gadgetMask := DSGen.wc_vo_GADGET_FLAG_MASK, maxK := DSGen.wc_vo_MAX_K,
    preLongsMask := DSGen.wc_vo_PRELONGS_MASK, rfShift := DSGen.wc_vo_RF_SHIFT, rfMask := DSGen.wc_vo_RF_MASK_R,
    markIdxMask := DSGen.wc_vo_MARK_IDX_MASK }

/-- the reader-side literals agree with the writer-side ones -/
def readerWriterAgree : Prop :=
  DSGen.wc_vo_PRELONGS_MASK_R = DSGen.wc_vo_PRELONGS_MASK ∧ DSGen.wc_vo_RF_SHIFT_R = DSGen.wc_vo_RF_SHIFT ∧
  DSGen.wc_vo_MARK_IDX_MASK_R = DSGen.wc_vo_MARK_IDX_MASK
instance : Decidable readerWriterAgree := by unfold readerWriterAgree; infer_instance

def generatedU : VuConsts :=
  { familyId := DSGen.wc_vu_FAMILY_ID, serVer := DSGen.wc_vu_SER_VER, preEmpty := DSGen.wc_vu_PREAMBLE_LONGS_EMPTY,
    preNonEmpty := DSGen.wc_vu_PREAMBLE_LONGS_NON_EMPTY, emptyMask := DSGen.wc_vu_EMPTY_FLAG_MASK, maxK := DSGen.wc_vo_MAX_K }

end DS.Wire.VarOpt

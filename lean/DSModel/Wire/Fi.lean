/-
Frequent-items sketch image (family 10, serial version 1), as written by frequent_items_sketch_impl.hpp `serialize`
(binary compatible with the Java LongsSketch / ItemsSketch):

  byte 0 preamble longs (1 empty, 4 non-empty) · 1 serial version · 2 family id · 3 lg_max_map_size · 4 lg_cur_map_size
  5 flags (bits IS_EMPTY_1 = 0 and IS_EMPTY_2 = 2 both set ⇔ empty; the reader accepts either) · 6..7 unused (0)
  non-empty only: 8..11 num_items u32 · 12..15 unused (0) · 16..23 total_weight W · 24..31 offset W
                  · weights W[num_items] · items (serde)[num_items]
  W is 8 bytes (int64/uint64/double), carried here as its bit pattern.  The (weight, item) pairs are written in
  hash-map iteration order, which is unspecified: two images of the same logical sketch may differ by a permutation
  applied simultaneously to the weights array and the items array (`Image.Equiv`).
All constants are parameters (`FiConsts`), instantiated from the current headers by the translator.  Core Lean only.
-/
import DSModel.Wire.SerdeC
namespace DS.Wire.Fi
open DS.Wire

structure FiConsts where
  familyId : Nat
  serVer : Nat
  preEmpty : Nat
  preNonEmpty : Nat
  lgMin : Nat          -- LG_MIN_MAP_SIZE
  emptyBit1 : Nat      -- enum flags { IS_EMPTY_1 = 0, IS_EMPTY_2 = 2 }
  emptyBit2 : Nat
  epsNum : Nat         -- EPSILON_FACTOR = 3.5
  epsDen : Nat
  deriving Repr, DecidableEq

def documented : FiConsts :=
  { familyId := 10, serVer := 1, preEmpty := 1, preNonEmpty := 4, lgMin := 3, emptyBit1 := 0, emptyBit2 := 2, epsNum := 7, epsDen := 2 }

def flagsOf (c : FiConsts) (empty : Bool) : Nat := if empty then 2 ^ c.emptyBit1 ||| 2 ^ c.emptyBit2 else 0
def isEmptyFlags (c : FiConsts) (flags : Nat) : Bool :=
  ((flags / 2 ^ c.emptyBit1) % 2 == 1) || ((flags / 2 ^ c.emptyBit2) % 2 == 1)

/-- decidable side conditions under which the layout round-trips -/
def FiConsts.ok (c : FiConsts) : Prop :=
  c.familyId < 256 ∧ c.serVer < 256 ∧ c.preEmpty < 256 ∧ c.preNonEmpty < 256 ∧
  flagsOf c true < 256 ∧ isEmptyFlags c (flagsOf c true) = true ∧ isEmptyFlags c (flagsOf c false) = false
instance (c : FiConsts) : Decidable c.ok := by unfold FiConsts.ok; infer_instance

structure Body (ι : Type) where
  totalWeight : Nat
  offset : Nat
  weights : List Nat
  items : List ι
  deriving Repr, DecidableEq

/-- exactly what the image stores (`num_items` = length of the two arrays) -/
structure Image (ι : Type) where
  lgMax : Nat
  lgCur : Nat
  body : Option (Body ι)
  deriving Repr, DecidableEq

variable {ι : Type}

def WF (c : FiConsts) (sd : Serde ι) (s : Image ι) : Prop :=
  s.lgMax < 256 ∧ s.lgCur ≤ s.lgMax ∧ c.lgMin ≤ s.lgCur ∧
  match s.body with
  | none => True
  | some b => b.totalWeight < 2 ^ 64 ∧ b.offset < 2 ^ 64 ∧ b.weights.length < 2 ^ 32 ∧ b.items.length = b.weights.length ∧
      (∀ w ∈ b.weights, w < 2 ^ 64) ∧ (∀ x ∈ b.items, sd.ok x)

def encodeBody (sd : Serde ι) : Option (Body ι) → Bytes
  | none => []
  | some b => w32 b.weights.length ++ (wZeros 4 ++ (w64 b.totalWeight ++ (w64 b.offset ++ (encU64s b.weights ++ encItems sd b.items))))

def encode (c : FiConsts) (sd : Serde ι) (s : Image ι) : Bytes :=
  w8 (if s.body.isNone then c.preEmpty else c.preNonEmpty) ++ (w8 c.serVer ++ (w8 c.familyId ++ (w8 s.lgMax ++ (w8 s.lgCur ++
  (w8 (flagsOf c s.body.isNone) ++ (wZeros 2 ++ encodeBody sd s.body))))))

def decodeBody (sd : Serde ι) (empty : Bool) : Reader (Option (Body ι)) :=
  if empty then Reader.pure none
  else
    Reader.bind u32 (fun n =>
    Reader.bind (skip 4) (fun _ =>
    Reader.bind u64 (fun tw =>
    Reader.bind u64 (fun off =>
    Reader.bind (decU64s n) (fun ws =>
    Reader.bind (decItems sd n) (fun its =>
    Reader.pure (some { totalWeight := tw, offset := off, weights := ws, items := its })))))))

/-- the reader written from the documentation (same acceptance rules as the code: either empty bit means empty) -/
def decode (c : FiConsts) (sd : Serde ι) : Reader (Image ι) :=
  Reader.bind u8 (fun pre =>
  Reader.bind u8 (fun sv =>
  Reader.bind u8 (fun fam =>
  Reader.bind u8 (fun lgMax =>
  Reader.bind u8 (fun lgCur =>
  Reader.bind u8 (fun flags =>
  Reader.bind (skip 2) (fun _ =>
  Reader.bind (guard (pre == (if isEmptyFlags c flags then c.preEmpty else c.preNonEmpty))) (fun _ =>
  Reader.bind (guard (sv == c.serVer)) (fun _ =>
  Reader.bind (guard (fam == c.familyId)) (fun _ =>
  Reader.bind (guard (decide (lgCur ≤ lgMax) && decide (c.lgMin ≤ lgCur))) (fun _ =>
  Reader.bind (decodeBody sd (isEmptyFlags c flags)) (fun body =>
  Reader.pure { lgMax := lgMax, lgCur := lgCur, body := body }))))))))))))

/-- `get_serialized_size_bytes` -/
def serializedSize (c : FiConsts) (sd : Serde ι) (s : Image ι) : Nat :=
  match s.body with
  | none => c.preEmpty * 8
  | some b => c.preNonEmpty * 8 + 8 * b.weights.length + itemsBytes sd b.items

def count (s : Image ι) : Nat := match s.body with | none => 0 | some b => b.weights.length + b.items.length

/-- the (weight, item) pairs in image order -/
def entries (s : Image ι) : List (Nat × ι) := match s.body with | none => [] | some b => b.weights.zip b.items

/-- canonical API content: get_epsilon, is_empty, get_total_weight, get_maximum_error, get_num_active_items and the rows
of get_frequent_items (item : lower bound), sorted by their printed form -/
def project (c : FiConsts) (sd : Serde ι) (s : Image ι) : String :=
  let eps := (Float.ofNat c.epsNum / Float.ofNat c.epsDen) / Float.ofNat (2 ^ s.lgMax)
  match s.body with
  | none => s!"FI eps={hexF eps} empty=1 tw={hexN 16 0} off={hexN 16 0} n=0 items="
  | some b =>
    let rows := sortStr ((b.weights.zip b.items).map (fun p => sd.show_ p.2 ++ ":" ++ hexN 16 p.1))
    s!"FI eps={hexF eps} empty=0 tw={hexN 16 b.totalWeight} off={hexN 16 b.offset} n={b.weights.length} items={",".intercalate rows}"

def layout (s : Image ι) : List (String × Nat) :=
  [("pre", 0)] ++ (match s.body with
    | none => []
    | some b => [("count", 8), ("total", 16), ("offset", 24), ("weights", 32), ("items", 32 + 8 * b.weights.length)])

end DS.Wire.Fi

/- Line-protocol driver pieces for the theta wire group: theta images. Core Lean only. -/
import DSModel.Util
import DSModel.Murmur3
import DSModel.Wire.Theta
import DSModel.Wire.ThetaV4IR
namespace DS.Wire.Theta
open DS DS.Wire

def bytesOfArray (b : ByteArray) : Bytes := b.toList

def thetaFrac (t : Nat) : Float := (UInt64.ofNat t).toFloat / (UInt64.ofNat maxTheta).toFloat

def natList (l : List Nat) : String :=
  if l.length ≤ 4096 then joinSp (l.map toString) else s!"fold {hex64 (fold64 l)}"

/-- canonical API content of a compact theta sketch -/
def project (s : Image) : String :=
  let n := s.entries.length
  let est := n.toFloat / thetaFrac s.theta
  s!"T {boolStr s.isEmpty} {boolStr s.isOrdered} {boolStr s.estMode} {s.seedHash} {s.theta} {n} {hexF est} {natList s.entries}"

/-- smallest prefix length the reader accepts (exhaustive for small images; for large ones every length in the
last 300 and every 61st before) -/
def minAccepted {α : Type} (rd : Reader α) (b : Bytes) : Nat := Id.run do
  let size := b.length
  for n in [0:size + 1] do
    if size ≤ 1500 || n + 300 ≥ size || n % 61 == 0 then
      if (rd (b.take n)).isSome then return n
  return size + 1

def parseContent (w : List String) : Option Image :=
  match w with
  | e :: o :: _est :: sh :: th :: n :: _estv :: rest =>
    match sh.toNat?, th.toNat?, n.toNat? with
    | some sh, some th, some _ =>
      let es := rest.filterMap String.toNat?
      some ⟨e == "1", o == "1", sh, th, es⟩
    | _, _, _ => none
  | _ => none

def expSeedHash (seed : Nat) : Nat := (DS.seedHash (UInt64.ofNat seed)).toNat

/-- `IMG <kind> <seed> <hex>` for the theta kinds -/
def imgLine (c : Consts) (kind : String) (seed : Nat) (b : Bytes) : String :=
  let rd := decode c (expSeedHash seed)
  match rd b with
  | some (s, rest) =>
    let sv := (b.getD 1 0).toNat
    let re := if kind == "theta_v4" then encodeCompressed c s
              else if sv == 1 then encodeV1 c s
              else if sv == 2 then encodeV2 c s
              else encode c s
    let sz := if kind == "theta_v4" then serializedSizeCompressed s else if sv == 1 || sv == 2 then re.length else serializedSize s
    let consumed := b.length - rest.length
    -- compressed images: the same bytes through the block routines translated from bit_packing.hpp (writer and reader)
    let ir := if sv == c.serVer4 then
        encodeV4IR c s == b.take consumed &&
        (match decodeV4IR (expSeedHash seed) (b.getD 0 0).toNat (b.drop 3) with
         | some (s2, _) => s2.entries == s.entries
         | none => false)
      else true
    s!"{project s} | reenc={boolStr (re == b.take consumed)} size={sz} consumed={consumed} minlen={minAccepted rd b} wf={boolStr (decide (WF s))} ir={boolStr ir}"
  | none => "reject"

/-- `ENC <kind> <seed> T <content>` : legacy encoders -/
def encLine (c : Consts) (kind : String) (w : List String) : String :=
  match parseContent w with
  | some s =>
    let b := if kind == "theta_v1" then encodeV1 c s else if kind == "theta_v2" then encodeV2 c s
             else if kind == "theta_v4" then encodeCompressed c s else encode c s
    let wf := if kind == "theta_v1" || kind == "theta_v2" then decide (WFLegacy s) else decide (WF s)
    s!"HEX {listBytesHex b} wf={boolStr wf}"
  | none => "bad-content"

end DS.Wire.Theta

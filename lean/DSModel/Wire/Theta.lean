/-
Compact theta sketch images (`theta/include/theta_sketch_impl.hpp`, `compact_theta_sketch_parser_impl.hpp`).

Image state = what a compact theta sketch is: emptiness, orderedness, seed hash, theta, the retained hashes in
stored order.  All layouts are little-endian.  The wire constants (serial versions, sketch type, flag bit
positions) are parameters (`Consts`): the driver instantiates them from the CURRENT headers (DSGen.WireTheta),
`Props/C10_Theta.lean` pins them to the documented values.

  serial version 3 (uncompressed):
    byte 0 preamble longs (1: empty or exactly one entry in exact mode, 2: exact mode, 3: estimation mode)
    byte 1 serial version = 3 · byte 2 sketch type = 3 · bytes 3-4 unused · byte 5 flags · bytes 6-7 seed hash
    pre > 1: u32 number of entries, u32 unused · pre = 3: u64 theta · u64 entries
  serial version 4 (compressed; only ordered sketches with entries, not the single exact entry):
    byte 0 preamble longs (1 exact, 2 estimation) · 4 · 3 · byte 3 entry bits · byte 4 number of bytes holding the
    entry count · flags · seed hash · pre = 2: u64 theta · entry count (little-endian, that many bytes) ·
    deltas between consecutive hashes, `entry bits` each, MSB first, zero padded to a whole byte
  serial versions 1 and 2 (legacy, read only): see `decodeV1`, `decodeV2`.
Core Lean only.
-/
import DSModel.Wire.Reader
import DSModel.Wire.BitPack
namespace DS.Wire.Theta
open DS.Wire DS.Wire.Reader DS.Wire.BitPack

structure Consts where
  serVer3 : Nat
  serVer4 : Nat
  sketchType : Nat
  fReadOnly : Nat
  fEmpty : Nat
  fCompact : Nat
  fOrdered : Nat
deriving DecidableEq, Repr

/-- the documented contract (DESIGN.md Appendix A; Java `PreambleUtil`) -/
def documented : Consts :=
  { serVer3 := 3, serVer4 := 4, sketchType := 3, fReadOnly := 1, fEmpty := 2, fCompact := 3, fOrdered := 4 }

/-- side conditions under which the round-trip theorems hold for a set of constants -/
def Consts.ok (c : Consts) : Bool :=
  c.serVer3 < 256 && c.serVer4 < 256 && c.sketchType < 256 &&
  c.serVer3 != c.serVer4 && c.serVer3 != 1 && c.serVer3 != 2 && c.serVer4 != 1 && c.serVer4 != 2 &&
  c.fReadOnly < 8 && c.fEmpty < 8 && c.fCompact < 8 && c.fOrdered < 8 &&
  c.fReadOnly != c.fEmpty && c.fReadOnly != c.fCompact && c.fReadOnly != c.fOrdered &&
  c.fEmpty != c.fCompact && c.fEmpty != c.fOrdered && c.fCompact != c.fOrdered

structure Image where
  isEmpty : Bool
  isOrdered : Bool
  seedHash : Nat
  theta : Nat
  entries : List Nat
deriving DecidableEq, Repr

def maxTheta : Nat := 9223372036854775807

def Image.estMode (s : Image) : Bool := decide (s.theta < maxTheta) && !s.isEmpty

def preLongs (s : Image) : Nat :=
  if s.estMode then 3 else if s.isEmpty || s.entries.length == 1 then 1 else 2

def flagBit (p : Nat) (b : Bool) : Nat := if b then 2 ^ p else 0

def flagsByte (c : Consts) (isEmpty isOrdered : Bool) : Nat :=
  2 ^ c.fCompact ||| 2 ^ c.fReadOnly ||| flagBit c.fEmpty isEmpty ||| flagBit c.fOrdered isOrdered

def wU64s : List Nat → Bytes
  | [] => []
  | x :: t => w64 x ++ wU64s t

/-- well-formed image states (what a compact sketch object can be) -/
def WF (s : Image) : Prop :=
  s.seedHash < 2 ^ 16 ∧ s.theta ≤ maxTheta ∧ (∀ e ∈ s.entries, e < 2 ^ 64) ∧ s.entries.length < 2 ^ 32 ∧
  (s.isEmpty = true → s.entries = [] ∧ s.theta = maxTheta) ∧ (s.entries.length ≤ 1 → s.isOrdered = true)

instance (s : Image) : Decidable (WF s) := by unfold WF; infer_instance

/-! ### serial version 3 -/

def encode (c : Consts) (s : Image) : Bytes :=
  w8 (preLongs s) ++ (w8 c.serVer3 ++ (w8 c.sketchType ++ (w16 0 ++ (w8 (flagsByte c s.isEmpty s.isOrdered) ++ (w16 s.seedHash ++
  ((if preLongs s > 1 then w32 s.entries.length ++ w32 0 else []) ++
  ((if s.estMode then w64 s.theta else []) ++ wU64s s.entries)))))))

def serializedSize (s : Image) : Nat := 8 * preLongs s + 8 * s.entries.length

/-- `get_max_serialized_size_bytes(lg_k)` = 8·(3 + capacity), capacity = ⌊2^(lg_k+1)·REBUILD_THRESHOLD⌋ -/
def maxSerializedSize (rbdNum rbdDen lgK : Nat) : Nat := 8 * (3 + 2 ^ (lgK + 1) * rbdNum / rbdDen)

/-- body of a version-3 image after the three bytes (preamble longs, serial version, type) -/
def decodeV3 (c : Consts) (expSeedHash pre : Nat) : Reader Image :=
  Reader.bind (skip 2) fun _ =>
  Reader.bind u8 fun fl =>
  Reader.bind u16 fun sh =>
  if fl.testBit c.fEmpty then Reader.pure ⟨true, true, sh, maxTheta, []⟩
  else
    Reader.bind (guard (sh == expSeedHash)) fun _ =>
    if pre = 1 then Reader.bind u64 fun e => Reader.pure ⟨false, true, sh, maxTheta, [e]⟩
    else
      Reader.bind u32 fun n =>
      Reader.bind (skip 4) fun _ =>
      Reader.bind (if pre > 2 then u64 else Reader.pure maxTheta) fun theta =>
      Reader.bind (repeatN u64 n) fun es =>
      Reader.pure ⟨false, fl.testBit c.fOrdered || decide (n ≤ 1), sh, theta, es⟩

/-! ### serial version 4 -/

/-- deltas between consecutive (ascending) hashes, starting from 0 -/
def deltas : Nat → List Nat → List Nat
  | _, [] => []
  | prev, e :: t => (e - prev) :: deltas e t

/-- running sums modulo 2^64 (`entries[i] += previous`) -/
def undelta : Nat → List Nat → List Nat
  | _, [] => []
  | prev, d :: t => ((prev + d) % 2 ^ 64) :: undelta ((prev + d) % 2 ^ 64) t

def orAll : List Nat → Nat
  | [] => 0
  | d :: t => d ||| orAll t

/-- number of significant bits (`64 - count_leading_zeros_in_u64`) -/
def bitLen (x : Nat) : Nat := if x = 0 then 0 else x.log2 + 1

/-- `compute_entry_bits` -/
def entryBits (es : List Nat) : Nat := bitLen (orAll (deltas 0 es))

/-- `get_num_entries_bytes`: whole bytes holding the significant bits of the count -/
def numEntriesBytes (n : Nat) : Nat := bytesForBits (bitLen n)

/-- `is_suitable_for_compression` -/
def suitable (s : Image) : Bool :=
  s.isOrdered && s.entries.length != 0 && !(s.entries.length == 1 && !s.estMode)

/-- strictly ascending, all above `p` (hash value 0 is never retained) -/
def ascFrom : Nat → List Nat → Prop
  | _, [] => True
  | p, e :: t => p < e ∧ ascFrom e t

instance : ∀ (p : Nat) (l : List Nat), Decidable (ascFrom p l)
  | _, [] => isTrue trivial
  | p, e :: t => by unfold ascFrom; exact @instDecidableAnd _ _ _ (instDecidableAscFrom e t)

/-- image states the compressed writer is used for: suitable, hashes nonzero, strictly ascending, below 2^63 -/
def WFv4 (s : Image) : Prop :=
  WF s ∧ suitable s = true ∧ ascFrom 0 s.entries ∧ ∀ e ∈ s.entries, e < 2 ^ 63

instance (s : Image) : Decidable (WFv4 s) := by unfold WFv4; infer_instance

def flagsByteV4 (c : Consts) : Nat := 2 ^ c.fCompact ||| 2 ^ c.fReadOnly ||| 2 ^ c.fOrdered

def encodeV4 (c : Consts) (s : Image) : Bytes :=
  let eb := entryBits s.entries
  let neb := numEntriesBytes s.entries.length
  w8 (if s.estMode then 2 else 1) ++ (w8 c.serVer4 ++ (w8 c.sketchType ++ (w8 eb ++ (w8 neb ++ (w8 (flagsByteV4 c) ++ (w16 s.seedHash ++
  ((if s.estMode then w64 s.theta else []) ++ (wLe neb s.entries.length ++ packFields eb (deltas 0 s.entries)))))))))

def serializedSizeV4 (s : Image) : Nat :=
  8 * (if s.estMode then 2 else 1) + numEntriesBytes s.entries.length +
    bytesForBits (entryBits s.entries * s.entries.length)

/-- `serialize_compressed` -/
def encodeCompressed (c : Consts) (s : Image) : Bytes := if suitable s then encodeV4 c s else encode c s
def serializedSizeCompressed (s : Image) : Nat := if suitable s then serializedSizeV4 s else serializedSize s

/-- body of a version-4 image after the first three bytes.  Mirrors the parser (bytes / wrap path): the seed
hash is always checked, the result is never empty and always ordered.  Stricter than the code on two
corrupt-only fields: more than 4 count bytes and an entry width outside 1..63 are rejected (the code shifts an
`int` by ≥ 32 bits, resp. treats 64 as "uncompressed" and 0 as "any number of zero entries from no bytes"). -/
def decodeV4 (expSeedHash pre : Nat) : Reader Image :=
  Reader.bind u8 fun eb =>
  Reader.bind u8 fun neb =>
  Reader.bind u8 fun _fl =>
  Reader.bind u16 fun sh =>
  Reader.bind (guard (sh == expSeedHash && decide (neb ≤ 4) && decide (1 ≤ eb ∧ eb ≤ 63))) fun _ =>
  Reader.bind (if pre > 1 then u64 else Reader.pure maxTheta) fun theta =>
  Reader.bind (leNat neb) fun n =>
  Reader.bind (bytesN (bytesForBits (eb * n))) fun bs =>
  Reader.pure ⟨false, true, sh, theta, undelta 0 (unpackFields eb n bs)⟩

/-! ### legacy serial versions 1 and 2 (written by old Java releases; read only) -/

/-- v1: 24-byte preamble always: bytes 3-7 unused, u32 count at 8, u32 unused, u64 theta at 16, entries at 24;
no flags, no seed hash (the reader substitutes the expected one); empty ⇔ no entries and theta = max. -/
def decodeV1 (expSeedHash : Nat) : Reader Image :=
  Reader.bind (skip 5) fun _ =>
  Reader.bind u32 fun n =>
  Reader.bind (skip 4) fun _ =>
  Reader.bind u64 fun theta =>
  if n = 0 ∧ theta = maxTheta then Reader.pure ⟨true, true, expSeedHash, theta, []⟩
  else Reader.bind (repeatN u64 n) fun es => Reader.pure ⟨false, true, expSeedHash, theta, es⟩

def encodeV1 (c : Consts) (s : Image) : Bytes :=
  w8 3 ++ (w8 1 ++ (w8 c.sketchType ++ (wZeros 5 ++ (w32 s.entries.length ++ (w32 0 ++ (w64 s.theta ++ wU64s s.entries))))))

/-- v2: preamble longs 1 (empty), 2 (exact: count) or 3 (count + theta); byte 3-5 unused, seed hash at 6;
always ordered; a zero count with 2 preamble longs, or with theta = max, is the empty sketch. -/
def decodeV2 (expSeedHash pre : Nat) : Reader Image :=
  Reader.bind (skip 3) fun _ =>
  Reader.bind u16 fun sh =>
  Reader.bind (guard (sh == expSeedHash)) fun _ =>
  if pre = 1 then Reader.pure ⟨true, true, sh, maxTheta, []⟩
  else if pre = 2 then
    Reader.bind u32 fun n =>
    Reader.bind (skip 4) fun _ =>
    if n = 0 then Reader.pure ⟨true, true, sh, maxTheta, []⟩
    else Reader.bind (repeatN u64 n) fun es => Reader.pure ⟨false, true, sh, maxTheta, es⟩
  else if pre = 3 then
    Reader.bind u32 fun n =>
    Reader.bind (skip 4) fun _ =>
    Reader.bind u64 fun theta =>
    if n = 0 ∧ theta = maxTheta then Reader.pure ⟨true, true, sh, theta, []⟩
    else Reader.bind (repeatN u64 n) fun es => Reader.pure ⟨false, true, sh, theta, es⟩
  else Reader.fail

/-- the v2 writer of the old releases: 1 preamble long when empty, 2 in exact mode, 3 in estimation mode -/
def encodeV2 (c : Consts) (s : Image) : Bytes :=
  let pre := if s.isEmpty then 1 else if s.theta < maxTheta then 3 else 2
  w8 pre ++ (w8 2 ++ (w8 c.sketchType ++ (wZeros 3 ++ (w16 s.seedHash ++
  ((if pre > 1 then w32 s.entries.length ++ w32 0 else []) ++ ((if pre > 2 then w64 s.theta else []) ++ wU64s s.entries))))))

/-- images the legacy formats can express and the readers return unchanged -/
def WFLegacy (s : Image) : Prop :=
  WF s ∧ s.isOrdered = true ∧ (s.isEmpty = false → ¬ (s.entries = [] ∧ s.theta = maxTheta))

instance (s : Image) : Decidable (WFLegacy s) := by unfold WFLegacy; infer_instance

/-! ### the reader: every serial version the code accepts -/

def decode (c : Consts) (expSeedHash : Nat) : Reader Image :=
  Reader.bind u8 fun pre =>
  Reader.bind u8 fun sv =>
  Reader.bind u8 fun ty =>
  Reader.bind (guard (ty == c.sketchType)) fun _ =>
  if sv = c.serVer4 then decodeV4 expSeedHash pre
  else if sv = c.serVer3 then decodeV3 c expSeedHash pre
  else if sv = 1 then decodeV1 expSeedHash
  else if sv = 2 then decodeV2 expSeedHash pre
  else Reader.fail

/-- what `wrapped_compact_theta_sketch::wrap` + its iterator yield: the same parser, entries decoded on the fly -/
def wrapDecode (c : Consts) (expSeedHash : Nat) : Reader Image := decode c expSeedHash

end DS.Wire.Theta

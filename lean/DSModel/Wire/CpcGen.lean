/- The CPC wire constants as regenerated from the current headers (tools/trules/wire_cpc.py). -/
import DSModel.Wire.Cpc
import DSGen.WireCpc
namespace DS.Wire.Cpc

def generated : Consts :=
  { familyId := DSGen.wirecpc_FAMILY, serVer := DSGen.wirecpc_SERIAL_VERSION,
    flagBigEndian := DSGen.wirecpc_FLAG_IS_BIG_ENDIAN, flagCompressed := DSGen.wirecpc_FLAG_IS_COMPRESSED,
    flagHip := DSGen.wirecpc_FLAG_HAS_HIP, flagTable := DSGen.wirecpc_FLAG_HAS_TABLE, flagWindow := DSGen.wirecpc_FLAG_HAS_WINDOW,
    preBase := DSGen.wirecpc_PRE_BASE, preCoupons := DSGen.wirecpc_PRE_COUPONS, preHip := DSGen.wirecpc_PRE_HIP,
    preTable := DSGen.wirecpc_PRE_TABLE, preBoth := DSGen.wirecpc_PRE_BOTH, preWindow := DSGen.wirecpc_PRE_WINDOW }

end DS.Wire.Cpc

/-
REQ wire constants as the translator read them from the CURRENT headers (DSGen/WireQuant.lean).
Core Lean only.
-/
import DSModel.Wire.Req
import DSGen.WireQuant
namespace DS.Wire.Req
open DSGen.WireQuant

def codeCfg : Cfg :=
  { family := req_FAMILY, ver := req_SERIAL_VERSION, preEst := req_PREAMBLE_INTS_EST, preExact := req_PREAMBLE_INTS_EXACT,
    bitEmpty := req_FLAG_IS_EMPTY, bitHra := req_FLAG_IS_HIGH_RANK, bitRaw := req_FLAG_RAW_ITEMS,
    bitLz := req_FLAG_IS_LEVEL_ZERO_SORTED, preambleSize := req_PREAMBLE_SIZE_BYTES, rawMax := req_MIN_K }

end DS.Wire.Req

/-
Bit packing of the compressed theta image (serial version 4), `theta/include/bit_packing.hpp`.

* **Specification** (the documented layout): `n` fields of `eb` bits each, most significant bit first, back to
  back, the last byte zero-padded.  Stated arithmetically: the fields are the base-`2^eb` digits of one big
  number `joinFields`, written big-endian and left-aligned into `⌈n·eb/8⌉` bytes.
* **IR** of the 126 unrolled routines `pack_bits_N` / `unpack_bits_N` (regenerated from the header on every run
  into `DSGen/BitPackIR.lean`), a **concrete evaluator** with C semantics (uint64 arithmetic, `static_cast<uint8_t>`,
  integer promotion of `*ptr` to `int`: a shift that could set bit 31 or above without the `uint64_t` cast is an
  error) and a **symbolic evaluator** which computes for every output bit the input bit it carries.
  `DSProofs/Gen/BitPack.lean` proves by kernel evaluation that every routine's symbolic layout is the
  specification layout, and `DSProofs/Lemmas/BitPackSound.lean` lifts that to all inputs.

Core Lean only.
-/
import DSModel.Wire.Reader
namespace DS.Wire.BitPack

/-! ### specification: fields as digits of a big-endian number -/

/-- concatenation of `eb`-bit fields, first field most significant -/
def joinFields (eb : Nat) : List Nat → Nat
  | [] => 0
  | d :: t => d * 2 ^ (eb * t.length) + joinFields eb t

/-- the `n` least significant `eb`-bit fields of `x`, most significant first -/
def splitFields (eb : Nat) : Nat → Nat → List Nat
  | 0, _ => []
  | n + 1, x => (x / 2 ^ (eb * n)) % 2 ^ eb :: splitFields eb n x

/-- big-endian bytes, exactly `len` of them (value taken modulo `256^len`) -/
def wBe : Nat → Nat → Bytes
  | 0, _ => []
  | len + 1, x => UInt8.ofNat ((x / 256 ^ len) % 256) :: wBe len x

def beNat : Bytes → Nat
  | [] => 0
  | b :: t => b.toNat * 256 ^ t.length + beNat t

/-- whole bytes needed for `bits` bits (`whole_bytes_to_hold_bits`) -/
def bytesForBits (bits : Nat) : Nat := (bits + 7) / 8

/-- MSB-first packing of `ds` as `eb`-bit fields, zero padded to a whole byte -/
def packFields (eb : Nat) (ds : List Nat) : Bytes :=
  let bits := eb * ds.length
  let len := bytesForBits bits
  wBe len (joinFields eb ds * 2 ^ (8 * len - bits))

/-- inverse of `packFields` on `⌈n·eb/8⌉` bytes -/
def unpackFields (eb n : Nat) (bs : Bytes) : List Nat :=
  splitFields eb n (beNat bs / 2 ^ (8 * bs.length - eb * n))

/-- packing as the code does it: whole blocks of 8 fields through a block routine `pack8`, the remaining < 8 fields
as a bit stream of their own (`pack_bits` one value at a time) -/
def packBlocksWith (pack8 : List Nat → Bytes) (eb : Nat) : List Nat → Bytes
  | a :: b :: c :: d :: e :: f :: g :: h :: rest => pack8 [a, b, c, d, e, f, g, h] ++ packBlocksWith pack8 eb rest
  | tail => packFields eb tail

/-- unpacking as the code does it: `eb` bytes per whole block of 8 through a block routine, then the tail -/
def unpackBlocksWith (unpack8 : Bytes → List Nat) (eb : Nat) : Nat → Bytes → List Nat
  | n + 8, bs => unpack8 (bs.take eb) ++ unpackBlocksWith unpack8 eb n (bs.drop eb)
  | n, bs => unpackFields eb n bs

/-! ### IR of the unrolled routines -/

inductive Sh where
  | none
  | shl (k : Nat)
  | shr (k : Nat)
deriving DecidableEq, Repr

/-- `*ptr(++) (|)= static_cast<uint8_t>(values[vi] (<<|>> k))` -/
structure PStmt where
  inc : Bool
  isOr : Bool
  vi : Nat
  sh : Sh
deriving DecidableEq, Repr

/-- `values[vi] (|)= [static_cast<uint64_t>] (((*ptr(++) >> pre) & mask)) (<<|>> k)` -/
structure UStmt where
  isOr : Bool
  vi : Nat
  inc : Bool
  pre : Nat
  mask : Nat
  cast : Bool
  sh : Sh
deriving DecidableEq, Repr

/-! ### concrete evaluation (C semantics) -/

/-- `static_cast<uint8_t>(v sh)` for a `uint64_t v`; a shift count ≥ 64 is undefined -/
def packByte (v : Nat) : Sh → Option Nat
  | .none => some (v % 256)
  | .shl k => if k < 64 then some ((v <<< k) % 2 ^ 64 % 256) else none
  | .shr k => if k < 64 then some ((v >>> k) % 256) else none

structure PState where
  ptr : Nat
  mem : List Nat
deriving DecidableEq, Repr

def pstep (vals : List Nat) (s : PState) (st : PStmt) : Option PState :=
  if s.ptr < s.mem.length ∧ st.vi < vals.length then
    match packByte (vals.getD st.vi 0) st.sh with
    | some b =>
      let nb := if st.isOr then s.mem.getD s.ptr 0 ||| b else b
      some ⟨if st.inc then s.ptr + 1 else s.ptr, s.mem.set s.ptr nb⟩
    | none => none
  else none

def prun (vals : List Nat) : List PStmt → PState → Option PState
  | [], s => some s
  | st :: t, s => match pstep vals s st with
    | some s' => prun vals t s'
    | none => none

/-- run a pack routine on 8 values into `n` bytes of (arbitrary) initial memory -/
def evalPack (stmts : List PStmt) (vals mem0 : List Nat) : Option (List Nat) :=
  (prun vals stmts ⟨0, mem0⟩).map (·.mem)

/-- the operand of an unpack statement for the byte value `byte`.  `*ptr` is promoted to `int`: without the
cast a left shift must stay below 2^31 (no sign bit, no overflow), a right shift count must be < 32. -/
def uoperand (byte : Nat) (st : UStmt) : Option Nat :=
  let x := (byte >>> st.pre) &&& st.mask
  if st.pre < 32 then
    match st.sh with
    | .none => some x
    | .shr k => if k < 32 then some (x >>> k) else none
    | .shl k =>
      if st.cast then (if k < 64 then some ((x <<< k) % 2 ^ 64) else none)
      else (if k < 32 ∧ x <<< k < 2 ^ 31 then some (x <<< k) else none)
  else none

structure UState where
  ptr : Nat
  vals : List Nat
deriving DecidableEq, Repr

def ustep (mem : List Nat) (s : UState) (st : UStmt) : Option UState :=
  if s.ptr < mem.length ∧ st.vi < s.vals.length then
    match uoperand (mem.getD s.ptr 0) st with
    | some e =>
      let nv := if st.isOr then s.vals.getD st.vi 0 ||| e else e
      some ⟨if st.inc then s.ptr + 1 else s.ptr, s.vals.set st.vi nv⟩
    | none => none
  else none

def urun (mem : List Nat) : List UStmt → UState → Option UState
  | [], s => some s
  | st :: t, s => match ustep mem s st with
    | some s' => urun mem t s'
    | none => none

def evalUnpack (stmts : List UStmt) (mem vals0 : List Nat) : Option (List Nat) :=
  (urun mem stmts ⟨0, vals0⟩).map (·.vals)

/-! ### symbolic evaluation: which input bit does every output bit carry -/

inductive SBit where
  | zero
  | src (i p : Nat)     -- bit `p` of input word / byte `i`
  | bad                 -- uninitialised, or two sources OR-ed onto one bit
deriving DecidableEq, Repr

def SBit.or : SBit → SBit → SBit
  | .zero, x => x
  | x, .zero => x
  | _, _ => .bad

/-- bit `p` of value `vi`, knowing the value is below `2^n` -/
def vbit (n vi p : Nat) : SBit := if p < n then .src vi p else .zero

def packSBit (n vi : Nat) (sh : Sh) (b : Nat) : SBit :=
  match sh with
  | .none => vbit n vi b
  | .shl k => if b < k then .zero else vbit n vi (b - k)
  | .shr k => vbit n vi (b + k)

def shOk : Sh → Bool
  | .none => true
  | .shl k => k < 64
  | .shr k => k < 64

structure SPState where
  ptr : Nat
  mem : List (List SBit)
deriving DecidableEq

def orBits : List SBit → List SBit → List SBit
  | a :: s, b :: t => a.or b :: orBits s t
  | _, _ => []

def spstep (n : Nat) (s : SPState) (st : PStmt) : Option SPState :=
  if s.ptr < s.mem.length ∧ st.vi < 8 ∧ shOk st.sh then
    let nb := (List.range 8).map (packSBit n st.vi st.sh)
    let nb := if st.isOr then orBits (s.mem.getD s.ptr []) nb else nb
    some ⟨if st.inc then s.ptr + 1 else s.ptr, s.mem.set s.ptr nb⟩
  else none

def sprun (n : Nat) : List PStmt → SPState → Option SPState
  | [], s => some s
  | st :: t, s => match spstep n s st with
    | some s' => sprun n t s'
    | none => none

/-- symbolic run of a pack routine; `init` is what is known about the output block beforehand
(`bad`: nothing, the routine must assign every byte before OR-ing into it; `zero`: a zero-filled block) -/
def symPackInit (init : SBit) (n : Nat) (stmts : List PStmt) : Option (List (List SBit)) :=
  (sprun n stmts ⟨0, List.replicate n (List.replicate 8 init)⟩).map (·.mem)

def symPack (n : Nat) (stmts : List PStmt) : Option (List (List SBit)) := symPackInit .bad n stmts

/-- specification layout of `pack_bits_n`: bit `b` (LSB = 0) of output byte `j` is bit number
`P = 8·(n−1−j) + b` of the big number, i.e. bit `P % n` of value `7 − P / n`.  Equivalently: stream position
`q = 8j + 7 − b` (MSB first) holds bit `n−1 − q % n` of field `q / n`. -/
def specPackLayout (n : Nat) : List (List SBit) :=
  (List.range n).map fun j => (List.range 8).map fun b =>
    SBit.src (7 - (8 * (n - 1 - j) + b) / n) ((8 * (n - 1 - j) + b) % n)

/-- bits of the operand `(byte >> pre) & mask` of an unpack statement reading byte `j` -/
def xbit (j pre mask t : Nat) : SBit :=
  if t + pre < 8 ∧ mask.testBit t then .src j (t + pre) else .zero

def unpackSBit (j : Nat) (st : UStmt) (p : Nat) : SBit :=
  match st.sh with
  | .none => xbit j st.pre st.mask p
  | .shr k => xbit j st.pre st.mask (p + k)
  | .shl k => if p < k then .zero else xbit j st.pre st.mask (p - k)

/-- without the `uint64_t` cast a left shift by `k` is only allowed when no possibly-set operand bit can
reach bit 31 (`int` promotion) -/
def ushOk (j : Nat) (st : UStmt) : Bool :=
  st.pre < 32 &&
  match st.sh with
  | .none => true
  | .shr k => k < 32
  | .shl k => if st.cast then k < 64 else k < 32 && (List.range 8).all fun t => xbit j st.pre st.mask t == .zero || t + k < 31

structure SUState where
  ptr : Nat
  vals : List (List SBit)
deriving DecidableEq

def sustep (nbytes : Nat) (s : SUState) (st : UStmt) : Option SUState :=
  if s.ptr < nbytes ∧ st.vi < s.vals.length ∧ ushOk s.ptr st then
    let e := (List.range 64).map (unpackSBit s.ptr st)
    let nv := if st.isOr then orBits (s.vals.getD st.vi []) e else e
    some ⟨if st.inc then s.ptr + 1 else s.ptr, s.vals.set st.vi nv⟩
  else none

def surun (nbytes : Nat) : List UStmt → SUState → Option SUState
  | [], s => some s
  | st :: t, s => match sustep nbytes s st with
    | some s' => surun nbytes t s'
    | none => none

def symUnpack (n : Nat) (stmts : List UStmt) : Option (List (List SBit)) :=
  (surun n stmts ⟨0, List.replicate 8 (List.replicate 64 .bad)⟩).map (·.vals)

/-- specification layout of `unpack_bits_n`: bit `p < n` of value `i` is bit `P = n·(7−i) + p` of the big
number, i.e. bit `P % 8` of byte `n−1 − P / 8`; bits `p ≥ n` are zero. -/
def specUnpackLayout (n : Nat) : List (List SBit) :=
  (List.range 8).map fun i => (List.range 64).map fun p =>
    if p < n then SBit.src (n - 1 - (n * (7 - i) + p) / 8) ((n * (7 - i) + p) % 8)
    else SBit.zero

def lookupNat {α : Type} (k : Nat) : List (Nat × α) → Option α
  | [] => none
  | (a, v) :: t => if a = k then some v else lookupNat k t

/-- 0: specification layout whatever the output block held before; 1: specification layout only on a
zero-filled output block (some byte is OR-ed into before being assigned); 2: wrong / unsafe / missing -/
def packStatus (packR : List (Nat × List PStmt)) (n : Nat) : Nat :=
  match lookupNat n packR with
  | some st =>
    if symPack n st == some (specPackLayout n) then 0
    else if symPackInit .zero n st == some (specPackLayout n) then 1 else 2
  | none => 2

def unpackStatus (unpackR : List (Nat × List UStmt)) (n : Nat) : Nat :=
  match lookupNat n unpackR with
  | some st => if symUnpack n st == some (specUnpackLayout n) then 0 else 2
  | none => 2

/-- every routine of width 1..63 whose status is not 0: (is pack routine, width, status) -/
def deviations (packR : List (Nat × List PStmt)) (unpackR : List (Nat × List UStmt)) : List (Bool × Nat × Nat) :=
  ((List.range 63).filterMap fun i =>
    let s := packStatus packR (i + 1)
    if s = 0 then none else some (true, i + 1, s)) ++
  ((List.range 63).filterMap fun i =>
    let s := unpackStatus unpackR (i + 1)
    if s = 0 then none else some (false, i + 1, s))

/-- `case n` calls routine `n` for n = 1..63 and there is no other case label -/
def dispatchOk (packD unpackD : List (Nat × Nat)) : Bool :=
  (List.range 63).all (fun i => lookupNat (i + 1) packD == some (i + 1) && lookupNat (i + 1) unpackD == some (i + 1)) &&
  packD.all (fun p => 1 ≤ p.1 && p.1 ≤ 63) && unpackD.all (fun p => 1 ≤ p.1 && p.1 ≤ 63)

/-! ### scalar tail routines `pack_bits` / `unpack_bits` (hand model; tied differentially) -/

/-- `pack_bits(value, bits, ptr, offset)` appended to a bit stream kept as (bytes so far, bits used in the last byte):
the specification is simply "append `bits` bits of `value`, MSB first". The stream is kept as a big number plus its
bit length. -/
structure BitStream where
  acc : Nat
  len : Nat

def BitStream.push (s : BitStream) (bits v : Nat) : BitStream := ⟨s.acc * 2 ^ bits + v % 2 ^ bits, s.len + bits⟩
def BitStream.bytes (s : BitStream) : Bytes :=
  let n := bytesForBits s.len
  wBe n (s.acc * 2 ^ (8 * n - s.len))

end DS.Wire.BitPack

/- Line-protocol driver pieces for the theta wire group: tuple and array-of-doubles images. Core Lean only. -/
import DSModel.Wire.ThetaDriver
import DSModel.Wire.Tuple
import DSModel.Wire.Aod
namespace DS.Wire.Tuple
open DS DS.Wire

def headStr (isEmpty isOrdered est : Bool) (seedHash theta : Nat) : String :=
  s!"{boolStr isEmpty} {boolStr isOrdered} {boolStr est} {seedHash} {theta}"

def estHex (n theta : Nat) : String := hexF (n.toFloat / Theta.thetaFrac theta)

def project {σ : Type} (showS : σ → String) (s : Image σ) : String :=
  let n := s.entries.length
  let ents := joinSp (s.entries.map fun (k, v) => s!"{k}:{showS v}")
  s!"U {headStr s.isEmpty s.isOrdered s.estMode s.seedHash s.theta} {n} {estHex n s.theta} {ents}"

def showU64 (x : Nat) : String := hexN 16 x
def showBytes (b : Bytes) : String := listBytesHex b

def parseEntry {σ : Type} (parseS : String → Option σ) (w : String) : Option (Nat × σ) :=
  match w.splitOn ":" with
  | [k, v] => match k.toNat?, parseS v with
    | some k, some v => some (k, v)
    | _, _ => none
  | _ => none

def parseContent {σ : Type} (parseS : String → Option σ) (w : List String) : Option (Image σ) :=
  match w with
  | e :: o :: _est :: sh :: th :: _n :: _estv :: rest =>
    match sh.toNat?, th.toNat?, rest.mapM (parseEntry parseS) with
    | some sh, some th, some es => some ⟨e == "1", o == "1", sh, th, es⟩
    | _, _, _ => none
  | _ => none

def parseBytesS (s : String) : Option Bytes := (parseHexBytes s).map (·.toList)

def imgLineG {σ : Type} [BEq σ] (c : Consts) (cd : Codec σ) (showS : σ → String) (seed : Nat) (b : Bytes) : String :=
  let rd := decode c cd (Theta.expSeedHash seed)
  match rd b with
  | some (s, rest) =>
    let consumed := b.length - rest.length
    let re := encodeWith c cd (b.getD 1 0).toNat (b.getD 3 0).toNat s
    s!"{project showS s} | reenc={boolStr (re == b.take consumed)} size={serializedSize cd s} consumed={consumed} minlen={Theta.minAccepted rd b} wf={boolStr (decide (WF cd s))} ir=1"
  | none => "reject"

def imgLine (c : Consts) (kind : String) (seed : Nat) (b : Bytes) : String :=
  if kind == "tuple_f64" || kind == "tuple_i64" then imgLineG c u64Codec showU64 seed b
  else if kind == "tuple_str" then imgLineG c (strCodec 4) showBytes seed b
  else if kind == "tuple_cst" then imgLineG c (strCodec 1) showBytes seed b
  else "bad-kind"

def encLineG {σ : Type} (c : Consts) (cd : Codec σ) (parseS : String → Option σ) (legacy : Bool) (w : List String) : String :=
  match parseContent parseS w with
  | some s =>
    let b := if legacy then encodeLegacy c cd s else encode c cd s
    s!"HEX {listBytesHex b} wf={boolStr (decide (WF cd s))}"
  | none => "bad-content"

/-- `ENC <kind>[_legacy] U <content>` -/
def encLine (c : Consts) (kind : String) (w : List String) : String :=
  let legacy := kind.endsWith "_legacy"
  let k := if legacy then (kind.dropEnd 7).toString else kind
  if k == "tuple_f64" || k == "tuple_i64" then encLineG c u64Codec parseHex legacy w
  else if k == "tuple_str" then encLineG c (strCodec 4) parseBytesS legacy w
  else if k == "tuple_cst" then encLineG c (strCodec 1) parseBytesS legacy w
  else "bad-kind"

end DS.Wire.Tuple

namespace DS.Wire.Aod
open DS DS.Wire

def project (s : Image) : String :=
  let n := s.entries.length
  let showV (vs : List Nat) : String := if vs.isEmpty then "-" else ",".intercalate (vs.map (hexN 16))
  let ents := joinSp (s.entries.map fun (k, vs) => s!"{k}:{showV vs}")
  s!"A {Tuple.headStr s.isEmpty s.isOrdered s.estMode s.seedHash s.theta} {s.numValues} {n} {Tuple.estHex n s.theta} {ents}"

def imgLine (c : Consts) (seed : Nat) (b : Bytes) : String :=
  let rd := decode c (Theta.expSeedHash seed)
  match rd b with
  | some (s, rest) =>
    let consumed := b.length - rest.length
    s!"{project s} | reenc={boolStr (encode c s == b.take consumed)} size={serializedSize s} consumed={consumed} minlen={Theta.minAccepted rd b} wf={boolStr (decide (WF s))} ir=1"
  | none => "reject"

end DS.Wire.Aod

/- Wire constants of the theta group as translated from the CURRENT headers (DSGen.WireTheta), packaged for the models. -/
import DSModel.Wire.Theta
import DSModel.Wire.Tuple
import DSModel.Wire.Aod
import DSGen.WireTheta
namespace DS.Wire

def genThetaConsts : Theta.Consts :=
  { serVer3 := DSGen.wth_UNCOMPRESSED_SERIAL_VERSION, serVer4 := DSGen.wth_COMPRESSED_SERIAL_VERSION,
    sketchType := DSGen.wth_SKETCH_TYPE, fReadOnly := DSGen.wth_flag_IS_READ_ONLY, fEmpty := DSGen.wth_flag_IS_EMPTY,
    fCompact := DSGen.wth_flag_IS_COMPACT, fOrdered := DSGen.wth_flag_IS_ORDERED }

def genTupleConsts : Tuple.Consts :=
  { serVer := DSGen.wtu_SERIAL_VERSION, serVerLegacy := DSGen.wtu_SERIAL_VERSION_LEGACY, family := DSGen.wtu_SKETCH_FAMILY,
    sketchType := DSGen.wtu_SKETCH_TYPE, sketchTypeLegacy := DSGen.wtu_SKETCH_TYPE_LEGACY,
    fReadOnly := DSGen.wtu_flag_IS_READ_ONLY, fEmpty := DSGen.wtu_flag_IS_EMPTY, fCompact := DSGen.wtu_flag_IS_COMPACT,
    fOrdered := DSGen.wtu_flag_IS_ORDERED }

def genAodConsts : Aod.Consts :=
  { serVer := DSGen.wao_SERIAL_VERSION, family := DSGen.wao_SKETCH_FAMILY, sketchType := DSGen.wao_SKETCH_TYPE,
    fEmpty := DSGen.wao_flag_IS_EMPTY, fHasEntries := DSGen.wao_flag_HAS_ENTRIES, fOrdered := DSGen.wao_flag_IS_ORDERED }

end DS.Wire

/-
Compact tuple sketch images (`tuple/include/tuple_sketch_impl.hpp`), generic in the summary serde.

  byte 0 preamble longs (1: empty or exactly one entry in exact mode, 2: exact, 3: estimation)
  byte 1 serial version (3; legacy 1 accepted) · byte 2 family (9) · byte 3 sketch type (1; legacy 5 accepted)
  byte 4 unused · byte 5 flags (as theta) · bytes 6-7 seed hash
  pre > 1: u32 number of entries, u32 unused · pre = 3: u64 theta · per entry: u64 key, summary via the serde
Legacy images (serial version 1 / type 5, written by old Java releases) have the same layout.
Core Lean only.
-/
import DSModel.Wire.Reader
import DSModel.Wire.Theta
namespace DS.Wire.Tuple
open DS.Wire DS.Wire.Reader

/-- a summary serde: writer, reader, and the values it can represent -/
structure Codec (σ : Type) where
  enc : σ → Bytes
  dec : Reader σ
  ok : σ → Bool

/-- raw 8-byte summaries: `double` (as its bit pattern) and `int64_t` (two's complement) with the default serde -/
def u64Codec : Codec Nat := { enc := w64, dec := u64, ok := fun x => decide (x < 2 ^ 64) }

/-- length-prefixed byte strings: `serde<std::string>` has a 4-byte length, the custom test serde 1 byte -/
def strCodec (lenBytes : Nat) : Codec Bytes :=
  { enc := fun s => wLe lenBytes s.length ++ s,
    dec := Reader.bind (leNat lenBytes) fun n => bytesN n,
    ok := fun s => decide (s.length < 256 ^ lenBytes) }

structure Consts where
  serVer : Nat
  serVerLegacy : Nat
  family : Nat
  sketchType : Nat
  sketchTypeLegacy : Nat
  fReadOnly : Nat
  fEmpty : Nat
  fCompact : Nat
  fOrdered : Nat
deriving DecidableEq, Repr

def documented : Consts :=
  { serVer := 3, serVerLegacy := 1, family := 9, sketchType := 1, sketchTypeLegacy := 5,
    fReadOnly := 1, fEmpty := 2, fCompact := 3, fOrdered := 4 }

def Consts.ok (c : Consts) : Bool :=
  c.serVer < 256 && c.serVerLegacy < 256 && c.family < 256 && c.sketchType < 256 && c.sketchTypeLegacy < 256 &&
  c.fReadOnly < 8 && c.fEmpty < 8 && c.fCompact < 8 && c.fOrdered < 8 &&
  c.fReadOnly != c.fEmpty && c.fReadOnly != c.fCompact && c.fReadOnly != c.fOrdered &&
  c.fEmpty != c.fCompact && c.fEmpty != c.fOrdered && c.fCompact != c.fOrdered

def Consts.theta (c : Consts) : Theta.Consts :=
  { serVer3 := c.serVer, serVer4 := 0, sketchType := c.sketchType, fReadOnly := c.fReadOnly, fEmpty := c.fEmpty,
    fCompact := c.fCompact, fOrdered := c.fOrdered }

structure Image (σ : Type) where
  isEmpty : Bool
  isOrdered : Bool
  seedHash : Nat
  theta : Nat
  entries : List (Nat × σ)

def maxTheta : Nat := Theta.maxTheta

variable {σ : Type}

def Image.estMode (s : Image σ) : Bool := decide (s.theta < maxTheta) && !s.isEmpty

def preLongs (s : Image σ) : Nat :=
  if s.estMode then 3 else if s.isEmpty || s.entries.length == 1 then 1 else 2

def wEntries (cd : Codec σ) : List (Nat × σ) → Bytes
  | [] => []
  | (k, v) :: t => w64 k ++ (cd.enc v ++ wEntries cd t)

def WF (cd : Codec σ) (s : Image σ) : Prop :=
  s.seedHash < 2 ^ 16 ∧ s.theta ≤ maxTheta ∧ (∀ e ∈ s.entries, e.1 < 2 ^ 64 ∧ cd.ok e.2 = true) ∧ s.entries.length < 2 ^ 32 ∧
  (s.isEmpty = true → s.entries = [] ∧ s.theta = maxTheta) ∧ (s.entries.length ≤ 1 → s.isOrdered = true)

instance (cd : Codec σ) (s : Image σ) : Decidable (WF cd s) := by unfold WF; infer_instance

/-- writer with explicit serial version / type bytes (current: `c.serVer`, `c.sketchType`; legacy: 1, 5) -/
def encodeWith (c : Consts) (cd : Codec σ) (sv ty : Nat) (s : Image σ) : Bytes :=
  w8 (preLongs s) ++ (w8 sv ++ (w8 c.family ++ (w8 ty ++ (w8 0 ++ (w8 (Theta.flagsByte c.theta s.isEmpty s.isOrdered) ++ (w16 s.seedHash ++
  ((if preLongs s > 1 then w32 s.entries.length ++ w32 0 else []) ++
  ((if s.estMode then w64 s.theta else []) ++ wEntries cd s.entries))))))))

def encode (c : Consts) (cd : Codec σ) (s : Image σ) : Bytes := encodeWith c cd c.serVer c.sketchType s
def encodeLegacy (c : Consts) (cd : Codec σ) (s : Image σ) : Bytes := encodeWith c cd c.serVerLegacy c.sketchTypeLegacy s

def entriesSize (cd : Codec σ) : List (Nat × σ) → Nat
  | [] => 0
  | (_, v) :: t => 8 + (cd.enc v).length + entriesSize cd t

def serializedSize (cd : Codec σ) (s : Image σ) : Nat := 8 * preLongs s + entriesSize cd s.entries

def entryReader (cd : Codec σ) : Reader (Nat × σ) :=
  Reader.bind u64 fun k => Reader.bind cd.dec fun v => Reader.pure (k, v)

def decode (c : Consts) (cd : Codec σ) (expSeedHash : Nat) : Reader (Image σ) :=
  Reader.bind u8 fun pre =>
  Reader.bind u8 fun sv =>
  Reader.bind u8 fun fam =>
  Reader.bind u8 fun ty =>
  Reader.bind (skip 1) fun _ =>
  Reader.bind u8 fun fl =>
  Reader.bind u16 fun sh =>
  Reader.bind (guard ((sv == c.serVer || sv == c.serVerLegacy) && fam == c.family && (ty == c.sketchType || ty == c.sketchTypeLegacy))) fun _ =>
  if fl.testBit c.fEmpty then Reader.pure ⟨true, true, sh, maxTheta, []⟩
  else
    Reader.bind (guard (sh == expSeedHash)) fun _ =>
    if pre = 1 then Reader.bind (entryReader cd) fun e => Reader.pure ⟨false, true, sh, maxTheta, [e]⟩
    else
      Reader.bind u32 fun n =>
      Reader.bind (skip 4) fun _ =>
      Reader.bind (if pre > 2 then u64 else Reader.pure maxTheta) fun theta =>
      Reader.bind (repeatN (entryReader cd) n) fun es =>
      Reader.pure ⟨false, fl.testBit c.fOrdered || decide (n ≤ 1), sh, theta, es⟩

end DS.Wire.Tuple

/-
Density sketch image (float and double) — the documented layout of density_sketch_impl.hpp
("Serialized sketch layout"):

  byte 0 preamble ints (3 empty / 6) · 1 serial version · 2 family id · 3 flags (bit 2 = empty)
  4-5 k u16 · 6-7 unused · 8-11 num dimensions u32
  non-empty only: 12-15 num retained u32 · 16-23 items seen (n) u64, then from byte 24 ("Int 5 is
  the start of level data") per level: size u32 followed by size points of `dim` values each
  (value = IEEE bit pattern of T, `tsz` = 4 or 8 bytes, little-endian).

The number of levels is NOT stored: a reader takes levels until `num retained` points have been read.
A point at level h carries weight 2^h and n < 2^64, so at most 64 levels are meaningful; the
specification reader gives up after `maxLevels` = 64 levels.
Core Lean only.  Constants are parameters (`Consts`), instantiated from DSGen by the driver.
-/
import DSModel.Wire.Reader
import DSModel.Util
namespace DS.Wire.Density
open DS.Wire

structure Consts where
  preShort : Nat
  preLong : Nat
  serVer : Nat
  familyId : Nat
  /-- bit position of the IS_EMPTY flag -/
  emptyBit : Nat
deriving DecidableEq, Repr

def Consts.Valid (c : Consts) : Prop :=
  c.preShort < 256 ∧ c.preLong < 256 ∧ c.serVer < 256 ∧ c.familyId < 256 ∧ c.emptyBit < 8

instance (c : Consts) : Decidable c.Valid := by unfold Consts.Valid; infer_instance

def maxLevels : Nat := 64

abbrev Point := List Nat
abbrev Level := List Point

structure Body where
  numRetained : Nat
  n : Nat
  levels : List Level
deriving DecidableEq, Repr

/-- exactly what a density image stores -/
structure Img where
  k : Nat
  dim : Nat
  /-- `none` = empty sketch (3 preamble ints) -/
  body : Option Body
deriving DecidableEq, Repr

def totalPoints : List Level → Nat
  | [] => 0
  | l :: t => l.length + totalPoints t

/-- the last level of a non-empty image holds at least one point (a reader that is not told the number
of levels cannot see trailing empty ones) -/
def lastNonEmpty : List Level → Bool
  | [] => false
  | [l] => !l.isEmpty
  | _ :: t => lastNonEmpty t

def WFBody (tsz dim : Nat) (b : Body) : Prop :=
  b.numRetained < 2^32 ∧ b.n < 2^64 ∧ 0 < b.numRetained ∧ totalPoints b.levels = b.numRetained ∧
  lastNonEmpty b.levels = true ∧ b.levels.length ≤ maxLevels ∧
  ∀ l ∈ b.levels, ∀ p ∈ l, p.length = dim ∧ ∀ v ∈ p, v < 256 ^ tsz

def WF (tsz : Nat) (s : Img) : Prop :=
  s.k < 2^16 ∧ s.dim < 2^32 ∧
  match s.body with
  | none => True
  | some b => WFBody tsz s.dim b

instance (tsz dim : Nat) (b : Body) : Decidable (WFBody tsz dim b) := by unfold WFBody; infer_instance
instance (tsz : Nat) (s : Img) : Decidable (WF tsz s) := by
  unfold WF; cases s.body <;> infer_instance

def encodePoint (tsz : Nat) (p : Point) : Bytes := p.flatMap (wLe tsz)
def encodeLevel (tsz : Nat) (l : Level) : Bytes := w32 l.length ++ l.flatMap (encodePoint tsz)
def encodeLevels (tsz : Nat) : List Level → Bytes
  | [] => []
  | l :: t => encodeLevel tsz l ++ encodeLevels tsz t

def encodeBody (tsz : Nat) : Option Body → Bytes
  | none => []
  | some b => w32 b.numRetained ++ (w64 b.n ++ encodeLevels tsz b.levels)

def encode (c : Consts) (tsz : Nat) (s : Img) : Bytes :=
  w8 (if s.body.isNone then c.preShort else c.preLong) ++ (w8 c.serVer ++ (w8 c.familyId ++
  (w8 (if s.body.isNone then 2 ^ c.emptyBit else 0) ++ (w16 s.k ++ (wZeros 2 ++ (w32 s.dim ++
  encodeBody tsz s.body))))))

def point (tsz dim : Nat) : Reader Point := repeatN (leNat tsz) dim

/-- levels until `rem` points have been read; at most `fuel` levels -/
def levelsLoop (tsz dim : Nat) : Nat → Nat → Reader (List Level)
  | _, 0 => Reader.pure []
  | 0, _ + 1 => Reader.fail
  | fuel + 1, rem + 1 =>
    Reader.bind u32 fun sz => Reader.bind (guard (decide (sz ≤ rem + 1))) fun _ =>
    Reader.bind (repeatN (point tsz dim) sz) fun pts =>
    Reader.bind (levelsLoop tsz dim fuel (rem + 1 - sz)) fun rest => Reader.pure (pts :: rest)

def decodeBody (tsz k dim : Nat) (empty : Bool) : Reader Img :=
  if empty then Reader.pure { k := k, dim := dim, body := none }
  else Reader.bind u32 fun nr => Reader.bind (guard (decide (0 < nr))) fun _ => Reader.bind u64 fun n =>
    Reader.bind (levelsLoop tsz dim maxLevels nr) fun lv =>
    Reader.pure { k := k, dim := dim, body := some { numRetained := nr, n := n, levels := lv } }

def isEmptyFlag (c : Consts) (flags : Nat) : Bool := flags / 2 ^ c.emptyBit % 2 == 1

def decode (c : Consts) (tsz : Nat) : Reader Img :=
  Reader.bind u8 fun pre => Reader.bind u8 fun ver => Reader.bind u8 fun fam => Reader.bind u8 fun flags =>
  Reader.bind (guard (ver == c.serVer)) fun _ => Reader.bind (guard (fam == c.familyId)) fun _ =>
  Reader.bind (guard (pre == (if isEmptyFlag c flags then c.preShort else c.preLong))) fun _ =>
  Reader.bind u16 fun k => Reader.bind (skip 2) fun _ => Reader.bind u32 fun dim =>
  decodeBody tsz k dim (isEmptyFlag c flags)

def levelsSize (tsz dim : Nat) : List Level → Nat
  | [] => 0
  | l :: t => 4 + l.length * (dim * tsz) + levelsSize tsz dim t

def serializedSize (tsz : Nat) (s : Img) : Nat :=
  match s.body with
  | none => 12
  | some b => 24 + levelsSize tsz s.dim b.levels

/-! ### what the API reports -/

def pointsOf (tsz : Nat) : Nat → List Level → List String
  | _, [] => []
  | h, l :: t => l.map (fun p => s!"{2 ^ h}:" ++ ",".intercalate (p.map (hexN (2 * tsz)))) ++ pointsOf tsz (h + 1) t

/-- get_k, get_dim, get_n, get_num_retained, is_empty, is_estimation_mode and the (point, weight) pairs the
iterator yields (level order, image order inside a level, weight 2^level) -/
def project (tsz : Nat) (s : Img) : String :=
  match s.body with
  | none => s!"k={s.k} dim={s.dim} n=0 nr=0 empty=1 est=0 pts="
  | some b =>
    s!"k={s.k} dim={s.dim} n={b.n} nr={b.numRetained} empty=0 est={boolStr (decide (1 < b.levels.length))} pts=" ++
      " ".intercalate (pointsOf tsz 0 b.levels)

end DS.Wire.Density

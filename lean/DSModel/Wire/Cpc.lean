/-
CPC sketch image (family 16, serial version 1), as written by cpc_sketch_impl.hpp `serialize` and documented by its
field order (all fields little-endian):

  byte 0 preamble ints · 1 serial version · 2 family id · 3 lg_k · 4 first interesting column · 5 flags
       (bit 0 big-endian (never set), 1 compressed (always set), 2 has-HIP, 3 has-table, 4 has-window) · 6..7 seed hash u16
  only if has-table or has-window (i.e. the sketch is not empty):
       num_coupons u32
       if table AND window: table_num_entries u32, then (if HIP) kxp f64, hip_accum f64
       if table:  table_data_words u32
       if window: window_data_words u32
       if HIP and not (table AND window): kxp f64, hip_accum f64
       window words (u32 each), then table words (u32 each)      -- the compressed payload (DSModel/Cpc/Compress.lean)
  preamble ints = 2 (+1 coupons, +4 HIP, +1 table (+1 if also window), +1 window) for a non-empty sketch, 2 for an empty one.

The image state `Image` is exactly what the image stores: the raw fields and the two word arrays.  What the words mean
(surprising values, window bytes) is `DSModel/Wire/CpcContent.lean`.  `decode` is built only from the Reader combinators.
All constants are parameters (`Consts`), instantiated from the CURRENT headers by the translator (`DSGen.WireCpc`)
and pinned to the documented values by C10.  Core Lean only.
-/
import DSModel.Wire.Reader
namespace DS.Wire.Cpc
open DS.Wire

structure Consts where
  familyId : Nat
  serVer : Nat
  flagBigEndian : Nat
  flagCompressed : Nat
  flagHip : Nat
  flagTable : Nat
  flagWindow : Nat
  preBase : Nat       -- get_preamble_ints: starting value
  preCoupons : Nat    -- + for a non-empty sketch
  preHip : Nat        -- + if has_hip
  preTable : Nat      -- + if has_table
  preBoth : Nat       -- + if has_table and has_window
  preWindow : Nat     -- + if has_window
  deriving Repr, DecidableEq

/-- the documented contract -/
def documented : Consts :=
  { familyId := 16, serVer := 1, flagBigEndian := 0, flagCompressed := 1, flagHip := 2, flagTable := 3, flagWindow := 4,
    preBase := 2, preCoupons := 1, preHip := 4, preTable := 1, preBoth := 1, preWindow := 1 }

/-- `get_preamble_ints(num_coupons, has_hip, has_table, has_window)` -/
def preInts (c : Consts) (coupons : Nat) (hip table window : Bool) : Nat :=
  if coupons = 0 then c.preBase else
  c.preBase + c.preCoupons + (if hip then c.preHip else 0) +
    (if table then c.preTable + (if window then c.preBoth else 0) else 0) + (if window then c.preWindow else 0)

def flagsByte (c : Consts) (hip table window : Bool) : Nat :=
  2 ^ c.flagCompressed + (if hip then 2 ^ c.flagHip else 0) + (if table then 2 ^ c.flagTable else 0)
    + (if window then 2 ^ c.flagWindow else 0)

def testFlag (flags bit : Nat) : Bool := (flags / 2 ^ bit) % 2 == 1

/-- the flags byte fits a byte and its three content bits read back, for all eight combinations -/
def Consts.flagsOk (c : Consts) : Bool :=
  [false, true].all fun h => [false, true].all fun t => [false, true].all fun w =>
    decide (flagsByte c h t w < 256) && (testFlag (flagsByte c h t w) c.flagHip == h) &&
    (testFlag (flagsByte c h t w) c.flagTable == t) && (testFlag (flagsByte c h t w) c.flagWindow == w)

/-- side conditions under which the layout round-trips (decidable; discharged by `decide` for the generated constants) -/
def Consts.ok (c : Consts) : Prop :=
  c.familyId < 256 ∧ c.serVer < 256 ∧ c.flagsOk = true ∧
  c.preBase + c.preCoupons + c.preHip + c.preTable + c.preBoth + c.preWindow < 256
instance (c : Consts) : Decidable c.ok := by unfold Consts.ok; infer_instance

/-- exactly what the image stores -/
structure Image where
  lgK : Nat
  fic : Nat
  seedHash : Nat
  hasHip : Bool
  hasTable : Bool
  hasWindow : Bool
  coupons : Nat          -- stored iff table or window
  numEntries : Nat       -- stored iff table and window
  kxp : Nat              -- bit patterns, stored iff HIP and (table or window)
  hip : Nat
  windowWords : List Nat -- stored iff window
  tableWords : List Nat  -- stored iff table
  deriving Repr, DecidableEq

def WF (s : Image) : Prop :=
  s.lgK < 2 ^ 8 ∧ s.fic < 2 ^ 8 ∧ s.seedHash < 2 ^ 16 ∧ s.coupons < 2 ^ 32 ∧ s.numEntries < 2 ^ 32 ∧
  s.kxp < 2 ^ 64 ∧ s.hip < 2 ^ 64 ∧ s.windowWords.length < 2 ^ 32 ∧ s.tableWords.length < 2 ^ 32 ∧
  (∀ w ∈ s.windowWords, w < 2 ^ 32) ∧ (∀ w ∈ s.tableWords, w < 2 ^ 32) ∧
  -- fields that are not stored hold their default
  (s.hasTable = false → s.tableWords = []) ∧ (s.hasWindow = false → s.windowWords = []) ∧
  ((s.hasTable && s.hasWindow) = false → s.numEntries = 0) ∧
  ((s.hasTable || s.hasWindow) = false → s.coupons = 0) ∧ ((s.hasTable || s.hasWindow) = true → s.coupons ≠ 0) ∧
  ((s.hasHip && (s.hasTable || s.hasWindow)) = false → s.kxp = 0 ∧ s.hip = 0)
instance (s : Image) : Decidable (WF s) := by unfold WF; infer_instance

def encWords (ws : List Nat) : Bytes := ws.flatMap w32

def encHip (s : Image) : Bytes := w64 s.kxp ++ w64 s.hip

def encBody (s : Image) : Bytes :=
  if s.hasTable || s.hasWindow then
    w32 s.coupons ++
    ((if s.hasTable && s.hasWindow then w32 s.numEntries ++ (if s.hasHip then encHip s else []) else []) ++
    ((if s.hasTable then w32 s.tableWords.length else []) ++
    ((if s.hasWindow then w32 s.windowWords.length else []) ++
    ((if s.hasHip && !(s.hasTable && s.hasWindow) then encHip s else []) ++
    (encWords s.windowWords ++ encWords s.tableWords)))))
  else []

def encode (c : Consts) (s : Image) : Bytes :=
  w8 (preInts c s.coupons s.hasHip s.hasTable s.hasWindow) ++ (w8 c.serVer ++ (w8 c.familyId ++ (w8 s.lgK ++ (w8 s.fic ++
  (w8 (flagsByte c s.hasHip s.hasTable s.hasWindow) ++ (w16 s.seedHash ++ encBody s))))))

def decHip (present : Bool) : Reader (Nat × Nat) :=
  if present then Reader.bind u64 (fun k => Reader.bind u64 (fun h => Reader.pure (k, h))) else Reader.pure (0, 0)

def decOpt32 (present : Bool) : Reader Nat := if present then u32 else Reader.pure 0

/-- the variable part: (coupons, numEntries, kxp, hip, window words, table words) -/
def decBody (hip table window : Bool) : Reader (Nat × Nat × Nat × Nat × List Nat × List Nat) :=
  if table || window then
    Reader.bind u32 (fun coupons =>
    Reader.bind (decOpt32 (table && window)) (fun ne =>
    Reader.bind (decHip (hip && (table && window))) (fun kh1 =>
    Reader.bind (decOpt32 table) (fun tw =>
    Reader.bind (decOpt32 window) (fun ww =>
    Reader.bind (decHip (hip && !(table && window))) (fun kh2 =>
    Reader.bind (repeatN u32 ww) (fun wwords =>
    Reader.bind (repeatN u32 tw) (fun twords =>
    Reader.pure (coupons, ne, kh1.1 + kh2.1, kh1.2 + kh2.2, wwords, twords)))))))))
  else Reader.pure (0, 0, 0, 0, [], [])

/-- the reader written from the documentation -/
def decode (c : Consts) : Reader Image :=
  Reader.bind u8 (fun pre =>
  Reader.bind u8 (fun sv => Reader.bind (guard (sv == c.serVer)) (fun _ =>
  Reader.bind u8 (fun fam => Reader.bind (guard (fam == c.familyId)) (fun _ =>
  Reader.bind u8 (fun lgK =>
  Reader.bind u8 (fun fic =>
  Reader.bind u8 (fun flags =>
  Reader.bind (guard (flags == flagsByte c (testFlag flags c.flagHip) (testFlag flags c.flagTable) (testFlag flags c.flagWindow))) (fun _ =>
  Reader.bind u16 (fun sh =>
  Reader.bind (decBody (testFlag flags c.flagHip) (testFlag flags c.flagTable) (testFlag flags c.flagWindow)) (fun b =>
  Reader.bind (guard (pre == preInts c b.1 (testFlag flags c.flagHip) (testFlag flags c.flagTable) (testFlag flags c.flagWindow))) (fun _ =>
  Reader.pure { lgK := lgK, fic := fic, seedHash := sh, hasHip := testFlag flags c.flagHip, hasTable := testFlag flags c.flagTable,
                hasWindow := testFlag flags c.flagWindow, coupons := b.1, numEntries := b.2.1, kxp := b.2.2.1, hip := b.2.2.2.1,
                windowWords := b.2.2.2.2.1, tableWords := b.2.2.2.2.2 }))))))))))))

/-- the preamble-int increments count exactly the 4-byte fields the layout writes (decidable; holds for the documented values) -/
def Consts.sizeOk (c : Consts) : Prop :=
  c.preBase = 2 ∧ c.preCoupons = 1 ∧ c.preHip = 4 ∧ c.preTable = 1 ∧ c.preBoth = 1 ∧ c.preWindow = 1
instance (c : Consts) : Decidable c.sizeOk := by unfold Consts.sizeOk; infer_instance

/-- `preamble_ints + table words + window words`, in bytes -/
def serializedSize (c : Consts) (s : Image) : Nat :=
  4 * (preInts c s.coupons s.hasHip s.hasTable s.hasWindow + s.tableWords.length + s.windowWords.length)

/-- number of variable-size elements of an image (for `decode_bounded`) -/
def count (s : Image) : Nat := s.windowWords.length + s.tableWords.length

/-- field start offsets (names the region a truncation / corruption falls into) -/
def layout (s : Image) : List (String × Nat) :=
  let both := s.hasTable && s.hasWindow
  let any := s.hasTable || s.hasWindow
  let o0 := 8
  let oNe := o0 + (if any then 4 else 0)
  let oHip1 := oNe + (if both then 4 else 0)
  let oTw := oHip1 + (if s.hasHip && both then 16 else 0)
  let oWw := oTw + (if s.hasTable then 4 else 0)
  let oHip2 := oWw + (if s.hasWindow then 4 else 0)
  let oWin := oHip2 + (if s.hasHip && any && !both then 16 else 0)
  let oTab := oWin + 4 * s.windowWords.length
  [("pre_ints", 0), ("ser_ver", 1), ("family", 2), ("lg_k", 3), ("fic", 4), ("flags", 5), ("seed_hash", 6)] ++
  (if any then [("num_coupons", o0)] else []) ++ (if both then [("num_entries", oNe)] else []) ++
  (if s.hasHip && both then [("hip", oHip1)] else []) ++ (if s.hasTable then [("table_words", oTw)] else []) ++
  (if s.hasWindow then [("window_words", oWw)] else []) ++ (if s.hasHip && any && !both then [("hip", oHip2)] else []) ++
  (if s.windowWords.isEmpty then [] else [("window_data", oWin)]) ++ (if s.tableWords.isEmpty then [] else [("table_data", oTab)])

end DS.Wire.Cpc

/-
Item serdes of the quantile families (KLL, REQ, classic quantiles) as read from common/include/serde.hpp:
  * arithmetic types (float, double, int64): the raw `sizeof(T)` little-endian bytes of the value,
  * std::string: `u32 length` (little-endian) followed by `length` bytes.
An item is modelled by its raw payload bytes (`Item`); the serde adds/removes the framing.
Also the canonical "API content" line shared by the three families (`Content.line`) and the per-type
item orders (needed where the reader derives min/max by comparison: REQ exact mode).
Core Lean only.
-/
import DSModel.Wire.Reader
import DSModel.Util
namespace DS.Wire
open Reader

abbrev Item := Bytes

structure Serde where
  enc : Item → Bytes
  dec : Reader Item
  wf : Item → Bool

/-- arithmetic item of `n` bytes: raw bytes -/
def Serde.fixed (n : Nat) : Serde :=
  { enc := fun x => x, dec := bytesN n, wf := fun x => x.length == n }

/-- std::string: u32 length prefix + bytes -/
def Serde.lpString : Serde :=
  { enc := fun x => w32 x.length ++ x
    dec := Reader.bind u32 (fun n => bytesN n)
    wf := fun x => decide (x.length < 2 ^ 32) }

/-- concatenated encodings of a list -/
def encList {α : Type} (e : α → Bytes) : List α → Bytes
  | [] => []
  | x :: t => e x ++ encList e t

def encItems (sd : Serde) (l : List Item) : Bytes := encList sd.enc l

def allWf (sd : Serde) (l : List Item) : Bool := l.all sd.wf

def sizeItems (sd : Serde) (l : List Item) : Nat := (encItems sd l).length

/-! ### item types of the harness -/

inductive ItemType where
  | f32 | f64 | i64 | str
  deriving DecidableEq, Repr

def ItemType.ofString : String → Option ItemType
  | "f32" => some .f32
  | "f64" => some .f64
  | "i64" => some .i64
  | "str" => some .str
  | _ => none

def ItemType.serde : ItemType → Serde
  | .f32 => Serde.fixed 4
  | .f64 => Serde.fixed 8
  | .i64 => Serde.fixed 8
  | .str => Serde.lpString

/-- little-endian value of a byte string -/
def leVal : Bytes → Nat
  | [] => 0
  | x :: t => x.toNat + 256 * leVal t

def bytesLt : Bytes → Bytes → Bool
  | [], [] => false
  | [], _ :: _ => true
  | _ :: _, [] => false
  | x :: s, y :: t => if x < y then true else if y < x then false else bytesLt s t

def i64Val (b : Bytes) : Int :=
  let v := leVal b
  if v < 2 ^ 63 then (v : Int) else (v : Int) - (2 ^ 64 : Int)

/-- `std::less<T>` on the raw payloads (float compares are IEEE: false when either side is NaN) -/
def ItemType.lt : ItemType → Item → Item → Bool
  | .f32, a, b => decide (Float32.ofBits (UInt32.ofNat (leVal a)) < Float32.ofBits (UInt32.ofNat (leVal b)))
  | .f64, a, b => decide (Float.ofBits (UInt64.ofNat (leVal a)) < Float.ofBits (UInt64.ofNat (leVal b)))
  | .i64, a, b => decide (i64Val a < i64Val b)
  | .str, a, b => bytesLt a b

/-- first minimal element as the C++ scan `if (comp(*it, *min_it)) min_it = it` finds it -/
def scanMin (ty : ItemType) : List Item → Option Item
  | [] => none
  | x :: t => some (t.foldl (fun m y => if ty.lt y m then y else m) x)

def scanMax (ty : ItemType) : List Item → Option Item
  | [] => none
  | x :: t => some (t.foldl (fun m y => if ty.lt m y then y else m) x)

/-! ### canonical API content -/

structure Content where
  n : Nat
  k : Nat
  est : Bool
  hra : Option Bool := none
  min : Option Item := none
  max : Option Item := none
  items : List (Item × Nat) := []
  extra : String := ""

def itemHex (x : Item) : String := listBytesHex x

def optItemHex : Option Item → String
  | none => "none"
  | some x => itemHex x

/-- min / max are determined only up to the comparator's equivalence: for floating types -0.0 prints as +0.0 -/
def canonExtreme (ty : ItemType) (x : Item) : Item :=
  match ty with
  | .f32 => if x == [0, 0, 0, 0x80] then [0, 0, 0, 0] else x
  | .f64 => if x == [0, 0, 0, 0, 0, 0, 0, 0x80] then [0, 0, 0, 0, 0, 0, 0, 0] else x
  | _ => x

def Content.canon (ty : ItemType) (c : Content) : Content :=
  { c with min := c.min.map (canonExtreme ty), max := c.max.map (canonExtreme ty) }

def Content.line (c : Content) : String :=
  let its := if c.items.isEmpty then "none"
             else ",".intercalate (c.items.map (fun p => itemHex p.1 ++ ":" ++ toString p.2))
  "n=" ++ toString c.n ++ " k=" ++ toString c.k ++ " est=" ++ boolStr c.est ++
  (match c.hra with | none => "" | some h => " hra=" ++ boolStr h) ++
  " min=" ++ optItemHex c.min ++ " max=" ++ optItemHex c.max ++ c.extra ++ " items=" ++ its

/-- field map of an image: (name, byte length) in stream order; used to pick the structural bytes to corrupt -/
abbrev Fields := List (String × Nat)

def itemFields (sd : Serde) (isStr : Bool) (name : String) (x : Item) : Fields :=
  if isStr then [(name ++ ".len", 4), (name, x.length)] else [(name, (sd.enc x).length)]

def fieldsLine (f : Fields) : String :=
  let rec go (off : Nat) : Fields → List String
    | [] => []
    | (nm, len) :: t => (if len == 0 then [] else [nm ++ "@" ++ toString off ++ "+" ++ toString len]) ++ go (off + len) t
  " ".intercalate (go 0 f)

end DS.Wire

/-
What the t-digest API reports for a decoded image (executed only, never reasoned about).  `project`:
k, total weight, is_empty, min, max, the centroids (mean, weight) and the buffered values — deliberately
NOT the rank/quantile estimates, so that a repair of an estimator in the C++ does not disturb the wire tie.
`Float`/`Float32` are used only for the conversions the reader of the big-endian reference formats performs
(double/float → T, weight → W, compression → uint16).  Core Lean only.
-/
import DSModel.Wire.TDigest
import DSModel.Util
namespace DS.Wire.TDigest

/-- conversions between the value type T (bit patterns) and double -/
structure TOps where
  tsz : Nat
  wsz : Nat
  toF : Nat → Float
  ofF : Float → Nat

def f64 (b : Nat) : Float := Float.ofBits (UInt64.ofNat b)
def f32 (b : Nat) : Float32 := Float32.ofBits (UInt32.ofNat b)

def opsD : TOps :=
  { tsz := 8, wsz := 8, toF := f64, ofF := fun x => x.toBits.toNat }

def opsF : TOps :=
  { tsz := 4, wsz := 4, toF := fun b => (f32 b).toFloat, ofF := fun x => x.toFloat32.toBits.toNat }

/-- what the image determines: k, min, max (T bits), centroids (mean T bits, weight), buffered values -/
structure Api where
  k : Nat
  mn : Nat
  mx : Nat
  cs : Array (Nat × Nat)
  buf : Array Nat

def Api.totalW (a : Api) : Nat := a.cs.foldl (fun s c => s + c.2) 0 + a.buf.size

def hexT (o : TOps) (b : Nat) : String := hexN (2 * o.tsz) b

def apiLine (o : TOps) (a : Api) : String :=
  let w := a.totalW
  if w == 0 then s!"k={a.k} w=0 empty=1 min=- max=- C 0 B 0"
  else
    s!"k={a.k} w={w} empty=0 min={hexT o a.mn} max={hexT o a.mx} C {a.cs.size}" ++
      a.cs.foldl (fun s c => s ++ s!" {hexT o c.1}:{c.2}") "" ++ s!" B {a.buf.size}" ++
      a.buf.foldl (fun s v => s ++ s!" {hexT o v}") ""

def apiOfImg (s : Img) : Api :=
  match s.body with
  | .empty => { k := s.k, mn := 0, mx := 0, cs := #[], buf := #[] }
  | .single v => { k := s.k, mn := v, mx := v, cs := #[(v, 1)], buf := #[] }
  | .multi mn mx cents buf => { k := s.k, mn := mn, mx := mx, cs := cents.toArray, buf := buf.toArray }

/-- what `tdigest<T>::deserialize` makes of a reference-format image (conversions double/float → T, W, uint16) -/
def apiOfLegacy (o : TOps) : Legacy → Api
  | .big mn mx comp cents =>
    { k := (f64 comp).toUInt16.toNat, mn := o.ofF (f64 mn), mx := o.ofF (f64 mx), buf := #[],
      cs := (cents.map fun p => (o.ofF (f64 p.2),
        if o.wsz == 8 then (f64 p.1).toUInt64.toNat else (f64 p.1).toUInt32.toNat)).toArray }
  | .small mn mx comp _ _ cents =>
    { k := (f32 comp).toUInt16.toNat, mn := o.ofF (f64 mn), mx := o.ofF (f64 mx), buf := #[],
      cs := (cents.map fun p => (o.ofF (f32 p.2).toFloat,
        if o.wsz == 8 then (f32 p.1).toUInt64.toNat else (f32 p.1).toUInt32.toNat)).toArray }

def project (o : TOps) (s : Img) : String := apiLine o (apiOfImg s)
def projectLegacy (o : TOps) (l : Legacy) : String := apiLine o (apiOfLegacy o l)

end DS.Wire.TDigest

/-
What the t-digest API reports for a decoded image (executed only, never reasoned about: Lean `Float` /
`Float32` are IEEE binary64/32 and the operations are applied in the order of tdigest_impl.hpp
`get_rank` / `get_quantile`).  Used by `project`: k, total weight, is_empty, min, max and — when the
image holds no buffered values (so that the query does not first run a merge pass) — get_rank at nine
probe points spanning [min, max] and get_quantile at seven probe ranks.
Core Lean only.
-/
import DSModel.Wire.TDigest
import DSModel.Util
namespace DS.Wire.TDigest

/-- arithmetic of the value type T on bit patterns -/
structure TOps where
  tsz : Nat
  wsz : Nat
  toF : Nat → Float
  sub : Nat → Nat → Nat
  div : Nat → Nat → Nat
  ofF : Float → Nat

def f64 (b : Nat) : Float := Float.ofBits (UInt64.ofNat b)
def f32 (b : Nat) : Float32 := Float32.ofBits (UInt32.ofNat b)

def opsD : TOps :=
  { tsz := 8, wsz := 8, toF := f64,
    sub := fun a b => (f64 a - f64 b).toBits.toNat, div := fun a b => (f64 a / f64 b).toBits.toNat,
    ofF := fun x => x.toBits.toNat }

def opsF : TOps :=
  { tsz := 4, wsz := 4, toF := fun b => (f32 b).toFloat,
    sub := fun a b => (f32 a - f32 b).toBits.toNat, div := fun a b => (f32 a / f32 b).toBits.toNat,
    ofF := fun x => x.toFloat32.toBits.toNat }

/-- the state the queries read: min, max (T bits), centroids (mean T bits, weight) -/
structure Api where
  k : Nat
  mn : Nat
  mx : Nat
  cs : Array (Nat × Nat)
  nbuf : Nat

def Api.totalW (a : Api) : Nat := a.cs.foldl (fun s c => s + c.2) 0 + a.nbuf

def wF (w : Nat) : Float := (UInt64.ofNat w).toFloat

/-- `tdigest::get_rank(value)` for a sketch without buffered values -/
def getRank (o : TOps) (a : Api) (v : Nat) : Float := Id.run do
  let f := o.toF
  let cs := a.cs
  let W := wF (cs.foldl (fun s c => s + c.2) 0)
  if f v < f a.mn then return 0
  if f v > f a.mx then return 1
  if cs.size == 1 then return 0.5
  let first := cs[0]!
  let last := cs[cs.size - 1]!
  if f v < f first.1 then
    if f (o.sub first.1 a.mn) > 0 then
      if f v == f a.mn then return 0.5 / W
      return 1.0 + f (o.div (o.sub v a.mn) (o.sub first.1 a.mn)) * (wF first.2 / 2.0 - 1.0)
    return 0
  if f v > f last.1 then
    if f (o.sub a.mx last.1) > 0 then
      if f v == f a.mx then return 1.0 - 0.5 / W
      return 1.0 - ((1.0 + f (o.div (o.sub a.mx v) (o.sub a.mx last.1)) * (wF last.2 / 2.0 - 1.0)) / W)
    return 1
  -- lower_bound / upper_bound on the means
  let mut lower := cs.size
  for i in [0:cs.size] do
    if lower == cs.size && !(f cs[i]!.1 < f v) then lower := i
  let mut upper := cs.size
  for i in [lower:cs.size] do
    if upper == cs.size && f v < f cs[i]!.1 then upper := i
  if f v < f cs[lower]!.1 then lower := lower - 1
  if upper == cs.size || !(f cs[upper - 1]!.1 < f v) then upper := upper - 1
  let mut wb : Float := 0
  for i in [0:lower] do wb := wb + wF cs[i]!.2
  wb := wb + wF cs[lower]!.2 / 2.0
  let mut wd : Float := 0
  for i in [lower:upper] do wd := wd + wF cs[i]!.2
  wd := wd - wF cs[lower]!.2 / 2.0
  wd := wd + wF cs[upper]!.2 / 2.0
  let lm := cs[lower]!.1
  let um := cs[upper]!.1
  if f (o.sub um lm) > 0 then
    return (wb + wd * f (o.sub v lm) / f (o.sub um lm)) / W
  return (wb + wd / 2.0) / W

/-- `tdigest::get_quantile(rank)` for a sketch without buffered values (returns T bits) -/
def getQuantile (o : TOps) (a : Api) (rank : Float) : Nat := Id.run do
  let f := o.toF
  let cs := a.cs
  let Wn := cs.foldl (fun s c => s + c.2) 0
  let W := wF Wn
  if cs.size == 1 then return cs[0]!.1
  let weight := rank * W
  if weight < 1 then return a.mn
  if weight > W - 1.0 then return a.mx
  let first := cs[0]!
  let last := cs[cs.size - 1]!
  let fw := wF first.2
  if fw > 1 && weight < fw / 2.0 then
    return o.ofF (f a.mn + (weight - 1.0) / (fw / 2.0 - 1.0) * f (o.sub first.1 a.mn))
  let lw := wF last.2
  if lw > 1 && W - weight <= lw / 2.0 then
    return o.ofF (f a.mx + (W - weight - 1.0) / (lw / 2.0 - 1.0) * f (o.sub a.mx last.1))
  let mut wsf := fw / 2.0
  for i in [0:cs.size - 1] do
    let ci := cs[i]!
    let cj := cs[i + 1]!
    let dw := wF ((ci.2 + cj.2) % 256 ^ o.wsz) / 2.0
    if wsf + dw > weight then
      let mut lwt : Float := 0
      if ci.2 == 1 then
        if weight - wsf < 0.5 then return ci.1
        lwt := 0.5
      let mut rwt : Float := 0
      if cj.2 == 1 then
        if wsf + dw - weight <= 0.5 then return cj.1
        rwt := 0.5
      let w1 := weight - wsf - lwt
      let w2 := wsf + dw - weight - rwt
      return o.ofF ((f ci.1 * w1 + f cj.1 * w2) / (w1 + w2))
    wsf := wsf + dw
  let w1 := weight - W - lw / 2.0
  let w2 := lw / 2.0 - w1
  return o.ofF ((lw * w1 + f a.mx * w2) / (w1 + w2))

def probeRanks : List Float := [0.0, 0.015625, 0.25, 0.5, 0.75, 0.984375, 1.0]

/-- nine probe points min + (max - min)·j/8 (computed in double, cast to T) -/
def probePoints (o : TOps) (a : Api) : List Nat :=
  (List.range 9).map fun j => o.ofF (o.toF a.mn + (o.toF a.mx - o.toF a.mn) * (j.toFloat / 8.0))

def hexT (o : TOps) (b : Nat) : String := hexN (2 * o.tsz) b

def apiLine (o : TOps) (a : Api) : String :=
  let w := a.totalW
  if w == 0 then s!"k={a.k} w=0 empty=1 min=- max=- R - Q -"
  else
    let head := s!"k={a.k} w={w} empty=0 min={hexT o a.mn} max={hexT o a.mx}"
    if a.nbuf > 0 || a.cs.size == 0 then head ++ " R - Q -"
    else
      head ++ " R " ++ joinSp ((probePoints o a).map fun x => hexF (getRank o a x)) ++
        " Q " ++ joinSp (probeRanks.map fun r => hexT o (getQuantile o a r))

def apiOfImg (s : Img) : Api :=
  match s.body with
  | .empty => { k := s.k, mn := 0, mx := 0, cs := #[], nbuf := 0 }
  | .single v => { k := s.k, mn := v, mx := v, cs := #[(v, 1)], nbuf := 0 }
  | .multi mn mx cents buf => { k := s.k, mn := mn, mx := mx, cs := cents.toArray, nbuf := buf.length }

/-- what `tdigest<T>::deserialize` makes of a reference-format image (conversions double/float → T, W, uint16) -/
def apiOfLegacy (o : TOps) : Legacy → Api
  | .big mn mx comp cents =>
    { k := (f64 comp).toUInt16.toNat, mn := o.ofF (f64 mn), mx := o.ofF (f64 mx), nbuf := 0,
      cs := (cents.map fun p => (o.ofF (f64 p.2),
        if o.wsz == 8 then (f64 p.1).toUInt64.toNat else (f64 p.1).toUInt32.toNat)).toArray }
  | .small mn mx comp _ _ cents =>
    { k := (f32 comp).toUInt16.toNat, mn := o.ofF (f64 mn), mx := o.ofF (f64 mx), nbuf := 0,
      cs := (cents.map fun p => (o.ofF (f32 p.2).toFloat,
        if o.wsz == 8 then (f32 p.1).toUInt64.toNat else (f32 p.1).toUInt32.toNat)).toArray }

def project (o : TOps) (s : Img) : String := apiLine o (apiOfImg s)
def projectLegacy (o : TOps) (l : Legacy) : String := apiLine o (apiOfLegacy o l)

end DS.Wire.TDigest

/- Ops-only numeric class for the estimator / confidence-bound models (C06). Core Lean only.

The model functions are written ONCE over `BNum α`:
 * the driver instantiates `α := Float` (IEEE binary64, operations in the code's order, literals given by their
   bit patterns) and is compared bit for bit with the real headers;
 * the theorems (DSProofs) instantiate `α := K`, an arbitrary linearly ordered field with `sqrt/log/floor/ceil/pow`
   supplied as functions with the stated properties (instantiable with ℝ), literals by their exact rational value.

A literal is a triple `(bits, num, den)`: exact value num/den, `bits` its correctly rounded binary64 pattern
(that the two agree is a kernel-checked obligation: DSProofs/Gen/BoundsBits.lean). -/
namespace DS.Bounds

abbrev Lit := Nat × Int × Nat

class BNum (α : Type) extends Add α, Sub α, Mul α, Div α, Neg α, LT α, LE α where
  decLt : ∀ a b : α, Decidable (a < b)
  decLe : ∀ a b : α, Decidable (a ≤ b)
  /-- C++ `==` on doubles -/
  eqb : α → α → Bool
  /-- `static_cast<double>(unsigned integer)` -/
  ofNat : Nat → α
  lit : Lit → α
  sqrt : α → α
  log : α → α
  floor : α → α
  ceil : α → α
  /-- `std::pow(double, double)` -/
  pow : α → α → α
  /-- C `fmax` -/
  fmax : α → α → α

instance {α} [BNum α] (a b : α) : Decidable (a < b) := BNum.decLt a b
instance {α} [BNum α] (a b : α) : Decidable (a ≤ b) := BNum.decLe a b

export BNum (sqrt log floor ceil fmax)

def natToFloat (n : Nat) : Float :=
  if n < 18446744073709551616 then (UInt64.ofNat n).toFloat else Float.ofNat n

def floatFmax (a b : Float) : Float :=
  if a.isNaN then b else if b.isNaN then a else if a < b then b else a

instance : BNum Float where
  decLt a b := inferInstanceAs (Decidable (a < b))
  decLe a b := inferInstanceAs (Decidable (a ≤ b))
  eqb a b := a == b
  ofNat := natToFloat
  lit t := Float.ofBits (UInt64.ofNat t.1)
  sqrt := Float.sqrt
  log := Float.log
  floor := Float.floor
  ceil := Float.ceil
  pow := Float.pow
  fmax := floatFmax

section
variable {α : Type} [BNum α]

/-- `std::min(a, b)` = `(b < a) ? b : a` -/
def stdMin (a b : α) : α := if b < a then b else a
/-- `std::max(a, b)` = `(a < b) ? b : a` -/
def stdMax (a b : α) : α := if a < b then b else a

def nat (n : Nat) : α := BNum.ofNat n
def lit (t : Lit) : α := BNum.lit t

/-- table lookup with the literal 0 as out-of-range value (never reached for valid arguments) -/
def tget (t : List Lit) (i : Nat) : α := lit (t.getD i (0, 0, 1))
end

/-! Literals that appear in function bodies of the C++ (not in tables). `bodyLits` lists all of them for the
    kernel-checked obligation `bits = rn64 (num/den)`. -/
def c0 : Lit := (0x0000000000000000, 0, 1)
def c0_5 : Lit := (0x3fe0000000000000, 1, 2)
def c1 : Lit := (0x3ff0000000000000, 1, 1)
def c2 : Lit := (0x4000000000000000, 2, 1)
def c4 : Lit := (0x4010000000000000, 4, 1)
def c360 : Lit := (0x4076800000000000, 360, 1)
def c500 : Lit := (0x407f400000000000, 500, 1)
def c1em5 : Lit := (0x3ee4f8b588e368f1, 1, 100000)
def c1em100 : Lit := (0x2b2bff2ee48e0530, 1, 10^100)
-- HLL
def c0_64 : Lit := (0x3fe47ae147ae147b, 64, 100)
def c0_718 : Lit := (0x3fe6f9db22d0e560, 718, 1000)
def c0_672 : Lit := (0x3fe5810624dd2f1b, 672, 1000)
def c0_673 : Lit := (0x3fe589374bc6a7f0, 673, 1000)
def c0_697 : Lit := (0x3fe64dd2f1a9fbe7, 697, 1000)
def c0_709 : Lit := (0x3fe6b020c49ba5e3, 709, 1000)
def c0_7213 : Lit := (0x3fe714e3bcd35a86, 7213, 10000)
def c1_079 : Lit := (0x3ff14395810624dd, 1079, 1000)
def c12 : Lit := (0x4028000000000000, 12, 1)
def c120 : Lit := (0x405e000000000000, 120, 1)
def c252 : Lit := (0x406f800000000000, 252, 1)
def c240 : Lit := (0x406e000000000000, 240, 1)
-- CPC
def c5_7 : Lit := (0x4016cccccccccccd, 57, 10)
def c5_6 : Lit := (0x4016666666666666, 56, 10)
def c66_774757 : Lit := (0x4050b1959e625636, 66774757, 1000000)
def cIconExp : Lit := (0x3fe968a43713bd1f, 7940236163830469, 10000000000000000)
def c10000 : Lit := (0x40c3880000000000, 10000, 1)

def bodyLits : List Lit :=
  [c0, c0_5, c1, c2, c4, c360, c500, c1em5, c1em100, c0_64, c0_718, c0_672, c0_673, c0_697, c0_709, c0_7213, c1_079,
   c12, c120, c252, c240, c5_7, c5_6, c66_774757, cIconExp, c10000]

end DS.Bounds

/- Model of the CPC estimators: icon_estimator.hpp (compute_icon_estimate: polynomial / exponential approximation)
   and cpc_confidence.hpp (the four confidence-bound functions), as functions of (lg_k, num_coupons, hip accumulator,
   was_merged).  Generic over `BNum`; `none` = the C++ throws. -/
import DSModel.Bounds.Num
namespace DS.Bounds

structure CpcTables where
  iconMinLgK : Nat
  iconMaxLgK : Nat
  polyDegree : Nat
  iconCoeff : List Lit
  iconErrorConstant : Lit
  hipErrorConstant : Lit
  iconLowSide : List Nat
  iconHighSide : List Nat
  hipLowSide : List Nat
  hipHighSide : List Nat

structure CpcState (α : Type) where
  lgK : Nat
  numCoupons : Nat
  hip : α
  merged : Bool

section
variable {α : Type} [BNum α]

/-- Horner loop of evaluate_polynomial: coefficients `cs` listed from the highest index down, `total` running -/
def hornerDown (x : α) : List Lit → α → α
  | [], total => total
  | c :: cs, total => hornerDown x cs (total * x + lit c)

/-- evaluate_polynomial(coefficients, start, num, x) -/
def evaluatePolynomial (coeff : List Lit) (start num : Nat) (x : α) : α :=
  let seg := ((coeff.drop start).take num).reverse      -- coefficients[final], …, coefficients[start]
  match seg with
  | [] => lit c0
  | c :: cs => hornerDown x cs (lit c)

/-- icon_exponential_approximation -/
def iconExponentialApproximation (k c : α) : α := lit cIconExp * k * BNum.pow (lit c2) (c / k)

/-- compute_icon_estimate -/
def iconEstimate (T : CpcTables) (lgK c : Nat) : Option α :=
  if lgK < T.iconMinLgK ∨ lgK > T.iconMaxLgK then none
  else if c < 2 then some (if c = 0 then lit c0 else lit c1)
  else
    let dk : α := nat (2 ^ lgK)
    let dc : α := nat c
    let thr : α := if lgK < 14 then lit c5_7 else lit c5_6
    if dc > thr * dk then some (iconExponentialApproximation dk dc)
    else
      let nc := 1 + T.polyDegree
      let factor := evaluatePolynomial T.iconCoeff (nc * (lgK - T.iconMinLgK)) nc (dc / (lit c2 * dk))
      let ratio := dc / dk
      let term := lit c1 + (ratio * ratio * ratio / lit c66_774757)
      let result := dc * factor * term
      some (if result ≥ dc then result else dc)

/-- cpc_sketch::get_estimate -/
def cpcEstimate (T : CpcTables) (s : CpcState α) : Option α :=
  if !s.merged then some s.hip else iconEstimate T s.lgK s.numCoupons

/-- the relative half-width `kappa * x / sqrt(k)` shared by the four functions -/
def cpcEps (tbl : List Nat) (dflt : Lit) (lgK kappa : Nat) : α :=
  let x : α := if lgK ≤ 14 then nat (tbl.getD (3 * (lgK - 4) + (kappa - 1)) 0) / lit c10000 else lit dflt
  let rel := x / sqrt (nat (2 ^ lgK))
  nat kappa * rel

def kappaOk (kappa : Nat) : Bool := decide (1 ≤ kappa) && decide (kappa ≤ 3)

/-- get_icon_confidence_lb -/
def iconConfidenceLb (T : CpcTables) (s : CpcState α) (kappa : Nat) : Option α :=
  if s.numCoupons = 0 then some (lit c0)
  else if s.lgK < 4 then none
  else if !kappaOk kappa then none
  else
    let eps : α := cpcEps T.iconHighSide T.iconErrorConstant s.lgK kappa
    (iconEstimate T s.lgK s.numCoupons).map fun est =>
      let result := est / (lit c1 + eps)
      let check : α := nat s.numCoupons
      if result < check then check else result

/-- get_icon_confidence_ub -/
def iconConfidenceUb (T : CpcTables) (s : CpcState α) (kappa : Nat) : Option α :=
  if s.numCoupons = 0 then some (lit c0)
  else if s.lgK < 4 then none
  else if !kappaOk kappa then none
  else
    let eps : α := cpcEps T.iconLowSide T.iconErrorConstant s.lgK kappa
    (iconEstimate T s.lgK s.numCoupons).map fun est => ceil (est / (lit c1 - eps))

/-- get_hip_confidence_lb -/
def hipConfidenceLb (T : CpcTables) (s : CpcState α) (kappa : Nat) : Option α :=
  if s.numCoupons = 0 then some (lit c0)
  else if s.lgK < 4 then none
  else if !kappaOk kappa then none
  else
    let eps : α := cpcEps T.hipHighSide T.hipErrorConstant s.lgK kappa
    let result := s.hip / (lit c1 + eps)
    let check : α := nat s.numCoupons
    some (if result < check then check else result)

/-- get_hip_confidence_ub -/
def hipConfidenceUb (T : CpcTables) (s : CpcState α) (kappa : Nat) : Option α :=
  if s.numCoupons = 0 then some (lit c0)
  else if s.lgK < 4 then none
  else if !kappaOk kappa then none
  else
    let eps : α := cpcEps T.hipLowSide T.hipErrorConstant s.lgK kappa
    some (ceil (s.hip / (lit c1 - eps)))

/-- cpc_sketch::get_lower_bound -/
def cpcLowerBound (T : CpcTables) (s : CpcState α) (kappa : Nat) : Option α :=
  if !kappaOk kappa then none
  else if !s.merged then hipConfidenceLb T s kappa else iconConfidenceLb T s kappa

/-- cpc_sketch::get_upper_bound -/
def cpcUpperBound (T : CpcTables) (s : CpcState α) (kappa : Nat) : Option α :=
  if !kappaOk kappa then none
  else if !s.merged then hipConfidenceUb T s kappa else iconConfidenceUb T s kappa

end
end DS.Bounds

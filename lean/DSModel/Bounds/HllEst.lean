/- Model of the HLL estimator / bound functions as functions of the abstract register state:
   HllArray-internal.hpp (getEstimate, getCompositeEstimate, getHllRawEstimate, getHllBitMapEstimate, getLowerBound,
   getUpperBound), HllUtil.hpp getRelErr, RelativeErrorTables, CubicInterpolation, HarmonicNumbers,
   CouponList-internal.hpp (list / set mode estimate and bounds).  Generic over `BNum`; `none` = the C++ throws. -/
import DSModel.Bounds.Num
namespace DS.Bounds

structure HllTables where
  cubicX : List Lit
  cubicY : List Lit
  harmonic : List Lit
  numExactHarmonic : Nat
  euler : Lit
  relErrHipLb : List Lit
  relErrHipUb : List Lit
  relErrNonHipLb : List Lit
  relErrNonHipUb : List Lit
  compositeX : List (List Lit)
  compositeYStrides : List Nat
  minLgK : Nat
  maxLgK : Nat
  hipRse : Lit
  nonHipRse : Lit
  couponRse : Lit

/-- what the estimators read of an HLL-mode sketch -/
structure HllReg (α : Type) where
  lgK : Nat
  curMin : Nat
  numAtCurMin : Nat
  kxq0 : α
  kxq1 : α
  hip : α
  ooo : Bool

section
variable {α : Type} [BNum α]

/-- cubicInterpolate (Lagrange form, operation order of the C++) -/
def cubicInterpolate (x0 y0 x1 y1 x2 y2 x3 y3 x : α) : α :=
  let l0n := (x - x1) * (x - x2) * (x - x3)
  let l1n := (x - x0) * (x - x2) * (x - x3)
  let l2n := (x - x0) * (x - x1) * (x - x3)
  let l3n := (x - x0) * (x - x1) * (x - x2)
  let l0d := (x0 - x1) * (x0 - x2) * (x0 - x3)
  let l1d := (x1 - x0) * (x1 - x2) * (x1 - x3)
  let l2d := (x2 - x0) * (x2 - x1) * (x2 - x3)
  let l3d := (x3 - x0) * (x3 - x1) * (x3 - x2)
  let t0 := y0 * l0n / l0d
  let t1 := y1 * l1n / l1d
  let t2 := y2 * l2n / l2d
  let t3 := y3 * l3n / l3d
  t0 + t1 + t2 + t3

/-- recursiveFindStraddle (fuel = number of halvings allowed) -/
def findStraddleRec (xs : List Lit) (x : α) : Nat → Nat → Nat → Option Nat
  | 0, _, _ => none
  | fuel + 1, l, r =>
    if l ≥ r then none
    else if (tget xs l : α) > x ∨ x ≥ (tget xs r : α) then none
    else if l + 1 = r then some l
    else
      let m := l + (r - l) / 2
      if (tget xs m : α) ≤ x then findStraddleRec xs x fuel m r else findStraddleRec xs x fuel l m

/-- findStraddle -/
def findStraddle (xs : List Lit) (len : Nat) (x : α) : Option Nat :=
  if len < 2 ∨ x < (tget xs 0 : α) ∨ x > (tget xs (len - 1) : α) then none
  else findStraddleRec xs x (len + 2) 0 (len - 1)

def interpXY (xs ys : List Lit) (o : Nat) (x : α) : α :=
  cubicInterpolate (tget xs o) (tget ys o) (tget xs (o + 1)) (tget ys (o + 1))
                   (tget xs (o + 2)) (tget ys (o + 2)) (tget xs (o + 3)) (tget ys (o + 3)) x

/-- CubicInterpolation::usingXAndYTables(x) (coupon-mode estimator) -/
def usingXAndYTables (xs ys : List Lit) (x : α) : Option α :=
  let len := xs.length
  if x < (tget xs 0 : α) ∨ x > (tget xs (len - 1) : α) then none
  else if BNum.eqb x (tget xs (len - 1)) then some (tget ys (len - 1))
  else match findStraddle xs len x with
    | none => none
    | some o =>
      if o = 0 then some (interpXY xs ys o x)
      else if o = len - 2 then some (interpXY xs ys (o - 2) x)
      else some (interpXY xs ys (o - 1) x)

def interpXStride (xs : List Lit) (yStride : α) (o : Nat) (x : α) : α :=
  cubicInterpolate (tget xs o) (yStride * nat o) (tget xs (o + 1)) (yStride * nat (o + 1))
                   (tget xs (o + 2)) (yStride * nat (o + 2)) (tget xs (o + 3)) (yStride * nat (o + 3)) x

/-- CubicInterpolation::usingXArrAndYStride -/
def usingXArrAndYStride (xs : List Lit) (yStride : α) (x : α) : Option α :=
  let len := xs.length
  if len < 4 ∨ x < (tget xs 0 : α) ∨ x > (tget xs (len - 1) : α) then none
  else if BNum.eqb x (tget xs (len - 1)) then some (yStride * nat (len - 1))
  else match findStraddle xs len x with
    | none => none
    | some o =>
      if o > len - 2 then none
      else if o = 0 then some (interpXStride xs yStride o x)
      else if o = len - 2 then some (interpXStride xs yStride (o - 2) x)
      else some (interpXStride xs yStride (o - 1) x)

/-- HarmonicNumbers::harmonicNumber -/
def harmonicNumber (T : HllTables) (n : Nat) : α :=
  if n < T.numExactHarmonic then tget T.harmonic n
  else
    let x : α := nat n
    let invSq : α := lit c1 / (x * x)
    let sum : α := log x + lit T.euler + (lit c1 / (lit c2 * x))
    let pw : α := invSq
    let sum := sum - pw * (lit c1 / lit c12)
    let pw := pw * invSq
    let sum := sum + pw * (lit c1 / lit c120)
    let pw := pw * invSq
    let sum := sum - pw * (lit c1 / lit c252)
    let pw := pw * invSq
    let sum := sum + pw * (lit c1 / lit c240)
    sum

/-- HarmonicNumbers::getBitMapEstimate -/
def bitMapEstimate (T : HllTables) (len numSet : Nat) : α :=
  nat len * (harmonicNumber T len - harmonicNumber T (len - numSet))

/-- HllArray::getHllBitMapEstimate -/
def hllBitMapEstimate (T : HllTables) (s : HllReg α) : α :=
  let k := 2 ^ s.lgK
  let unhit := if s.curMin = 0 then s.numAtCurMin else 0
  if unhit = 0 then nat k * log (nat k / lit c0_5)
  else bitMapEstimate T k (k - unhit)

/-- HllArray::getHllRawEstimate -/
def hllRawEstimate (s : HllReg α) : α :=
  let k : α := nat (2 ^ s.lgK)
  let cf : α :=
    if s.lgK = 4 then lit c0_673 else if s.lgK = 5 then lit c0_697 else if s.lgK = 6 then lit c0_709
    else lit c0_7213 / (lit c1 + (lit c1_079 / k))
  (cf * k * k) / (s.kxq0 + s.kxq1)

/-- HllArray::getCompositeEstimate -/
def hllCompositeEstimate (T : HllTables) (s : HllReg α) : Option α :=
  if s.lgK < T.minLgK ∨ s.lgK > T.maxLgK then none else
  let raw := hllRawEstimate s
  let xs := T.compositeX.getD (s.lgK - T.minLgK) []
  let len := xs.length
  let yStride : α := nat (T.compositeYStrides.getD (s.lgK - T.minLgK) 0)
  if raw < (tget xs 0 : α) then some (nat 0)
  else if raw > (tget xs (len - 1) : α) then
    let finalY : α := yStride * nat (len - 1)
    let factor : α := finalY / tget xs (len - 1)
    some (raw * factor)
  else match usingXArrAndYStride xs yStride raw with
    | none => none
    | some adj =>
      if adj > nat (3 * 2 ^ s.lgK) then some adj
      else
        let lin := hllBitMapEstimate T s
        let avg := (adj + lin) / lit c2
        let cross : α := if s.lgK = 4 then lit c0_718 else if s.lgK = 5 then lit c0_672 else lit c0_64
        some (if avg > cross * nat (2 ^ s.lgK) then adj else lin)

/-- HllArray::getEstimate -/
def hllEstimate (T : HllTables) (s : HllReg α) : Option α :=
  if s.ooo then hllCompositeEstimate T s else some s.hip

/-- HllUtil::getRelErr (RelativeErrorTables::getRelErr for lgK ≤ 12) -/
def hllRelErr (T : HllTables) (upper ooo : Bool) (lgK sd : Nat) : Option α :=
  if lgK < T.minLgK ∨ lgK > T.maxLgK then none
  else if lgK > 12 then
    let rse : α := lit (if ooo then T.nonHipRse else T.hipRse)
    let sgn : α := if upper then -(nat 1) else nat 1
    some (sgn * (nat sd * rse) / sqrt (nat (2 ^ lgK)))
  else
    let idx := (lgK - 4) * 3 + (sd - 1)
    let tbl := match ooo, upper with
      | false, false => T.relErrHipLb
      | false, true => T.relErrHipUb
      | true, false => T.relErrNonHipLb
      | true, true => T.relErrNonHipUb
    some (tget tbl idx)

def sdOk (sd : Nat) : Bool := decide (1 ≤ sd) && decide (sd ≤ 3)

/-- number of non-zero registers as the lower bound sees it -/
def numNonZeros (s : HllReg α) : Nat := if s.curMin = 0 then 2 ^ s.lgK - s.numAtCurMin else 2 ^ s.lgK

/-- HllArray::getLowerBound -/
def hllLowerBound (T : HllTables) (s : HllReg α) (sd : Nat) : Option α :=
  if !sdOk sd then none else
  match hllRelErr T false s.ooo s.lgK sd, hllEstimate T s with
  | some re, some est => some (fmax (est / (lit c1 + re)) (nat (numNonZeros s)))
  | _, _ => none

/-- HllArray::getUpperBound -/
def hllUpperBound (T : HllTables) (s : HllReg α) (sd : Nat) : Option α :=
  if !sdOk sd then none else
  match hllRelErr T true s.ooo s.lgK sd, hllEstimate T s with
  | some re, some est => some (est / (lit c1 + re))
  | _, _ => none

/-! list / set mode (CouponList-internal.hpp; CouponHashSet inherits) -/

/-- CouponList::getEstimate -/
def couponEstimate (T : HllTables) (count : Nat) : Option α :=
  (usingXAndYTables T.cubicX T.cubicY (nat count : α)).map fun est => fmax est (nat count)

/-- CouponList::getLowerBound -/
def couponLowerBound (T : HllTables) (count sd : Nat) : Option α :=
  if !sdOk sd then none else
  (usingXAndYTables T.cubicX T.cubicY (nat count : α)).map fun est =>
    fmax (est / (lit c1 + (nat sd * lit T.couponRse))) (nat count)

/-- CouponList::getUpperBound -/
def couponUpperBound (T : HllTables) (count sd : Nat) : Option α :=
  if !sdOk sd then none else
  (usingXAndYTables T.cubicX T.cubicY (nat count : α)).map fun est =>
    fmax (est / (lit c1 - (nat sd * lit T.couponRse))) (nat count)

end
end DS.Bounds

/- The estimator models' table parameters instantiated with the tables regenerated from the CURRENT headers (DSGen).
   Shared by the model driver (Float) and the theorems (ordered fields). Core Lean only. -/
import DSModel.Bounds.Binomial
import DSModel.Bounds.HllEst
import DSModel.Bounds.CpcEst
import DSGen.Bounds
import DSGen.BoundsHll
import DSGen.BoundsHllComposite
import DSGen.BoundsCpc
namespace DS.Bounds

def binomT : BinomTables :=
  { delta := DSGen.Bounds.deltaOfNumStdDevs, lbEquiv := DSGen.Bounds.lbEquivTable, ubEquiv := DSGen.Bounds.ubEquivTable }

def hllT : HllTables :=
  { cubicX := DSGen.Bounds.cubicXArr, cubicY := DSGen.Bounds.cubicYArr, harmonic := DSGen.Bounds.harmonicTable,
    numExactHarmonic := DSGen.Bounds.numExactHarmonic, euler := DSGen.Bounds.eulerMascheroni,
    relErrHipLb := DSGen.Bounds.relErrHipLb, relErrHipUb := DSGen.Bounds.relErrHipUb,
    relErrNonHipLb := DSGen.Bounds.relErrNonHipLb, relErrNonHipUb := DSGen.Bounds.relErrNonHipUb,
    compositeX := DSGen.Bounds.compositeXArr, compositeYStrides := DSGen.Bounds.compositeYStrides,
    minLgK := DSGen.Bounds.hllMinLgK, maxLgK := DSGen.Bounds.hllMaxLgK,
    hipRse := DSGen.Bounds.hllHipRseFactor, nonHipRse := DSGen.Bounds.hllNonHipRseFactor, couponRse := DSGen.Bounds.couponRse }

def cpcT : CpcTables :=
  { iconMinLgK := DSGen.Bounds.iconMinLgK, iconMaxLgK := DSGen.Bounds.iconMaxLgK, polyDegree := DSGen.Bounds.iconPolyDegree,
    iconCoeff := DSGen.Bounds.iconCoefficients, iconErrorConstant := DSGen.Bounds.iconErrorConstant,
    hipErrorConstant := DSGen.Bounds.hipErrorConstant, iconLowSide := DSGen.Bounds.iconLowSide,
    iconHighSide := DSGen.Bounds.iconHighSide, hipLowSide := DSGen.Bounds.hipLowSide, hipHighSide := DSGen.Bounds.hipHighSide }

def maxTheta : Nat := DSGen.Bounds.thetaMaxTheta

end DS.Bounds

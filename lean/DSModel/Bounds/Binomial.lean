/- Model of common/include/binomial_bounds.hpp (the whole file) and of the Theta / Tuple bound wrappers
   (theta_sketch_impl.hpp, tuple_sketch_impl.hpp: get_theta / get_estimate / get_lower_bound / get_upper_bound).
   Generic over `BNum`; `none` = the C++ throws.  Core Lean only. -/
import DSModel.Bounds.Num
namespace DS.Bounds

structure BinomTables where
  delta : List Lit      -- delta_of_num_std_devs
  lbEquiv : List Lit    -- lb_equiv_table
  ubEquiv : List Lit    -- ub_equiv_table

section
variable {α : Type} [BNum α]

/-- cont_classic_lb -/
def contClassicLb (n : Nat) (theta numSd : α) : α :=
  let nHat : α := (nat n - lit c0_5) / theta
  let b : α := numSd * sqrt ((lit c1 - theta) / theta)
  let d : α := lit c0_5 * b * sqrt ((b * b) + (lit c4 * nHat))
  let center : α := nHat + (lit c0_5 * (b * b))
  center - d

/-- cont_classic_ub -/
def contClassicUb (n : Nat) (theta numSd : α) : α :=
  let nHat : α := (nat n + lit c0_5) / theta
  let b : α := numSd * sqrt ((lit c1 - theta) / theta)
  let d : α := lit c0_5 * b * sqrt ((b * b) + (lit c4 * nHat))
  let center : α := nHat + (lit c0_5 * (b * b))
  center + d

/-- one step of the partial-sum loops: `cur_term = (cur_term * q * m) / ((m + 1) - num_samples)` -/
def nextTerm (q : α) (n : Nat) (cur : α) (m : Nat) : α := (cur * q * nat m) / nat ((m + 1) - n)

/-- `while (tot <= delta) {…}; return m - 1;` of special_n_star.  `fuel` bounds the iterations (the C++ loop has
    none; it ends because the partial sums converge to 1 > delta); on exhaustion the current `m - 1` is returned. -/
def nStarLoop (q delta : α) (n : Nat) : Nat → α → α → Nat → Nat
  | 0, _, _, m => m - 1
  | fuel + 1, cur, tot, m =>
    if tot ≤ delta then
      let cur' := nextTerm q n cur m
      nStarLoop q delta n fuel cur' (tot + cur') (m + 1)
    else m - 1

/-- `while (tot < one_minus_delta) {…}; return m;` of special_n_prime_b -/
def nPrimeBLoop (q omd : α) (n : Nat) : Nat → α → α → Nat → Nat
  | 0, _, _, m => m
  | fuel + 1, cur, tot, m =>
    if tot < omd then
      let cur' := nextTerm q n cur m
      nPrimeBLoop q omd n fuel cur' (tot + cur') (m + 1)
    else m

def loopFuel : Nat := 1000000

/-- special_n_star -/
def specialNStar (n : Nat) (p delta : α) : Option Nat :=
  let q : α := lit c1 - p
  if nat n / p ≥ lit c500 then none
  else
    let cur : α := BNum.pow p (nat n)
    if cur ≤ lit c1em100 then none
    else some (nStarLoop q delta n loopFuel cur cur n)

/-- special_n_prime_b -/
def specialNPrimeB (n : Nat) (p delta : α) : Option Nat :=
  let q : α := lit c1 - p
  let omd : α := lit c1 - delta
  let cur : α := BNum.pow p (nat n)
  if cur ≤ lit c1em100 then none
  else some (nPrimeBLoop q omd n loopFuel cur cur n)

/-- special_n_prime_f -/
def specialNPrimeF (n : Nat) (p delta : α) : Option Nat :=
  if nat n / p ≥ lit c500 then none
  else specialNPrimeB (n + 1) p delta

/-- compute_approx_binomial_lower_bound -/
def approxLb (T : BinomTables) (n : Nat) (theta : α) (k : Nat) : Option α :=
  if BNum.eqb theta (nat 1) then some (nat n)
  else if n = 0 then some (nat 0)
  else if n = 1 then
    let delta : α := tget T.delta k
    let rawLb : α := log (lit c1 - delta) / log (lit c1 - theta)
    some (floor rawLb)
  else if n > 120 then
    some (contClassicLb n theta (nat k) - lit c0_5)
  else if theta > lit c1 - lit c1em5 then some (nat n)
  else if theta < nat n / lit c360 then
    let idx := 3 * n + (k - 1)
    some (contClassicLb n theta (tget T.lbEquiv idx) - lit c0_5)
  else
    let delta : α := tget T.delta k
    (specialNStar n theta delta).map nat

/-- compute_approx_binomial_upper_bound -/
def approxUb (T : BinomTables) (n : Nat) (theta : α) (k : Nat) : Option α :=
  if BNum.eqb theta (nat 1) then some (nat n)
  else if n = 0 then
    let delta : α := tget T.delta k
    let rawUb : α := log delta / log (lit c1 - theta)
    some (ceil rawUb)
  else if n > 120 then
    some (contClassicUb n theta (nat k) + lit c0_5)
  else if theta > lit c1 - lit c1em5 then some (nat (n + 1))
  else if theta < nat n / lit c360 then
    let idx := 3 * n + (k - 1)
    some (contClassicUb n theta (tget T.ubEquiv idx) + lit c0_5)
  else
    let delta : α := tget T.delta k
    (specialNPrimeF n theta delta).map nat

/-- check_theta / check_num_std_devs: true = arguments accepted -/
def argsOk (theta : α) (k : Nat) : Bool :=
  !(decide (theta < nat 0) || decide (theta > nat 1)) && !(decide (k < 1) || decide (k > 3))

/-- binomial_bounds::get_lower_bound -/
def getLowerBound (T : BinomTables) (n : Nat) (theta : α) (k : Nat) : Option α :=
  if argsOk theta k then
    let est : α := nat n / theta
    (approxLb T n theta k).map fun lb => stdMin est (stdMax (nat n) lb)
  else none

/-- binomial_bounds::get_upper_bound -/
def getUpperBound (T : BinomTables) (n : Nat) (theta : α) (k : Nat) : Option α :=
  if argsOk theta k then
    let est : α := nat n / theta
    (approxUb T n theta k).map fun ub => stdMax est ub
  else none

/-! ### Theta / Tuple wrappers (state = theta64, number of retained entries, empty flag) -/

structure ThetaState where
  theta64 : Nat
  retained : Nat
  empty : Bool

/-- get_theta -/
def thetaFrac (maxTheta : Nat) (s : ThetaState) : α := nat s.theta64 / nat maxTheta

/-- is_estimation_mode -/
def estimationMode (maxTheta : Nat) (s : ThetaState) : Bool := decide (s.theta64 < maxTheta) && !s.empty

/-- get_estimate -/
def thetaEstimate (maxTheta : Nat) (s : ThetaState) : α := nat s.retained / thetaFrac maxTheta s

/-- theta_sketch get_lower_bound(num_std_devs) -/
def thetaLowerBound (T : BinomTables) (maxTheta : Nat) (s : ThetaState) (k : Nat) : Option α :=
  if estimationMode maxTheta s then getLowerBound T s.retained (thetaFrac maxTheta s) k else some (nat s.retained)

/-- theta_sketch get_upper_bound(num_std_devs) -/
def thetaUpperBound (T : BinomTables) (maxTheta : Nat) (s : ThetaState) (k : Nat) : Option α :=
  if estimationMode maxTheta s then getUpperBound T s.retained (thetaFrac maxTheta s) k else some (nat s.retained)

/-- tuple_sketch get_lower_bound(num_std_devs, num_subset_entries) -/
def tupleLowerBound (T : BinomTables) (maxTheta : Nat) (s : ThetaState) (k subset : Nat) : Option α :=
  let m := if s.retained < subset then s.retained else subset      -- std::min(num_subset_entries, get_num_retained())
  if estimationMode maxTheta s then getLowerBound T m (thetaFrac maxTheta s) k else some (nat m)

/-- tuple_sketch get_upper_bound(num_std_devs, num_subset_entries) -/
def tupleUpperBound (T : BinomTables) (maxTheta : Nat) (s : ThetaState) (k subset : Nat) : Option α :=
  let m := if s.retained < subset then s.retained else subset
  if estimationMode maxTheta s then getUpperBound T m (thetaFrac maxTheta s) k else some (nat m)

end
end DS.Bounds

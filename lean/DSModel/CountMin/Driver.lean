/- Line-protocol driver for the count-min family (C14). Core Lean only.

Op lines (the part after `@` is the item's bucket per row AS DERIVED FROM THE IMPLEMENTATION by the harness's
`loc` mode; the model uses it as its row-hash parameter and checks that it is a function of (config, item)):
  new <id> <i64|u64|f64> <num_hashes> <num_buckets> <seed>
  upd <id> <u64|i64|str|raw> <literal> <weight> @ b0 b1 ...
  q   <id> <u64|i64|str|raw> <literal> @ b0 b1 ...
  dump <id> | merge <dst> <src> | copy <src> <dst> | rt <src> <dst> <bytes|stream> <seed>
  sb <hex double> | sh <hex double>          suggest_num_buckets / suggest_num_hashes
-/
import DSModel.Canon
import DSModel.CountMin.Basic
import DSModel.CountMin.Hash
namespace DS.CountMin

inductive WKind where | i64 | u64 | f64
deriving DecidableEq

inductive Obj where
  | int (k : WKind) (s : St Int)
  | flt (s : St Float)

/-- (numHashes, numBuckets, seed, canonical item bytes as hex) ↦ buckets per row -/
abbrev LocTab := List ((Nat × Nat × Nat × String) × List Nat)

structure DSt where
  objs : Array (Option Obj) := #[]
  locs : LocTab := []

def DSt.get (d : DSt) (i : Nat) : Option Obj := (d.objs[i]?).join
def DSt.set (d : DSt) (i : Nat) (v : Obj) : DSt :=
  let o := if i < d.objs.size then d.objs else d.objs ++ Array.replicate (i + 1 - d.objs.size) none
  { d with objs := o.set! i (some v) }

def lookupLoc (t : LocTab) (k : Nat × Nat × Nat × String) : Option (List Nat) :=
  match t.find? (fun e => e.1 == k) with
  | some e => some e.2
  | none => none

/-- the row-hash parameter handed to the model: a function of the item (key) given the sketch's config -/
def rowHashOf (t : LocTab) (c : Cfg) : String → Nat → Nat :=
  fun key r => match lookupLoc t (c.numHashes, c.numBuckets, c.seed, key) with
    | some bs => bs.getD r 0
    | none => 0

def relErr (nb : Nat) : Float := Float.exp 1.0 / nb.toFloat

/-- `static_cast<int64_t>(est + get_relative_error() * total)` -/
def ubI64 (nb : Nat) (est total : Int) : Int :=
  ((Int64.ofInt est).toFloat + relErr nb * (Int64.ofInt total).toFloat).toInt64.toInt
/-- `static_cast<uint64_t>(est + get_relative_error() * total)` -/
def ubU64 (nb : Nat) (est total : Int) : Int :=
  Int.ofNat ((UInt64.ofNat est.toNat).toFloat + relErr nb * (UInt64.ofNat total.toNat).toFloat).toUInt64.toNat
def ubF64 (nb : Nat) (est total : Float) : Float := est + relErr nb * total

def ubOf : WKind → Nat → Int → Int → Int
  | .u64 => ubU64
  | _ => ubI64

def cfgOf : Obj → Cfg
  | .int _ s => s.cfg
  | .flt s => s.cfg

def ncells : Obj → Nat
  | .int _ s => s.cells.size
  | .flt s => s.cells.size

/-- the array really has numHashes*numBuckets entries (false only for constructor arguments whose size
product wrapped; the harness refuses to run updates/queries on such an object: they are out-of-bounds) -/
def sane (o : Obj) : Bool := ncells o == (cfgOf o).numHashes * (cfgOf o).numBuckets

def showInt (v : Int) : String := toString v
def intFold (l : List Int) : UInt64 := fold64 (l.map (fun v => (v % (2^64 : Int)).toNat))

def dumpLine (tag : String) : Obj → String
  | .int _ s =>
    let n := s.cells.size
    let body := if n ≤ 512 then joinSp (s.cells.toList.map showInt)
      else s!"fold {hex64 (intFold s.cells.toList)} nz {(s.cells.toList.filter (· ≠ 0)).length}"
    s!"{tag} {s.total} {boolStr (isEmpty s)} {n} {body}"
  | .flt s =>
    let n := s.cells.size
    let body := if n ≤ 512 then joinSp (s.cells.toList.map hexF)
      else s!"fold {hex64 (fold64 (s.cells.toList.map (fun v => v.toBits.toNat)))} nz {(s.cells.toList.filter (fun v => v != 0.0)).length}"
    s!"{tag} {hexF s.total} {boolStr (isEmpty s)} {n} {body}"

def totalStr : Obj → String
  | .int _ s => toString s.total
  | .flt s => hexF s.total

def ctorParams (minB maxC bits : Nat) : CtorParams := { minBuckets := minB, maxCells := maxC, arithBits := bits }

def parseKind : String → Option WKind
  | "i64" => some .i64 | "u64" => some .u64 | "f64" => some .f64 | _ => none

/-- item key = canonical bytes (what the code hashes); `none` = empty string (ignored by the code) -/
def itemKey (ty lit : String) : Option (Option String) :=
  match ty with
  | "u64" | "i64" | "str" | "raw" =>
    match parseInput ty lit with
    | some i => some ((canonBytes i).map bytesHex)
    | none => none
  | _ => none

def parseLocs (ws : List String) : Option (List Nat) := ws.mapM String.toNat?

/-- register the line's annotation; `none` if it contradicts an earlier line or has the wrong arity / range -/
def regLoc (d : DSt) (c : Cfg) (key : String) (bs : List Nat) : Option DSt :=
  if bs.length != c.numHashes || bs.any (· ≥ c.numBuckets) then none else
  let k := (c.numHashes, c.numBuckets, c.seed, key)
  match lookupLoc d.locs k with
  | some old => if old == bs then some d else none
  | none => some { d with locs := (k, bs) :: d.locs }

def suggestNumBuckets (re : Float) : Option Nat :=
  if re < 0.0 then none else some (Float.ceil (Float.exp 1.0 / re)).toUInt32.toNat

def suggestNumHashes (c : Float) : Option Nat :=
  if c < 0.0 || c > 1.0 then none
  else some (min (Float.ceil (Float.log (1.0 / (1.0 - c)))).toUInt8.toNat 255)

def stepLine (p : CtorParams) (d : DSt) (w : List String) : DSt × String :=
  match w with
  | ["new", id, k, nh, nb, seed] =>
    match id.toNat?, parseKind k, nh.toNat?, nb.toNat?, seed.toNat? with
    | some id, some k, some nh, some nb, some seed =>
      let mk : Option Obj := match k with
        | .f64 => (construct p nh nb seed : Option (St Float)).map Obj.flt
        | k => (construct p nh nb seed : Option (St Int)).map (Obj.int k)
      match mk with
      | none => (d, "throw")
      | some o => (d.set id o, s!"S {nh} {nb} {seed} {ncells o} {hexF (relErr nb)} 1")
    | _, _, _, _, _ => (d, "bad-op")
  | "upd" :: id :: ty :: lit :: wt :: "@" :: locs =>
    match id.toNat?.bind d.get, itemKey ty lit, parseLocs locs with
    | none, _, _ => (d, "no-object")
    | some o, some key, some bs =>
      if !sane o then (d, "unsafe") else
      match key with
      | none => -- empty string: update ignored, estimate 0
        (d, s!"U {totalStr o} {match o with | .flt _ => hexF 0.0 | _ => "0"}")
      | some key =>
        match regLoc d (cfgOf o) key bs with
        | none => (d, "bad-loc")
        | some d =>
          let h := rowHashOf d.locs (cfgOf o)
          match o, id.toNat? with
          | .int k s, some id =>
            match wt.toInt? with
            | some wv =>
              if k == .u64 && wv < 0 then (d, "bad-op") else
              let s' := update h s key wv
              (d.set id (.int k s'), s!"U {s'.total} {estimate h s' key}")
            | none => (d, "bad-op")
          | .flt s, some id =>
            match parseHex wt with
            | some bits =>
              let s' := update h s key (Float.ofBits (UInt64.ofNat bits))
              (d.set id (.flt s'), s!"U {hexF s'.total} {hexF (estimate h s' key)}")
            | none => (d, "bad-op")
          | _, none => (d, "bad-op")
    | _, _, _ => (d, "bad-op")
  | "q" :: id :: ty :: lit :: "@" :: locs =>
    match id.toNat?.bind d.get, itemKey ty lit, parseLocs locs with
    | none, _, _ => (d, "no-object")
    | some o, some key, some bs =>
      if !sane o then (d, "unsafe") else
      match key with
      | none => (d, match o with | .flt _ => s!"Q {hexF 0.0} {hexF 0.0} {hexF 0.0}" | _ => "Q 0 0 0")
      | some key =>
        match regLoc d (cfgOf o) key bs with
        | none => (d, "bad-loc")
        | some d =>
          let h := rowHashOf d.locs (cfgOf o)
          match o with
          | .int k s => (d, s!"Q {estimate h s key} {lowerBound h s key} {upperBound (ubOf k) h s key}")
          | .flt s => (d, s!"Q {hexF (estimate h s key)} {hexF (lowerBound h s key)} {hexF (upperBound ubF64 h s key)}")
    | _, _, _ => (d, "bad-op")
  | ["dump", id] =>
    match id.toNat?.bind d.get with
    | some o => (d, dumpLine "D" o)
    | none => (d, "no-object")
  | ["merge", dst, src] =>
    match dst.toNat?, src.toNat? with
    | some i, some j =>
      match d.get i, d.get j with
      | some a, some b =>
        if !(sane a && sane b) then (d, "unsafe") else
        match a, b with
        | .int k sa, .int k' sb =>
          if k != k' then (d, "bad-op") else
          match mergeObj i j sa sb with
          | some s => (d.set i (.int k s), s!"M {s.total}")
          | none => (d, "throw")
        | .flt sa, .flt sb =>
          match mergeObj i j sa sb with
          | some s => (d.set i (.flt s), s!"M {hexF s.total}")
          | none => (d, "throw")
        | _, _ => (d, "bad-op")
      | _, _ => (d, "no-object")
    | _, _ => (d, "bad-op")
  | ["copy", src, dst] =>
    match src.toNat?.bind d.get, dst.toNat? with
    | some o, some j => (d.set j o, s!"C {totalStr o}")
    | none, _ => (d, "no-object")
    | _, _ => (d, "bad-op")
  | ["rt", src, dst, _mode, seed] =>
    match src.toNat?.bind d.get, dst.toNat?, seed.toNat? with
    | some o, some j, some seed' =>
      if !sane o then (d, "unsafe") else
      let sh := fun (s : Nat) => (seedHash (UInt64.ofNat s)).toNat
      match o with
      | .int k s =>
        match roundTripSeed sh s seed' with
        | some t => (d.set j (.int k t), s!"R {serializedSize s} {t.total}")
        | none => (d, "throw")
      | .flt s =>
        match roundTripSeed sh s seed' with
        | some t => (d.set j (.flt t), s!"R {serializedSize s} {hexF t.total}")
        | none => (d, "throw")
    | none, _, _ => (d, "no-object")
    | _, _, _ => (d, "bad-op")
  | ["sb", x] =>
    match parseHex x with
    | some b => (d, match suggestNumBuckets (Float.ofBits (UInt64.ofNat b)) with | some n => s!"B {n}" | none => "throw")
    | none => (d, "bad-op")
  | ["sh", x] =>
    match parseHex x with
    | some b => (d, match suggestNumHashes (Float.ofBits (UInt64.ofNat b)) with | some n => s!"H {n}" | none => "throw")
    | none => (d, "bad-op")
  | _ => (d, "bad-op")

/-- `lh <num_hashes> <num_buckets> <seed> <ity> <literal>`: the buckets computed in Lean (Hash.lean) -/
def locStep (w : List String) : String :=
  match w with
  | ["lh", nh, nb, seed, ty, lit] =>
    match nh.toNat?, nb.toNat?, seed.toNat?, parseInput ty lit with
    | some nh, some nb, some seed, some inp =>
      match canonBytes inp with
      | none => "L ignored"
      | some b => "L " ++ joinSp ((rowHashes seed nh b).map (fun h => toString (h % nb)))
    | _, _, _, _ => "bad-op"
  | _ => "bad-op"

end DS.CountMin

/-
The row hashes of the real count-min sketch, so that `loc` can also be computed in Lean and compared
with the locations derived from the implementation (tie only; every theorem is for an arbitrary row hash).

  std::default_random_engine rng(seed);                       // libstdc++: minstd_rand0
  std::uniform_int_distribution<uint64_t> d(0, UINT64_MAX);   // libstdc++ 12 bits/uniform_int_dist.h
  hash_seeds[i] = d(rng) + seed;                              // mod 2^64
  bucket(x, i)  = MurmurHash3_x64_128(x, hash_seeds[i]).h1 % num_buckets

`std::default_random_engine` and the algorithm of `uniform_int_distribution` are implementation-defined;
this file transcribes libstdc++ 12 (the platform of the harness).  Core Lean only.
-/
import DSModel.Murmur3
namespace DS.CountMin

/-- minstd_rand0 = linear_congruential_engine<uint_fast32_t, 16807, 0, 2147483647> -/
def lcgM : Nat := 2147483647
def lcgA : Nat := 16807

/-- `seed(s)`: c = 0, so a seed ≡ 0 (mod m) becomes 1 -/
def lcgSeed (s : Nat) : Nat := if s % lcgM = 0 then 1 else s % lcgM

/-- next state = next output, in [1, m-1] -/
def lcgNext (x : Nat) : Nat := (lcgA * x) % lcgM

/-- `urngmax - urngmin` = (m-1) - 1 -/
def urngRange : Nat := lcgM - 2

def two64 : Nat := 2 ^ 64

/-- downscaling fallback: `do ret = g() - min while (ret >= past); ret /= scaling` -/
def downLoop (past scaling : Nat) : Nat → Nat → Nat × Nat
  | 0, x => (0, x)
  | fuel + 1, x =>
    let x' := lcgNext x
    let ret := x' - 1
    if ret ≥ past then downLoop past scaling fuel x' else (ret / scaling, x')

/-- `uniform_int_distribution<uint64_t>(0, urange)(rng)` → (value, new engine state).  `depth` bounds the
recursion of the upscaling branch (3 levels for urange = 2^64-1), `fuel` the rejection loops. -/
def uniformTo (fuel : Nat) : Nat → Nat → Nat → Nat × Nat
  | 0, _, x => (0, x)
  | depth + 1, urange, x =>
    if urngRange > urange then
      let uerange := urange + 1
      let scaling := urngRange / uerange
      downLoop (uerange * scaling) scaling fuel x
    else if urngRange < urange then
      let uerng := urngRange + 1
      let rec upLoop : Nat → Nat → Nat × Nat
        | 0, x => (0, x)
        | f + 1, x =>
          let (hi, x1) := uniformTo fuel depth (urange / uerng) x
          let tmp := (uerng * hi) % two64
          let x2 := lcgNext x1
          let ret := (tmp + (x2 - 1)) % two64
          if ret > urange || ret < tmp then upLoop f x2 else (ret, x2)
      upLoop fuel x
    else
      let x' := lcgNext x
      (x' - 1, x')

/-- the `numHashes` per-row Murmur seeds -/
def hashSeeds (seed numHashes : Nat) : List UInt64 :=
  let rec go : Nat → Nat → List UInt64 → List UInt64
    | 0, _, acc => acc.reverse
    | n + 1, x, acc =>
      let (v, x') := uniformTo 1000 8 (two64 - 1) x
      go n x' (UInt64.ofNat ((v + seed) % two64) :: acc)
  go numHashes (lcgSeed seed) []

/-- per-row 64-bit hashes (`hashes.h1`) of the item bytes -/
def rowHashes (seed numHashes : Nat) (item : ByteArray) : List Nat :=
  (hashSeeds seed numHashes).map (fun s => (murmur3 item s).1.toNat)

end DS.CountMin

/-
Specification-level functions used in the statements of C14: what "true weight", "total weight of the
stream" and "exact per-cell count" mean for a stream of weighted updates.  Core Lean only; executable.
All three are left folds in stream order (so they are meaningful for any `Weight W`, also non-associative ones).
-/
import DSModel.CountMin.Basic
namespace DS.CountMin

variable {W : Type} [Weight W] {ι : Type}

/-- true total weight of item `x` in the stream -/
def trueWeight [DecidableEq ι] (x : ι) (ops : List (ι × W)) : W :=
  ops.foldl (fun acc o => if o.1 = x then Weight.add acc o.2 else acc) Weight.zero

/-- Σ |w| over the stream, with the code's `|w| = (w >= 0 ? w : -w)` -/
def totalAbs (ops : List (ι × W)) : W :=
  ops.foldl (fun acc o => Weight.add acc (Weight.absw o.2)) Weight.zero

/-- item `x` is counted in flat cell `i`: `i` lies in a row `r = i / numBuckets < numHashes` and is that
row's bucket `h x r % numBuckets` -/
def hits (c : Cfg) (h : ι → Nat → Nat) (x : ι) (i : Nat) : Bool :=
  decide (i / c.numBuckets < c.numHashes) && (h x (i / c.numBuckets) % c.numBuckets == i % c.numBuckets)

/-- running value of cell `i` started at `v` -/
def cellAcc (c : Cfg) (h : ι → Nat → Nat) (i : Nat) (v : W) (ops : List (ι × W)) : W :=
  ops.foldl (fun acc o => if hits c h o.1 i then Weight.add acc o.2 else acc) v

/-- exact count of cell `i`: the sum of the weights of the updates whose item hits it -/
def cellSum (c : Cfg) (h : ι → Nat → Nat) (i : Nat) (ops : List (ι × W)) : W :=
  cellAcc c h i Weight.zero ops

/-- `w >= 0` -/
def nonnegW (w : W) : Bool := !(Weight.lt w Weight.zero)

/-- Σ of the |w| of the NEGATIVE updates of items other than `x` -/
def negOther [DecidableEq ι] (x : ι) (ops : List (ι × W)) : W :=
  ops.foldl (fun acc o => if o.1 ≠ x ∧ nonnegW o.2 = false then Weight.add acc (Weight.absw o.2) else acc) Weight.zero

/-- Σ of the non-negative updates of items other than `x` -/
def posOther [DecidableEq ι] (x : ι) (ops : List (ι × W)) : W :=
  ops.foldl (fun acc o => if o.1 ≠ x ∧ nonnegW o.2 = true then Weight.add acc o.2 else acc) Weight.zero

end DS.CountMin

/-
Count-min sketch (count/include/count_min_impl.hpp) — executable L1 model.  Core Lean only.

State = {numHashes, numBuckets, seed, cells (flat, row-major, numHashes*numBuckets entries), total}.
The per-row hash of an item is a PARAMETER `h : ι → Nat → Nat` (row ↦ 64-bit hash); the bucket is
`h x r % numBuckets` and the flat index `r * numBuckets + bucket`, exactly as `get_hashes` computes it.
In the code `h x r = MurmurHash3_x64_128(x, hash_seeds[r]).h1` with `hash_seeds` drawn from
`std::default_random_engine(seed)` (modelled in `DSModel/CountMin/Hash.lean`); every theorem holds for every `h`.

The weight type `W` is abstract (`Weight W`: the five operations the code uses); the driver runs it with
`Int` (int64_t / uint64_t without overflow) and `Float` (double); the theorems are proved for every `W`
satisfying the ordered-commutative-monoid laws of `DSProofs/Lemmas/CountMin.lean` (instances: `Int`, `Rat`).
-/
namespace DS.CountMin

/-- the operations `count_min_sketch<W>` performs on weights -/
class Weight (W : Type) where
  zero : W
  add : W → W → W
  /-- `weight >= 0 ? weight : -weight` (update) -/
  absw : W → W
  /-- `a < b` as used by `std::min_element` -/
  lt : W → W → Bool
  /-- `_total_weight == 0` (`is_empty`) -/
  isZero : W → Bool

instance : Weight Int where
  zero := 0
  add := (· + ·)
  absw w := if 0 ≤ w then w else -w
  lt a b := decide (a < b)
  isZero a := decide (a = 0)

instance : Weight Float where
  zero := 0.0
  add := (· + ·)
  absw w := if w ≥ 0.0 then w else -w
  lt a b := decide (a < b)
  isZero a := a == 0.0

structure Cfg where
  numHashes : Nat
  numBuckets : Nat
  seed : Nat
deriving DecidableEq, Repr

structure St (W : Type) where
  cfg : Cfg
  cells : Array W
  total : W

variable {W : Type} [Weight W] {ι : Type}

/-- a fresh sketch whose array has the full `numHashes * numBuckets` entries -/
def init (c : Cfg) : St W :=
  { cfg := c, cells := Array.replicate (c.numHashes * c.numBuckets) Weight.zero, total := Weight.zero }

/-! ### constructor argument checks (as coded, including the width of the size arithmetic) -/

/-- constants of the constructor, regenerated from the header by `tools/trules/countmin.py`:
`num_buckets < minBuckets` is refused, `num_buckets * num_hashes >= maxCells` is refused, and the product is
computed in `arithBits`-bit unsigned arithmetic (`uint8_t * uint32_t` is 32-bit in the current code). -/
structure CtorParams where
  minBuckets : Nat
  maxCells : Nat
  arithBits : Nat
deriving Repr

/-- `(num_hashes*num_buckets < 1<<30) ? num_hashes*num_buckets : 0` -/
def ctorSize (p : CtorParams) (nh nb : Nat) : Nat :=
  let prod := (nh * nb) % 2 ^ p.arithBits
  if prod < p.maxCells then prod else 0

def ctorOk (p : CtorParams) (nh nb : Nat) : Bool :=
  !(decide (nb < p.minBuckets)) && !(decide ((nb * nh) % 2 ^ p.arithBits ≥ p.maxCells))

/-- `count_min_sketch(num_hashes, num_buckets, seed)`; `none` = `std::invalid_argument` -/
def construct (p : CtorParams) (nh nb seed : Nat) : Option (St W) :=
  if ctorOk p nh nb then
    some { cfg := ⟨nh, nb, seed⟩, cells := Array.replicate (ctorSize p nh nb) Weight.zero, total := Weight.zero }
  else none

/-! ### update / estimate / bounds -/

/-- `(hash_seed_index * _num_buckets) + hash % _num_buckets` -/
def cellIdx (c : Cfg) (h : ι → Nat → Nat) (x : ι) (r : Nat) : Nat :=
  r * c.numBuckets + h x r % c.numBuckets

/-- `for (h : hash_locations) _sketch_array[h] += weight` -/
def addRows (c : Cfg) (h : ι → Nat → Nat) (x : ι) (w : W) : List Nat → Array W → Array W
  | [], a => a
  | r :: rs, a => addRows c h x w rs (a.modify (cellIdx c h x r) (fun v => Weight.add v w))

def update (h : ι → Nat → Nat) (s : St W) (x : ι) (w : W) : St W :=
  { s with total := Weight.add s.total (Weight.absw w),
           cells := addRows s.cfg h x w (List.range s.cfg.numHashes) s.cells }

def cellAt (h : ι → Nat → Nat) (s : St W) (x : ι) (r : Nat) : W :=
  s.cells.getD (cellIdx s.cfg h x r) Weight.zero

/-- one step of `std::min_element`: keep the earlier element unless the later is strictly smaller -/
def minW (a b : W) : W := if Weight.lt b a then b else a

/-- the row values `_sketch_array[h]` collected by `get_estimate` -/
def rowVals (h : ι → Nat → Nat) (s : St W) (x : ι) : List W :=
  (List.range s.cfg.numHashes).map (cellAt h s x)

/-- `*std::min_element(estimates.begin(), estimates.end())`.  With `numHashes = 0` the code dereferences
`end()` of an empty vector (undefined; outside the property, which has 1 ≤ num_hashes); the model returns 0. -/
def estimate (h : ι → Nat → Nat) (s : St W) (x : ι) : W :=
  match rowVals h s x with
  | [] => Weight.zero
  | v :: vs => vs.foldl minW v

def lowerBound (h : ι → Nat → Nat) (s : St W) (x : ι) : W := estimate h s x

/-- `static_cast<W>(get_estimate(x) + get_relative_error() * get_total_weight())`; the arithmetic
`u numBuckets estimate total` is a parameter (the driver passes the code's double computation and cast per
weight type, see `Driver.lean`; the theorems need only `0 ≤ total → estimate ≤ u nb estimate total`). -/
def upperBound (u : Nat → W → W → W) (h : ι → Nat → Nat) (s : St W) (x : ι) : W :=
  u s.cfg.numBuckets (estimate h s x) s.total

/-! ### merge -/

def compatible (a b : Cfg) : Bool :=
  a.numHashes == b.numHashes && a.numBuckets == b.numBuckets && a.seed == b.seed

/-- the merge step proper: cell-wise add, totals add -/
def mergeCore (a b : St W) : St W :=
  { a with cells := Array.zipWith Weight.add a.cells b.cells, total := Weight.add a.total b.total }

/-- `a.merge(b)` for two distinct objects; `none` = `std::invalid_argument` -/
def merge (a b : St W) : Option (St W) :=
  if compatible a.cfg b.cfg then some (mergeCore a b) else none

/-- `objs[i].merge(objs[j])`: the code first refuses `this == &other` -/
def mergeObj (i j : Nat) (a b : St W) : Option (St W) :=
  if i = j then none else merge a b

/-! ### streams -/

def runFrom (h : ι → Nat → Nat) (s : St W) (ops : List (ι × W)) : St W :=
  ops.foldl (fun s o => update h s o.1 o.2) s

def run (c : Cfg) (h : ι → Nat → Nat) (ops : List (ι × W)) : St W := runFrom h (init c) ops

/-! ### serialization, as a round-trip point only (byte layout: C09/C10) -/

def isEmpty (s : St W) : Bool := Weight.isZero s.total

/-- `deserialize(serialize(s), seed)`: an empty sketch (`total == 0`) is written without its cells and read
back as a fresh sketch; otherwise total and cells are copied. (The reader re-runs the constructor checks and
compares the 16-bit seed hash — both in `roundTripSeed`.) -/
def roundTrip (s : St W) : St W := if isEmpty s then init s.cfg else s

/-- round trip when the reader is given `seed'`; `sh` = `compute_seed_hash` -/
def roundTripSeed (sh : Nat → Nat) (s : St W) (seed' : Nat) : Option (St W) :=
  if sh s.cfg.seed = sh seed' then
    let t := roundTrip s
    some { t with cfg := { t.cfg with seed := seed' } }
  else none

/-- `get_serialized_size_bytes` for 8-byte weights -/
def serializedSize (s : St W) : Nat :=
  16 + (if isEmpty s then 0 else 8 * (1 + s.cfg.numBuckets * s.cfg.numHashes))

/-! ### merge trees: leaves are streams, an inner node merges its right subtree into its left one and then
feeds further updates to the result -/

inductive MTree (ι W : Type) where
  | leaf (ops : List (ι × W))
  | node (l r : MTree ι W) (more : List (ι × W))

def MTree.stream : MTree ι W → List (ι × W)
  | .leaf ops => ops
  | .node l r more => l.stream ++ r.stream ++ more

def MTree.eval (c : Cfg) (h : ι → Nat → Nat) : MTree ι W → St W
  | .leaf ops => run c h ops
  | .node l r more => runFrom h (mergeCore (l.eval c h) (r.eval c h)) more

/-- the same tree evaluated with the refusing `merge` of the code (`none` = some merge threw) -/
def MTree.evalO (c : Cfg) (h : ι → Nat → Nat) : MTree ι W → Option (St W)
  | .leaf ops => some (run c h ops)
  | .node l r more =>
    match l.evalO c h, r.evalO c h with
    | some a, some b => (merge a b).map (fun m => runFrom h m more)
    | _, _ => none

end DS.CountMin

/-
Line-protocol driver for the tuple family (C13): the generic theta models instantiated with the
"trace" summary σ = List Int (the list of all values folded into the summary, in order).  The three
harness instantiations are views of it: `lst` prints the list, `sum` its total, `aodN` the N column sums.
Core Lean only.
-/
import DSModel.Canon
import DSModel.Theta.SetOps
import DSModel.Theta.Driver
namespace DS.Tuple
open DS.Theta

abbrev Sm := List Int

inductive Kind where | lst | sum | aod (n : Nat)
deriving BEq

def parseKind : String → Option Kind
  | "lst" => some .lst | "sum" => some .sum
  | "aod1" => some (.aod 1) | "aod2" => some (.aod 2) | "aod3" => some (.aod 3)
  | _ => none

def Kind.arity : Kind → Nat
  | .aod n => n
  | _ => 1

def colSum (n j : Nat) (s : Sm) : Int := Id.run do
  let mut t : Int := 0
  let mut i := 0
  for v in s do
    if i % n == j then t := t + v
    i := i + 1
  return t

def showSummary (k : Kind) (s : Sm) : String :=
  match k with
  | .lst => if s.isEmpty then "-" else ",".intercalate (s.map toString)
  | .sum => toString (s.foldl (· + ·) 0)
  | .aod n => ",".intercalate ((List.range n).map (fun j => toString (colSum n j s)))

def total (k : Kind) (s : Sm) : Int :=
  match k with
  | .aod n => colSum n 0 s
  | _ => s.foldl (· + ·) 0

inductive Obj where
  | upd (c : Cfg) (seed : UInt64) (s : St Sm)
  | cmp (c : Compact Sm)
  | uni (c : Cfg) (seedHash : Nat) (u : Theta.Union Sm)
  | int (seedHash : Nat) (i : Theta.Inter Sm)

structure Store where
  objs : Array (Option Obj) := #[]

def Store.set (o : Store) (i : Nat) (v : Obj) : Store :=
  let a := if i < o.objs.size then o.objs else o.objs ++ Array.replicate (i + 1 - o.objs.size) none
  { objs := a.set! i (some v) }
def Store.get (o : Store) (i : Nat) : Option Obj := (o.objs[i]?).join

def insertPair (e : Nat × String) : List (Nat × String) → List (Nat × String)
  | [] => [e]
  | a :: t => if e.1 ≤ a.1 then e :: a :: t else a :: insertPair e t

def obsLine (k : Kind) (theta64 : Nat) (empty ordered : Bool) (seedHash : Nat) (ents : List (Nat × Sm)) : String :=
  let n := ents.length
  let est := n.toFloat / thetaFrac theta64
  let estMode := theta64 < MAX_THETA && !empty
  let es := (ents.map (fun e => (e.1, showSummary k e.2))).foldr insertPair []
  let body := joinSp (es.map (fun e => s!"{e.1}:{e.2}"))
  s!"U {theta64} {boolStr empty} {boolStr estMode} {boolStr ordered} {n} {hexF est} {seedHash} {body}"

def observe (k : Kind) : Obj → String
  | .upd _ seed s => obsLine k (theta64 s) s.isEmpty (isOrdered s) (seedHash seed).toNat s.ents ++ " sh=1"
  | .cmp c => obsLine k c.theta c.isEmpty c.ordered c.seedHash c.ents
  | _ => "ok"

def operand : Obj → Option (Compact Sm)
  | .upd _ seed s => some (operandOfUpdate s (seedHash seed).toNat)
  | .cmp c => some c
  | _ => none

/-- update policy: create() = [], update(s, v) = s ++ v (v has `arity` values) -/
def updF (v : Sm) : Option Sm → Sm
  | none => v
  | some s => s ++ v

/-- union / intersection policy: internal entry first, incoming second -/
def setPol : Sm → Sm → Sm := fun a b => a ++ b

structure DState where
  lst : Store := {}
  sum : Store := {}
  aod1 : Store := {}
  aod2 : Store := {}
  aod3 : Store := {}
  thetas : Array (Option (Cfg × UInt64 × St Unit)) := #[]

def DState.store (d : DState) : Kind → Store
  | .lst => d.lst | .sum => d.sum | .aod 1 => d.aod1 | .aod 2 => d.aod2 | .aod _ => d.aod3
def DState.setStore (d : DState) (k : Kind) (s : Store) : DState :=
  match k with
  | .lst => { d with lst := s } | .sum => { d with sum := s }
  | .aod 1 => { d with aod1 := s } | .aod 2 => { d with aod2 := s } | .aod _ => { d with aod3 := s }

def ints (l : List String) : Option (List Int) := l.mapM String.toInt?

def stepK (t : Tunables) (k : Kind) (thetas : Array (Option (Cfg × UInt64 × St Unit))) (o : Store) (w : List String) : Store × String :=
  let w := if w.getLast? == some "mv" then w.dropLast else w
  match w with
  | ["tnew", _, id, lgk, rf, p, seed] =>
    match id.toNat?, lgk.toNat?, rf.toNat?, parseHex p, seed.toNat? with
    | some id, some lgk, some rf, some p, some seed =>
      let c := mkCfg t lgk rf (UInt32.ofNat p)
      let ob := Obj.upd c (UInt64.ofNat seed) (init c)
      (o.set id ob, observe k ob)
    | _, _, _, _, _ => (o, "bad-op")
  | "tupd" :: _ :: id :: ty :: lit :: vals =>
    match id.toNat?, parseInput ty lit, ints vals with
    | some id, some inp, some v =>
      if v.length ≠ k.arity then (o, "bad-op") else
      match o.get id with
      | some (.upd c seed s) =>
        let s' := match thetaHash inp seed with
          | some h => offer c s h (updF v)
          | none => s
        let ob := Obj.upd c seed s'
        (o.set id ob, observe k ob)
      | _ => (o, "bad-op")
    | _, _, _ => (o, "bad-op")
  | ["ttrim", _, id] =>
    match id.toNat? >>= o.get with
    | some (.upd c seed s) => let ob := Obj.upd c seed (trim c s); (o.set id.toNat?.get! ob, observe k ob)
    | _ => (o, "bad-op")
  | ["treset", _, id] =>
    match id.toNat? >>= o.get with
    | some (.upd c seed s) => let ob := Obj.upd c seed (reset c s); (o.set id.toNat?.get! ob, observe k ob)
    | _ => (o, "bad-op")
  | ["tcopy", _, id, nid] =>
    match id.toNat? >>= o.get, nid.toNat? with
    | some (.upd c seed s), some nid => let ob := Obj.upd c seed s; (o.set nid ob, observe k ob)
    | some (.cmp c), some nid => let ob := Obj.cmp c; (o.set nid ob, observe k ob)
    | _, _ => (o, "bad-op")
  | ["tcompact", _, id, nid, ord] =>
    match (id.toNat? >>= o.get) >>= operand, nid.toNat? with
    | some a, some nid =>
      let ob := Obj.cmp (compactOfCompact a (ord == "1"))
      (o.set nid ob, observe k ob)
    | _, _ => (o, "bad-op")
  | ["tfilter", _, id, nid, thr] =>
    match k with
    | .aod _ => (o, "bad-op")
    | _ =>
      match (id.toNat? >>= o.get) >>= operand, nid.toNat?, thr.toInt? with
      | some a, some nid, some thr =>
        let ob := Obj.cmp (filterSk (fun s => decide (thr ≤ total k s)) a)
        (o.set nid ob, observe k ob)
      | _, _, _ => (o, "bad-op")
  | "tfromtheta" :: _ :: tid :: nid :: ord :: vals =>
    match k with
    | .aod _ => (o, "bad-op")
    | _ =>
      match tid.toNat?, nid.toNat?, ints vals with
      | some tid, some nid, some v =>
        match (thetas[tid]?).join with
        | some (_, seed, s) =>
          let ents : List (Nat × Sm) := if s.isEmpty then [] else s.ents.map (fun e => (e.1, v))
          let ob := Obj.cmp { theta := theta64 s, ents := ents, isEmpty := s.isEmpty, ordered := isOrdered s || ord == "1",
                              seedHash := (seedHash seed).toNat }
          (o.set nid ob, observe k ob)
        | none => (o, "bad-op")
      | _, _, _ => (o, "bad-op")
  | ["tunew", _, id, lgk, rf, p, seed] =>
    match id.toNat?, lgk.toNat?, rf.toNat?, parseHex p, seed.toNat? with
    | some id, some lgk, some rf, some p, some seed =>
      let c := mkCfg t lgk rf (UInt32.ofNat p)
      (o.set id (Obj.uni c (seedHash (UInt64.ofNat seed)).toNat (unionInit c)), "ok")
    | _, _, _, _, _ => (o, "bad-op")
  | ["tuupd", _, uid, sid] =>
    match uid.toNat? >>= o.get, (sid.toNat? >>= o.get) >>= operand with
    | some (.uni c sh u), some sk =>
      match unionUpdate c setPol sh u sk with
      | some u' => (o.set uid.toNat?.get! (Obj.uni c sh u'), "ok")
      | none => (o, "throw")
    | _, _ => (o, "bad-op")
  | ["tures", _, uid, nid, ord] =>
    match uid.toNat? >>= o.get, nid.toNat? with
    | some (.uni c sh u), some nid =>
      let ob := Obj.cmp (unionResult c u (ord == "1") sh)
      (o.set nid ob, observe k ob)
    | _, _ => (o, "bad-op")
  | ["tureset", _, uid] =>
    match uid.toNat? >>= o.get with
    | some (.uni c sh u) => (o.set uid.toNat?.get! (Obj.uni c sh (unionReset c u)), "ok")
    | _ => (o, "bad-op")
  | ["tinew", _, id, seed] =>
    match id.toNat?, seed.toNat? with
    | some id, some seed => (o.set id (Obj.int (seedHash (UInt64.ofNat seed)).toNat interInit), "ok")
    | _, _ => (o, "bad-op")
  | ["tiupd", _, iid, sid] =>
    match iid.toNat? >>= o.get, (sid.toNat? >>= o.get) >>= operand with
    | some (.int sh i), some sk =>
      match interUpdate setPol sh i sk with
      | some i' => (o.set iid.toNat?.get! (Obj.int sh i'), "ok")
      | none => (o, "throw")
    | _, _ => (o, "bad-op")
  | ["tires", _, iid, nid, ord] =>
    match iid.toNat? >>= o.get, nid.toNat? with
    | some (.int sh i), some nid =>
      match interResult i (ord == "1") sh with
      | some r => let ob := Obj.cmp r; (o.set nid ob, observe k ob)
      | none => (o, "throw")
    | _, _ => (o, "bad-op")
  | ["tihas", _, iid] =>
    match iid.toNat? >>= o.get with
    | some (.int _ i) => (o, s!"has {boolStr i.valid}")
    | _ => (o, "bad-op")
  | ["tanotb", _, aid, bid, nid, ord, seed] =>
    match (aid.toNat? >>= o.get) >>= operand, (bid.toNat? >>= o.get) >>= operand, nid.toNat?, seed.toNat? with
    | some a, some b, some nid, some seed =>
      match aNotB (seedHash (UInt64.ofNat seed)).toNat a b (ord == "1") with
      | some r => let ob := Obj.cmp r; (o.set nid ob, observe k ob)
      | none => (o, "throw")
    | _, _, _, _ => (o, "bad-op")
  | _ => (o, "bad-op")

def stepLine (t : Tunables) (d : DState) (w : List String) : DState × String :=
  match w with
  | ["new", id, lgk, rf, p, seed] =>
    match id.toNat?, lgk.toNat?, rf.toNat?, parseHex p, seed.toNat? with
    | some id, some lgk, some rf, some p, some seed =>
      let c := mkCfg t lgk rf (UInt32.ofNat p)
      let a := if id < d.thetas.size then d.thetas else d.thetas ++ Array.replicate (id + 1 - d.thetas.size) none
      ({ d with thetas := a.set! id (some (c, UInt64.ofNat seed, init c)) }, "ok")
    | _, _, _, _, _ => (d, "bad-op")
  | ["upd", id, ty, lit] =>
    match id.toNat?, parseInput ty lit with
    | some id, some inp =>
      match (d.thetas[id]?).join with
      | some (c, seed, s) =>
        let s' := match thetaHash inp seed with
          | some h => offer c s h (fun _ => ())
          | none => s
        ({ d with thetas := d.thetas.set! id (some (c, seed, s')) }, "ok")
      | none => (d, "bad-op")
    | _, _ => (d, "bad-op")
  | op :: kind :: rest =>
    match parseKind kind with
    | some k =>
      let (s', out) := stepK t k d.thetas (d.store k) (op :: kind :: rest)
      (d.setStore k s', out)
    | none => (d, "bad-op")
  | _ => (d, "bad-op")

end DS.Tuple

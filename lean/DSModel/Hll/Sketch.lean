/-
L1 model of `hll_sketch` (hll/include: HllSketch-internal, CouponList-internal, CouponHashSet-internal,
HllSketchImplFactory, HllArray-internal, Hll4Array/Hll6Array/Hll8Array-internal).

State: mode LIST / SET / HLL exactly as coded.
* LIST and SET keep the real coupon array `tbl` (EMPTY = 0 slots): LIST fills the first empty slot, SET places a new
  coupon by the code's open-addressing probe (stride `((coupon & KEY_MASK_26) >> lgArr) | 1`) and re-inserts in
  array order when it grows — so the iteration order `items` is the code's (it is observable through the
  order-dependent HIP accumulator when a union replays a coupon table).  Abstractions: the duplicate test is
  `tbl.contains` instead of the probe walk, `couponCount_` is `items.length`, and the `throw` branch of `find`
  ("no empty slot") is replaced by a total fallback (first empty slot, else push) so that every placement is lawful.
* HLL holds one register per slot (`regs`), the abstraction of the 4-, 6- and 8-bit arrays (their concrete layouts
  are the L2 models Array4/Array6/Array8.lean, tied to `regs` by refinement theorems).  `curMin`/`numAtCurMin` are
  maintained the way each target type maintains them (HLL_4: true minimum and its multiplicity, moved by
  shiftToBiggerCurMin; HLL_6/8: curMin stays put, numAtCurMin counts zero registers).
* `kxq0 kxq1 hip` live in an ops-only numeric class `HNum` (instance `Float` for execution = the code's doubles in
  the code's operation order; exact instances for theorems).
Core Lean only.
-/
import DSModel.Hll.Coupon
namespace DS.Hll

/-- the double arithmetic used by the update path (ops only) -/
class HNum (ν : Type) where
  ofNat : Nat → ν
  add : ν → ν → ν
  sub : ν → ν → ν
  div : ν → ν → ν
  /-- `INVERSE_POWERS_OF_2[i]` -/
  invPow2 : Nat → ν
  /-- `CouponList::getEstimate()` as a function of the coupon count (cubic interpolation table) -/
  couponEst : Nat → ν

instance : HNum Unit := ⟨fun _ => (), fun _ _ => (), fun _ _ => (), fun _ _ => (), fun _ => (), fun _ => ()⟩

inductive Mode | list | set | hll
deriving DecidableEq, Repr

inductive TType | h4 | h6 | h8
deriving DecidableEq, Repr

structure St (ν : Type) where
  lgK : Nat
  tt : TType
  startFull : Bool
  mode : Mode
  tbl : Array Nat           -- LIST / SET: `coupons_` (0 = EMPTY)
  lgArr : Nat               -- LIST / SET: lg of the coupon array size
  regs : Array Nat          -- HLL: 2^lgK registers
  curMin : Nat
  numAtCurMin : Nat
  kxq0 : ν
  kxq1 : ν
  hip : ν
  ooo : Bool
  rebuild : Bool            -- rebuild_kxq_curmin_ (only ever set inside a union gadget)

/-- the coupons of a LIST / SET array in iteration order (`coupon_iterator` skips EMPTY) -/
def itemsOf (tbl : Array Nat) : List Nat := tbl.toList.filter (· ≠ 0)

def St.items {ν} (s : St ν) : List Nat := itemsOf s.tbl

variable {ν : Type} [HNum ν]

/-- `CouponList(lgConfigK, tgtHllType, LIST)` -/
def newList (p : Params) (lgK : Nat) (tt : TType) : St ν :=
  { lgK, tt, startFull := false, mode := .list, tbl := Array.replicate (2^p.lgInitList) 0, lgArr := p.lgInitList,
    regs := #[], curMin := 0, numAtCurMin := 0, kxq0 := HNum.ofNat 0, kxq1 := HNum.ofNat 0, hip := HNum.ofNat 0,
    ooo := false, rebuild := false }

/-- `HllArray(lgConfigK, tgtHllType, startFullSize)` + the subclass constructor (zeroed byte array) -/
def newHll (lgK : Nat) (tt : TType) (startFull : Bool) : St ν :=
  { lgK, tt, startFull, mode := .hll, tbl := #[], lgArr := 0, regs := Array.replicate (2^lgK) 0,
    curMin := 0, numAtCurMin := 2^lgK, kxq0 := HNum.ofNat (2^lgK), kxq1 := HNum.ofNat 0, hip := HNum.ofNat 0,
    ooo := false, rebuild := false }

/-- `hll_sketch(lg_config_k, tgt_type, start_full_size)` -/
def newSketch (p : Params) (lgK : Nat) (tt : TType) (startFull : Bool) : St ν :=
  if startFull then newHll lgK tt true else newList p lgK tt

/-! ### coupon arrays -/

/-- index of the first EMPTY slot at or after `i` (`size` if none) -/
def firstZeroFrom (tbl : Array Nat) : Nat → Nat → Nat
  | 0, i => i
  | fuel + 1, i => if tbl.getD i 1 = 0 then i else firstZeroFrom tbl fuel (i + 1)

/-- put `c` into the first EMPTY slot; a full array is extended (the code throws there; unreachable) -/
def placeFirst (tbl : Array Nat) (c : Nat) : Array Nat :=
  let i := firstZeroFrom tbl tbl.size 0
  if i < tbl.size then tbl.setIfInBounds i c else tbl.push c

/-- stride of `find` in CouponHashSet-internal.hpp -/
def setStride (p : Params) (lgArr c : Nat) : Nat :=
  let q := (c % 2^p.keyBits) / 2^lgArr
  if q % 2 = 0 then q + 1 else q

/-- the probe walk of `find` for a coupon that is not in the table: the first EMPTY slot on the walk -/
def probeEmpty (tbl : Array Nat) (m stride : Nat) : Nat → Nat → Option Nat
  | 0, _ => none
  | fuel + 1, pr => if tbl.getD pr 1 = 0 then some pr else probeEmpty tbl m stride fuel ((pr + stride) % m)

/-- insert a new coupon into a hash-set array of size 2^lgArr -/
def setPlace (p : Params) (tbl : Array Nat) (lgArr c : Nat) : Array Nat :=
  match probeEmpty tbl (2^lgArr) (setStride p lgArr c) (2^lgArr) (c % 2^lgArr) with
  | some i => if i < tbl.size then tbl.setIfInBounds i c else placeFirst tbl c
  | none => placeFirst tbl c

/-- `CouponHashSet::growHashSet(lgArr + 1)` -/
def growSet (p : Params) (tbl : Array Nat) (lgArr : Nat) : Array Nat :=
  (itemsOf tbl).foldl (fun t c => setPlace p t (lgArr + 1) c) (Array.replicate (2^(lgArr + 1)) 0)

/-! ### HLL registers -/

/-- `HllArray::hipAndKxQIncrementalUpdate(oldValue, newValue)` -/
def hipKxq (s : St ν) (old new : Nat) : St ν :=
  let hip := if s.ooo then s.hip else HNum.add s.hip (HNum.div (HNum.ofNat (2^s.lgK)) (HNum.add s.kxq0 s.kxq1))
  let k0 := if old < 32 then HNum.sub s.kxq0 (HNum.invPow2 old) else s.kxq0
  let k1 := if old < 32 then s.kxq1 else HNum.sub s.kxq1 (HNum.invPow2 old)
  let k0 := if new < 32 then HNum.add k0 (HNum.invPow2 new) else k0
  let k1 := if new < 32 then k1 else HNum.add k1 (HNum.invPow2 new)
  { s with hip := hip, kxq0 := k0, kxq1 := k1 }

/-- the abstract effect of `while (numAtCurMin == 0) shiftToBiggerCurMin()`: step curMin up until some register
sits at it (registers never exceed 63, so 64 rounds of fuel suffice) -/
def shiftLoop (regs : Array Nat) : Nat → Nat → Nat × Nat
  | 0, cm => (cm, 0)
  | fuel + 1, cm =>
    let n := regs.count (cm + 1)
    if n = 0 then shiftLoop regs fuel (cm + 1) else (cm + 1, n)

/-- curMin / numAtCurMin bookkeeping after a register went from `old` to a bigger value (`regs` = the new registers) -/
def bumpPair (tt : TType) (regs : Array Nat) (curMin numAtCurMin old : Nat) : Nat × Nat :=
  match tt with
  | .h4 =>
    if old = curMin then
      if numAtCurMin - 1 = 0 then shiftLoop regs 64 curMin else (curMin, numAtCurMin - 1)
    else (curMin, numAtCurMin)
  | _ => if old = 0 then (curMin, numAtCurMin - 1) else (curMin, numAtCurMin)

def bumpCounts (s : St ν) (old : Nat) : St ν :=
  let r := bumpPair s.tt s.regs s.curMin s.numAtCurMin old
  { s with curMin := r.1, numAtCurMin := r.2 }

/-- register `slot` goes from `old` to the bigger `nv` -/
def raiseReg (s : St ν) (slot old nv : Nat) : St ν :=
  let s1 := hipKxq s old nv
  bumpCounts { s1 with regs := s1.regs.setIfInBounds slot nv } old

/-- `Hll{4,6,8}Array::internalCouponUpdate` at the register level -/
def hllUpdate (p : Params) (s : St ν) (c : Nat) : St ν :=
  if s.tt = .h4 ∧ cValue p c ≤ s.curMin then s else     -- HLL_4 quick rejection
  if s.regs.getD (cSlot p s.lgK c) 0 < cValue p c then
    raiseReg s (cSlot p s.lgK c) (s.regs.getD (cSlot p s.lgK c) 0) (cValue p c)
  else s

/-- `HllSketchImplFactory::promoteListOrSetToHll` -/
def promoteToHll (p : Params) (s : St ν) : St ν :=
  let t : St ν := newHll s.lgK s.tt false
  let t := s.items.foldl (hllUpdate p) t
  { t with hip := HNum.couponEst s.items.length, ooo := false }

/-- `CouponHashSet::couponUpdate` without the promotion (returns the new set and whether the code asks for promotion) -/
def setAdd (p : Params) (s : St ν) (c : Nat) : St ν × Bool :=
  if s.tbl.contains c then (s, false) else
  let s1 := { s with tbl := setPlace p s.tbl s.lgArr c }
  if p.resizeDen * s1.items.length > p.resizeNum * 2^s.lgArr then
    if s.lgArr = s.lgK - p.setMaxBelow then (s1, true)
    else ({ s1 with tbl := growSet p s1.tbl s.lgArr, lgArr := s.lgArr + 1 }, false)
  else (s1, false)

/-- `HllSketchImplFactory::promoteListToSet` (the return values of the inner couponUpdate calls are dropped there) -/
def promoteListToSet (p : Params) (s : St ν) : St ν :=
  let t : St ν := { s with mode := .set, tbl := Array.replicate (2^p.lgInitSet) 0, lgArr := p.lgInitSet }
  s.items.foldl (fun t c => (setAdd p t c).1) t

/-- `CouponList::couponUpdate` for a nonzero coupon -/
def listUpdate (p : Params) (s : St ν) (c : Nat) : St ν :=
  if s.tbl.contains c then s else
  let s1 := { s with tbl := placeFirst s.tbl c }
  if s1.items.length = 2^s.lgArr then
    if s.lgK < p.listToHllBelow then promoteToHll p s1 else promoteListToSet p s1
  else s1

/-- `CouponHashSet::couponUpdate` for a nonzero coupon -/
def setUpdate (p : Params) (s : St ν) (c : Nat) : St ν :=
  let r := setAdd p s c
  if r.2 then promoteToHll p r.1 else r.1

/-- `hll_sketch::coupon_update` -/
def couponUpdate (p : Params) (s : St ν) (c : Nat) : St ν :=
  if c = 0 then s else
  match s.mode with
  | .list => listUpdate p s c
  | .set => setUpdate p s c
  | .hll => hllUpdate p s c

/-- `HllSketchImpl::isEmpty` (HLL mode: as the code computes it from curMin / numAtCurMin) -/
def isEmpty (s : St ν) : Bool :=
  match s.mode with
  | .hll => s.curMin = 0 ∧ s.numAtCurMin = 2^s.lgK
  | _ => s.items.length = 0

/-- `hll_sketch::reset` -/
def reset (p : Params) (s : St ν) : St ν :=
  if s.startFull then newHll s.lgK s.tt true else newList p s.lgK s.tt

/-- number of nonzero registers -/
def nonZeroCount (regs : Array Nat) : Nat := regs.size - regs.count 0

/-- replay the non-empty registers of `src` in slot order into `t` (the `for (coupon : other)` loops) -/
def replayRegs (p : Params) (src : Array Nat) (t : St ν) : St ν :=
  (List.range src.size).foldl (fun t i =>
    let v := src.getD i 0
    if v = 0 then t else hllUpdate p t (cPair p i v)) t

/-- the converting constructors `Hll4Array/Hll6Array/Hll8Array(const HllArray& other)` -/
def convertTo (p : Params) (s : St ν) (tt : TType) : St ν :=
  let t : St ν := { (newHll s.lgK tt s.startFull : St ν) with ooo := s.ooo }
  let t := replayRegs p s.regs t
  let t := match tt with
    | .h4 => t
    | _ => { t with numAtCurMin := 2^s.lgK - nonZeroCount s.regs }
  { t with hip := s.hip, rebuild := false }

/-- `HllSketchImpl::copyAs(tgtHllType)` = `hll_sketch(const hll_sketch&, target_hll_type)` -/
def copyAs (p : Params) (s : St ν) (tt : TType) : St ν :=
  match s.mode with
  | .hll => if tt = s.tt ∧ s.rebuild = false then s else convertTo p s tt
  | _ => { s with tt := tt }

/-- a whole stream of coupons -/
def run (p : Params) (s : St ν) (cs : List Nat) : St ν := cs.foldl (couponUpdate p) s

end DS.Hll

/- Line-protocol driver for the hll family (C03 sketches, C04 unions). Core Lean only. -/
import DSModel.Hll.Estimate
import DSModel.Hll.Union
import DSModel.Hll.Arrays
namespace DS.Hll

structure Sk where
  s : St Float
  l2 : Option L2 := none      -- concrete array of the target type while in HLL mode (L2 model, run in parallel)

inductive Obj where
  | sk (s : Sk)
  | un (u : Un Float)

abbrev Objs := Array (Option Obj)

def Objs.set' (o : Objs) (i : Nat) (v : Obj) : Objs :=
  let o := if i < o.size then o else o ++ Array.replicate (i + 1 - o.size) none
  o.set! i (some v)

def Objs.get' (o : Objs) (i : Nat) : Option Obj := (o[i]?).join

def Objs.del (o : Objs) (i : Nat) : Objs := if i < o.size then o.set! i none else o

structure Env where
  p : Params
  t : Tables

def modeNum : Mode → Nat | .list => 0 | .set => 1 | .hll => 2
def ttNum : TType → Nat | .h4 => 4 | .h6 => 6 | .h8 => 8
def ttOf : String → Option TType | "4" => some .h4 | "6" => some .h6 | "8" => some .h8 | _ => none

def natList (l : List Nat) : String := joinSp (l.map toString)

def regsStr (r : Array Nat) : String :=
  if r.size ≤ 1024 then natList r.toList else s!"fold {hex64 (fold64 r.toList)}"

def shortObs (e : Env) (s : St Float) : String :=
  s!"S {s.lgK} {ttNum s.tt} {boolStr (isEmpty s)} {hexF (estimate e.t s)}"

def estBlock (e : Env) (s : St Float) : String :=
  joinSp ([estimate e.t s, compositeEstimate e.t s, lowerBound e.t s 1, upperBound e.t s 1, lowerBound e.t s 2,
    upperBound e.t s 2, lowerBound e.t s 3, upperBound e.t s 3].map hexF)

/-- full observation: estimates + the content of the HLL_8 copy's updatable image -/
def fullObs (e : Env) (s : St Float) : String :=
  letI := floatNum e.t
  let hd := s!"F {modeNum s.mode} {s.lgK} {ttNum s.tt} {boolStr (isEmpty s)} {boolStr s.ooo} {estBlock e s}"
  let c := copyAs e.p s .h8
  match c.mode with
  | .hll => s!"{hd} R {c.curMin} {c.numAtCurMin} {hexF c.kxq0} {hexF c.kxq1} {hexF c.hip} {regsStr c.regs}"
  | _ => s!"{hd} C {c.items.length} {natList (sortNat c.items)}"

/-- the sketch's own updatable image: raw coupon array / packed register bytes, curMin, numAtCurMin, aux pairs -/
def rawObs (p : Params) (k : Sk) : String :=
  let s := k.s
  match s.mode with
  | .hll =>
    match k.l2 with
    | some l =>
      let chk := if l.agrees s.curMin s.numAtCurMin && l.regs p == s.regs then "" else " L2-MISMATCH"
      s!"W {s.curMin} {s.numAtCurMin} {l.obs p}{chk}"
    | none => s!"W {s.curMin} {s.numAtCurMin} nol2"
  | _ => s!"W {s.lgArr} {natList s.tbl.toList}"

/-- keep the L2 array in step with the L1 state -/
def syncL2 (e : Env) (old : Sk) (new : St Float) (c : Option Nat) : Sk :=
  match new.mode with
  | .hll =>
    match old.s.mode, old.l2, c with
    | .hll, some l, some c => { s := new, l2 := some (l.update e.p c) }
    | .hll, some l, none => { s := new, l2 := some l }
    | _, _, _ => { s := new, l2 := some (L2.ofRegs e.p new.tt new.lgK new.regs) }
  | _ => { s := new, l2 := none }

def unObs (u : Un Float) : String :=
  let g := u.gadget
  s!"U {g.lgK} {boolStr (isEmpty g)}"

def stepLine (e : Env) (o : Objs) (w : List String) : Objs × String :=
  letI := floatNum e.t
  match w with
  | ["new", id, lgk, tt, sf] =>
    match id.toNat?, lgk.toNat?, ttOf tt with
    | some id, some lgk, some tt =>
      if lgk < 4 ∨ lgk > 21 then (o, "throw") else
      let s : St Float := newSketch e.p lgk tt (sf == "1")
      let k := syncL2 e { s := s } s none
      (o.set' id (.sk k), shortObs e s)
    | _, _, _ => (o, "bad-op")
  | ["upd", id, ty, lit] =>
    match id.toNat?, parseInput ty lit with
    | some id, some inp =>
      match o.get' id with
      | some (.sk k) =>
        match inputCoupon e.p inp with
        | some c =>
          let s' := couponUpdate e.p k.s c
          (o.set' id (.sk (syncL2 e k s' (some c))), shortObs e s')
        | none => (o, shortObs e k.s)
      | some (.un u) =>
        match inputCoupon e.p inp with
        | some c => let u' := unionCoupon e.p u c; (o.set' id (.un u'), unObs u')
        | none => (o, unObs u)
      | none => (o, "bad-op")
    | _, _ => (o, "bad-op")
  | ["copy", id, nid] =>
    match id.toNat? >>= o.get', nid.toNat? with
    | some (.sk k), some nid => (o.set' nid (.sk k), shortObs e k.s)
    | _, _ => (o, "bad-op")
  | ["conv", id, nid, tt] =>
    match id.toNat? >>= o.get', nid.toNat?, ttOf tt with
    | some (.sk k), some nid, some tt =>
      let s' := copyAs e.p k.s tt
      let k' : Sk := match s'.mode with
        | .hll => if tt = k.s.tt then { k with s := s' } else { s := s', l2 := some (L2.ofRegs e.p tt s'.lgK s'.regs) }
        | _ => { s := s', l2 := none }
      (o.set' nid (.sk k'), shortObs e s')
    | _, _, _ => (o, "bad-op")
  | ["reset", id] =>
    match id.toNat? >>= o.get' with
    | some (.sk k) =>
      let s' := reset e.p k.s
      (o.set' id.toNat?.get! (.sk (syncL2 e { s := s' } s' none)), shortObs e s')
    | _ => (o, "bad-op")
  | ["obs", id] =>
    match id.toNat? >>= o.get' with
    | some (.sk k) => (o, fullObs e k.s)
    | _ => (o, "bad-op")
  | ["raw", id] =>
    match id.toNat? >>= o.get' with
    | some (.sk k) => (o, rawObs e.p k)
    | _ => (o, "bad-op")
  | ["unew", id, lgk] =>
    match id.toNat?, lgk.toNat? with
    | some id, some lgk =>
      if lgk < 4 ∨ lgk > 21 then (o, "throw") else
      let u : Un Float := newUnion e.p lgk
      (o.set' id (.un u), unObs u)
    | _, _ => (o, "bad-op")
  | ["umerge", uid, sid, rv] =>
    match uid.toNat? >>= o.get', sid.toNat? >>= o.get' with
    | some (.un u), some (.sk k) =>
      if rv == "1" then
        let u' := unionUpdateRvF e.p u k.s
        ((o.del sid.toNat?.get!).set' uid.toNat?.get! (.un u'), unObs u')
      else
        let u' := unionUpdateF e.p u k.s
        (o.set' uid.toNat?.get! (.un u'), unObs u')
    | _, _ => (o, "bad-op")
  | ["ures", uid, nid, tt] =>
    match uid.toNat? >>= o.get', nid.toNat?, ttOf tt with
    | some (.un u), some nid, some tt =>
      let s' := unionResult e.p u tt
      let k : Sk := match s'.mode with
        | .hll => { s := s', l2 := some (L2.ofRegs e.p tt s'.lgK s'.regs) }
        | _ => { s := s', l2 := none }
      (o.set' nid (.sk k), fullObs e s')
    | _, _, _ => (o, "bad-op")
  | ["uest", uid, what] =>
    match uid.toNat? >>= o.get' with
    | some (.un u) =>
      let u' := unionTouch u
      let g := u'.gadget
      let v := match what with
        | "est" => estimate e.t g
        | "comp" => compositeEstimate e.t g
        | "lb1" => lowerBound e.t g 1 | "lb2" => lowerBound e.t g 2 | "lb3" => lowerBound e.t g 3
        | "ub1" => upperBound e.t g 1 | "ub2" => upperBound e.t g 2 | _ => upperBound e.t g 3
      (o.set' uid.toNat?.get! (.un u'), s!"E {hexF v} {unObs u'}")
    | _ => (o, "bad-op")
  | ["ureset", uid] =>
    match uid.toNat? >>= o.get' with
    | some (.un u) => let u' := unionResetF e.p u; (o.set' uid.toNat?.get! (.un u'), unObs u')
    | _ => (o, "bad-op")
  | _ => (o, "bad-op")

/-- `coupon <ty> <lit>`: the Lean hash + canonicalisation + coupon function (used by the property oracles) -/
def couponLine (p : Params) (w : List String) : String :=
  match w with
  | ["coupon", ty, lit] =>
    match parseInput ty lit with
    | some inp => match inputCoupon p inp with
      | some c => s!"C {c}"
      | none => "C ignored"
    | none => "bad-op"
  | ["pool", start, count] =>
    match start.toNat?, count.toNat? with
    | some a, some n => joinSp ((List.range n).map fun i =>
        toString ((inputCoupon p (.u64 (a + i))).getD 0))
    | _, _ => "bad-op"
  | _ => "bad-op"

end DS.Hll

/-
L2 model of `Hll4Array` (hll/include/Hll4Array-internal.hpp, AuxHashMap-internal.hpp): two 4-bit nibbles per byte
holding `register - curMin` (AUX_TOKEN = 15 marks an exception whose true value lives in the aux map), `curMin`,
`numAtCurMin`, `internalHll4Update` with its four cases and `shiftToBiggerCurMin` as coded.
The aux map is an association list slot ↦ value plus the `lgAuxArrInts` growth counter (its open-addressing layout is
unobservable once the pairs are sorted).  The code's `throw` branches set the sticky flag `bad`; the refinement
theorem (DSProofs/Lemmas/HllArray4.lean) shows they are unreachable from states satisfying the representation
invariant.
Core Lean only.
-/
import DSModel.Hll.Coupon
namespace DS.Hll

structure Aux where
  lgArr : Nat
  ents : List (Nat × Nat)      -- (slot, value), no slot twice
deriving Repr

structure H4 where
  lgK : Nat
  bytes : Array Nat            -- 2^(lgK-1) bytes, low nibble = even slot
  curMin : Nat
  numAtCurMin : Nat
  aux : Option Aux
  bad : Bool                   -- a logic_error / runtime_error branch of the code was reached
deriving Repr

/-- `Hll4Array::getSlot` -/
def getNib (bytes : Array Nat) (slot : Nat) : Nat :=
  let b := bytes.getD (slot / 2) 0
  if slot % 2 = 1 then b / 16 else b % 16

/-- `Hll4Array::putSlot` -/
def putNib (bytes : Array Nat) (slot v : Nat) : Array Nat :=
  let b := bytes.getD (slot / 2) 0
  if slot % 2 = 0 then bytes.setIfInBounds (slot / 2) ((b / 16) * 16 + v % 16)
  else bytes.setIfInBounds (slot / 2) (b % 16 + (v % 16) * 16)

def Aux.find (a : Aux) (slot : Nat) : Option Nat := (a.ents.find? (·.1 = slot)).map (·.2)

/-- `AuxHashMap::checkGrow` after an insertion -/
def Aux.grown (p : Params) (a : Aux) : Aux :=
  if p.resizeDen * a.ents.length > p.resizeNum * 2^a.lgArr then { a with lgArr := a.lgArr + 1 } else a

/-- `AuxHashMap::mustAdd` (`none`: the slot is already there -> the code throws) -/
def Aux.add (p : Params) (a : Aux) (slot v : Nat) : Option Aux :=
  match a.find slot with
  | some _ => none
  | none => some (Aux.grown p { a with ents := a.ents ++ [(slot, v)] })

/-- `AuxHashMap::mustReplace` (`none`: not found -> the code throws) -/
def Aux.replace (a : Aux) (slot v : Nat) : Option Aux :=
  match a.find slot with
  | some _ => some { a with ents := a.ents.map (fun e => if e.1 = slot then (slot, v) else e) }
  | none => none

def newAux (p : Params) (lgK : Nat) : Aux := { lgArr := p.lgAuxArrInts.getD lgK 0, ents := [] }

def H4.new (lgK : Nat) : H4 :=
  { lgK, bytes := Array.replicate (2^(lgK - 1)) 0, curMin := 0, numAtCurMin := 2^lgK, aux := none, bad := false }

/-- register value of a slot: `nibble + curMin`, or the aux value for AUX_TOKEN (`adjustRawValue`) -/
def H4.reg (p : Params) (h : H4) (slot : Nat) : Nat :=
  let raw := getNib h.bytes slot
  if raw = p.auxToken then ((h.aux.bind (·.find slot)).getD 0) else raw + h.curMin

def H4.regs (p : Params) (h : H4) : Array Nat := ((List.range (2^h.lgK)).map (h.reg p)).toArray

/-- first loop of `shiftToBiggerCurMin`: decrement every non-exception nibble.
state: (bytes, numAtNewCurMin, numAuxTokens, bad) -/
def shiftNibStep (p : Params) (hasAux : Bool) (st : Array Nat × Nat × Nat × Bool) (i : Nat) : Array Nat × Nat × Nat × Bool :=
  let (bytes, nNew, nTok, bad) := st
  let old := getNib bytes i
  if old = 0 then (bytes, nNew, nTok, true)
  else if old < p.auxToken then
    (putNib bytes i (old - 1), if old - 1 = 0 then nNew + 1 else nNew, nTok, bad)
  else (bytes, nNew, nTok + 1, bad || !hasAux)

/-- second loop of `shiftToBiggerCurMin`: walk the old aux map.
state: (bytes, newAux, numAuxTokens, bad) -/
def shiftAuxStep (p : Params) (lgK newCurMin : Nat) (st : Array Nat × Option Aux × Nat × Bool) (e : Nat × Nat) :
    Array Nat × Option Aux × Nat × Bool :=
  let (bytes, na, nTok, bad) := st
  let (slot, v) := e
  if v < newCurMin then (bytes, na, nTok, true) else
  let nsv := v - newCurMin
  let bad := bad || (getNib bytes slot != p.auxToken)
  if nsv < p.auxToken then
    (putNib bytes slot nsv, na, nTok - 1, bad || (nsv != p.auxToken - 1))
  else
    match (na.getD (newAux p lgK)).add p slot v with
    | some a => (bytes, some a, nTok, bad)
    | none => (bytes, na, nTok, true)

/-- `Hll4Array::shiftToBiggerCurMin` -/
def H4.shift (p : Params) (h : H4) : H4 :=
  let newCurMin := h.curMin + 1
  let (bytes, nNew, nTok, bad) :=
    (List.range (2^h.lgK)).foldl (shiftNibStep p h.aux.isSome) (h.bytes, 0, 0, h.bad)
  match h.aux with
  | some a =>
    let (bytes, na, nTok, bad) := a.ents.foldl (shiftAuxStep p h.lgK newCurMin) (bytes, none, nTok, bad)
    let bad := bad || (match na with | some x => x.ents.length != nTok | none => false)
    { h with bytes := bytes, aux := na, curMin := newCurMin, numAtCurMin := nNew, bad := bad }
  | none =>
    { h with bytes := bytes, aux := none, curMin := newCurMin, numAtCurMin := nNew, bad := bad || (nTok != 0) }

/-- `while (numAtCurMin == 0) shiftToBiggerCurMin()` -/
def H4.shiftWhile (p : Params) : Nat → H4 → H4
  | 0, h => h
  | fuel + 1, h => if h.numAtCurMin = 0 then H4.shiftWhile p fuel (h.shift p) else h

/-- actual old value of a slot (`none`: AUX_TOKEN without an aux entry -> the code throws) -/
def H4.actualOld (p : Params) (h : H4) (slot raw : Nat) : Option Nat :=
  if raw < p.auxToken then some (raw + h.curMin) else h.aux.bind (·.find slot)

/-- cases 1-4 of `internalHll4Update`: store the new, bigger value (curMin / numAtCurMin handled by the caller) -/
def H4.store (p : Params) (h : H4) (slot nv raw : Nat) : H4 :=
  let shifted := nv - h.curMin
  if raw = p.auxToken then
    if shifted ≥ p.auxToken then                       -- case 1: exception stays an exception
      match h.aux.bind (·.replace slot nv) with
      | some a => { h with aux := some a }
      | none => { h with bad := true }
    else h                                              -- case 2: impossible
  else if shifted ≥ p.auxToken then                    -- case 3: new exception
    match (h.aux.getD (newAux p h.lgK)).add p slot nv with
    | some a => { h with bytes := putNib h.bytes slot p.auxToken, aux := some a }
    | none => { h with bytes := putNib h.bytes slot p.auxToken, bad := true }
  else { h with bytes := putNib h.bytes slot shifted } -- case 4

/-- `Hll4Array::internalHll4Update(slotNo, newVal)` -/
def H4.update4 (p : Params) (h : H4) (slot nv : Nat) : H4 :=
  let raw := getNib h.bytes slot
  if nv > raw + h.curMin then
    match H4.actualOld p h slot raw with
    | none => { h with bad := true }
    | some old =>
      if nv > old then
        let h1 := H4.store p h slot nv raw
        if old = h.curMin then H4.shiftWhile p 64 { h1 with numAtCurMin := h1.numAtCurMin - 1 } else h1
      else h
  else h

/-- `Hll4Array::internalCouponUpdate` -/
def H4.update (p : Params) (h : H4) (c : Nat) : H4 :=
  let nv := cValue p c
  if nv ≤ h.curMin then h else H4.update4 p h (cSlot p h.lgK c) nv

end DS.Hll

/-
L1 model of `hll_union` (hll/include/HllUnion-internal.hpp, Hll8Array::mergeHll / mergeList,
HllArray::check_rebuild_kxq_cur_min): the gadget is an HLL_8 `St`; `unionImpl` has the code's case split on
(source mode, gadget mode, gadget `isEmpty` AS THE CODE COMPUTES IT from (curMin, numAtCurMin), relative lgK).
`mergeHll` is modelled on registers (the per-width decoding loops of the code all read "register i of the source");
it sets the deferred-rebuild flag and leaves kxq/curMin/numAtCurMin stale exactly as the code does.
Core Lean only.
-/
import DSModel.Hll.Sketch
namespace DS.Hll

structure Un (ν : Type) where
  lgMaxK : Nat
  gadget : St ν

variable {ν : Type} [HNum ν]

/-- `hll_union(lg_max_k)` -/
def newUnion (p : Params) (lgMaxK : Nat) : Un ν := { lgMaxK, gadget := newSketch p lgMaxK .h8 false }

/-- `Hll8Array::mergeHll(src)` on registers: slot i of the source folds to slot `i & mask` (same-k path: i itself) -/
def mergeRegs (dst : Array Nat) (dstLgK : Nat) (src : Array Nat) : Array Nat :=
  (List.range src.size).foldl (fun d i =>
    let j := i % 2^dstLgK
    d.setIfInBounds j (max (d.getD j 0) (src.getD i 0))) dst

def mergeHll (dst src : St ν) : St ν :=
  { dst with regs := mergeRegs dst.regs dst.lgK src.regs, rebuild := true }

/-- `Hll8Array::mergeList(src)` -/
def mergeList (p : Params) (dst : St ν) (coupons : List Nat) : St ν := coupons.foldl (hllUpdate p) dst

/-- `hll_union::copy_or_downsample(src, tgt_lg_k)` (src in HLL mode) -/
def copyOrDownsample (p : Params) (src : St ν) (tgtLgK : Nat) : St ν :=
  if src.lgK ≤ tgtLgK then copyAs p src .h8 else
  let t : St ν := newHll tgtLgK .h8 false
  let t := mergeHll t src
  { t with hip := src.hip, ooo := src.ooo }

/-- `hll_union::union_impl(sketch, lg_max_k)` -/
def unionImpl (p : Params) (u : Un ν) (src : St ν) : Un ν :=
  let dst := u.gadget
  if src.mode ≠ .hll then
    if isEmpty dst ∧ src.lgK = dst.lgK then { u with gadget := copyAs p src .h8 }
    else { u with gadget := src.items.foldl (couponUpdate p) dst }
  else if !isEmpty dst then
    if dst.mode ≠ .hll then
      let d := copyOrDownsample p src u.lgMaxK
      { u with gadget := mergeList p d dst.items }
    else
      let d := if src.lgK < dst.lgK then copyOrDownsample p dst src.lgK else dst
      let d := mergeHll d src
      { u with gadget := { d with ooo := true, hip := HNum.ofNat 0 } }
  else { u with gadget := copyOrDownsample p src u.lgMaxK }

/-- `hll_union::update(const hll_sketch&)` -/
def unionUpdate (p : Params) (u : Un ν) (src : St ν) : Un ν :=
  if isEmpty src then u else unionImpl p u src

/-- `hll_union::update(hll_sketch&&)`: the adoption shortcut swaps the gadget with the argument, then `union_impl`
runs with the (swapped) argument -/
def unionUpdateRv (p : Params) (u : Un ν) (src : St ν) : Un ν :=
  if isEmpty src then u else
  if isEmpty u.gadget ∧ src.tt = .h8 ∧ src.lgK ≤ u.lgMaxK ∧ (src.mode = .hll ∨ src.lgK = u.lgMaxK) then
    unionImpl p { u with gadget := src } u.gadget
  else unionImpl p u src

/-- `hll_union::update(datum)` for a raw item's coupon -/
def unionCoupon (p : Params) (u : Un ν) (c : Nat) : Un ν := { u with gadget := couponUpdate p u.gadget c }

/-- one register in `check_rebuild_kxq_cur_min`'s loop -/
def rebuildStep (acc : Nat × Nat × ν × ν) (v : Nat) : Nat × Nat × ν × ν :=
  let (cm, n, k0, k1) := acc
  let k0 := if v > 0 ∧ v < 32 then HNum.add k0 (HNum.sub (HNum.invPow2 v) (HNum.ofNat 1)) else k0
  let k1 := if v > 0 ∧ ¬ v < 32 then HNum.add k1 (HNum.sub (HNum.invPow2 v) (HNum.ofNat 1)) else k1
  if v > cm then (cm, n, k0, k1)
  else if v < cm then (v, 1, k0, k1)
  else (cm, n + 1, k0, k1)

/-- `HllArray::check_rebuild_kxq_cur_min` -/
def checkRebuild (s : St ν) : St ν :=
  if s.mode = .hll ∧ s.rebuild then
    let r := s.regs.toList.foldl rebuildStep (64, 0, HNum.ofNat (2^s.lgK), HNum.ofNat 0)
    { s with curMin := r.1, numAtCurMin := r.2.1, kxq0 := r.2.2.1, kxq1 := r.2.2.2, rebuild := false }
  else s

/-- what `get_estimate` / `get_composite_estimate` / `get_lower_bound` / `get_upper_bound` do to the union first -/
def unionTouch (u : Un ν) : Un ν := { u with gadget := checkRebuild u.gadget }

/-- `hll_union::get_result(type)` (const: the gadget is not rebuilt) -/
def unionResult (p : Params) (u : Un ν) (tt : TType) : St ν := copyAs p u.gadget tt

/-- `hll_union::reset()` -/
def unionReset (p : Params) (u : Un ν) : Un ν := { u with gadget := reset p u.gadget }

/-! ### the union as the source has it NOW (flags of `Params` read from the headers by tools/trules/hll.py)

The definitions above are the PINNED shape (defects D1 / D14, refuted in Props/C04.lean).  The `…F` variants follow the two
source-shape flags and are what the driver executes; with both flags false they are the pinned functions. -/

/-- `copy_or_downsample` with the repaired tail: `check_rebuild_kxq_cur_min()` right after `mergeHll` -/
def copyOrDownsampleF (p : Params) (src : St ν) (tgtLgK : Nat) : St ν :=
  if p.unionDownsampleRebuilds then
    if src.lgK ≤ tgtLgK then copyAs p src .h8 else
    let t : St ν := checkRebuild (mergeHll (newHll tgtLgK .h8 false) src)
    { t with hip := src.hip, ooo := src.ooo }
  else copyOrDownsample p src tgtLgK

def unionImplF (p : Params) (u : Un ν) (src : St ν) : Un ν :=
  let dst := u.gadget
  if src.mode ≠ .hll then
    if isEmpty dst ∧ src.lgK = dst.lgK then { u with gadget := copyAs p src .h8 }
    else { u with gadget := src.items.foldl (couponUpdate p) dst }
  else if !isEmpty dst then
    if dst.mode ≠ .hll then
      let d := copyOrDownsampleF p src u.lgMaxK
      { u with gadget := mergeList p d dst.items }
    else
      let d := if src.lgK < dst.lgK then copyOrDownsampleF p dst src.lgK else dst
      let d := mergeHll d src
      { u with gadget := { d with ooo := true, hip := HNum.ofNat 0 } }
  else { u with gadget := copyOrDownsampleF p src u.lgMaxK }

def unionUpdateF (p : Params) (u : Un ν) (src : St ν) : Un ν :=
  if isEmpty src then u else unionImplF p u src

def unionUpdateRvF (p : Params) (u : Un ν) (src : St ν) : Un ν :=
  if isEmpty src then u else
  if isEmpty u.gadget ∧ src.tt = .h8 ∧ src.lgK ≤ u.lgMaxK ∧ (src.mode = .hll ∨ src.lgK = u.lgMaxK) then
    unionImplF p { u with gadget := src } u.gadget
  else unionImplF p u src

/-- `hll_union::reset()`: repaired shape = a fresh gadget of lg_max_k -/
def unionResetF (p : Params) (u : Un ν) : Un ν :=
  if p.unionResetToMaxK then { u with gadget := newSketch p u.lgMaxK .h8 false } else unionReset p u

/-! ### histories (used by the theorems of Props/C04.lean) -/

/-- an input sketch described by its own configuration and item (coupon) stream -/
structure SkDesc where
  lgK : Nat
  tt : TType
  sf : Bool
  cs : List Nat
deriving Repr

def SkDesc.build (p : Params) (d : SkDesc) : St ν := run p (newSketch p d.lgK d.tt d.sf) d.cs

inductive UOp where
  | merge (d : SkDesc) (rvalue : Bool)   -- update(sketch) / update(std::move(sketch))
  | coupon (c : Nat)                     -- update(raw item) at the coupon level
  | touch                                -- get_estimate / get_composite_estimate / get_lower_bound / get_upper_bound
  | reset
deriving Repr

def uStep (p : Params) (u : Un ν) : UOp → Un ν
  | .merge d false => unionUpdate p u (d.build p)
  | .merge d true => unionUpdateRv p u (d.build p)
  | .coupon c => unionCoupon p u c
  | .touch => unionTouch u
  | .reset => unionReset p u

def uRun (p : Params) (u : Un ν) (ops : List UOp) : Un ν := ops.foldl (uStep p) u

/-- one operation / a history on the union as the source has it now -/
def uStepF (p : Params) (u : Un ν) : UOp → Un ν
  | .merge d false => unionUpdateF p u (d.build p)
  | .merge d true => unionUpdateRvF p u (d.build p)
  | .coupon c => unionCoupon p u c
  | .touch => unionTouch u
  | .reset => unionResetF p u

def uRunF (p : Params) (u : Un ν) (ops : List UOp) : Un ν := ops.foldl (uStepF p) u

/-- every coupon offered since the last reset: the inputs' own item lists and the raw items -/
def offeredStep (acc : List Nat) : UOp → List Nat
  | .merge d _ => acc ++ d.cs
  | .coupon c => acc ++ [c]
  | .touch => acc
  | .reset => []

def offered (ops : List UOp) : List Nat := ops.foldl offeredStep []

/-- min(lg_max_k, lg_k of every non-empty HLL-mode input since the last reset) -/
def lgkStep (p : Params) (lgMaxK : Nat) (acc : Nat) : UOp → Nat
  | .merge d _ => if (d.build p : St Unit).mode = .hll ∧ ¬ isEmpty (d.build p : St Unit) then min acc d.lgK else acc
  | .reset => lgMaxK
  | _ => acc

def expectedLgK (p : Params) (lgMaxK : Nat) (ops : List UOp) : Nat := ops.foldl (lgkStep p lgMaxK) lgMaxK

end DS.Hll

/- The tunables and tables of the CURRENT headers (DSGen/Hll.lean, regenerated every run) as model parameters. Core Lean only. -/
import DSModel.Hll.Estimate
import DSGen.Hll
namespace DS.Hll

def fl (a : Array UInt64) : Array Float := a.map Float.ofBits

def hllParams : Params :=
  { keyBits := DSGen.hll_KEY_BITS_26, lgInitList := DSGen.hll_LG_INIT_LIST_SIZE, lgInitSet := DSGen.hll_LG_INIT_SET_SIZE,
    resizeNum := DSGen.hll_RESIZE_NUMER, resizeDen := DSGen.hll_RESIZE_DENOM,
    listToHllBelow := DSGen.hll_LIST_TO_HLL_BELOW_LGK, setMaxBelow := DSGen.hll_SET_MAX_LG_BELOW_LGK,
    auxToken := DSGen.hll_AUX_TOKEN, unionDownsampleRebuilds := DSGen.hll_unionDownsampleRebuilds,
    unionResetToMaxK := DSGen.hll_unionResetToMaxK, lgAuxArrInts := DSGen.hll_LG_AUX_ARR_INTS.toList }

def hllTables : Tables :=
  { couponX := fl DSGen.hll_couponX, couponY := fl DSGen.hll_couponY, compX := DSGen.hll_compX.map fl,
    yStrides := DSGen.hll_yStrides, harmonic := fl DSGen.hll_harmonic, euler := Float.ofBits DSGen.hll_EULER,
    hipLB := fl DSGen.hll_HIP_LB, hipUB := fl DSGen.hll_HIP_UB, nonHipLB := fl DSGen.hll_NON_HIP_LB,
    nonHipUB := fl DSGen.hll_NON_HIP_UB, hipRse := Float.ofBits DSGen.hll_HLL_HIP_RSE_FACTOR,
    nonHipRse := Float.ofBits DSGen.hll_HLL_NON_HIP_RSE_FACTOR, couponRse := Float.ofBits DSGen.hll_COUPON_RSE,
    invPow2 := fl DSGen.hll_invPow2, rawCorr456 := fl DSGen.hll_rawCorr456,
    rawCorrNum := Float.ofBits DSGen.hll_rawCorrNum, rawCorrDen := Float.ofBits DSGen.hll_rawCorrDen,
    crossOver45 := fl DSGen.hll_crossOver45, crossOverDefault := Float.ofBits DSGen.hll_crossOverDefault,
    linCountFactor := DSGen.hll_linCountFactor, minLgK := DSGen.hll_MIN_LOG_K }

end DS.Hll

/-
HLL estimators and bounds in Lean `Float` (IEEE binary64, same libm), written in the code's operation order so that
results compare bit for bit with the C++ doubles (CouponList-internal.hpp, HllArray-internal.hpp,
CubicInterpolation-internal.hpp, HarmonicNumbers-internal.hpp, RelativeErrorTables-internal.hpp, HllUtil.hpp).
All tables and literals are fields of `Tables`, filled from DSGen/Hll.lean (regenerated from the headers).
Core Lean only.
-/
import DSModel.Hll.Sketch
namespace DS.Hll

structure Tables where
  couponX : Array Float
  couponY : Array Float
  compX : Array (Array Float)      -- index lgK - 4
  yStrides : Array Nat
  harmonic : Array Float
  euler : Float
  hipLB : Array Float
  hipUB : Array Float
  nonHipLB : Array Float
  nonHipUB : Array Float
  hipRse : Float
  nonHipRse : Float
  couponRse : Float
  invPow2 : Array Float
  rawCorr456 : Array Float
  rawCorrNum : Float
  rawCorrDen : Float
  crossOver45 : Array Float
  crossOverDefault : Float
  linCountFactor : Nat
  minLgK : Nat

def fmax (a b : Float) : Float := if a < b then b else a

def fget (a : Array Float) (i : Nat) : Float := a.getD i 0.0

/-- `cubicInterpolate` -/
def cubicInterpolate (x0 y0 x1 y1 x2 y2 x3 y3 x : Float) : Float :=
  let l0n := (x - x1) * (x - x2) * (x - x3)
  let l1n := (x - x0) * (x - x2) * (x - x3)
  let l2n := (x - x0) * (x - x1) * (x - x3)
  let l3n := (x - x0) * (x - x1) * (x - x2)
  let l0d := (x0 - x1) * (x0 - x2) * (x0 - x3)
  let l1d := (x1 - x0) * (x1 - x2) * (x1 - x3)
  let l2d := (x2 - x0) * (x2 - x1) * (x2 - x3)
  let l3d := (x3 - x0) * (x3 - x1) * (x3 - x2)
  let t0 := y0 * l0n / l0d
  let t1 := y1 * l1n / l1d
  let t2 := y2 * l2n / l2d
  let t3 := y3 * l3n / l3d
  t0 + t1 + t2 + t3

/-- `recursiveFindStraddle` (invariant xArr[l] <= x < xArr[r]) -/
def findStraddle (xArr : Array Float) (x : Float) : Nat → Nat → Nat → Nat
  | 0, l, _ => l
  | fuel + 1, l, r =>
    if l + 1 ≥ r then l else
    let m := l + (r - l) / 2
    if fget xArr m ≤ x then findStraddle xArr x fuel m r else findStraddle xArr x fuel l m

/-- `CubicInterpolation::usingXAndYTables(x)` (coupon estimator; x inside the table range) -/
def usingXAndYTables (t : Tables) (x : Float) : Float :=
  let len := t.couponX.size
  if x == fget t.couponX (len - 1) then fget t.couponY (len - 1) else
  let off := findStraddle t.couponX x 64 0 (len - 1)
  let o := if off = 0 then 0 else if off = len - 2 then off - 2 else off - 1
  cubicInterpolate (fget t.couponX o) (fget t.couponY o) (fget t.couponX (o+1)) (fget t.couponY (o+1))
    (fget t.couponX (o+2)) (fget t.couponY (o+2)) (fget t.couponX (o+3)) (fget t.couponY (o+3)) x

/-- `CubicInterpolation::usingXArrAndYStride` -/
def usingXArrAndYStride (xArr : Array Float) (yStride : Float) (x : Float) : Float :=
  let len := xArr.size
  if x == fget xArr (len - 1) then yStride * Float.ofNat (len - 1) else
  let off := findStraddle xArr x 64 0 (len - 1)
  let o := if off = 0 then 0 else if off = len - 2 then off - 2 else off - 1
  cubicInterpolate (fget xArr o) (yStride * Float.ofNat o) (fget xArr (o+1)) (yStride * Float.ofNat (o+1))
    (fget xArr (o+2)) (yStride * Float.ofNat (o+2)) (fget xArr (o+3)) (yStride * Float.ofNat (o+3)) x

/-- `CouponList::getEstimate` -/
def couponEstimate (t : Tables) (count : Nat) : Float :=
  fmax (usingXAndYTables t (Float.ofNat count)) (Float.ofNat count)

def couponLower (t : Tables) (count nsd : Nat) : Float :=
  let est := usingXAndYTables t (Float.ofNat count)
  fmax (est / (1.0 + (Float.ofNat nsd * t.couponRse))) (Float.ofNat count)

def couponUpper (t : Tables) (count nsd : Nat) : Float :=
  let est := usingXAndYTables t (Float.ofNat count)
  fmax (est / (1.0 - (Float.ofNat nsd * t.couponRse))) (Float.ofNat count)

/-- `HarmonicNumbers::harmonicNumber` -/
def harmonicNumber (t : Tables) (n : Nat) : Float :=
  if n < t.harmonic.size then fget t.harmonic n else
  let x := Float.ofNat n
  let invSq := 1.0 / (x * x)
  let sum := Float.log x + t.euler + (1.0 / (2.0 * x))
  let pow := invSq
  let sum := sum - pow * (1.0 / 12.0)
  let pow := pow * invSq
  let sum := sum + pow * (1.0 / 120.0)
  let pow := pow * invSq
  let sum := sum - pow * (1.0 / 252.0)
  let pow := pow * invSq
  let sum := sum + pow * (1.0 / 240.0)
  sum

/-- `HllArray::getHllBitMapEstimate` -/
def hllBitMapEstimate (t : Tables) (lgK curMin numAtCurMin : Nat) : Float :=
  let k := 2^lgK
  let unhit := if curMin = 0 then numAtCurMin else 0
  if unhit = 0 then Float.ofNat k * Float.log (Float.ofNat k / 0.5) else
  let hit := k - unhit
  Float.ofNat k * (harmonicNumber t k - harmonicNumber t (k - hit))

/-- `HllArray::getHllRawEstimate` -/
def hllRawEstimate (t : Tables) (lgK : Nat) (kxq0 kxq1 : Float) : Float :=
  let k := Float.ofNat (2^lgK)
  let cf := if lgK = 4 then fget t.rawCorr456 0 else if lgK = 5 then fget t.rawCorr456 1
    else if lgK = 6 then fget t.rawCorr456 2 else t.rawCorrNum / (1.0 + (t.rawCorrDen / k))
  (cf * k * k) / (kxq0 + kxq1)

/-- `HllArray::getCompositeEstimate` -/
def hllCompositeEstimate (t : Tables) (lgK curMin numAtCurMin : Nat) (kxq0 kxq1 : Float) : Float :=
  let rawEst := hllRawEstimate t lgK kxq0 kxq1
  let xArr := t.compX.getD (lgK - t.minLgK) #[]
  let yStride := Float.ofNat (t.yStrides.getD (lgK - t.minLgK) 0)
  if rawEst < fget xArr 0 then 0.0 else
  let lenM1 := xArr.size - 1
  if rawEst > fget xArr lenM1 then
    let finalY := yStride * Float.ofNat lenM1
    let factor := finalY / fget xArr lenM1
    rawEst * factor
  else
  let adjEst := usingXArrAndYStride xArr yStride rawEst
  if adjEst > Float.ofNat (t.linCountFactor * 2^lgK) then adjEst else
  let linEst := hllBitMapEstimate t lgK curMin numAtCurMin
  let avgEst := (adjEst + linEst) / 2.0
  let crossOver := if lgK = 4 then fget t.crossOver45 0 else if lgK = 5 then fget t.crossOver45 1 else t.crossOverDefault
  if avgEst > crossOver * Float.ofNat (2^lgK) then adjEst else linEst

/-- `HllUtil::getRelErr` -/
def relErr (t : Tables) (upper ooo : Bool) (lgK nsd : Nat) : Float :=
  if lgK > 12 then
    let rse := if ooo then t.nonHipRse else t.hipRse
    (if upper then -1.0 else 1.0) * (Float.ofNat nsd * rse) / Float.sqrt (Float.ofNat (2^lgK))
  else
    let idx := (lgK - 4) * 3 + (nsd - 1)
    match ooo, upper with
    | false, false => fget t.hipLB idx
    | false, true => fget t.hipUB idx
    | true, false => fget t.nonHipLB idx
    | true, true => fget t.nonHipUB idx

def compositeEstimate (t : Tables) (s : St Float) : Float :=
  match s.mode with
  | .hll => hllCompositeEstimate t s.lgK s.curMin s.numAtCurMin s.kxq0 s.kxq1
  | _ => couponEstimate t s.items.length

/-- `get_estimate` -/
def estimate (t : Tables) (s : St Float) : Float :=
  match s.mode with
  | .hll => if s.ooo then compositeEstimate t s else s.hip
  | _ => couponEstimate t s.items.length

/-- `get_lower_bound(numStdDev)` -/
def lowerBound (t : Tables) (s : St Float) (nsd : Nat) : Float :=
  match s.mode with
  | .hll =>
    let k := 2^s.lgK
    let nnz := Float.ofNat (if s.curMin = 0 then k - s.numAtCurMin else k)
    fmax (estimate t s / (1.0 + relErr t false s.ooo s.lgK nsd)) nnz
  | _ => couponLower t s.items.length nsd

/-- `get_upper_bound(numStdDev)` -/
def upperBound (t : Tables) (s : St Float) (nsd : Nat) : Float :=
  match s.mode with
  | .hll => estimate t s / (1.0 + relErr t true s.ooo s.lgK nsd)
  | _ => couponUpper t s.items.length nsd

/-- the `Float` instance of the update arithmetic, over the tables of the current headers -/
@[reducible] def floatNum (t : Tables) : HNum Float :=
  { ofNat := Float.ofNat, add := (· + ·), sub := (· - ·), div := (· / ·),
    invPow2 := fun i => fget t.invPow2 i, couponEst := couponEstimate t }

end DS.Hll

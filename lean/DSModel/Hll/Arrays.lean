/- The three concrete register arrays behind one interface (used by the driver to run L2 next to L1). Core Lean only. -/
import DSModel.Hll.Array4
import DSModel.Hll.Array6
import DSModel.Hll.Sketch
namespace DS.Hll

inductive L2 where
  | a4 (h : H4)
  | a6 (h : H6)
  | a8 (h : H8)

def L2.update (p : Params) (l : L2) (c : Nat) : L2 :=
  match l with
  | .a4 h => .a4 (h.update p c)
  | .a6 h => .a6 (h.update p c)
  | .a8 h => .a8 (h.update p c)

def L2.regs (p : Params) : L2 → Array Nat
  | .a4 h => h.regs p
  | .a6 h => h.regs
  | .a8 h => h.regs

def L2.new (tt : TType) (lgK : Nat) : L2 :=
  match tt with
  | .h4 => .a4 (H4.new lgK)
  | .h6 => .a6 (H6.new lgK)
  | .h8 => .a8 (H8.new lgK)

/-- the converting constructors: replay the non-empty registers in slot order; HLL_6/8 then overwrite numAtCurMin -/
def L2.ofRegs (p : Params) (tt : TType) (lgK : Nat) (regs : Array Nat) : L2 :=
  let l := (List.range regs.size).foldl (fun l i =>
    let v := regs.getD i 0
    if v = 0 then l else L2.update p l (cPair p i v)) (L2.new tt lgK)
  let zeros := 2^lgK - nonZeroCount regs
  match l with
  | .a4 h => .a4 h
  | .a6 h => .a6 { h with numAtCurMin := zeros }
  | .a8 h => .a8 { h with numAtCurMin := zeros }

def bytesStr (b : Array Nat) : String :=
  if b.size ≤ 2048 then (if b.size = 0 then "-" else b.foldl (fun s x => s ++ hexN 2 x) "")
  else s!"fold {hex64 (fold64 b.toList)}"

/-- `<auxCount> <lgAuxArr> <packed bytes> A <sorted aux pairs>` -/
def L2.obs (p : Params) : L2 → String
  | .a4 h =>
    let pairs := match h.aux with
      | some a => sortNat (a.ents.map fun (e : Nat × Nat) => cPair p e.1 e.2)
      | none => []
    let lg := match h.aux with | some a => a.lgArr | none => 0
    let bad := if h.bad then " BAD" else ""
    s!"{pairs.length} {lg} {bytesStr h.bytes} A {joinSp (pairs.map toString)}{bad}"
  | .a6 h => s!"0 0 {bytesStr h.bytes} A "
  | .a8 h => s!"0 0 {bytesStr h.bytes} A "

/-- do the L2 counters agree with the L1 state's? (HLL_6/8 arrays inside a union result may carry a rebuilt curMin) -/
def L2.agrees (l : L2) (curMin numAtCurMin : Nat) : Bool :=
  match l with
  | .a4 h => h.curMin == curMin && h.numAtCurMin == numAtCurMin
  | .a6 h => curMin != 0 || h.numAtCurMin == numAtCurMin
  | .a8 h => curMin != 0 || h.numAtCurMin == numAtCurMin

end DS.Hll

/-
L2 models of `Hll6Array` (6-bit fields packed over byte pairs) and `Hll8Array` (one byte per slot):
getSlot / putSlot / internalCouponUpdate as coded (Hll6Array-internal.hpp, Hll8Array-internal.hpp).
`numAtCurMin` counts zero registers.  Core Lean only.
-/
import DSModel.Hll.Coupon
namespace DS.Hll

structure H6 where
  lgK : Nat
  bytes : Array Nat          -- (2^lgK * 3) / 4 + 1 bytes
  numAtCurMin : Nat
deriving Repr

/-- `Hll6Array::getSlot`: 6 bits at bit offset 6*slot of the little-endian byte stream -/
def get6 (bytes : Array Nat) (slot : Nat) : Nat :=
  let start := slot * 6
  let shift := start % 8
  let bi := start / 8
  let two := bytes.getD (bi + 1) 0 * 256 + bytes.getD bi 0
  (two / 2^shift) % 64

/-- `Hll6Array::putSlot` -/
def put6 (bytes : Array Nat) (slot v : Nat) : Array Nat :=
  let start := slot * 6
  let shift := start % 8
  let bi := start / 8
  let two := bytes.getD (bi + 1) 0 * 256 + bytes.getD bi 0
  -- clear the 6-bit field, then or the value in (all within 16 bits)
  let cleared := two - ((two / 2^shift) % 64) * 2^shift
  let ins := cleared + (v % 64) * 2^shift
  (bytes.setIfInBounds bi (ins % 256)).setIfInBounds (bi + 1) ((ins / 256) % 256)

def H6.new (lgK : Nat) : H6 :=
  { lgK, bytes := Array.replicate ((2^lgK * 3) / 4 + 1) 0, numAtCurMin := 2^lgK }

def H6.regs (h : H6) : Array Nat := ((List.range (2^h.lgK)).map (get6 h.bytes)).toArray

/-- `Hll6Array::internalCouponUpdate` -/
def H6.update (p : Params) (h : H6) (c : Nat) : H6 :=
  let slot := cSlot p h.lgK c
  let nv := cValue p c
  let cur := get6 h.bytes slot
  if nv > cur then
    { h with bytes := put6 h.bytes slot nv, numAtCurMin := if cur = 0 then h.numAtCurMin - 1 else h.numAtCurMin }
  else h

structure H8 where
  lgK : Nat
  bytes : Array Nat          -- 2^lgK bytes
  numAtCurMin : Nat
deriving Repr

def H8.new (lgK : Nat) : H8 := { lgK, bytes := Array.replicate (2^lgK) 0, numAtCurMin := 2^lgK }

def H8.regs (h : H8) : Array Nat := h.bytes

/-- `Hll8Array::internalCouponUpdate` -/
def H8.update (p : Params) (h : H8) (c : Nat) : H8 :=
  let slot := cSlot p h.lgK c
  let nv := cValue p c
  let cur := h.bytes.getD slot 0
  if nv > cur then
    { h with bytes := h.bytes.setIfInBounds slot nv, numAtCurMin := if cur = 0 then h.numAtCurMin - 1 else h.numAtCurMin }
  else h

end DS.Hll

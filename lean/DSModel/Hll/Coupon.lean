/-
HLL coupons (hll/include/HllUtil.hpp): a coupon is `(value << KEY_BITS_26) | (h1 & KEY_MASK_26)` with
`value = min(clz64(h2), 62) + 1` in 1..63; slot at precision lgK = low26 & (2^lgK - 1).
Coupons are `Nat` here (they are < 2^32 in the code); arithmetic forms (`/ 2^26`, `% 2^26`) are used instead
of shifts/masks so that the theorems are plain `Nat` facts.
Core Lean only.
-/
import DSModel.Canon
namespace DS.Hll

/-- every tunable of the coupon list / hash set / HLL_4 machinery; the values of the CURRENT headers are put in
by the driver from DSGen/Hll.lean (tools/trules/hll.py) -/
structure Params where
  keyBits        : Nat := 26    -- KEY_BITS_26
  lgInitList     : Nat := 3     -- LG_INIT_LIST_SIZE
  lgInitSet      : Nat := 5     -- LG_INIT_SET_SIZE
  resizeNum      : Nat := 3     -- RESIZE_NUMER
  resizeDen      : Nat := 4     -- RESIZE_DENOM
  listToHllBelow : Nat := 8     -- `lgConfigK_ < 8` in CouponList::couponUpdate
  setMaxBelow    : Nat := 3     -- `lgConfigK_ - 3` in CouponHashSet::checkGrowOrPromote
  auxToken       : Nat := 15    -- AUX_TOKEN
  /-- source shape of `hll_union::copy_or_downsample`: does it call `check_rebuild_kxq_cur_min()` on the down-sampled array?
      (false = pinned code, defect D1; true = repaired) -/
  unionDownsampleRebuilds : Bool := false
  /-- source shape of `hll_union::reset()`: re-create the gadget at lg_max_k (true, repaired) or reset it at its current lg_k
      (false = pinned code, defect D14) -/
  unionResetToMaxK : Bool := false
  lgAuxArrInts   : List Nat := [0, 2, 2, 2, 2, 2, 2, 3, 3, 3, 4, 4, 5, 5, 6, 7, 8, 9, 10, 11, 12, 13, 14, 15, 16, 17, 18]
deriving Repr

/-- `count_leading_zeros_in_u64` (64 for 0) -/
def clz64 (x : UInt64) : Nat := if x = 0 then 64 else 63 - x.toNat.log2

/-- `HllUtil::coupon(HashState)` -/
def coupon (p : Params) (h1 h2 : UInt64) : Nat :=
  (min (clz64 h2) 62 + 1) * 2^p.keyBits + h1.toNat % 2^p.keyBits

/-- `HllUtil::getValue` -/
def cValue (p : Params) (c : Nat) : Nat := c / 2^p.keyBits
/-- `HllUtil::getLow26` -/
def cLow (p : Params) (c : Nat) : Nat := c % 2^p.keyBits
/-- slot number at precision lgK: `getLow26(coupon) & ((1 << lgK) - 1)` -/
def cSlot (p : Params) (lgK c : Nat) : Nat := c % 2^p.keyBits % 2^lgK
/-- `HllUtil::pair(slotNo, value)` -/
def cPair (p : Params) (slot value : Nat) : Nat := value * 2^p.keyBits + slot % 2^p.keyBits

/-- coupon of a typed update input under DEFAULT_SEED (`none`: the update is ignored, e.g. empty string) -/
def inputCoupon (p : Params) (i : Input) : Option Nat :=
  (fun (h : UInt64 × UInt64) => coupon p h.1 h.2) <$> hashInput i DEFAULT_SEED

end DS.Hll

/-
L1 model of `req_sketch` (req/include/req_sketch_impl.hpp): update / merge / compress, direct `get_rank`,
the const_iterator exactly as coded, the sorted view (shared `DS.SortedView`), quantile / CDF / PMF, rank bounds.
Core Lean only.  Coins are an explicit argument: a supply `Nat → Bool` (from a finite vector: exhausted supply = `false`) with a cursor,
threaded through `Acc` together with the number of coins drawn and ghost information.
-/
import DSModel.Req.Compactor
import DSModel.SortedView
namespace DS.Req

variable {ρ : Type}

structure Sketch (ρ : Type) where
  k : Nat
  hra : Bool
  maxNomSize : Nat
  numRetained : Nat
  n : Nat
  compactors : List (Compactor ρ)
  minItem : Option Int
  maxItem : Option Int

/-- coin supply + what was consumed.  `lv` (ghost) = level of the compactor that drew each coin, in draw order;
`oddConst` (ghost) = some compaction at an odd state used a coin deriving from no draw; `throws` = the code would have
thrown "compaction range error" -/
structure Acc where
  coins : Nat → Bool         -- the i-th coin that `random_bit()` returns (never consumed: `used` is the cursor)
  used : Nat := 0
  lv : List Nat := []
  oddConst : Bool := false
  throws : Bool := false

def Acc.peek (a : Acc) : Bool := a.coins a.used

/-- coin supply from a finite vector (exhausted supply = `false`) -/
def Acc.init (coins : List Bool) : Acc := { coins := fun i => coins.getD i false }

/-- consume one coin, drawn by a compactor of level `lvl` -/
def Acc.draw (a : Acc) (lvl : Nat) : Acc :=
  { a with used := a.used + 1, lv := a.lv ++ [lvl] }

/-- the draw of a compactor constructor of level `lvl` (only in the shape with a random initial coin) -/
def Acc.drawIf (a : Acc) (b : Bool) (lvl : Nat) : Acc := if b then a.draw lvl else a

/-- bookkeeping after one `compact` of a level-`lvl` compactor -/
def Acc.afterCompact (a : Acc) (lvl : Nat) (fresh oddConst rangeOk : Bool) : Acc :=
  let a1 := if fresh then a.draw lvl else a
  { a1 with oddConst := a1.oddConst || oddConst, throws := a1.throws || !rangeOk }

/-- `k_(std::max<uint8_t>(static_cast<int>(k) & -2, static_cast<int>(req_constants::MIN_K)))`: both arguments are converted
to `uint8_t` (as coded: k is reduced mod 256) -/
def effectiveK (T : Tun) (k : Nat) : Nat := max ((k - k % 2) % 256) (T.minK % 256)

def sumCap (T : Tun) (cs : List (Compactor ρ)) : Nat := (cs.map (Compactor.nomCap T)).sum
def sumItems (cs : List (Compactor ρ)) : Nat := (cs.map Compactor.numItems).sum

/-- `grow()`: new compactor with `lg_weight = get_num_levels()`, then `update_max_nom_size()` -/
def Sketch.grow (T : Tun) (F : SecFns ρ) (s : Sketch ρ) (d : Bool) : Sketch ρ :=
  let cs := s.compactors ++ [Compactor.mkC T F s.hra s.compactors.length s.k d]
  { s with compactors := cs, maxNomSize := sumCap T cs }

/-- the constructor; `d` = the coin the level-0 compactor's constructor draws (if it draws) -/
def Sketch.new (T : Tun) (F : SecFns ρ) (k : Nat) (hra : Bool) (d : Bool) : Sketch ρ :=
  Sketch.grow T F { k := effectiveK T k, hra := hra, maxNomSize := 0, numRetained := 0, n := 0, compactors := [],
                    minItem := none, maxItem := none } d

/-- counters threaded through `compress` (as coded they are updated incrementally) -/
structure Ctr where
  retained : Nat
  maxNom : Nat

/-- `if (h == 0) compactors_[0].sort()` -/
def sortIf0 (h : Nat) (c : Compactor ρ) : Compactor ρ := if h = 0 then c.sort else c

/-- `compactors_[h + 1]`, after `grow()` if `h` is the top level -/
def nextOf (T : Tun) (F : SecFns ρ) (hra : Bool) (k h : Nat) (rest : List (Compactor ρ)) (d : Bool) : Compactor ρ :=
  match rest with
  | [] => Compactor.mkC T F hra (h + 1) k d
  | n :: _ => n

/-- the coin cursor after `grow()` at the top (the new compactor's constructor draws first, then `compact`) -/
def Acc.growDraw (T : Tun) (a : Acc) (top : Bool) (lvl : Nat) : Acc := if top then a.drawIf T.initCoinRandom lvl else a

/-- `grow()` at the top: `update_max_nom_size()` (a recomputation: the sum changes by the new compactor's capacity) -/
def ctrGrow (T : Tun) (ctr : Ctr) (top : Bool) (nx : Compactor ρ) : Ctr :=
  if top then { ctr with maxNom := ctr.maxNom + nx.nomCap T } else ctr

/-- `num_retained_ -= pair.first; max_nom_size_ += pair.second;` -/
def ctrAfter (ctr : Ctr) (r : CompactRes ρ) : Ctr :=
  { retained := ctr.retained - r.num, maxNom := ctr.maxNom + r.capNew - r.capOld }

/-- the loop of `compress()` from level `h` on; `todo` = compactors `h, h+1, …`.
`fuel` = (items + 1 per level) is always enough (see `DSProofs/Lemmas/ReqBound.lean`). Returns the new compactors `h…`. -/
def compressLoop (T : Tun) (F : SecFns ρ) (hra : Bool) (k : Nat) :
    Nat → Nat → List (Compactor ρ) → Ctr → Acc → List (Compactor ρ) × Ctr × Acc
  | 0, _, todo, ctr, acc => (todo, ctr, acc)
  | _ + 1, _, [], ctr, acc => ([], ctr, acc)
  | fuel + 1, h, c :: rest, ctr, acc =>
    if c.numItems ≥ c.nomCap T then
      let r := (sortIf0 h c).compact T F (nextOf T F hra k h rest acc.peek) (acc.growDraw T rest.isEmpty (h + 1)).peek
      let acc2 := (acc.growDraw T rest.isEmpty (h + 1)).afterCompact (sortIf0 h c).lgWeight r.fresh r.oddConst r.rangeOk
      let ctr2 := ctrAfter (ctrGrow T ctr rest.isEmpty (nextOf T F hra k h rest acc.peek)) r
      if T.lazy && ctr2.retained < ctr2.maxNom then
        (r.cur :: r.nxt :: rest.tail, ctr2, acc2)
      else
        let out := compressLoop T F hra k fuel (h + 1) (r.nxt :: rest.tail) ctr2 acc2
        (r.cur :: out.1, out.2)
    else
      let out := compressLoop T F hra k fuel (h + 1) rest ctr acc
      (c :: out.1, out.2)

def Sketch.compress (T : Tun) (F : SecFns ρ) (s : Sketch ρ) (acc : Acc) : Sketch ρ × Acc :=
  let out := compressLoop T F s.hra s.k (sumItems s.compactors + s.compactors.length + 1) 0 s.compactors
    { retained := s.numRetained, maxNom := s.maxNomSize } acc
  ({ s with compactors := out.1, numRetained := out.2.1.retained, maxNomSize := out.2.1.maxNom }, out.2.2)

def optMin (m : Option Int) (x : Int) : Option Int :=
  match m with
  | none => some x
  | some y => if x < y then some x else some y

def optMax (m : Option Int) (x : Int) : Option Int :=
  match m with
  | none => some x
  | some y => if y < x then some x else some y

def appendLevel0 (cs : List (Compactor ρ)) (x : Int) : List (Compactor ρ) :=
  match cs with
  | [] => []
  | c :: t => c.append x :: t

/-- the part of `update(item)` before the capacity check: extremes, append to level 0, counters -/
def Sketch.append1 (s : Sketch ρ) (x : Int) : Sketch ρ :=
  { s with minItem := optMin s.minItem x, maxItem := optMax s.maxItem x,
           compactors := appendLevel0 s.compactors x,
           numRetained := s.numRetained + 1, n := s.n + 1 }

/-- `update(item)` (NaN is filtered by the caller: `check_update_item`) -/
def Sketch.update (T : Tun) (F : SecFns ρ) (s : Sketch ρ) (x : Int) (acc : Acc) : Sketch ρ × Acc :=
  if (s.append1 x).numRetained = (s.append1 x).maxNomSize then (s.append1 x).compress T F acc else (s.append1 x, acc)

/-- `while (get_num_levels() < other.get_num_levels()) grow()` -/
def growTo (T : Tun) (F : SecFns ρ) : Nat → Nat → Sketch ρ → Acc → Sketch ρ × Acc
  | 0, _, s, acc => (s, acc)
  | fuel + 1, target, s, acc =>
    if s.compactors.length < target then growTo T F fuel target (s.grow T F acc.peek) (acc.drawIf T.initCoinRandom s.compactors.length)
    else (s, acc)

/-- level-wise `compactors_[i].merge(other.compactors_[i])` for `i < other.get_num_levels()` -/
def mergeLevels (T : Tun) (F : SecFns ρ) : List (Compactor ρ) → List (Compactor ρ) → List (Compactor ρ)
  | cs, [] => cs
  | [], _ :: _ => []
  | c :: cs, o :: os => c.merge T F o :: mergeLevels T F cs os

def optMinO (a b : Option Int) : Option Int :=
  match b with
  | none => a
  | some y => optMin a y

def optMaxO (a b : Option Int) : Option Int :=
  match b with
  | none => a
  | some y => optMax a y

/-- `merge(other)` up to (not including) the final capacity check: extremes, grow, level-wise merge, recomputed counters -/
def Sketch.mergePre (T : Tun) (F : SecFns ρ) (s o : Sketch ρ) (acc : Acc) : Sketch ρ × Acc :=
  let g := growTo T F o.compactors.length o.compactors.length s acc
  let cs := mergeLevels T F g.1.compactors o.compactors
  ({ g.1 with minItem := optMinO s.minItem o.minItem, maxItem := optMaxO s.maxItem o.maxItem,
              compactors := cs, n := s.n + o.n, maxNomSize := sumCap T cs, numRetained := sumItems cs }, g.2)

/-- `merge(other)`; `none` = throws (HRA/LRA mismatch; nothing changed) -/
def Sketch.merge (T : Tun) (F : SecFns ρ) (s o : Sketch ρ) (acc : Acc) : Option (Sketch ρ × Acc) :=
  if s.hra != o.hra then none
  else if o.n = 0 then some (s, acc)
  else if (s.mergePre T F o acc).1.numRetained ≥ (s.mergePre T F o acc).1.maxNomSize then
    some ((s.mergePre T F o acc).1.compress T F (s.mergePre T F o acc).2)
  else some (s.mergePre T F o acc)

/-! ### queries -/

def Sketch.isEstimationMode (s : Sketch ρ) : Bool := decide (s.compactors.length > 1)

def sortAll (cs : List (Compactor ρ)) : List (Compactor ρ) := cs.map Compactor.sort

/-- `get_rank` numerator: Σ compute_weight; side effect: every compactor is sorted -/
def Sketch.rankNum (s : Sketch ρ) (x : Int) (inclusive : Bool) : Nat :=
  (s.compactors.map (fun c => c.computeWeight x inclusive)).sum

def Sketch.afterRank (s : Sketch ρ) : Sketch ρ := { s with compactors := sortAll s.compactors }

def Sketch.getRank (s : Sketch ρ) (x : Int) (inclusive : Bool) : Float :=
  (UInt64.ofNat (s.rankNum x inclusive)).toFloat / (UInt64.ofNat s.n).toFloat

def sortLevel0 (cs : List (Compactor ρ)) : List (Compactor ρ) :=
  match cs with
  | [] => []
  | c :: t => c.sort :: t

/-- state after `get_sorted_view()` (level 0 sorted as a side effect) -/
def Sketch.afterView (s : Sketch ρ) : Sketch ρ := { s with compactors := sortLevel0 s.compactors }

def ltInt (a b : Int) : Bool := decide (a < b)

/-- raw (non-cumulative) view entries: `view.add(compactor.begin(), compactor.end(), 1 << lg_weight)` level by level -/
def viewRaw (cs : List (Compactor ρ)) : List (Int × Nat) :=
  cs.foldl (fun v c => SortedView.add ltInt v c.items (2 ^ c.lgWeight)) []

def Sketch.sortedView (s : Sketch ρ) : SortedView.View Int := SortedView.build (viewRaw s.afterView.compactors)

/-! ### const_iterator, exactly as coded: a pair (level, position relative to that level's `begin()`) -/

structure It where
  lvl : Nat
  pos : Nat
  deriving Repr, DecidableEq

def sizeAt (cs : List (Compactor ρ)) (l : Nat) : Nat :=
  match cs[l]? with
  | some c => c.items.length
  | none => 0

/-- `begin()`: `const_iterator(compactors_.begin(), compactors_.end())` – position 0 of level 0, NOT advanced past empty levels -/
def itBegin (_cs : List (Compactor ρ)) : It := { lvl := 0, pos := 0 }
def itEnd (cs : List (Compactor ρ)) : It := { lvl := cs.length, pos := 0 }

/-- `operator==` -/
def itEq (cs : List (Compactor ρ)) (a b : It) : Bool :=
  if a.lvl ≠ b.lvl then false else if a.lvl = cs.length then true else a.pos == b.pos

/-- `operator++`: `++compactor_it_; if (compactor_it_ == (*levels_it_).end()) { ++levels_it_; if (… != end) compactor_it_ = begin(); }` -/
def itNext (cs : List (Compactor ρ)) (a : It) : It :=
  if a.pos + 1 = sizeAt cs a.lvl then { lvl := a.lvl + 1, pos := 0 } else { a with pos := a.pos + 1 }

/-- `operator*`: `none` = reads outside `[begin(), end())` of the current compactor (undefined behaviour) -/
def itDeref (cs : List (Compactor ρ)) (a : It) : Option (Int × Nat) :=
  match cs[a.lvl]? with
  | some c => match c.items[a.pos]? with
    | some x => some (x, 2 ^ c.lgWeight)
    | none => none
  | none => none

/-- `for (it = begin(); it != end() && steps < fuel; ++it) out.push_back(*it)`; result: the pairs read (`none` = invalid read)
and whether `end()` was reached -/
def itWalk (cs : List (Compactor ρ)) : Nat → It → List (Option (Int × Nat)) × Bool
  | 0, a => ([], itEq cs a (itEnd cs))
  | fuel + 1, a =>
    if itEq cs a (itEnd cs) then ([], true)
    else
      let r := itWalk cs fuel (itNext cs a)
      (itDeref cs a :: r.1, r.2)

/-- the whole iteration `begin() … end()` bounded by `num_retained` steps: `some pairs` iff every read was valid and `end()`
was reached -/
def Sketch.iterate (s : Sketch ρ) : Option (List (Int × Nat)) :=
  let r := itWalk s.compactors s.numRetained (itBegin s.compactors)
  if r.2 && r.1.all Option.isSome then some (r.1.filterMap id) else none

/-! ### the iterator / rank check in the shape the CURRENT headers have (flags regenerated from the source: DSGen/Req.lean)

The definitions above are the PINNED shapes (iterator that starts inside compactor 0; `rank < 0 || rank > 1` check).  The repaired
shapes skip empty compactors in the constructor and in `operator++`, and reject unless `rank >= 0 && rank <= 1`.  The driver uses
the flag-following variants below; the theorems about the pinned shapes stay as they are. -/

/-- source-shape flags -/
structure Flags where
  iterSkipsEmpty : Bool
  nanRankRejected : Bool
  deriving Repr

/-- number of leading empty compactors: `while (levels_it_ != levels_end_ && begin() == end()) ++levels_it_` -/
def leadEmpty : List (Compactor ρ) → Nat
  | [] => 0
  | c :: t => if c.items.isEmpty then 1 + leadEmpty t else 0

def itBeginF (fl : Flags) (cs : List (Compactor ρ)) : It :=
  if fl.iterSkipsEmpty then { lvl := leadEmpty cs, pos := 0 } else itBegin cs

def itNextF (fl : Flags) (cs : List (Compactor ρ)) (a : It) : It :=
  if fl.iterSkipsEmpty then
    (if a.pos + 1 = sizeAt cs a.lvl then { lvl := a.lvl + 1 + leadEmpty (cs.drop (a.lvl + 1)), pos := 0 } else { a with pos := a.pos + 1 })
  else itNext cs a

def itWalkF (fl : Flags) (cs : List (Compactor ρ)) : Nat → It → List (Option (Int × Nat)) × Bool
  | 0, a => ([], itEq cs a (itEnd cs))
  | fuel + 1, a =>
    if itEq cs a (itEnd cs) then ([], true)
    else
      let r := itWalkF fl cs fuel (itNextF fl cs a)
      (itDeref cs a :: r.1, r.2)

def Sketch.iterateF (fl : Flags) (s : Sketch ρ) : Option (List (Int × Nat)) :=
  let r := itWalkF fl s.compactors s.numRetained (itBeginF fl s.compactors)
  if r.2 && r.1.all Option.isSome then some (r.1.filterMap id) else none

/-- the range check of `get_quantile` on the rank: `true` = the query is answered -/
def rankAccepted (fl : Flags) (rank : Float) : Bool :=
  if fl.nanRankRejected then (rank >= 0.0 && rank <= 1.0) else !(rank < 0.0 || rank > 1.0)

/-- `get_quantile(rank, inclusive)`: `none` = throws (empty sketch or rejected rank) -/
def Sketch.getQuantileF (fl : Flags) (s : Sketch ρ) (rank : Float) (inclusive : Bool) : Option (Option Int) :=
  if s.n = 0 then none
  else if !(rankAccepted fl rank) then none
  else some (SortedView.getQuantile s.sortedView rank inclusive)

/-! ### weight below `y` (the quantity of C08) -/

def cntP (p : Int → Bool) (l : List Int) : Nat := (l.filter p).length

def weightP (p : Int → Bool) (cs : List (Compactor ρ)) : Nat :=
  (cs.map (fun c => cntP p c.items * 2 ^ c.lgWeight)).sum

def Sketch.weightBelow (s : Sketch ρ) (y : Int) (inclusive : Bool) : Nat :=
  weightP (fun x => if inclusive then decide (x ≤ y) else decide (x < y)) s.compactors

end DS.Req

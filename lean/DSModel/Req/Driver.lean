/-
Histories over several live REQ sketches (the object of the C07/C08 theorems) and the line-protocol driver.
Core Lean only.
-/
import DSModel.Req.Sketch
import DSModel.Util
namespace DS.Req

variable {ρ : Type}

/-! ### store and operations (pure part, used by the theorems) -/

/-- association list keyed by small object ids -/
def AL.get {α : Type} (st : List (Nat × α)) (id : Nat) : Option α :=
  match st with
  | [] => none
  | (i, s) :: t => if i = id then some s else AL.get t id

def AL.set {α : Type} (st : List (Nat × α)) (id : Nat) (s : α) : List (Nat × α) :=
  match st with
  | [] => [(id, s)]
  | (i, s0) :: t => if i = id then (i, s) :: t else (i, s0) :: AL.set t id s

abbrev Store (ρ : Type) := List (Nat × Sketch ρ)
abbrev Store.get (st : Store ρ) (id : Nat) : Option (Sketch ρ) := AL.get st id
abbrev Store.set (st : Store ρ) (id : Nat) (s : Sketch ρ) : Store ρ := AL.set st id s

/-- one public operation on the store.  `rankq` / `viewq` are the state-changing side effects of the const queries
`get_rank` (sorts every compactor) and `get_sorted_view` / `get_quantile` / `get_CDF` / `get_PMF` (sort level 0). -/
inductive Op where
  | new (id k : Nat) (hra : Bool)
  | upd (id : Nat) (x : Int)
  | merge (i j : Nat)          -- sketch i absorbs sketch j (j unchanged)
  | copy (i j : Nat)           -- j := copy of i
  | rankq (id : Nat)
  | viewq (id : Nat)
  deriving Repr

def stepOp (T : Tun) (F : SecFns ρ) (st : Store ρ) (acc : Acc) : Op → Store ρ × Acc
  | .new id k hra => (st.set id (Sketch.new T F k hra acc.peek), acc.drawIf T.initCoinRandom 0)
  | .upd id x =>
    match st.get id with
    | some s => let r := s.update T F x acc; (st.set id r.1, r.2)
    | none => (st, acc)
  | .merge i j =>
    if i = j then (st, acc) else
    match st.get i, st.get j with
    | some a, some b =>
      match a.merge T F b acc with
      | some r => (st.set i r.1, r.2)
      | none => (st, acc)
    | _, _ => (st, acc)
  | .copy i j =>
    match st.get i with
    | some s => (st.set j s, acc)
    | none => (st, acc)
  | .rankq id =>
    match st.get id with
    | some s => (st.set id s.afterRank, acc)
    | none => (st, acc)
  | .viewq id =>
    match st.get id with
    | some s => (st.set id s.afterView, acc)
    | none => (st, acc)

def runOps (T : Tun) (F : SecFns ρ) : Store ρ → Acc → List Op → Store ρ × Acc
  | st, acc, [] => (st, acc)
  | st, acc, op :: ops => let r := stepOp T F st acc op; runOps T F r.1 r.2 ops

/-- a whole history from the empty store with the coin supply `coins` -/
def run (T : Tun) (F : SecFns ρ) (ops : List Op) (coins : List Bool) : Store ρ × Acc :=
  runOps T F [] (Acc.init coins) ops

/-- the specification side: what each object id should hold — its mode and every item fed to it (through merges and copies) -/
structure SpecSk where
  hra : Bool
  items : List Int

def specStep (m : List (Nat × SpecSk)) : Op → List (Nat × SpecSk)
  | .new id _ hra => AL.set m id { hra := hra, items := [] }
  | .upd id x =>
    match AL.get m id with
    | some s => AL.set m id { s with items := x :: s.items }
    | none => m
  | .merge i j =>
    if i = j then m else
    match AL.get m i, AL.get m j with
    | some a, some b => if a.hra != b.hra then m else AL.set m i { a with items := b.items ++ a.items }
    | _, _ => m
  | .copy i j =>
    match AL.get m i with
    | some s => AL.set m j s
    | none => m
  | .rankq _ => m
  | .viewq _ => m

def specRun : List (Nat × SpecSk) → List Op → List (Nat × SpecSk)
  | m, [] => m
  | m, op :: ops => specRun (specStep m op) ops

/-- the items fed to object `id` by the history `ops` (none: no such object) -/
def inputOf (ops : List Op) (id : Nat) : Option (List Int) := (AL.get (specRun [] ops) id).map (·.items)

/-- all coin vectors of length `n` -/
def allVecs : Nat → List (List Bool)
  | 0 => [[]]
  | n + 1 => (allVecs n).map (false :: ·) ++ (allVecs n).map (true :: ·)

/-! ### line-protocol driver (printing; not used by theorems) -/

def optStr (o : Option Int) : String := match o with | some x => toString x | none => "-"

/-- run-length encoding of the weight sequence of the iterator: "1x5,2x3" -/
def rle : List Nat → List (Nat × Nat)
  | [] => []
  | w :: t => match rle t with
    | (w', c) :: r => if w = w' then (w, c + 1) :: r else (w, 1) :: (w', c) :: r
    | [] => [(w, 1)]

def commaJoin (l : List String) : String := if l.isEmpty then "-" else ",".intercalate l

def obsSketch (fl : Flags) (s : Sketch ρ) (acc : Acc) : String :=
  let w := itWalkF fl s.compactors s.numRetained (itBeginF fl s.compactors)
  let pairs := w.1
  let ws := pairs.map (fun p => match p with | some (_, w) => w | none => 0)
  let l0 := pairs.filterMap (fun p => match p with | some (x, 1) => some (toString x) | _ => none)
  let hi := pairs.filterMap (fun p => match p with
    | some (x, w) => if w = 1 then none else some (toString x)
    | none => some "?")
  s!"S n={s.n} min={optStr (if s.n = 0 then none else s.minItem)} max={optStr (if s.n = 0 then none else s.maxItem)} ret={s.numRetained} est={boolStr s.isEstimationMode} f={acc.used} atend={boolStr w.2} w={commaJoin ((rle ws).map (fun p => s!"{p.1}x{p.2}"))} l0={commaJoin l0} | {commaJoin hi}"

def viewStr (v : SortedView.View Int) : String :=
  commaJoin (v.ents.map (fun e => s!"{e.1}:{e.2}"))

def parseItem (s : String) : Option (Option Int) :=
  if s == "nan" then some none else (s.toInt?).map some

def parseF64 (s : String) : Option Float := (parseHex s).map (fun n => Float.ofBits (UInt64.ofNat n))

structure RseConsts where
  fixedNum : Nat
  fixedDen : Nat
  relNum : Nat
  relDen : Nat

def natF (n : Nat) : Float := (UInt64.ofNat n).toFloat

/-- `get_rank_lb` / `get_rank_ub` in the code's operation order -/
def rankBound (T : Tun) (R : RseConsts) (upper : Bool) (k numLevels : Nat) (rank : Float) (nsd : Nat) (n : Nat) (hra : Bool) : Float :=
  let baseCap := k * T.initSections
  let exact :=
    if numLevels = 1 || n ≤ baseCap then true
    else
      let thresh := natF baseCap / natF n
      (hra && rank >= 1.0 - thresh) || (!hra && rank <= thresh)
  if exact then rank else
  let relF := Float.sqrt ((natF R.relNum / natF R.relDen) / natF T.initSections)
  let relative := relF / natF k * (if hra then 1.0 - rank else rank)
  let fixed := (natF R.fixedNum / natF R.fixedDen) / natF k
  if upper then
    let a := rank + natF nsd * relative
    let b := rank + natF nsd * fixed
    if b < a then b else a          -- std::min(ub_rel, ub_fix)
  else
    let a := rank - natF nsd * relative
    let b := rank - natF nsd * fixed
    if a < b then b else a          -- std::max(lb_rel, lb_fix)

def strictlyIncreasing : List Int → Bool
  | [] => true
  | [_] => true
  | a :: b :: t => decide (a < b) && strictlyIncreasing (b :: t)

structure DState (ρ : Type) where
  st : Store ρ := []
  acc : Acc := Acc.init []

def parseCoins (s : String) : List Bool := s.toList.filterMap (fun c => if c = '0' then some false else if c = '1' then some true else none)

def stepLine (T : Tun) (F : SecFns ρ) (R : RseConsts) (fl : Flags) (d : DState ρ) (w : List String) : DState ρ × String :=
  let bad := (d, "bad-op")
  match w with
  | ["coins", bits] => (let u := d.acc.used; let b := parseCoins bits
                        { d with acc := { d.acc with coins := fun i => b.getD (i - u) false } }, s!"C f={d.acc.used}")
  | ["new", id, k, hra] =>
    match id.toNat?, k.toNat? with
    | some id, some k =>
      let r := stepOp T F d.st d.acc (.new id k (hra == "1"))
      match r.1.get id with
      | some s => ({ st := r.1, acc := r.2 }, obsSketch fl s r.2)
      | none => bad
    | _, _ => bad
  | ["upd", id, x] =>
    match id.toNat?, parseItem x with
    | some id, some xo =>
      match d.st.get id with
      | none => (d, "throw")
      | some s0 =>
        match xo with
        | none => (d, obsSketch fl s0 d.acc)      -- NaN: ignored by check_update_item
        | some x =>
          let r := stepOp T F d.st d.acc (.upd id x)
          match r.1.get id with
          | some s => ({ st := r.1, acc := r.2 }, if r.2.throws then "throw" else obsSketch fl s r.2)
          | none => bad
    | _, _ => bad
  | [mg, i, j] =>
    match i.toNat?, j.toNat? with
    | some i, some j =>
      if mg == "merge" || mg == "mergemv" then
        match d.st.get i, d.st.get j with
        | some a, some b =>
          if a.hra != b.hra then (d, "throw") else
          let r := stepOp T F d.st d.acc (.merge i j)
          match r.1.get i with
          | some s => ({ st := r.1, acc := r.2 }, if r.2.throws then "throw" else obsSketch fl s r.2)
          | none => bad
        | _, _ => (d, "throw")
      else if mg == "copy" then
        match d.st.get i with
        | some s => ({ d with st := d.st.set j s }, obsSketch fl s d.acc)
        | none => (d, "throw")
      else bad
    | _, _ => bad
  | ["view", id] =>
    match id.toNat? with
    | some id =>
      match d.st.get id with
      | some s =>
        let r := stepOp T F d.st d.acc (.viewq id)
        ({ d with st := r.1 }, s!"V tot={s.sortedView.total} sz={s.sortedView.ents.length} | {viewStr s.sortedView}")
      | none => (d, "throw")
    | none => bad
  | ["rank", id, x, incl] =>
    match id.toNat?, x.toInt? with
    | some id, some x =>
      match d.st.get id with
      | some s =>
        if s.n = 0 then (d, "throw") else
        let inc := incl == "1"
        let direct := s.getRank x inc
        let r := stepOp T F d.st d.acc (.rankq id)
        let viaView := SortedView.getRank ltInt s.sortedView x inc
        ({ d with st := r.1 }, s!"R | {hexF direct} {hexF viaView}")
      | none => (d, "throw")
    | _, _ => bad
  | ["quant", id, rk, incl] =>
    match id.toNat?, parseF64 rk with
    | some id, some rk =>
      match d.st.get id with
      | some s =>
        match s.getQuantileF fl rk (incl == "1") with
        | none => (d, "throw")
        | some q =>
          let r := stepOp T F d.st d.acc (.viewq id)
          ({ d with st := r.1 }, s!"Q | {optStr q}")
      | none => (d, "throw")
    | _, _ => bad
  | "cdf" :: id :: incl :: pts =>
    match id.toNat? with
    | some id =>
      match d.st.get id with
      | some s =>
        if s.n = 0 then (d, "throw") else
        let r := stepOp T F d.st d.acc (.viewq id)
        let d' := { d with st := r.1 }
        let xs := pts.filterMap String.toInt?
        if xs.length != pts.length then (d', "throw")     -- "nan" split point
        else if !strictlyIncreasing xs then (d', "throw")
        else
          let v := s.sortedView
          let cdf := xs.map (fun x => SortedView.getRank ltInt v x (incl == "1")) ++ [1.0]
          let pmf := (List.zipWith (fun a b => a - b) cdf (0.0 :: cdf))
          (d', s!"D | {joinSp (cdf.map hexF)} ; {joinSp (pmf.map hexF)}")
      | none => (d, "throw")
    | none => bad
  | ["bounds", id, rk, nsd] =>
    match id.toNat?, parseF64 rk, nsd.toNat? with
    | some id, some rk, some nsd =>
      match d.st.get id with
      | some s =>
        let lb := rankBound T R false s.k s.compactors.length rk nsd s.n s.hra
        let ub := rankBound T R true s.k s.compactors.length rk nsd s.n s.hra
        (d, s!"B k={s.k} {hexF lb} {hexF ub}")
      | none => (d, "throw")
    | _, _, _ => bad
  | _ => bad

/-! ### enumeration of the whole coin tree of a short history -/

def parseOp (w : List String) : Option (Option Op) :=
  match w with
  | ["new", id, k, hra] => match id.toNat?, k.toNat? with
    | some id, some k => some (some (.new id k (hra == "1")))
    | _, _ => none
  | ["upd", id, x] => match id.toNat?, parseItem x with
    | some id, some (some x) => some (some (.upd id x))
    | some _, some none => some none
    | _, _ => none
  | ["merge", i, j] => match i.toNat?, j.toNat? with
    | some i, some j => some (some (.merge i j))
    | _, _ => none
  | ["mergemv", i, j] => match i.toNat?, j.toNat? with
    | some i, some j => some (some (.merge i j))
    | _, _ => none
  | ["copy", i, j] => match i.toNat?, j.toNat? with
    | some i, some j => some (some (.copy i j))
    | _, _ => none
  | _ => none

/-- cumulative flips after each op (coin supply `coins`) -/
def flipsAfterEach (T : Tun) (F : SecFns ρ) : Store ρ → Acc → List Op → List Nat
  | _, _, [] => []
  | st, acc, op :: ops => let r := stepOp T F st acc op; r.2.used :: flipsAfterEach T F r.1 r.2 ops

/-- longest prefix of the history whose flip count (all-false coins) is ≤ maxFlips -/
def truncateOps (T : Tun) (F : SecFns ρ) (ops : List Op) (maxFlips : Nat) : List Op :=
  let fl := flipsAfterEach T F [] (Acc.init []) ops
  ops.take ((fl.takeWhile (· ≤ maxFlips)).length)

def leafLine (st : Store ρ) (acc : Acc) : String :=
  let ids := sortNat (st.map (·.1))
  let parts := ids.filterMap (fun id => (st.get id).map (fun s => s!"{id}:{viewStr s.sortedView}"))
  s!"L {acc.used} ; {" ; ".intercalate parts}"

/-- next coin vector in the odometer order: strip trailing `true`s, turn the last `false` into `true` -/
def nextVec (v : List Bool) : Option (List Bool) :=
  let r := v.reverse.dropWhile (· == true)
  match r with
  | [] => none
  | _ :: t => some (t.reverse ++ [true])

/-- all leaves: run with prefix `v` padded with `false`; the leaf's vector is the first `used` coins -/
partial def enumLeaves (T : Tun) (F : SecFns ρ) (ops : List Op) (v : List Bool) (accum : Array String) (limit : Nat) : Array String :=
  if accum.size ≥ limit then accum.push "L overflow" else
  let r := run T F ops v
  let used := r.2.used
  let full := v ++ List.replicate (used - v.length) false
  let accum := accum.push (leafLine r.1 r.2)
  -- coins of `v` beyond `used` were not consumed: the leaf is `full.take used`
  match nextVec (full.take used) with
  | none => accum
  | some v' => enumLeaves T F ops v' accum limit

end DS.Req

/-
L1 model of `req_compactor` (req/include/req_compactor_impl.hpp).  Core Lean only.

Items are `Int` (the harness instantiates `req_sketch<double>` with integer-valued items and NaN).
`items` is the buffer in `begin() .. end()` order: LRA appends at the end, HRA at the front
(`items_[capacity_ - num_items_ - 1]`).  Capacities / allocation are not modelled (unobservable).

The float code `section_size_raw_ / sqrtf(2)` and `nearest_even` is a parameter `SecFns ρ` of the model: the
driver instantiates ρ := Float32 with the code's operations (bit-exact, `secF32`), the theorems hold for every
ρ and every choice of the three functions (plus `SecOK` where the capacity has to grow).

Ghost fields (never read by any non-ghost computation; used only to STATE theorems):
  `entered` every item that ever entered this level (append / promotion from below / merge of the other's `entered`)
  `rnd`     the current `coin` derives from a drawn coin (false for the constructor's constant `coin_(false)`)
-/
namespace DS.Req

/-- tunables, regenerated from the headers (DSGen/Req.lean) -/
structure Tun where
  minK : Nat            -- req_constants::MIN_K
  initSections : Nat    -- req_constants::INIT_NUM_SECTIONS
  multiplier : Nat      -- req_constants::MULTIPLIER
  lazy : Bool           -- req_sketch::LAZY_COMPRESSION
  initCoinRandom : Bool := false   -- source shape: the regular req_compactor constructor draws its initial coin (true) or starts with `coin_(false)` (false)
  deriving Repr

/-- the float side of `ensure_enough_sections` -/
structure SecFns (ρ : Type) where
  ofNat : Nat → ρ       -- static_cast<float>(section_size)
  next : ρ → ρ          -- raw / sqrtf(2)
  ne : ρ → Nat          -- nearest_even(raw)

/-- `nearest_even` as coded: `static_cast<uint32_t>(round(value / 2)) << 1`; `value/2` is a float division, `round` is the
double overload applied to the promoted float (exact), half away from zero -/
def nearestEvenF32 (v : Float32) : Nat :=
  ((v / 2).toFloat.round.toUInt32.toNat * 2) % 4294967296

def secF32 : SecFns Float32 :=
  { ofNat := fun n => (UInt32.ofNat n).toFloat32
    next := fun r => r / Float32.sqrt 2
    ne := nearestEvenF32 }

structure Compactor (ρ : Type) where
  lgWeight : Nat
  hra : Bool
  coin : Bool
  sorted : Bool
  ssRaw : ρ
  sectionSize : Nat
  numSections : Nat
  state : Nat
  items : List Int
  entered : List Int := []   -- ghost
  rnd : Bool := false        -- ghost

variable {ρ : Type}

/-- constructor used by `req_sketch::grow`: `coin_(false)`, `sorted = true`, `state_ = 0` -/
def Compactor.mk' (T : Tun) (F : SecFns ρ) (hra : Bool) (lgWeight : Nat) (sectionSize : Nat) : Compactor ρ :=
  { lgWeight := lgWeight, hra := hra, coin := false, sorted := true, ssRaw := F.ofNat sectionSize,
    sectionSize := sectionSize, numSections := T.initSections, state := 0, items := [] }

/-- the regular constructor in the shape the headers have: `d` is the coin `random_bit()` returns if it is called -/
def Compactor.mkC (T : Tun) (F : SecFns ρ) (hra : Bool) (lgWeight : Nat) (sectionSize : Nat) (d : Bool) : Compactor ρ :=
  if T.initCoinRandom then { Compactor.mk' T F hra lgWeight sectionSize with coin := d, rnd := true }
  else Compactor.mk' T F hra lgWeight sectionSize

def Compactor.numItems (c : Compactor ρ) : Nat := c.items.length

def Compactor.nomCap (T : Tun) (c : Compactor ρ) : Nat := T.multiplier * c.numSections * c.sectionSize

/-! ### sorting and merging of `Int` runs -/

def insertSorted (x : Int) : List Int → List Int
  | [] => [x]
  | y :: t => if x ≤ y then x :: y :: t else y :: insertSorted x t

/-- `std::sort` (result is the unique ascending arrangement) -/
def sortInts (l : List Int) : List Int := l.foldr insertSorted []

/-- inner loop of the merge: the first run is `al = a :: l`, `recL` merges `l` with what is left of the second run -/
def mergeAux (a : Int) (recL : List Int → List Int) (al : List Int) : List Int → List Int
  | [] => al
  | b :: r => if b < a then b :: mergeAux a recL al r else a :: recL (b :: r)

/-- `std::inplace_merge(first, middle, last)`: stable; from the second run only when strictly smaller.
(Structural recursion on the first run, so that the kernel can evaluate it.) -/
def mergeRuns : List Int → List Int → List Int
  | [] => fun r => r
  | a :: l => fun r => mergeAux a (mergeRuns l) (a :: l) r

/-- `promote_evens_or_odds(from, to, odds, dst)`: every second item starting at index 0 (evens) or 1 (odds) -/
def evens : List Int → List Int
  | [] => []
  | [a] => [a]
  | a :: _ :: t => a :: evens t

def odds : List Int → List Int
  | [] => []
  | [_] => []
  | _ :: b :: t => b :: odds t

def promote (l : List Int) (coin : Bool) : List Int := if coin then odds l else evens l

def trailingOnesF : Nat → Nat → Nat
  | 0, _ => 0
  | f + 1, n => if n % 2 = 1 then 1 + trailingOnesF f (n / 2) else 0

/-- number of trailing one bits = `count_trailing_zeros_in_u64(~state_)` (for state < 2^64 - 1) -/
def trailingOnes (n : Nat) : Nat := trailingOnesF (n + 1) n

/-! ### compactor operations -/

/-- `append`: LRA at the end, HRA at the front; `if (num_items_ > 1) sorted_ = false` -/
def Compactor.append (c : Compactor ρ) (x : Int) : Compactor ρ :=
  { c with items := if c.hra then x :: c.items else c.items ++ [x]
           sorted := if c.items.length + 1 > 1 then false else c.sorted
           entered := x :: c.entered }

/-- `sort()` -/
def Compactor.sort (c : Compactor ρ) : Compactor ρ :=
  if c.sorted then c else { c with items := sortInts c.items, sorted := true }

/-- `ensure_enough_sections` (one call): returns the compactor and whether it changed -/
def Compactor.ensureEnough (T : Tun) (F : SecFns ρ) (c : Compactor ρ) : Compactor ρ × Bool :=
  let ssr := F.next c.ssRaw
  let ne := F.ne ssr
  if c.state ≥ 2 ^ (c.numSections - 1) ∧ ne ≥ T.minK then
    ({ c with ssRaw := ssr, sectionSize := ne, numSections := 2 * c.numSections }, true)
  else (c, false)

/-- `while (ensure_enough_sections()) {}` – `fuel` ≥ state + 2 is always enough (numSections doubles) -/
def Compactor.ensureLoop (T : Tun) (F : SecFns ρ) : Nat → Compactor ρ → Compactor ρ
  | 0, c => c
  | fuel + 1, c =>
    let r := c.ensureEnough T F
    if r.2 then Compactor.ensureLoop T F fuel r.1 else c

/-- `state_ |= other.state_` -/
def Compactor.orState (c o : Compactor ρ) : Compactor ρ := { c with state := c.state ||| o.state }

/-- the buffer as `sort()` leaves it -/
def Compactor.sortedItems (c : Compactor ρ) : List Int := if c.sorted then c.items else sortInts c.items

/-- the two sorted runs after `std::inplace_merge` (HRA: the other's items are placed in front of the own ones) -/
def mergeItems (hra : Bool) (mine theirs : List Int) : List Int :=
  if mine.isEmpty then theirs else if hra then mergeRuns theirs mine else mergeRuns mine theirs

/-- `merge(other)` (same `lg_weight_`; the caller checks): OR of the states, enough sections, both runs sorted, merged.
The own `coin_` is kept (this is what the code does). -/
def Compactor.merge (T : Tun) (F : SecFns ρ) (c o : Compactor ρ) : Compactor ρ :=
  let c2 := Compactor.ensureLoop T F ((c.orState o).state + 2) (c.orState o)
  { c2 with items := mergeItems c2.hra c2.sortedItems o.sortedItems, sorted := true, entered := o.entered ++ c2.entered }

/-- number of sections to compact -/
def Compactor.secsToCompact (c : Compactor ρ) : Nat := min (trailingOnes c.state + 1) c.numSections

/-- `compute_compaction_range`: (low, high) relative to `begin()` -/
def Compactor.compactionRange (T : Tun) (c : Compactor ρ) : Nat × Nat :=
  let nc0 := c.nomCap T / 2 + (c.numSections - c.secsToCompact) * c.sectionSize
  let nc := if (c.items.length + nc0) % 2 = 1 then nc0 + 1 else nc0
  if c.hra then (0, c.items.length - nc) else (nc, c.items.length)

/-- result of one `compact(next)` -/
structure CompactRes (ρ : Type) where
  cur : Compactor ρ
  nxt : Compactor ρ
  num : Nat            -- items promoted
  capOld : Nat         -- nominal capacity before
  capNew : Nat         -- nominal capacity after
  fresh : Bool         -- a coin was drawn
  rangeOk : Bool       -- false = the code throws "compaction range error"
  oddConst : Bool      -- ghost: odd-state compaction with a coin that derives from no draw

/-- `compact(next)`; `drawn` is the coin that `random_bit()` returns if it is called -/
def Compactor.compact (T : Tun) (F : SecFns ρ) (c nxt : Compactor ρ) (drawn : Bool) : CompactRes ρ :=
  let capOld := c.nomCap T
  let rg := c.compactionRange T
  let odd := c.state % 2 = 1
  let coin := if odd then !c.coin else drawn
  let range := (c.items.take rg.2).drop rg.1
  let promoted := promote range coin
  let kept := c.items.take rg.1 ++ c.items.drop rg.2
  let nitems := if c.hra then mergeRuns promoted nxt.items else mergeRuns nxt.items promoted
  let c1 : Compactor ρ := { c with coin := coin, items := kept, state := c.state + 1, rnd := if odd then c.rnd else true }
  let c2 := (c1.ensureEnough T F).1
  { cur := c2
    nxt := { nxt with items := nitems, entered := promoted ++ nxt.entered }
    num := (rg.2 - rg.1) / 2
    capOld := capOld
    capNew := c2.nomCap T
    fresh := !odd
    rangeOk := decide (rg.1 + 2 ≤ rg.2)
    oddConst := odd && !c.rnd }

/-- `compute_weight(item, inclusive)` numerator (count, before the shift): upper/lower bound position in the sorted run -/
def countBelow (l : List Int) (x : Int) (inclusive : Bool) : Nat :=
  (l.filter (fun y => if inclusive then y ≤ x else y < x)).length

/-- `std::upper_bound` / `std::lower_bound` position, as the binary search returns it on a sorted run
(first index whose item is `> x` resp. `≥ x`) -/
def boundPos : List Int → Int → Bool → Nat
  | [], _, _ => 0
  | y :: t, x, inclusive => if (if inclusive then x < y else x ≤ y) then 0 else 1 + boundPos t x inclusive

def Compactor.computeWeight (c : Compactor ρ) (x : Int) (inclusive : Bool) : Nat :=
  boundPos c.sort.items x inclusive * 2 ^ c.lgWeight

end DS.Req

/- Line-protocol driver for the density family (C20). Core Lean only. -/
import DSModel.Util
import DSModel.Density.Kernels
namespace DS.Density

inductive Obj where
  | f64 (ker : Nat) (s : Sketch Float)
  | f32 (ker : Nat) (s : Sketch Float32)

structure DState where
  objs : Array (Option Obj) := #[]
  src : Src := {}
  minK : Nat := 2
  cfg : Cfg := {}

def DState.set' (d : DState) (i : Nat) (v : Option Obj) : DState :=
  let o := d.objs
  let o := if i < o.size then o else o ++ Array.replicate (i + 1 - o.size) none
  { d with objs := o.set! i v }

def DState.get' (d : DState) (i : Nat) : Option Obj := (d.objs[i]?).join

def rle : List (Nat × Nat) → List String
  | [] => []
  | (w, c) :: t => (if c = 0 then [] else [s!"{w}x{c}"]) ++ rle t

def levelRuns {α : Type} (h : Nat) : List (Level α) → List (Nat × Nat)
  | [] => []
  | l :: r => (2 ^ h, l.length) :: levelRuns (h + 1) r

def commaJoin (l : List String) : String := if l.isEmpty then "-" else ",".intercalate l

def obsS {α : Type} (bits : α → Nat) (s : Sketch α) (src : Src) : String :=
  let it := iter s
  let flat : List Nat := it.foldr (fun pw acc => pw.1.map bits ++ (pw.2 :: acc)) []
  let sizes := s.levels.map (fun l => toString l.length)
  s!"S {s.n} {s.numRetained} {boolStr (isEstimationMode s)} {boolStr (isEmpty s)} L={s.levels.length} sz={commaJoin sizes} it={commaJoin (rle (levelRuns 0 s.levels))} pf={hex64 (fold64 flat)} c={src.nbits},{src.ndraws}"

def f64bits (x : Float) : Nat := x.toBits.toNat
def f32bits (x : Float32) : Nat := x.toBits.toNat

def observe (o : Obj) (src : Src) : String :=
  match o with
  | .f64 _ s => obsS f64bits s src
  | .f32 _ s => obsS f32bits s src

def dumpS {α : Type} (hx : α → String) (s : Sketch α) : String :=
  let pts := (iter s).map (fun pw => s!"{pw.2}:{commaJoin (pw.1.map hx)}")
  "D " ++ (if pts.isEmpty then "-" else " ".intercalate pts)

def hexOrNan64 (x : Float) : String := if x.isNaN then "nan" else hexF x
def hexOrNan32 (x : Float32) : String := if x.isNaN then "nan" else hexF32 x

def parseCoords64 (ws : List String) : Option (List Float) :=
  ws.mapM (fun w => (parseHex w).map (fun n => Float.ofBits (UInt64.ofNat n)))
def parseCoords32 (ws : List String) : Option (List Float32) :=
  ws.mapM (fun w => (parseHex w).map (fun n => Float32.ofBits (UInt32.ofNat n)))

def parseBits (s : String) : List Bool := s.toList.map (· == '1')

def stepLine (d : DState) (w : List String) : DState × String :=
  match w with
  | ["new", id, ty, ker, k, dim] =>
    match id.toNat?, ker.toNat?, k.toNat?, dim.toNat? with
    | some id, some ker, some k, some dim =>
      if ctorThrows d.minK k then (d, "throw") else
      let ob := if ty == "f32" then Obj.f32 ker (init k dim) else Obj.f64 ker (init k dim)
      (d.set' id (some ob), observe ob d.src)
    | _, _, _, _ => (d, "bad-op")
  | ["rnd", seed] =>
    match seed.toNat? with
    | some s => ({ d with src := { lcg := UInt64.ofNat s } }, "ok")
    | none => (d, "bad-op")
  | ["coins", b] => ({ d with src := { d.src with bits := d.src.bits ++ parseBits b } }, "ok")
  | "draws" :: ds =>
    match ds.mapM String.toNat? with
    | some l => ({ d with src := { d.src with draws := d.src.draws ++ l } }, "ok")
    | none => (d, "bad-op")
  | "upd" :: id :: cs =>
    match id.toNat? with
    | some id =>
      match d.get' id with
      | some (.f64 ker s) =>
        match parseCoords64 cs with
        | some p =>
          if updateThrows s p then (d, "throw") else
          let x := update d.cfg (concretePicker (kernelF64 ker)) d.src s p
          let ob := Obj.f64 ker x.1
          let d' := { d with src := x.2 }
          (d'.set' id (some ob), observe ob x.2)
        | none => (d, "bad-op")
      | some (.f32 ker s) =>
        match parseCoords32 cs with
        | some p =>
          if updateThrows s p then (d, "throw") else
          let x := update d.cfg (concretePicker (kernelF32 ker)) d.src s p
          let ob := Obj.f32 ker x.1
          let d' := { d with src := x.2 }
          (d'.set' id (some ob), observe ob x.2)
        | none => (d, "bad-op")
      | none => (d, "throw")
    | none => (d, "bad-op")
  | "q" :: id :: cs =>
    match id.toNat? with
    | some id =>
      match d.get' id with
      | some (.f64 ker s) =>
        match parseCoords64 cs with
        | some q => if estimateThrows d.cfg s q then (d, "throw") else if estimateUB d.cfg s then (d, "ub") else (d, "E " ++ hexOrNan64 (estimate d.cfg (kernelF64 ker) s q))
        | none => (d, "bad-op")
      | some (.f32 ker s) =>
        match parseCoords32 cs with
        | some q => if estimateThrows d.cfg s q then (d, "throw") else if estimateUB d.cfg s then (d, "ub") else (d, "E " ++ hexOrNan32 (estimate d.cfg (kernelF32 ker) s q))
        | none => (d, "bad-op")
      | none => (d, "throw")
    | none => (d, "bad-op")
  | [op, i, j] =>
    match i.toNat?, j.toNat? with
    | some i, some j =>
      if op == "merge" || op == "mergemv" then
        let fin (d' : DState) (ob : Obj) : DState × String :=
          let d'' := d'.set' i (some ob)
          let d'' := if op == "mergemv" then d''.set' j none else d''
          (d'', observe ob d'.src)
        if i == j then (d, "throw") else   -- the harness does not exercise self-merge
        match d.get' i, d.get' j with
        | some (.f64 ker s), some (.f64 ker' o) =>
          if (ker == 0) != (ker' == 0) then (d, "throw") else   -- different Kernel template arguments: not mergeable
          if mergeThrows d.cfg s o then (d, "throw") else
          let x := merge d.cfg (concretePicker (kernelF64 ker)) d.src s o
          fin { d with src := x.2 } (Obj.f64 ker x.1)
        | some (.f32 ker s), some (.f32 ker' o) =>
          if (ker == 0) != (ker' == 0) then (d, "throw") else
          if mergeThrows d.cfg s o then (d, "throw") else
          let x := merge d.cfg (concretePicker (kernelF32 ker)) d.src s o
          fin { d with src := x.2 } (Obj.f32 ker x.1)
        | _, _ => (d, "throw")
      else if op == "copy" then
        match d.get' i with
        | some ob => (d.set' j (some ob), observe ob d.src)
        | none => (d, "throw")
      else (d, "bad-op")
    | _, _ => (d, "bad-op")
  | ["dump", id] =>
    match id.toNat? with
    | some id =>
      match d.get' id with
      | some (.f64 _ s) => (d, dumpS hexF s)
      | some (.f32 _ s) => (d, dumpS hexF32 s)
      | none => (d, "throw")
    | none => (d, "bad-op")
  | _ => (d, "bad-op")

end DS.Density

/-
Executable model of `density_sketch<T, Kernel, A>` (density/include/density_sketch_impl.hpp).

State = the five data members the public API can see: `k_`, `dim_`, `n_`, `num_retained_`, `levels_`
(`levels_[h]` = points of weight `2^h`, in vector order).  Every function below is a transcription of
the C++ member of the same name; loops are structural recursions.

`compact_level` is modelled ONCE, parametrically in a `Picker`: at every compaction the picker sees the
level and returns a `Choice` = (Fisher–Yates draws, keep-mask).  The kept points are
`keepMask mask (shuffle draws level)` – by construction a sub-list of a permutation of the level, and
every such sub-list is produced by some choice.  Theorems quantify over EVERY picker (and every picker
state type, so history-dependent choices are included).  The code's own choice – random first bit,
Fisher–Yates shuffle from the supplied draws, discrepancy signs computed with the kernel in the code's
floating-point order – is the particular picker `concretePicker K` (section "concrete picker"), which is
what the correspondence driver executes; being a `Picker`, every theorem applies to it.

Integer widths: `n_` is `uint64_t`, `num_retained_` `uint32_t`; the model uses `Nat` (overflow is out of
scope).  Core Lean only.
-/
import DSModel.Density.Scalar
namespace DS.Density

abbrev Point (α : Type) := List α
abbrev Level (α : Type) := List (Point α)

structure Sketch (α : Type) where
  k : Nat
  dim : Nat
  n : Nat
  numRetained : Nat
  levels : List (Level α)
  deriving DecidableEq

variable {α ρ β : Type}

/-- The three statements of the current header in which this property's findings live, read by tools/trules/density.py on every
run (DSGen.density_*), so that the model follows the code before AND after the proposed fixes:
* `mergeSkipOnN`   – `merge` returns early on `other.n_ == 0` (true) / on `other.is_empty()`, i.e. `num_retained_ == 0` (false: pinned tree)
* `queryChecksDim` – `get_estimate` throws when `point.size() != dim_` (pinned tree: false)
* `weight64`       – `get_estimate` weights a level by `1ULL << height` (true) / by `1 << height` evaluated in 32-bit `int` (false: pinned tree)
* `popsEmptyTop`   – after `compact_level`, `compact()` runs `while (levels_.size() > 1 && levels_.back().empty()) levels_.pop_back();`
                     (true: repaired shape, the wire layout cannot represent an empty top level) / keeps the level vector as is (false: pinned tree) -/
structure Cfg where
  mergeSkipOnN : Bool := false
  queryChecksDim : Bool := false
  weight64 : Bool := false
  popsEmptyTop : Bool := false
  deriving DecidableEq, Repr

/-- `density_sketch(k, dim)`: one empty level.  `check_k` (k < minK throws) is `ctorThrows`. -/
def init (k dim : Nat) : Sketch α := { k := k, dim := dim, n := 0, numRetained := 0, levels := [[]] }
def ctorThrows (minK k : Nat) : Bool := decide (k < minK)

def isEmpty (s : Sketch α) : Bool := s.numRetained == 0
def isEstimationMode (s : Sketch α) : Bool := decide (1 < s.levels.length)

def sumLen : List (Level α) → Nat
  | [] => 0
  | l :: r => l.length + sumLen r

/-! ### compact_level, parametric in the choice -/

/-- swap of positions `i` and `j` (`std::swap(level[i], level[j])`) -/
def swapAt (l : List β) (i j : Nat) : List β :=
  match l[i]?, l[j]? with
  | some a, some b => (l.set i b).set j a
  | _, _ => l

/-- `for (i = size; i > 1; --i) { j = below(i); swap(level[i-1], level[j]); }` – first argument is `i`,
the draws are used as `d % i` (so raw draws and already reduced draws give the same permutation). -/
def fyLoop : Nat → List Nat → List β → List β
  | i + 2, d :: ds, l => fyLoop (i + 1) ds (swapAt l (i + 1) (d % (i + 2)))
  | _, _, l => l

/-- points whose bit is set, in order (`if (bits[i]) levels_[height+1].push_back(level[i])`) -/
def keepMask : List Bool → List β → List β
  | true :: m, p :: l => p :: keepMask m l
  | false :: m, _ :: l => keepMask m l
  | _, _ => []

/-- (Fisher–Yates draws, keep mask) -/
abbrev Choice := List Nat × List Bool

def pickKept (c : Choice) (lvl : Level α) : Level α := keepMask c.2 (fyLoop lvl.length c.1 lvl)

/-- one call per compaction: sees the level about to be compacted -/
abbrev Picker (ρ α : Type) := ρ → Level α → Choice × ρ

/-- the level `compact()` selects: the first one holding at least `k` points -/
def firstFull (k : Nat) : List (Level α) → Option (Level α)
  | [] => none
  | lvl :: rest => if k ≤ lvl.length then some lvl else firstFull k rest

/-- `compact()` on the level vector: the first level with ≥ k points is replaced by an empty one and its
kept points are appended to the level above (created when missing). -/
def compactLevels (k : Nat) (c : Choice) : List (Level α) → List (Level α)
  | [] => []
  | lvl :: rest =>
    if k ≤ lvl.length then
      match rest with
      | [] => [[], pickKept c lvl]
      | nxt :: rest' => [] :: (nxt ++ pickKept c lvl) :: rest'
    else lvl :: compactLevels k c rest

/-- all trailing empty levels removed (possibly every level) -/
def dropTrailingEmpty : List (Level α) → List (Level α)
  | [] => []
  | x :: xs =>
    match dropTrailingEmpty xs with
    | [] => if x.isEmpty then [] else [x]
    | ys => x :: ys

/-- `while (levels_.size() > 1 && levels_.back().empty()) levels_.pop_back();` (repaired shape) / nothing (pinned shape) -/
def popTop (c : Cfg) : List (Level α) → List (Level α)
  | [] => []
  | l :: r => if c.popsEmptyTop then l :: dropTrailingEmpty r else l :: r

/-- the last level holds a point (vacuous for no level) -/
def lastNonempty : List (Level α) → Bool
  | [] => true
  | [x] => !x.isEmpty
  | _ :: y :: r => lastNonempty (y :: r)

/-- "the top level of a sketch with more than one level is not empty" – what a reader of the wire layout can reconstruct -/
def topNonempty : List (Level α) → Bool
  | [] => true
  | _ :: r => lastNonempty r

/-- `compact()` (+ `compact_level`): no level with ≥ k points ⇒ nothing happens (and the picker is not consulted). -/
def compact (c : Cfg) (P : Picker ρ α) (r : ρ) (s : Sketch α) : Sketch α × ρ :=
  match firstFull s.k s.levels with
  | none => (s, r)
  | some lvl =>
    let cr := P r lvl
    ({ s with levels := popTop c (compactLevels s.k cr.1 s.levels),
              numRetained := s.numRetained - (lvl.length - (pickKept cr.1 lvl).length) }, cr.2)

/-- `num_retained_ >= k_ * levels_.size()` -/
def loopCond (s : Sketch α) : Bool := decide (s.k * s.levels.length ≤ s.numRetained)

/-- `while (num_retained_ >= k_ * levels_.size()) compact();` with an explicit iteration budget. -/
def drain (c : Cfg) (P : Picker ρ α) : Nat → ρ → Sketch α → Sketch α × ρ
  | 0, r, s => (s, r)
  | f + 1, r, s =>
    if loopCond s then
      let x := compact c P r s
      drain c P f x.2 x.1
    else (s, r)

/-- budget under which the loop provably exits by its own condition (`ds_compact_terminates`) -/
def fuelOf (s : Sketch α) : Nat := s.numRetained * s.numRetained + 1

def compactLoop (c : Cfg) (P : Picker ρ α) (r : ρ) (s : Sketch α) : Sketch α × ρ := drain c P (fuelOf s) r s

/-! ### update / merge -/

def pushLevel0 (p : Point α) : List (Level α) → List (Level α)
  | [] => [[p]]
  | l0 :: rest => (l0 ++ [p]) :: rest

/-- `if (point.size() != dim_) throw` -/
def updateThrows (s : Sketch α) (p : Point α) : Bool := p.length != s.dim

def update (c : Cfg) (P : Picker ρ α) (r : ρ) (s : Sketch α) (p : Point α) : Sketch α × ρ :=
  if p.length ≠ s.dim then (s, r) else
  let x := compactLoop c P r s
  ({ x.1 with levels := pushLevel0 p x.1.levels, numRetained := x.1.numRetained + 1, n := x.1.n + 1 }, x.2)

/-- level-wise concatenation after padding `levels_` to the other's height -/
def mergeLevels : List (Level α) → List (Level α) → List (Level α)
  | a :: as, b :: bs => (a ++ b) :: mergeLevels as bs
  | [], bs => bs
  | as, [] => as

/-- the early return of `merge`: `if (other.is_empty()) return;` – `is_empty()` is `num_retained_ == 0`, NOT `n_ == 0`
(finding `ds_n_exact_full_false`) – or, after the proposed fix, `if (other.n_ == 0) return;` -/
def mergeSkips (c : Cfg) (o : Sketch α) : Bool := if c.mergeSkipOnN then o.n == 0 else o.numRetained == 0

/-- `if (<early return>) return; if (other.dim_ != dim_) throw` -/
def mergeThrows (c : Cfg) (s o : Sketch α) : Bool := !mergeSkips c o && o.dim != s.dim

/-- `merge(other)` -/
def merge (c : Cfg) (P : Picker ρ α) (r : ρ) (s o : Sketch α) : Sketch α × ρ :=
  if mergeSkips c o = true then (s, r)
  else if o.dim ≠ s.dim then (s, r)
  else
    let m : Sketch α := { s with levels := mergeLevels s.levels o.levels,
                                 numRetained := s.numRetained + o.numRetained, n := s.n + o.n }
    compactLoop c P r m

/-! ### iterator and estimate -/

/-- `begin()..end()`: every point of every level with weight `1ULL << height` -/
def iterFrom (h : Nat) : List (Level α) → List (Point α × Nat)
  | [] => []
  | lvl :: rest => lvl.map (fun p => (p, 2 ^ h)) ++ iterFrom (h + 1) rest

def iter (s : Sketch α) : List (Point α × Nat) := iterFrom 0 s.levels

section est
variable [Scalar α]

/-- the level weight as `get_estimate` evaluates it.  `1ULL << height` = `2^h`; or (pinned tree) `(1 << height)` in 32-bit `int`,
then converted to `T`: `2^h` for `h < 31`, `INT_MIN = -2^31` for `h = 31` (what g++ produces; finding
`ds_estimate_nonneg_full_false`), undefined behaviour for `h ≥ 32` (`estimateUB`; the value given here is then irrelevant).
The iterator always uses `1ULL << height_`. -/
def estWeight (c : Cfg) (h : Nat) : α :=
  if c.weight64 then Scalar.ofNat (2 ^ h)
  else if h < 31 then Scalar.ofNat (2 ^ h) else Scalar.neg (Scalar.ofNat (2 ^ 31))

/-- inner loop of `get_estimate`: `density += (1 << height) * kernel_(p, point) / n_` -/
def estLevel (c : Cfg) (K : Point α → Point α → α) (q : Point α) (n h : Nat) (acc : α) (lvl : Level α) : α :=
  lvl.foldl (fun d p => Scalar.add d (Scalar.div (Scalar.mul (estWeight c h) (K p q)) (Scalar.ofNat n))) acc

def estFrom (c : Cfg) (K : Point α → Point α → α) (q : Point α) (n : Nat) : Nat → α → List (Level α) → α
  | _, acc, [] => acc
  | h, acc, lvl :: rest => estFrom c K q n (h + 1) (estLevel c K q n h acc lvl) rest

/-- `get_estimate(point)` (see `estimateThrows` for when it throws instead) -/
def estimate (c : Cfg) (K : Point α → Point α → α) (s : Sketch α) (q : Point α) : α :=
  estFrom c K q s.n 0 Scalar.zero s.levels

/-- `if (is_empty()) throw` and, after the proposed fix, `if (point.size() != dim_) throw` -/
def estimateThrows (c : Cfg) (s : Sketch α) (q : Point α) : Bool :=
  s.numRetained == 0 || (c.queryChecksDim && q.length != s.dim)

/-- `get_estimate` executes `1 << height` in `int` with `height ≥ 32` (undefined behaviour) iff a level of height ≥ 32 holds a point -/
def estimateUB (c : Cfg) (s : Sketch α) : Bool := !c.weight64 && (s.levels.drop 32).any (fun l => !l.isEmpty)

/-! ### concrete picker: what `compact_level` computes -/

/-- `(bits[j] ? 1 : -1)` converted to `T` -/
def sgn (b : Bool) : α := if b then Scalar.one else Scalar.neg Scalar.one

/-- `delta = 0; for j < i: delta += (bits[j] ? 1 : -1) * kernel_(level[i], level[j])` -/
def delta (K : Point α → Point α → α) (p : Point α) (prev : List (Point α × Bool)) : α :=
  prev.foldl (fun d qb => Scalar.add d (Scalar.mul (sgn qb.2) (K p qb.1))) Scalar.zero

def signsGo (K : Point α → Point α → α) : List (Point α × Bool) → List (Point α) → List Bool
  | _, [] => []
  | prev, p :: rest =>
    let b := Scalar.ltZero (delta K p prev)
    b :: signsGo K (prev ++ [(p, b)]) rest

/-- `bits[0] = random bit; bits[i] = delta_i < 0` on the (already shuffled) level -/
def signs (K : Point α → Point α → α) (b0 : Bool) : Level α → List Bool
  | [] => []
  | p0 :: rest => b0 :: signsGo K [(p0, b0)] rest

end est

/-- Random source shared with the harness (`random_utils::verif_source`): explicit queues of bits and raw
draws supplied by op lines, then a 64-bit LCG.  Consumption is counted. -/
structure Src where
  bits : List Bool := []
  draws : List Nat := []
  lcg : UInt64 := 0
  nbits : Nat := 0
  ndraws : Nat := 0

def lcgNext (x : UInt64) : UInt64 := x * 6364136223846793005 + 1442695040888963407

def Src.bit (s : Src) : Bool × Src :=
  match s.bits with
  | b :: t => (b, { s with bits := t, nbits := s.nbits + 1 })
  | [] =>
    let x := lcgNext s.lcg
    (((x >>> 33) &&& 1) == 1, { s with lcg := x, nbits := s.nbits + 1 })

def Src.below (s : Src) (n : Nat) : Nat × Src :=
  match s.draws with
  | d :: t => (d % n, { s with draws := t, ndraws := s.ndraws + 1 })
  | [] =>
    let x := lcgNext s.lcg
    ((x >>> 11).toNat % n, { s with lcg := x, ndraws := s.ndraws + 1 })

/-- the draws `below(i)` for `i = m, m-1, …, 2` -/
def Src.drawsFor : Nat → Src → List Nat × Src
  | i + 2, s =>
    let d := s.below (i + 2)
    let r := Src.drawsFor (i + 1) d.2
    (d.1 :: r.1, r.2)
  | _, s => ([], s)

/-- `compact_level`'s own choice: first bit, Fisher–Yates draws, then the discrepancy signs of the
shuffled level. -/
def concretePicker [Scalar α] (K : Point α → Point α → α) : Picker Src α := fun src lvl =>
  let b := src.bit
  let ds := Src.drawsFor lvl.length b.2
  ((ds.1, signs K b.1 (fyLoop lvl.length ds.1 lvl)), ds.2)

end DS.Density

/-
Histories ("every point stream, every merge tree") for the density model: a sketch is built by
`new`, `upd` and `merge` of two independently built sketches; `run` executes a history with a picker
(the picker state is threaded through every compaction of the whole tree, so every assignment of
kept subsets to compaction events is some `(P, r)`).  Core Lean only.
-/
import DSModel.Density.Sketch
namespace DS.Density

variable {α ρ : Type}

inductive Hist (α : Type) where
  | new (k dim : Nat)
  | upd (h : Hist α) (p : Point α)
  | merge (h o : Hist α)

/-- configured dimension of the sketch a history builds -/
def Hist.dim : Hist α → Nat
  | .new _ d => d
  | .upd h _ => h.dim
  | .merge h _ => h.dim

/-- every constructor call passes `check_k` (`k ≥ minK`) -/
def Hist.valid (minK : Nat) : Hist α → Prop
  | .new k _ => minK ≤ k
  | .upd h _ => h.valid minK
  | .merge h o => h.valid minK ∧ o.valid minK

/-- the points the sketch was legitimately given: updates of the configured dimension, and the inputs of every merged
sketch of the same dimension (a wrong-dimension point / operand is refused and contributes nothing) -/
def Hist.inputs : Hist α → List (Point α)
  | .new _ _ => []
  | .upd h p => if p.length = h.dim then h.inputs ++ [p] else h.inputs
  | .merge h o => if o.dim = h.dim then h.inputs ++ o.inputs else h.inputs

def run (c : Cfg) (P : Picker ρ α) : Hist α → ρ → Sketch α × ρ
  | .new k d, r => (init k d, r)
  | .upd h p, r =>
    let x := run c P h r
    update c P x.2 x.1 p
  | .merge h o, r =>
    let x := run c P h r
    let y := run c P o x.2
    merge c P y.2 x.1 y.1

/-- no merge skips an operand that has seen points (with the pinned tree's test: no operand is an "emptied" sketch,
`num_retained_ = 0` although `n_ > 0`; with the test `n_ == 0` this holds trivially) -/
def Hist.noEmptiedOperand (c : Cfg) (P : Picker ρ α) : Hist α → ρ → Prop
  | .new _ _, _ => True
  | .upd h _, r => h.noEmptiedOperand c P r
  | .merge h o, r =>
    h.noEmptiedOperand c P r ∧ o.noEmptiedOperand c P (run c P h r).2 ∧
    (mergeSkips c (run c P o (run c P h r).2).1 = true → (run c P o (run c P h r).2).1.n = 0)

/-- every sketch merged in anywhere in the tree had itself not lost a point yet when merged: one level and
`num_retained_ = n_` (what a user can observe: `!is_estimation_mode() && get_num_retained() == get_n()`).  In the pinned
shape of `compact()` one level alone implies it; in the repaired shape a sketch can be back at one level after a compaction
that kept nothing, which `num_retained_ < n_` then reveals. -/
def Hist.operandsExact (c : Cfg) (P : Picker ρ α) : Hist α → ρ → Prop
  | .new _ _, _ => True
  | .upd h _, r => h.operandsExact c P r
  | .merge h o, r =>
    h.operandsExact c P r ∧ o.operandsExact c P (run c P h r).2 ∧
    ((run c P o (run c P h r).2).1.levels.length = 1 ∧
     (run c P o (run c P h r).2).1.numRetained = (run c P o (run c P h r).2).1.n)

instance Hist.decValid (m : Nat) : (h : Hist α) → Decidable (h.valid m)
  | .new k _ => inferInstanceAs (Decidable (m ≤ k))
  | .upd h _ => Hist.decValid m h
  | .merge h o => @instDecidableAnd _ _ (Hist.decValid m h) (Hist.decValid m o)

instance Hist.decNoEmptied (c : Cfg) (P : Picker ρ α) : (h : Hist α) → (r : ρ) → Decidable (h.noEmptiedOperand c P r)
  | .new _ _, _ => inferInstanceAs (Decidable True)
  | .upd h _, r => Hist.decNoEmptied c P h r
  | .merge h o, r =>
    @instDecidableAnd _ _ (Hist.decNoEmptied c P h r)
      (@instDecidableAnd _ _ (Hist.decNoEmptied c P o (run c P h r).2) inferInstance)

instance Hist.decOperandsExact (c : Cfg) (P : Picker ρ α) : (h : Hist α) → (r : ρ) → Decidable (h.operandsExact c P r)
  | .new _ _, _ => inferInstanceAs (Decidable True)
  | .upd h _, r => Hist.decOperandsExact c P h r
  | .merge h o, r =>
    @instDecidableAnd _ _ (Hist.decOperandsExact c P h r)
      (@instDecidableAnd _ _ (Hist.decOperandsExact c P o (run c P h r).2) inferInstance)

end DS.Density

/-
Histories ("every point stream, every merge tree") for the density model: a sketch is built by
`new`, `upd` and `merge` of two independently built sketches; `run` executes a history with a picker
(the picker state is threaded through every compaction of the whole tree, so every assignment of
kept subsets to compaction events is some `(P, r)`).  Core Lean only.
-/
import DSModel.Density.Sketch
namespace DS.Density

variable {α ρ : Type}

inductive Hist (α : Type) where
  | new (k dim : Nat)
  | upd (h : Hist α) (p : Point α)
  | merge (h o : Hist α)

/-- configured dimension of the sketch a history builds -/
def Hist.dim : Hist α → Nat
  | .new _ d => d
  | .upd h _ => h.dim
  | .merge h _ => h.dim

/-- every constructor call passes `check_k` (`k ≥ minK`) -/
def Hist.valid (minK : Nat) : Hist α → Prop
  | .new k _ => minK ≤ k
  | .upd h _ => h.valid minK
  | .merge h o => h.valid minK ∧ o.valid minK

/-- the points the sketch was legitimately given: updates of the configured dimension, and the inputs of every merged
sketch of the same dimension (a wrong-dimension point / operand is refused and contributes nothing) -/
def Hist.inputs : Hist α → List (Point α)
  | .new _ _ => []
  | .upd h p => if p.length = h.dim then h.inputs ++ [p] else h.inputs
  | .merge h o => if o.dim = h.dim then h.inputs ++ o.inputs else h.inputs

def run (P : Picker ρ α) : Hist α → ρ → Sketch α × ρ
  | .new k d, r => (init k d, r)
  | .upd h p, r =>
    let x := run P h r
    update P x.2 x.1 p
  | .merge h o, r =>
    let x := run P h r
    let y := run P o x.2
    merge P y.2 x.1 y.1

/-- no merge operand is an "emptied" sketch (`num_retained_ = 0` although `n_ > 0`) -/
def Hist.noEmptiedOperand (P : Picker ρ α) : Hist α → ρ → Prop
  | .new _ _, _ => True
  | .upd h _, r => h.noEmptiedOperand P r
  | .merge h o, r =>
    h.noEmptiedOperand P r ∧ o.noEmptiedOperand P (run P h r).2 ∧
    ((run P o (run P h r).2).1.numRetained = 0 → (run P o (run P h r).2).1.n = 0)

/-- every sketch merged in anywhere in the tree was itself still in exact mode (one level) when merged -/
def Hist.operandsExact (P : Picker ρ α) : Hist α → ρ → Prop
  | .new _ _, _ => True
  | .upd h _, r => h.operandsExact P r
  | .merge h o, r =>
    h.operandsExact P r ∧ o.operandsExact P (run P h r).2 ∧ (run P o (run P h r).2).1.levels.length = 1

instance Hist.decValid (m : Nat) : (h : Hist α) → Decidable (h.valid m)
  | .new k _ => inferInstanceAs (Decidable (m ≤ k))
  | .upd h _ => Hist.decValid m h
  | .merge h o => @instDecidableAnd _ _ (Hist.decValid m h) (Hist.decValid m o)

instance Hist.decNoEmptied (P : Picker ρ α) : (h : Hist α) → (r : ρ) → Decidable (h.noEmptiedOperand P r)
  | .new _ _, _ => inferInstanceAs (Decidable True)
  | .upd h _, r => Hist.decNoEmptied P h r
  | .merge h o, r =>
    @instDecidableAnd _ _ (Hist.decNoEmptied P h r)
      (@instDecidableAnd _ _ (Hist.decNoEmptied P o (run P h r).2) inferInstance)

instance Hist.decOperandsExact (P : Picker ρ α) : (h : Hist α) → (r : ρ) → Decidable (h.operandsExact P r)
  | .new _ _, _ => inferInstanceAs (Decidable True)
  | .upd h _, r => Hist.decOperandsExact P h r
  | .merge h o, r =>
    @instDecidableAnd _ _ (Hist.decOperandsExact P h r)
      (@instDecidableAnd _ _ (Hist.decOperandsExact P o (run P h r).2) inferInstance)

end DS.Density

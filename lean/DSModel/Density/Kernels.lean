/-
Kernels used by the density correspondence: the library's `gaussian_kernel<T>` (T = double, float) and the two
user kernels defined in harness/density_h.cpp (`1/(1+‖p−q‖²)` and the indicator of `‖p−q‖² ≤ 1`), each in the
code's floating-point operation order.  Core Lean only.
-/
import DSModel.Density.Sketch
namespace DS.Density

/-- `Σ (a-b)*(a-b)` left to right from 0 (`std::inner_product(v1.begin(), v1.end(), v2.begin(), 0.0, plus, sqdiff)`;
for a query longer than the sketch dimension only the first `dim` coordinates are read). -/
def sqDist {α : Type} [Scalar α] (p q : Point α) : α :=
  (List.zip p q).foldl (fun s ab => Scalar.add s (Scalar.mul (Scalar.sub ab.1 ab.2) (Scalar.sub ab.1 ab.2))) Scalar.zero

/-- `gaussian_kernel<double>`: `exp(-Σ(a-b)²)` -/
def gaussF64 (p q : Point Float) : Float := Float.exp (-(sqDist p q))

/-- `gaussian_kernel<float>`: the accumulator of `inner_product` is `double` (init `0.0`) but every step goes through
`std::plus<float>`, i.e. float arithmetic; `exp` is the double overload; the result is rounded to float on return. -/
def gaussF32 (p q : Point Float32) : Float32 := (Float.exp (-((sqDist p q).toFloat))).toFloat32

/-- user kernel `1 / (1 + ‖p−q‖²)` -/
def cauchyK {α : Type} [Scalar α] (p q : Point α) : α := Scalar.div Scalar.one (Scalar.add Scalar.one (sqDist p q))

/-- user kernel `‖p−q‖² ≤ 1 ? 1 : 0` -/
def indicatorK {α : Type} [Scalar α] (p q : Point α) : α :=
  if Scalar.le (sqDist p q) (Scalar.one : α) then Scalar.one else Scalar.zero

def kernelF64 : Nat → Point Float → Point Float → Float
  | 0 => gaussF64
  | 1 => cauchyK
  | _ => indicatorK

def kernelF32 : Nat → Point Float32 → Point Float32 → Float32
  | 0 => gaussF32
  | 1 => cauchyK
  | _ => indicatorK

end DS.Density

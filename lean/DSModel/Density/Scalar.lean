/-
Density family: the ops-only scalar class the model is written over (DESIGN.md §2.3).
`Float` / `Float32` instances are *executed* by the correspondence driver (IEEE binary64 / binary32,
operations in the code's order); the `Rat` instance is what the theorems about estimates use.
Core Lean only.
-/
namespace DS.Density

/-- Only the operations `density_sketch` performs on its coordinate type `T`. -/
class Scalar (α : Type) where
  zero : α
  one : α
  add : α → α → α
  sub : α → α → α
  mul : α → α → α
  div : α → α → α
  neg : α → α
  /-- conversion of an unsigned integer (`1 << height`, `n_`) to `T` -/
  ofNat : Nat → α
  /-- `x < 0` (the discrepancy sign test `delta < 0`) -/
  ltZero : α → Bool
  /-- `x ≤ y` (used by the indicator kernel only) -/
  le : α → α → Bool

instance : Scalar Float where
  zero := 0.0
  one := 1.0
  add := (· + ·)
  sub := (· - ·)
  mul := (· * ·)
  div := (· / ·)
  neg := fun x => -x
  ofNat := Float.ofNat
  ltZero := fun x => decide (x < 0.0)
  le := fun x y => decide (x ≤ y)

instance : Scalar Float32 where
  zero := 0.0
  one := 1.0
  add := (· + ·)
  sub := (· - ·)
  mul := (· * ·)
  div := (· / ·)
  neg := fun x => -x
  ofNat := Float32.ofNat
  ltZero := fun x => decide (x < 0.0)
  le := fun x y => decide (x ≤ y)

instance : Scalar Rat where
  zero := 0
  one := 1
  add := (· + ·)
  sub := (· - ·)
  mul := (· * ·)
  div := (· / ·)
  neg := fun x => -x
  ofNat := fun n => (n : Rat)
  ltZero := fun x => decide (x < 0)
  le := fun x y => decide (x ≤ y)

end DS.Density

/- The CPC model tables instantiated from the generated constants (shared by dsmodel_cpc and dsmodel_wire_cpc). -/
import DSModel.Cpc.Driver
import DSGen.Cpc
namespace DS.Cpc
open DS

def cpcEncArr : Array (Array Nat) := (DSGen.cpc_ENC_TABLES.map List.toArray).toArray
def cpcUnaryArr : Array Nat := DSGen.cpc_UNARY65.toArray
def cpcPermArr : Array (Array Nat) := (DSGen.cpc_COL_PERMS.map List.toArray).toArray

def cpcTabs : Tabs :=
  { hip := { invPow2 := fun i => DSGen.cpc_INV_POW2.getD i 0.0, kxpByte := fun i => DSGen.cpc_KXP_BYTE.getD i 0.0 },
    est := { iconCoeffs := fun i => DSGen.cpc_ICON_COEFFS.getD i 0.0,
             numCoeffs := DSGen.cpc_ICON_POLYNOMIAL_NUM_COEFFICIENTS,
             iconMinLgK := DSGen.cpc_ICON_MIN_LOG_K,
             expFactor := DSGen.cpc_ICON_EXP_FACTOR,
             threshLgK := DSGen.cpc_ICON_THRESH_LGK,
             threshLo := DSGen.cpc_ICON_THRESH_LO,
             threshHi := DSGen.cpc_ICON_THRESH_HI,
             termDiv := DSGen.cpc_ICON_TERM_DIV,
             xScale := DSGen.cpc_ICON_X_SCALE,
             iconLow := fun i => DSGen.cpc_ICON_LOW_SIDE.getD i 0,
             iconHigh := fun i => DSGen.cpc_ICON_HIGH_SIDE.getD i 0,
             hipLow := fun i => DSGen.cpc_HIP_LOW_SIDE.getD i 0,
             hipHigh := fun i => DSGen.cpc_HIP_HIGH_SIDE.getD i 0,
             iconErr := DSGen.cpc_ICON_ERROR_CONSTANT,
             hipErr := DSGen.cpc_HIP_ERROR_CONSTANT,
             confDiv := DSGen.cpc_CONF_DIV,
             confMaxLgK := DSGen.cpc_CONF_MAX_LGK },
    minLgK := DSGen.cpc_MIN_LG_K, maxLgK := DSGen.cpc_MAX_LG_K,
    comp := { encTab := fun i b => (cpcEncArr.getD i #[]).getD b 0,
              unary65 := fun x => cpcUnaryArr.getD x 0,
              perm := fun p c => (cpcPermArr.getD p #[]).getD c 0 },
    wire := { serialVersion := DSGen.cpc_SERIAL_VERSION, family := DSGen.cpc_FAMILY,
              flagCompressed := DSGen.cpc_FLAG_IS_COMPRESSED, flagHip := DSGen.cpc_FLAG_HAS_HIP,
              flagTable := DSGen.cpc_FLAG_HAS_TABLE, flagWindow := DSGen.cpc_FLAG_HAS_WINDOW,
              emptyKxpIsK := DSGen.cpc_DESER_EMPTY_KXP_IS_K } }


end DS.Cpc

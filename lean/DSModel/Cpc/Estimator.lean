/-
ICON / HIP estimates and confidence bounds of the CPC sketch (icon_estimator.hpp, cpc_confidence.hpp),
executed in `Float` in the code's operation order.  All tables and literals are parameters (DSGen/Cpc.lean).
Core Lean only.
-/
import DSModel.Cpc.Sketch
namespace DS.Cpc

structure EstTables where
  iconCoeffs : Nat → Float
  numCoeffs : Nat
  iconMinLgK : Nat
  expFactor : Float
  threshLgK : Nat
  threshLo : Float
  threshHi : Float
  termDiv : Float
  xScale : Float
  iconLow : Nat → Nat
  iconHigh : Nat → Nat
  hipLow : Nat → Nat
  hipHigh : Nat → Nat
  iconErr : Float
  hipErr : Float
  confDiv : Float
  confMaxLgK : Nat

/-- `evaluate_polynomial` (Horner from the top coefficient) -/
def evalPoly (coeffs : Nat → Float) (start num : Nat) (x : Float) : Float :=
  let final := start + num - 1
  (List.range (num - 1)).foldl (fun total i => total * x + coeffs (final - 1 - i)) (coeffs final)

/-- `compute_icon_estimate(lg_k, c)` -/
def iconEstimate (E : EstTables) (lgK c : Nat) : Float :=
  if c < 2 then (if c = 0 then 0.0 else 1.0) else
  let dk := (2^lgK).toFloat
  let dc := c.toFloat
  let thr := if lgK < E.threshLgK then E.threshLo else E.threshHi
  if dc > thr * dk then E.expFactor * dk * Float.pow 2.0 (dc / dk) else
  let factor := evalPoly E.iconCoeffs (E.numCoeffs * (lgK - E.iconMinLgK)) E.numCoeffs (dc / (E.xScale * dk))
  let ratio := dc / dk
  let term := 1.0 + (ratio * ratio * ratio / E.termDiv)
  let result := dc * factor * term
  if result >= dc then result else dc

/-- `get_estimate()` -/
def estimate (E : EstTables) (s : Sketch) : Float :=
  if s.merged then iconEstimate E s.lgK s.numCoupons else s.hip

def confX (E : EstTables) (dflt : Float) (tab : Nat → Nat) (lgK kappa : Nat) : Float :=
  if lgK ≤ E.confMaxLgK then (tab (3 * (lgK - 4) + (kappa - 1))).toFloat / E.confDiv else dflt

/-- `get_lower_bound(kappa)` (kappa in 1..3) -/
def lowerBound (E : EstTables) (s : Sketch) (kappa : Nat) : Float :=
  if s.numCoupons = 0 then 0.0 else
  let x := if s.merged then confX E E.iconErr E.iconHigh s.lgK kappa else confX E E.hipErr E.hipHigh s.lgK kappa
  let rel := x / Float.sqrt (2^s.lgK).toFloat
  let eps := kappa.toFloat * rel
  let result := estimate E s / (1.0 + eps)
  let check := s.numCoupons.toFloat
  if result < check then check else result

/-- `get_upper_bound(kappa)` -/
def upperBound (E : EstTables) (s : Sketch) (kappa : Nat) : Float :=
  if s.numCoupons = 0 then 0.0 else
  let x := if s.merged then confX E E.iconErr E.iconLow s.lgK kappa else confX E E.hipErr E.hipLow s.lgK kappa
  let rel := x / Float.sqrt (2^s.lgK).toFloat
  let eps := kappa.toFloat * rel
  Float.ceil (estimate E s / (1.0 - eps))

end DS.Cpc

/-
L1 model of `cpc_union_alloc` (cpc/include/cpc_union_impl.hpp): accumulator sketch | bit matrix,
`internal_update` cases A–D, `reduce_k`, `walk_table_updating_sketch`, `get_result`.

Abstractions (unobservable through `get_result`):
* `walk_table_updating_sketch` visits the source table with a golden-ratio stride; the model visits it in
  ascending order (the resulting coupon set is order independent — that is what the theorems show; the
  accumulator's HIP registers differ, but every result of `get_result` is flagged merged and reports ICON).
* `reduce_k` on an *empty* accumulator only lowers `lg_k` in the code and leaves the accumulator object at the
  old size (it is then replaced or turned into an all-zero matrix by the same `internal_update`); the model
  replaces it by a fresh accumulator of the new size.
Core Lean only.
-/
import DSModel.Cpc.Sketch
namespace DS.Cpc

structure Union where
  lgK : Nat
  acc : Option Sketch     -- the accumulator (while everything seen is sparse)
  matrix : List Nat       -- the bit matrix (2^lgK rows) once the accumulator has been given up; [] = absent

def unionNew (lgK : Nat) : Union := { lgK := lgK, acc := some (fresh lgK), matrix := [] }

/-- `row_col & dst_mask`: the coupon with its row folded to `2^lgK` rows -/
def foldRc (lgK rc : Nat) : Nat := ((rc / 64) % 2^lgK) * 64 + rc % 64

/-- `walk_table_updating_sketch` -/
def walkTable (T : HipTables) (acc : Sketch) (table : List Nat) : Sketch :=
  (table.map (foldRc acc.lgK)).foldl (rowColUpdate T) acc

/-- `dst[i & (k-1)] |= f i` for all source rows `i < srcK` (shared shape of `or_window_into_matrix`,
`or_matrix_into_matrix`) -/
def orRowsInto (k : Nat) (dst : List Nat) (f : Nat → Nat) (srcK : Nat) : List Nat :=
  let d := dst.toArray
  (List.range k).map (fun r => (List.range srcK).foldl (fun a i => if i % k = r then a ||| f i else a) (d.getD r 0))

/-- `or_table_into_matrix` -/
def orTableIntoMatrix (k : Nat) (dst : List Nat) (table : List Nat) : List Nat :=
  let d := dst.toArray
  (List.range k).map (fun r => table.foldl (fun a rc => if (rc / 64) % k = r then a ||| 2^(rc % 64) else a) (d.getD r 0))

/-- `or_window_into_matrix` -/
def orWindowIntoMatrix (k : Nat) (dst : List Nat) (window : List Nat) (offset srcK : Nat) : List Nat :=
  let w := window.toArray
  orRowsInto k dst (fun i => w.getD i 0 <<< offset) srcK

/-- `or_matrix_into_matrix` -/
def orMatrixIntoMatrix (k : Nat) (dst : List Nat) (src : List Nat) (srcK : Nat) : List Nat :=
  let s := src.toArray
  orRowsInto k dst (fun i => s.getD i 0) srcK

def beyondSparse (lgK c : Nat) : Bool :=
  determineFlavor lgK c != .empty && determineFlavor lgK c != .sparse

/-- accumulator after a walk: keep it, or `switch_to_bit_matrix` when it graduated beyond sparse -/
def settle (lgK : Nat) (acc : Sketch) : Union :=
  if beyondSparse acc.lgK acc.numCoupons then { lgK := lgK, acc := none, matrix := buildBitMatrix acc }
  else { lgK := lgK, acc := some acc, matrix := [] }

/-- `reduce_k` -/
def reduceK (T : HipTables) (u : Union) (newLgK : Nat) : Union :=
  match u.acc with
  | none =>
    { lgK := newLgK, acc := none,
      matrix := orMatrixIntoMatrix (2^newLgK) (List.replicate (2^newLgK) 0) u.matrix (2^u.lgK) }
  | some acc =>
    if acc.numCoupons = 0 then { lgK := newLgK, acc := some (fresh newLgK), matrix := [] }
    else settle newLgK (walkTable T (fresh newLgK) acc.table)

/-- the matrix operations of cases C (hybrid / pinned source: OR window and table) and D (sliding source: OR its bit matrix) -/
def addDense (k : Nat) (m : List Nat) (s : Sketch) : List Nat :=
  if determineFlavor s.lgK s.numCoupons = .hybrid ∨ determineFlavor s.lgK s.numCoupons = .pinned then
    orTableIntoMatrix k (orWindowIntoMatrix k m s.window s.offset (2^s.lgK)) s.table
  else orMatrixIntoMatrix k m (buildBitMatrix s) (2^s.lgK)

/-- the part of `internal_update` after the optional `reduce_k` (source not empty, `u.lgK ≤ s.lgK`) -/
def updateBody (T : HipTables) (u : Union) (s : Sketch) : Union :=
  let fl := determineFlavor s.lgK s.numCoupons
  let k := 2^u.lgK
  match u.acc with
  | some acc =>
    if fl = .sparse then
      -- case A
      if acc.numCoupons = 0 ∧ u.lgK = s.lgK then { u with acc := some s }
      else settle u.lgK (walkTable T acc s.table)
    else
      -- switch_to_bit_matrix, then case C or D
      { u with acc := none, matrix := addDense k (buildBitMatrix acc) s }
  | none =>
    if fl = .sparse then { u with matrix := orTableIntoMatrix k u.matrix s.table }     -- case B
    else { u with matrix := addDense k u.matrix s }                                    -- case C or D

/-- `internal_update` -/
def unionUpdate (T : HipTables) (u : Union) (s : Sketch) : Union :=
  if determineFlavor s.lgK s.numCoupons = .empty then u
  else updateBody T (if s.lgK < u.lgK then reduceK T u s.lgK else u) s

/-- `get_result_from_bit_matrix` -/
def resultFromMatrix (lgK : Nat) (m : List Nat) : Sketch :=
  let k := 2^lgK
  let c := (m.map popcount64).sum
  let off := determineCorrectOffset lgK c
  let arr := m.toArray
  { lgK := lgK, numCoupons := c, table := tableOfMatrix k off arr, window := windowOfMatrix k off arr,
    offset := off, fic := ficOfMatrix k off arr, kxp := 0.0, hip := 0.0, merged := true }

/-- `get_result` -/
def getResult (u : Union) : Sketch :=
  match u.acc with
  | some acc => if acc.numCoupons = 0 then fresh u.lgK else { acc with merged := true }
  | none => resultFromMatrix u.lgK u.matrix

/-- a union history: a fresh union of `lgK0` updated with the inputs in list order -/
def unionRun (T : HipTables) (lgK0 : Nat) (inputs : List Sketch) : Union := inputs.foldl (unionUpdate T) (unionNew lgK0)

/-- lg_k after an update (specification): the minimum with a non-empty source, unchanged by an empty one -/
def lgKAfter (lgK : Nat) (s : Sketch) : Nat := if s.numCoupons = 0 then lgK else min lgK s.lgK

/-- the lg_k a union history ends with (specification): min over the initial value and the non-empty inputs -/
def unionLgK (lgK0 : Nat) (inputs : List Sketch) : Nat := inputs.foldl lgKAfter lgK0

end DS.Cpc

/-
Serialized image of a CPC sketch (`cpc_sketch_alloc::serialize` / `deserialize`, byte-array overloads):
preamble, optional HIP registers (16 bytes carried verbatim as two 64-bit patterns), compressed window
and table words.  `none` = the code throws.
Core Lean only.
-/
import DSModel.Cpc.Compress
namespace DS.Cpc

structure WireConsts where
  serialVersion : Nat
  family : Nat
  flagCompressed : Nat
  flagHip : Nat
  flagTable : Nat
  flagWindow : Nat

def leBytes (n x : Nat) : List Nat := (List.range n).map (fun i => (x / 256^i) % 256)

def ofLe (bs : List Nat) : Nat := bs.foldr (fun b acc => b + 256 * acc) 0

/-- `get_preamble_ints` -/
def preambleInts (c : Nat) (hasHip hasTable hasWindow : Bool) : Nat :=
  if c = 0 then 2 else
  3 + (if hasHip then 4 else 0) + (if hasTable then (if hasWindow then 2 else 1) else 0) + (if hasWindow then 1 else 0)

/-- the two HIP registers as they are stored in the image -/
structure HipBits where
  kxp : Nat
  hip : Nat
deriving Repr, DecidableEq

/-- `serialize()` -/
def serializeCore (W : WireConsts) (C : CompTables) (seedHash : Nat) (s : Sketch) (hb : HipBits) : List Nat :=
  let z := compress C s
  let hasHip := !s.merged
  let hasTable := !z.tableWords.isEmpty
  let hasWindow := !z.windowWords.isEmpty
  let flags := 2^W.flagCompressed + (if hasHip then 2^W.flagHip else 0) + (if hasTable then 2^W.flagTable else 0)
    + (if hasWindow then 2^W.flagWindow else 0)
  let hipBytes := leBytes 8 hb.kxp ++ leBytes 8 hb.hip
  let head := [preambleInts s.numCoupons hasHip hasTable hasWindow, W.serialVersion, W.family, s.lgK, s.fic, flags]
    ++ leBytes 2 seedHash
  if s.numCoupons = 0 then head else
  head ++ leBytes 4 s.numCoupons
    ++ (if hasTable && hasWindow then leBytes 4 z.tableNumEntries ++ (if hasHip then hipBytes else []) else [])
    ++ (if hasTable then leBytes 4 z.tableWords.length else [])
    ++ (if hasWindow then leBytes 4 z.windowWords.length else [])
    ++ (if hasHip && !(hasTable && hasWindow) then hipBytes else [])
    ++ z.windowWords.flatMap (leBytes 4)
    ++ z.tableWords.flatMap (leBytes 4)

/-- split `n` little-endian fields of `w` bytes off a byte list -/
def takeLe (w : Nat) (bs : List Nat) : Option (Nat × List Nat) :=
  if bs.length < w then none else some (ofLe (bs.take w), bs.drop w)

def takeWords : Nat → List Nat → Option (List Nat × List Nat)
  | 0, bs => some ([], bs)
  | n + 1, bs => match takeLe 4 bs with
    | none => none
    | some (x, r) => match takeWords n r with
      | none => none
      | some (t, r') => some (x :: t, r')

/-- `deserialize(bytes, size, seed)`; the sketch's Float registers are rebuilt from the returned bit patterns by the caller -/
def deserializeCore (W : WireConsts) (C : CompTables) (seedHash : Nat) (bytes : List Nat)
    (ofBits : Nat → Float) : Option (Sketch × HipBits) :=
  match bytes with
  | pre :: ver :: fam :: lgK :: fic :: flags :: sh0 :: sh1 :: rest =>
    let hasHip := flags.testBit W.flagHip
    let hasTable := flags.testBit W.flagTable
    let hasWindow := flags.testBit W.flagWindow
    if bytes.length < 4 * pre then none else
    -- read the variable part
    let r : Option (Nat × Nat × HipBits × List Nat × List Nat × List Nat) :=
      if hasTable || hasWindow then
        match takeLe 4 rest with
        | none => none
        | some (c, r1) =>
          let step2 : Option (Nat × HipBits × List Nat) :=
            if hasTable && hasWindow then
              match takeLe 4 r1 with
              | none => none
              | some (ne, r2) =>
                if hasHip then
                  match takeLe 8 r2 with
                  | none => none
                  | some (kx, r3) => match takeLe 8 r3 with
                    | none => none
                    | some (hp, r4) => some (ne, ⟨kx, hp⟩, r4)
                else some (ne, ⟨0, 0⟩, r2)
            else some (0, ⟨0, 0⟩, r1)
          match step2 with
          | none => none
          | some (ne, hb, r2) =>
            let step3 : Option (Nat × List Nat) := if hasTable then takeLe 4 r2 else some (0, r2)
            match step3 with
            | none => none
            | some (tw, r3) =>
              let step4 : Option (Nat × List Nat) := if hasWindow then takeLe 4 r3 else some (0, r3)
              match step4 with
              | none => none
              | some (ww, r4) =>
                let step5 : Option (HipBits × List Nat) :=
                  if hasHip && !(hasTable && hasWindow) then
                    match takeLe 8 r4 with
                    | none => none
                    | some (kx, r5) => match takeLe 8 r5 with
                      | none => none
                      | some (hp, r6) => some (⟨kx, hp⟩, r6)
                  else some (hb, r4)
                match step5 with
                | none => none
                | some (hb, r5) =>
                  match takeWords ww r5 with
                  | none => none
                  | some (wwords, r6) =>
                    match takeWords tw r6 with
                    | none => none
                    | some (twords, r7) =>
                      let ne := if hasWindow then ne else c
                      some (c, ne, hb, wwords, twords, r7)
      else some (0, 0, ⟨0, 0⟩, [], [], rest)
    match r with
    | none => none
    | some (c, ne, hb, wwords, twords, tail) =>
      if !tail.isEmpty then none else
      if pre ≠ preambleInts c hasHip hasTable hasWindow then none else
      if ver ≠ W.serialVersion then none else
      if fam ≠ W.family then none else
      if sh0 + 256 * sh1 ≠ seedHash then none else
      let tw := uncompress C { tableWords := twords, tableNumEntries := ne, windowWords := wwords } lgK c
      some ({ lgK := lgK, numCoupons := c, table := tw.1, window := tw.2, offset := determineCorrectOffset lgK c,
              fic := fic, kxp := ofBits hb.kxp, hip := ofBits hb.hip, merged := !hasHip }, hb)
  | _ => none

end DS.Cpc

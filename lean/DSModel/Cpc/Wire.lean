/-
Serialized image of a CPC sketch (`cpc_sketch_alloc::serialize` / `deserialize`, byte-array overloads):
preamble, optional HIP registers (16 bytes carried verbatim as two 64-bit patterns), compressed window
and table words.  `none` = the code throws.
Core Lean only.
-/
import DSModel.Cpc.Compress
namespace DS.Cpc

structure WireConsts where
  serialVersion : Nat
  family : Nat
  flagCompressed : Nat
  flagHip : Nat
  flagTable : Nat
  flagWindow : Nat
  /-- shape of `deserialize` in the current source: an image with C = 0 starts with kxp = 2^lg_k (true, the repaired
  code) or keeps the declaration value kxp = 0 (false, the code before fix de90ce5) -/
  emptyKxpIsK : Bool

def leBytes (n x : Nat) : List Nat := (List.range n).map (fun i => (x / 256^i) % 256)

def ofLe (bs : List Nat) : Nat := bs.foldr (fun b acc => b + 256 * acc) 0

/-- `get_preamble_ints` -/
def preambleInts (c : Nat) (hasHip hasTable hasWindow : Bool) : Nat :=
  if c = 0 then 2 else
  3 + (if hasHip then 4 else 0) + (if hasTable then (if hasWindow then 2 else 1) else 0) + (if hasWindow then 1 else 0)

/-- the two HIP registers as they are stored in the image -/
structure HipBits where
  kxp : Nat
  hip : Nat
deriving Repr, DecidableEq

/-- IEEE-754 binary64 pattern of 2^e (`std::ldexp(1.0, e)`, e < 1024) -/
def pow2Bits (e : Nat) : Nat := (1023 + e) * 2^52

/-- `serialize()` -/
def serializeCore (W : WireConsts) (C : CompTables) (seedHash : Nat) (s : Sketch) (hb : HipBits) : List Nat :=
  let z := compress C s
  let hasHip := !s.merged
  let hasTable := !z.tableWords.isEmpty
  let hasWindow := !z.windowWords.isEmpty
  let flags := 2^W.flagCompressed + (if hasHip then 2^W.flagHip else 0) + (if hasTable then 2^W.flagTable else 0)
    + (if hasWindow then 2^W.flagWindow else 0)
  let hipBytes := leBytes 8 hb.kxp ++ leBytes 8 hb.hip
  let head := [preambleInts s.numCoupons hasHip hasTable hasWindow, W.serialVersion, W.family, s.lgK, s.fic, flags]
    ++ leBytes 2 seedHash
  if s.numCoupons = 0 then head else
  head ++ leBytes 4 s.numCoupons
    ++ (if hasTable && hasWindow then leBytes 4 z.tableNumEntries ++ (if hasHip then hipBytes else []) else [])
    ++ (if hasTable then leBytes 4 z.tableWords.length else [])
    ++ (if hasWindow then leBytes 4 z.windowWords.length else [])
    ++ (if hasHip && !(hasTable && hasWindow) then hipBytes else [])
    ++ z.windowWords.flatMap (leBytes 4)
    ++ z.tableWords.flatMap (leBytes 4)

/-- split `n` little-endian fields of `w` bytes off a byte list -/
def takeLe (w : Nat) (bs : List Nat) : Option (Nat × List Nat) :=
  if bs.length < w then none else some (ofLe (bs.take w), bs.drop w)

def takeWords : Nat → List Nat → Option (List Nat × List Nat)
  | 0, bs => some ([], bs)
  | n + 1, bs => match takeLe 4 bs with
    | none => none
    | some (x, r) => match takeWords n r with
      | none => none
      | some (t, r') => some (x :: t, r')

/-- the two HIP registers -/
def takeHip (bs : List Nat) : Option (HipBits × List Nat) := do
  let (kx, r1) ← takeLe 8 bs
  let (hp, r2) ← takeLe 8 r1
  pure (⟨kx, hp⟩, r2)

/-- the variable part of the image after the 8 fixed bytes: (C, table_num_entries, HIP bits, window words, table words, rest) -/
def readBody (hasHip hasTable hasWindow : Bool) (rest : List Nat) :
    Option (Nat × Nat × HipBits × List Nat × List Nat × List Nat) :=
  if hasTable || hasWindow then do
    let (c, r1) ← takeLe 4 rest
    let (ne, hb1, r2) ← (if hasTable && hasWindow then do
        let (ne, q) ← takeLe 4 r1
        if hasHip then do
          let (hb, q') ← takeHip q
          pure (ne, hb, q')
        else pure (ne, (⟨0, 0⟩ : HipBits), q)
      else pure (0, (⟨0, 0⟩ : HipBits), r1))
    let (tw, r3) ← (if hasTable then takeLe 4 r2 else pure (0, r2))
    let (ww, r4) ← (if hasWindow then takeLe 4 r3 else pure (0, r3))
    let (hb, r5) ← (if hasHip && !(hasTable && hasWindow) then takeHip r4 else pure (hb1, r4))
    let (wwords, r6) ← takeWords ww r5
    let (twords, r7) ← takeWords tw r6
    pure (c, (if hasWindow then ne else c), hb, wwords, twords, r7)
  else pure (0, 0, ⟨0, 0⟩, [], [], rest)

/-- `deserialize(bytes, size, seed)`; the sketch's Float registers are rebuilt from the returned bit patterns by `ofBits` -/
def deserializeCore (W : WireConsts) (C : CompTables) (seedHash : Nat) (bytes : List Nat)
    (ofBits : Nat → Float) : Option (Sketch × HipBits) :=
  match bytes with
  | pre :: ver :: fam :: lgK :: fic :: flags :: sh0 :: sh1 :: rest =>
    let hasHip := flags.testBit W.flagHip
    let hasTable := flags.testBit W.flagTable
    let hasWindow := flags.testBit W.flagWindow
    if bytes.length < 4 * pre then none else
    match readBody hasHip hasTable hasWindow rest with
    | none => none
    | some (c, ne, hb, wwords, twords, tail) =>
      if !tail.isEmpty then none else
      if pre ≠ preambleInts c hasHip hasTable hasWindow then none else
      if ver ≠ W.serialVersion then none else
      if fam ≠ W.family then none else
      if sh0 + 256 * sh1 ≠ seedHash then none else
      let tw := uncompress C { tableWords := twords, tableNumEntries := ne, windowWords := wwords } lgK c
      -- `if (num_coupons == 0) kxp = std::ldexp(1.0, lg_k);` (repaired shape only)
      let hb : HipBits := if c = 0 ∧ W.emptyKxpIsK = true then ⟨pow2Bits lgK, hb.hip⟩ else hb
      some ({ lgK := lgK, numCoupons := c, table := tw.1, window := tw.2, offset := determineCorrectOffset lgK c,
              fic := fic, kxp := ofBits hb.kxp, hip := ofBits hb.hip, merged := !hasHip }, hb)
  | _ => none

end DS.Cpc

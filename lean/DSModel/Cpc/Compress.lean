/-
Model of `cpc_compressor` (cpc/include/cpc_compressor_impl.hpp): the bit stream, length-limited Huffman
byte coding with 12-bit look-ahead, pair coding (x-delta by the 65-symbol unary-like code, y-delta by
Golomb: unary high part + `B` low bits), the column rotation / permutation of the SLIDING flavor, the
HYBRID "tricky" pair extraction and merge, and `compress` / `uncompress` of the four flavors.

Bit order: the code packs codewords LSB first into a 64-bit buffer and flushes 32-bit words; the model
emits a `List Bool` (first element = first bit written) and packs it into words at the end.  Padding
bits exist only so that the real decoder's 12-bit peek cannot overrun its buffer.

Decoding tables: `make_decoding_table` writes, for every symbol in increasing order, its entry to all
4096-entry slots whose low bits equal the codeword; `decEntry` is "the entry of the last symbol that
matches" — the same table when (and only when) it is completely written.
Core Lean only.
-/
import DSModel.Cpc.Sketch
namespace DS.Cpc

abbrev Bits := List Bool

/-- the low `len` bits of `val`, least significant first -/
def bitsOf (val len : Nat) : Bits := (List.range len).map (fun i => val.testBit i)

/-- value of a bit list (least significant first) -/
def valOf : Bits → Nat
  | [] => 0
  | b :: t => (if b then 1 else 0) + 2 * valOf t

/-- the next `n` bits as a number (missing bits read as 0) -/
def peek (n : Nat) (bs : Bits) : Nat := valOf (bs.take n)

/-! ### Huffman-style symbol codes: entry = length * 4096 + codeword (length ≤ 12) -/

def encSym (enc : Nat → Nat) (b : Nat) : Bits := bitsOf (enc b % 4096) (enc b / 4096)

/-- does the 12-bit pattern `x` start (LSB first) with the codeword of symbol `b`? -/
def symMatches (enc : Nat → Nat) (b x : Nat) : Bool := x % 2^(enc b / 4096) == enc b % 4096

/-- entry `x` of the decoding table built by `make_decoding_table` (length * 256 + symbol) -/
def decEntry (enc : Nat → Nat) (n : Nat) (x : Nat) : Nat :=
  match (List.range n).reverse.find? (fun b => symMatches enc b x) with
  | some b => (enc b / 4096) * 256 + b
  | none => 0

/-- the symbols in reverse order with their match test precomputed: (symbol, 2^length, codeword, table entry) -/
def symList (enc : Nat → Nat) (n : Nat) : List (Nat × Nat × Nat × Nat) :=
  (List.range n).reverse.map (fun b => (b, 2^(enc b / 4096), enc b % 4096, (enc b / 4096) * 256 + b))

/-- `decEntry` over the precomputed list -/
def decEntryL (syms : List (Nat × Nat × Nat × Nat)) (x : Nat) : Nat :=
  match syms.find? (fun t => x % t.2.1 == t.2.2.1) with
  | some t => t.2.2.2
  | none => 0

/-- the decoding table materialised (as the code does at start-up) -/
def decTable (enc : Nat → Nat) (n : Nat) : Array Nat :=
  let syms := symList enc n
  ((List.range 4096).map (decEntryL syms)).toArray

/-- decode one symbol: 12-bit peek, table lookup, consume the codeword -/
def decSym (dec : Nat → Nat) (bs : Bits) : Nat × Bits :=
  let e := dec (peek 12 bs)
  (e % 256, bs.drop (e / 256))

/-- `low_level_compress_bytes` (without padding) -/
def encBytes (enc : Nat → Nat) (bytes : List Nat) : Bits := bytes.flatMap (encSym enc)

/-- `low_level_uncompress_bytes` -/
def decBytes (dec : Nat → Nat) : Nat → Bits → List Nat
  | 0, _ => []
  | n + 1, bs => let p := decSym dec bs; p.1 :: decBytes dec n p.2

/-! ### pairs -/

/-- `write_unary`: `n` zeros and a one -/
def unaryBits (n : Nat) : Bits := List.replicate n false ++ [true]

/-- `read_unary` (a stream that ends inside the zeros reads as that many zeros) -/
def readUnary : Bits → Nat × Bits
  | [] => (0, [])
  | true :: t => (0, t)
  | false :: t => let p := readUnary t; (p.1 + 1, p.2)

/-- `low_level_compress_pairs` (without padding): x-delta symbol, Golomb high part in unary, `B` low bits -/
def encPairs (enc65 : Nat → Nat) (B : Nat) : Nat → Nat → List Nat → Bits
  | _, _, [] => []
  | pr, pc, rc :: t =>
    let row := rc / 64
    let col := rc % 64
    let pc' := if row ≠ pr then 0 else pc
    let yd := row - pr
    let xd := col - pc'
    encSym enc65 xd ++ (unaryBits (yd / 2^B) ++ (bitsOf (yd % 2^B) B ++ encPairs enc65 B row (col + 1) t))

/-- `low_level_uncompress_pairs` -/
def decPairs (dec65 : Nat → Nat) (B : Nat) : Nat → Nat → Nat → Bits → List Nat
  | 0, _, _, _ => []
  | n + 1, pr, pc, bs =>
    let p1 := decSym dec65 bs
    let p2 := readUnary p1.2
    let lo := peek B p2.2
    let yd := p2.1 * 2^B + lo
    let pc' := if yd > 0 then 0 else pc
    let row := pr + yd
    let col := pc' + p1.1
    (row * 64 + col) :: decPairs dec65 B n row (col + 1) (p2.2.drop B)

/-- `floor_log2_of_long` -/
def floorLog2 (x : Nat) : Nat := Nat.log2 x

/-- `golomb_choose_number_of_base_bits(k + num_pairs, num_pairs)` -/
def golombBaseBits (k numPairs : Nat) : Nat :=
  let q := k / numPairs      -- ((k + n) - n) / n
  if q = 0 then 0 else floorLog2 q

/-! ### words -/

/-- pack a bit stream into 32-bit words (the last one zero filled) -/
def packWords (bs : Bits) : List Nat :=
  if h : bs = [] then [] else valOf (bs.take 32) :: packWords (bs.drop 32)
termination_by bs.length
decreasing_by
  cases bs with
  | nil => exact absurd rfl h
  | cons a t => simp only [List.length_drop, List.length_cons]; omega

def unpackWords (ws : List Nat) : Bits := ws.flatMap (fun w => bitsOf w 32)

/-! ### compress / uncompress -/

structure CompTables where
  encTab : Nat → Nat → Nat        -- encoding_tables_for_high_entropy_byte[i][byte]
  unary65 : Nat → Nat             -- length_limited_unary_encoding_table65[x]
  perm : Nat → Nat → Nat          -- column_permutations_for_encoding[phase][col]

/-- `determine_pseudo_phase` -/
def pseudoPhase (lgK c : Nat) : Nat :=
  let k := 2^lgK
  if 1000 * c < 2375 * k then
    if 4 * c < 3 * k then 16
    else if 10 * c < 11 * k then 17
    else if 100 * c < 132 * k then 18
    else if 3 * c < 5 * k then 19
    else if 1000 * c < 1965 * k then 20
    else if 1000 * c < 2275 * k then 21
    else 6
  else (c / 2^(lgK - 4)) % 16

/-- inverse of a column permutation (`make_inverse_permutation`) -/
def invPerm (p : Nat → Nat) (j : Nat) : Nat :=
  match (List.range 56).reverse.find? (fun i => p i == j) with
  | some i => i
  | none => 0

structure Compressed where
  tableWords : List Nat
  tableNumEntries : Nat
  windowWords : List Nat
deriving Repr, DecidableEq

/-- `compress_surprising_values` -/
def compressPairs (C : CompTables) (lgK : Nat) (pairs : List Nat) : List Nat :=
  let B := golombBaseBits (2^lgK) pairs.length
  packWords (encPairs C.unary65 B 0 0 pairs ++ List.replicate (10 - B) false)

/-- `uncompress_surprising_values` -/
def uncompressPairs (C : CompTables) (lgK : Nat) (numPairs : Nat) (words : List Nat) : List Nat :=
  let B := golombBaseBits (2^lgK) numPairs
  let tab := decTable C.unary65 65
  decPairs (fun x => tab.getD x 0) B numPairs 0 0 (unpackWords words)

/-- `compress_sliding_window` -/
def compressWindow (C : CompTables) (lgK c : Nat) (window : List Nat) : List Nat :=
  packWords (encBytes (C.encTab (pseudoPhase lgK c)) window ++ List.replicate 11 false)

/-- `uncompress_sliding_window` -/
def uncompressWindow (C : CompTables) (lgK c : Nat) (words : List Nat) : List Nat :=
  let tab := decTable (C.encTab (pseudoPhase lgK c)) 256
  decBytes (fun x => tab.getD x 0) (2^lgK) (unpackWords words)

/-- `tricky_get_pairs_from_window`: the set bits of the window bytes as pairs, row by row, columns ascending -/
def pairsOfWindow (window : List Nat) : List Nat :=
  let w := window.toArray
  (List.range (64 * window.length)).filter (fun rc => rc % 64 < 8 && (w.getD (rc / 64) 0).testBit (rc % 64))

/-- `u32_table::merge` of two ascending lists -/
def mergeS : List Nat → List Nat → List Nat
  | [], ys => ys
  | xs, [] => xs
  | x :: xs, y :: ys => if x < y then x :: mergeS xs (y :: ys) else y :: mergeS (x :: xs) ys

def leNat (a b : Nat) : Bool := decide (a ≤ b)

/-- sorting a pair array (`introspective_insertion_sort`; any correct sort gives this list) -/
def sortPairs (l : List Nat) : List Nat := l.mergeSort leNat

/-- rotation + permutation of the column of a surprising value in the SLIDING flavor -/
def slideCol (C : CompTables) (phase offset rc : Nat) : Nat :=
  (rc / 64) * 64 + C.perm phase ((rc % 64 + 56 - offset) % 64)

def unslideCol (C : CompTables) (phase offset rc : Nat) : Nat :=
  (rc / 64) * 64 + (invPerm (C.perm phase) (rc % 64) + (offset + 8)) % 64

/-- `compress` -/
def compress (C : CompTables) (s : Sketch) : Compressed :=
  let c := s.numCoupons
  match determineFlavor s.lgK c with
  | .empty => { tableWords := [], tableNumEntries := 0, windowWords := [] }
  | .sparse => { tableWords := compressPairs C s.lgK s.table, tableNumEntries := s.table.length, windowWords := [] }
  | .hybrid =>
    let all := mergeS s.table (pairsOfWindow s.window)
    { tableWords := compressPairs C s.lgK all, tableNumEntries := all.length, windowWords := [] }
  | .pinned =>
    let w := compressWindow C s.lgK c s.window
    if s.table = [] then { tableWords := [], tableNumEntries := 0, windowWords := w }
    else
      let pairs := s.table.map (fun rc => rc - 8)
      { tableWords := compressPairs C s.lgK pairs, tableNumEntries := pairs.length, windowWords := w }
  | .sliding =>
    let w := compressWindow C s.lgK c s.window
    if s.table = [] then { tableWords := [], tableNumEntries := 0, windowWords := w }
    else
      let pairs := sortPairs (s.table.map (slideCol C (pseudoPhase s.lgK c) s.offset))
      { tableWords := compressPairs C s.lgK pairs, tableNumEntries := pairs.length, windowWords := w }

/-- `uncompress`: the surprising-value table (as a sorted list: `make_from_pairs` builds a hash table) and the window -/
def uncompress (C : CompTables) (z : Compressed) (lgK c : Nat) : List Nat × List Nat :=
  match determineFlavor lgK c with
  | .empty => ([], [])
  | .sparse => (sortPairs (uncompressPairs C lgK z.tableNumEntries z.tableWords), [])
  | .hybrid =>
    let pairs := uncompressPairs C lgK z.tableNumEntries z.tableWords
    let low := pairs.filter (fun rc => rc % 64 < 8)
    (sortPairs (pairs.filter (fun rc => 8 ≤ rc % 64)), (List.range (2^lgK)).map (byteOfPairs low))
  | .pinned =>
    let w := uncompressWindow C lgK c z.windowWords
    if z.tableNumEntries = 0 then ([], w)
    else (sortPairs ((uncompressPairs C lgK z.tableNumEntries z.tableWords).map (fun rc => rc + 8)), w)
  | .sliding =>
    let w := uncompressWindow C lgK c z.windowWords
    if z.tableNumEntries = 0 then ([], w)
    else
      let off := determineCorrectOffset lgK c
      (sortPairs ((uncompressPairs C lgK z.tableNumEntries z.tableWords).map (unslideCol C (pseudoPhase lgK c) off)), w)

end DS.Cpc

/-
L1 model of `cpc_sketch_alloc` (cpc/include/cpc_sketch_impl.hpp).

State = the fields of the C++ object.  The surprising-value hash table (`u32_table`, linear probing
with deletion) is abstracted to a strictly increasing list of `row_col` codes (`row * 64 + col`); its
slot order is unobservable (every consumer either tests membership or sorts).  The sliding window is
the list of its `k` bytes (`[]` = not allocated, as `sliding_window.size() == 0` in the code).
`kxp` / `hip` are executed in `Float` in the code's operation order.

Deviation (documented, unreachable in practice): `move_window` beyond offset 56 is a
`logic_error` in the code (it needs more than 59.375·K distinct coupons, i.e. coupons in columns
57..63, probability < 2^-57 per update); the model leaves the window where it is.
Core Lean only.
-/
namespace DS.Cpc

/-- `count_leading_zeros_in_u64` (64 for 0) -/
def clz64 (x : UInt64) : Nat := if x = 0 then 64 else 63 - Nat.log2 x.toNat

/-- `row_col_from_two_hashes`: row = low lg_k bits of the first Murmur word, col = min(clz(second word), 63);
the pair equal to the table's empty marker `UINT32_MAX` (only possible for lg_k = 26) has its row changed -/
def rowCol (h0 h1 : UInt64) (lgK : Nat) : Nat :=
  let col := min (clz64 h1) 63
  let row := h0.toNat % 2^lgK
  let rc := row * 64 + col
  if rc = 4294967295 then 4294967231 else rc     -- rc ^ (1 << 6)

/-- sorted insert into a strictly increasing list (no-op when present) -/
def insertS (x : Nat) : List Nat → List Nat
  | [] => [x]
  | y :: t => if x < y then x :: y :: t else if x = y then y :: t else y :: insertS x t

/-- the numeric tables the HIP bookkeeping reads (`INVERSE_POWERS_OF_2`, `KXP_BYTE_TABLE`) -/
structure HipTables where
  invPow2 : Nat → Float
  kxpByte : Nat → Float

structure Sketch where
  lgK : Nat
  numCoupons : Nat
  table : List Nat        -- surprising values, strictly increasing
  window : List Nat       -- [] or k bytes
  offset : Nat
  fic : Nat               -- first_interesting_column
  kxp : Float
  hip : Float
  merged : Bool

def fresh (lgK : Nat) : Sketch :=
  { lgK := lgK, numCoupons := 0, table := [], window := [], offset := 0, fic := 0,
    kxp := (2^lgK).toFloat, hip := 0.0, merged := false }

inductive Flavor where
  | empty | sparse | hybrid | pinned | sliding
deriving DecidableEq, Repr

/-- `determine_flavor(lg_k, c)` -/
def determineFlavor (lgK c : Nat) : Flavor :=
  if c = 0 then .empty
  else if 32 * c < 3 * 2^lgK then .sparse
  else if 2 * c < 2^lgK then .hybrid
  else if 8 * c < 27 * 2^lgK then .pinned
  else .sliding

/-- `determine_correct_offset(lg_k, c)` = max(0, ⌊(8C − 19K) / 8K⌋) -/
def determineCorrectOffset (lgK c : Nat) : Nat :=
  if 8 * c < 19 * 2^lgK then 0 else (8 * c - 19 * 2^lgK) / (8 * 2^lgK)

/-- `update_hip` -/
def updateHip (T : HipTables) (s : Sketch) (rc : Nat) : Sketch :=
  { s with hip := s.hip + (2^s.lgK).toFloat / s.kxp, kxp := s.kxp - T.invPow2 (rc % 64 + 1) }

/-- one row of `build_bit_matrix()`: default pattern (ones before the window), window byte, then
every surprising value of this row flips its bit -/
def rowPattern (s : Sketch) (r : Nat) : Nat :=
  s.table.foldl (fun m rc => if rc / 64 = r then m ^^^ 2^(rc % 64) else m)
    ((2^s.offset - 1) ||| (s.window.getD r 0 <<< s.offset))

/-- `build_bit_matrix()` -/
def buildBitMatrix (s : Sketch) : List Nat := (List.range (2^s.lgK)).map (rowPattern s)

/-- number of one bits among the low `n` bits -/
def popcountN : Nat → Nat → Nat
  | 0, _ => 0
  | n + 1, x => x % 2 + popcountN n (x / 2)
def popcount64 (x : Nat) : Nat := popcountN 64 x

/-- `validate()` -/
def validate (s : Sketch) : Bool := ((buildBitMatrix s).map popcount64).sum == s.numCoupons

/-- `count_trailing_zeros_in_u64` (64 for 0) -/
def ctzGo (x : Nat) : Nat → Nat → Nat
  | 0, i => i
  | f + 1, i => if x.testBit i then i else ctzGo x f (i + 1)
def ctz64 (x : Nat) : Nat := ctzGo x 64 0

/-- the byte of row bits `lo .. lo+7` of a pair list: `window[row] |= 1 << col` for its entries of that row -/
def byteOfPairs (pairs : List Nat) (r : Nat) : Nat :=
  pairs.foldl (fun b rc => if rc / 64 = r then b ||| 2^(rc % 64) else b) 0

/-- `promote_sparse_to_windowed` -/
def promote (s : Sketch) : Sketch :=
  let low := s.table.filter (fun rc => rc % 64 < 8)
  { s with window := (List.range (2^s.lgK)).map (byteOfPairs low),
           table := s.table.filter (fun rc => 8 ≤ rc % 64) }

/-- `refresh_kxp`: per-byte-lane sums (rows in order), combined from lane 7 down to lane 0 -/
def refreshKxp (T : HipTables) (matrix : List Nat) : Float :=
  let sums : List Float := (List.range 8).map (fun j =>
    matrix.foldl (fun acc w => acc + T.kxpByte ((w >>> (8 * j)) % 256)) 0.0)
  (List.range 8).reverse.foldl (fun tot j => tot + T.invPow2 (8 * j) * sums.getD j 0.0) 0.0

/-- the word of surprises of a matrix row for window offset `off`: zeros before the window and ones after it -/
def surprises (off : Nat) (m : Nat) : Nat :=
  (m &&& ((0xff <<< off) ^^^ (2^64 - 1))) ^^^ (2^off - 1)

/-- window bytes, surprising values and first interesting column of a bit matrix for offset `off`
(shared by `move_window` and `cpc_union::get_result_from_bit_matrix`) -/
def windowOfMatrix (k off : Nat) (matrix : Array Nat) : List Nat :=
  (List.range k).map (fun i => (matrix.getD i 0 >>> off) % 256)
def tableOfMatrix (k off : Nat) (matrix : Array Nat) : List Nat :=
  (List.range (64 * k)).filter (fun rc => (surprises off (matrix.getD (rc / 64) 0)).testBit (rc % 64))
def ficOfMatrix (k off : Nat) (matrix : Array Nat) : Nat :=
  min (ctz64 ((List.range k).foldl (fun a i => a ||| surprises off (matrix.getD i 0)) 0)) off

/-- `move_window` -/
def moveWindow (T : HipTables) (s : Sketch) : Sketch :=
  let newOff := s.offset + 1
  if newOff > 56 then s else
  let ml := buildBitMatrix s
  let matrix := ml.toArray
  let k := 2^s.lgK
  { s with kxp := if newOff % 8 = 0 then refreshKxp T ml else s.kxp,
           window := windowOfMatrix k newOff matrix,
           table := tableOfMatrix k newOff matrix,
           offset := newOff,
           fic := ficOfMatrix k newOff matrix }

/-- `update_sparse` -/
def updateSparse (T : HipTables) (s : Sketch) (rc : Nat) : Sketch :=
  if rc ∈ s.table then s else
  let s := updateHip T { s with table := insertS rc s.table, numCoupons := s.numCoupons + 1 } rc
  if 32 * s.numCoupons ≥ 3 * 2^s.lgK then promote s else s

/-- the tail of `update_windowed` after a novel coupon -/
def afterNovelWindowed (T : HipTables) (s : Sketch) (rc : Nat) : Sketch :=
  let s := updateHip T { s with numCoupons := s.numCoupons + 1 } rc
  if 8 * s.numCoupons ≥ (27 + 8 * s.offset) * 2^s.lgK then moveWindow T s else s

/-- `update_windowed` -/
def updateWindowed (T : HipTables) (s : Sketch) (rc : Nat) : Sketch :=
  let col := rc % 64
  if col < s.offset then
    -- a surprising 0 before the window becomes an unsurprising 1 (inverted logic: maybe_delete)
    if rc ∈ s.table then afterNovelWindowed T { s with table := s.table.erase rc } rc else s
  else if col < s.offset + 8 then
    let row := rc / 64
    let old := s.window.getD row 0
    let new := old ||| 2^(col - s.offset)
    if new = old then s else afterNovelWindowed T { s with window := s.window.set row new } rc
  else
    if rc ∈ s.table then s else afterNovelWindowed T { s with table := insertS rc s.table } rc

/-- `row_col_update` -/
def rowColUpdate (T : HipTables) (s : Sketch) (rc : Nat) : Sketch :=
  if rc % 64 < s.fic then s
  else if s.window.isEmpty then updateSparse T s rc
  else updateWindowed T s rc

/-- a stream of row_col codes into a fresh sketch -/
def run (T : HipTables) (lgK : Nat) (rcs : List Nat) : Sketch := rcs.foldl (rowColUpdate T) (fresh lgK)

/-- abstract content of the representation: is bit (r, c) of the coupon matrix set? -/
def Sketch.bit (s : Sketch) (r c : Nat) : Bool :=
  if s.window.isEmpty then decide (r * 64 + c ∈ s.table)
  else if c < s.offset then !decide (r * 64 + c ∈ s.table)
  else if c < s.offset + 8 then (s.window.getD r 0).testBit (c - s.offset)
  else decide (r * 64 + c ∈ s.table)

/-- distinct elements (last occurrences kept) -/
def distinct : List Nat → List Nat
  | [] => []
  | x :: t => if x ∈ t then distinct t else x :: distinct t

end DS.Cpc

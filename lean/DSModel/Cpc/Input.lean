/- Input level of the CPC sketch: `update(x)` = MurmurHash3 of the canonical bytes -> row_col -> `row_col_update`.
   Core Lean only. -/
import DSModel.Canon
import DSModel.Cpc.Sketch
namespace DS.Cpc

/-- the row_col code of an input (none: the update is ignored, e.g. empty string) -/
def rowColOfInput (lgK : Nat) (seed : UInt64) (i : Input) : Option Nat :=
  (fun (h : UInt64 × UInt64) => rowCol h.1 h.2 lgK) <$> hashInput i seed

/-- `update(x)` -/
def updateInput (T : HipTables) (seed : UInt64) (s : Sketch) (i : Input) : Sketch :=
  match rowColOfInput s.lgK seed i with
  | some rc => rowColUpdate T s rc
  | none => s

/-- a stream of inputs into a fresh sketch -/
def runInputs (T : HipTables) (lgK : Nat) (seed : UInt64) (inputs : List Input) : Sketch :=
  inputs.foldl (updateInput T seed) (fresh lgK)

end DS.Cpc

/- Line-protocol driver for the cpc family (C05). Core Lean only. -/
import DSModel.Cpc.Input
import DSModel.Cpc.Estimator
import DSModel.Cpc.Union
import DSModel.Cpc.Wire
namespace DS.Cpc

structure Tabs where
  hip : HipTables
  est : EstTables
  minLgK : Nat
  maxLgK : Nat
  comp : CompTables
  wire : WireConsts

inductive Obj where
  | sk (seed : UInt64) (s : Sketch)
  | un (seed : UInt64) (u : Union)

abbrev Objs := Array (Option Obj)

def Objs.set' (o : Objs) (i : Nat) (v : Obj) : Objs :=
  let o := if i < o.size then o else o ++ Array.replicate (i + 1 - o.size) none
  o.set! i (some v)

def Objs.get' (o : Objs) (i : Nat) : Option Obj := (o[i]?).join

/-- `validate()` as observed.  Building the 2^lg_k-row matrix is infeasible for large lg_k; there the model reports the
value of `validate` by counting the (duplicate-free) table of a window-less sketch, and its proven value `true`
(Props/C05.lean `cpc_matrix_exact`, Lemmas `validate_of_inv`) for windowed ones. -/
def validateObs (s : Sketch) : Bool :=
  if s.lgK ≤ 14 then validate s
  else if s.window.isEmpty then s.table.length == s.numCoupons
  else true

/-- observation of a sketch: lg_k, C, validate(), is_empty, estimate and the three pairs of bounds -/
def observe (T : Tabs) (s : Sketch) : String :=
  let b := (List.range 3).map (fun i => s!"{hexF (lowerBound T.est s (i+1))} {hexF (upperBound T.est s (i+1))}")
  s!"S {s.lgK} {s.numCoupons} {boolStr (validateObs s)} {boolStr (s.numCoupons == 0)} {hexF (estimate T.est s)} {joinSp b}"

def listNatHex (b : List Nat) : String :=
  if b.isEmpty then "-" else b.foldl (fun s x => s ++ hexN 2 x) ""

def serializeSketch (T : Tabs) (seed : UInt64) (s : Sketch) : List Nat :=
  serializeCore T.wire T.comp (seedHash seed).toNat s ⟨s.kxp.toBits.toNat, s.hip.toBits.toNat⟩

def stepLine (T : Tabs) (o : Objs) (w : List String) : Objs × String :=
  match w with
  | ["new", id, lgk, seed] =>
    match id.toNat?, lgk.toNat?, seed.toNat? with
    | some id, some lgk, some seed =>
      if lgk < T.minLgK || lgk > T.maxLgK then (o, "throw") else
      let s := fresh lgk
      (o.set' id (.sk (UInt64.ofNat seed) s), observe T s)
    | _, _, _ => (o, "bad-op")
  | ["upd", id, ty, lit] =>
    match id.toNat?, parseInput ty lit with
    | some id, some inp =>
      match o.get' id with
      | some (.sk seed s) =>
        let s' := updateInput T.hip seed s inp
        (o.set' id (.sk seed s'), observe T s')
      | _ => (o, "bad-op")
    | _, _ => (o, "bad-op")
  | ["updr", id, start, n] =>
    match id.toNat?, start.toNat?, n.toNat? with
    | some id, some start, some n =>
      match o.get' id with
      | some (.sk seed s) =>
        let s' := (List.range n).foldl (fun s i => updateInput T.hip seed s (.u64 (start + i))) s
        (o.set' id (.sk seed s'), observe T s')
      | _ => (o, "bad-op")
    | _, _, _ => (o, "bad-op")
  | ["unew", id, lgk, seed] =>
    match id.toNat?, lgk.toNat?, seed.toNat? with
    | some id, some lgk, some seed =>
      if lgk < T.minLgK || lgk > T.maxLgK then (o, "throw") else
      let u := unionNew lgk
      (o.set' id (.un (UInt64.ofNat seed) u), observe T (getResult u))
    | _, _, _ => (o, "bad-op")
  | "uupd" :: uid :: sid :: _ =>
    match uid.toNat? >>= o.get', sid.toNat? >>= o.get' with
    | some (.un useed u), some (.sk sseed s) =>
      if seedHash useed != seedHash sseed then (o, "throw") else
      let u' := unionUpdate T.hip u s
      (o.set' uid.toNat?.get! (.un useed u'), observe T (getResult u'))
    | _, _ => (o, "bad-op")
  | ["ures", uid, nid] =>
    match uid.toNat? >>= o.get', nid.toNat? with
    | some (.un useed u), some nid =>
      let r := getResult u
      (o.set' nid (.sk useed r), observe T r)
    | _, _ => (o, "bad-op")
  | ["ser", id] =>
    match id.toNat? >>= o.get' with
    | some (.sk seed s) => (o, "B " ++ listNatHex (serializeSketch T seed s))
    | _ => (o, "bad-op")
  | ["rt", id, nid] =>
    -- serialize, deserialize into a new sketch, serialize that again
    match id.toNat? >>= o.get', nid.toNat? with
    | some (.sk seed s), some nid =>
      let img := serializeSketch T seed s
      match deserializeCore T.wire T.comp (seedHash seed).toNat img (fun b => Float.ofBits (UInt64.ofNat b)) with
      | some (s', _) =>
        let img' := serializeSketch T seed s'
        (o.set' nid (.sk seed s'), observe T s' ++ " " ++ boolStr (img' == img) ++ " " ++ toString img.length)
      | none => (o, "throw")
    | _, _ => (o, "bad-op")
  | ["decode", hex, seed] =>
    -- oracle support: decode an image (of the implementation) with the model's decoder and list its coupons
    match parseHexBytes hex, seed.toNat? with
    | some b, some seed =>
      match deserializeCore T.wire T.comp (seedHash (UInt64.ofNat seed)).toNat (b.toList.map (·.toNat)) (fun b => Float.ofBits (UInt64.ofNat b)) with
      | some (s, hb) =>
        let cells := if s.lgK > 14 && s.window.isEmpty then s.table else
          let m := (buildBitMatrix s).toArray
          (List.range (64 * 2^s.lgK)).filter (fun rc => (m.getD (rc / 64) 0).testBit (rc % 64))
        (o, s!"D {s.lgK} {s.numCoupons} {s.offset} {s.fic} {boolStr s.merged} {hexN 16 hb.kxp} {hexN 16 hb.hip} {joinSp (cells.map toString)}")
      | none => (o, "D undecodable")
    | _, _ => (o, "bad-op")
  | ["copy", id, nid] =>
    match id.toNat? >>= o.get', nid.toNat? with
    | some (.sk seed s), some nid => (o.set' nid (.sk seed s), observe T s)
    | some (.un seed u), some nid => (o.set' nid (.un seed u), observe T (getResult u))
    | _, _ => (o, "bad-op")
  | _ => (o, "bad-op")

/-- hash tie: the two Murmur words and the row_col code of an input -/
def hashStep (w : List String) : String :=
  match w with
  | ["hash", ty, lit, seed, lgk] =>
    match parseInput ty lit, seed.toNat?, lgk.toNat? with
    | some i, some s, some lgk => match hashInput i (UInt64.ofNat s) with
      | some (h1, h2) => s!"H {hex64 h1} {hex64 h2} {rowCol h1 h2 lgk}"
      | none => "H ignored"
    | _, _, _ => "bad-op"
  | ["mm", b, seed] =>
    match parseHexBytes b, seed.toNat? with
    | some b, some s => let (h1, h2) := murmur3 b (UInt64.ofNat s); s!"M {hex64 h1} {hex64 h2}"
    | _, _ => "bad-op"
  | _ => "bad-op"

end DS.Cpc

/-
XXHash64 — hand transcription of Yann Collet's published XXH64 algorithm (one-shot form), as used by
/repo/common/include/xxhash64.h (`XXHash64::hash(input, length, seed)`).
The five primes are parameters (`XXH.Primes`): the driver takes them from the CURRENT header via
DSGen/Bloom.lean; `XXH.refPrimes` are the published values (used for the known-answer examples in
DSProofs/Props/C15.lean).
Trusted: this file *is* our definition of "the published XXH64"; the code's hashing is tied to it by
the hash-correspondence part of `./check C15` (all lengths 0..64, all tail residues, random seeds).
Core Lean only; UInt64 wrap-around arithmetic.
-/
namespace DS.XXH

structure Primes where
  p1 : UInt64
  p2 : UInt64
  p3 : UInt64
  p4 : UInt64
  p5 : UInt64

def refPrimes : Primes :=
  { p1 := 11400714785074694791, p2 := 14029467366897019727, p3 := 1609587929392839161,
    p4 := 9650029242287828579, p5 := 2870177450012600261 }

def rotl (x : UInt64) (r : UInt64) : UInt64 := (x <<< r) ||| (x >>> (64 - r))

/-- `processSingle(previous, input)` -/
def round (P : Primes) (acc input : UInt64) : UInt64 := rotl (acc + input * P.p2) 31 * P.p1

def mergeRound (P : Primes) (acc v : UInt64) : UInt64 := (acc ^^^ round P 0 v) * P.p1 + P.p4

/-- little-endian word of `n ≤ 8` bytes at `off` -/
def leBytes (b : ByteArray) (off : Nat) : Nat → UInt64
  | 0 => 0
  | n + 1 => (b.get! off).toUInt64 ||| (leBytes b (off + 1) n <<< 8)

def le64 (b : ByteArray) (off : Nat) : UInt64 := leBytes b off 8
def le32 (b : ByteArray) (off : Nat) : UInt64 := leBytes b off 4

/-- the 32-byte stripes: `nblk` blocks starting at byte `off` -/
def stripes (P : Primes) (b : ByteArray) : Nat → Nat → (UInt64 × UInt64 × UInt64 × UInt64) → (UInt64 × UInt64 × UInt64 × UInt64)
  | 0, _, s => s
  | nblk + 1, off, (s0, s1, s2, s3) =>
    stripes P b nblk (off + 32)
      (round P s0 (le64 b off), round P s1 (le64 b (off + 8)), round P s2 (le64 b (off + 16)), round P s3 (le64 b (off + 24)))

/-- remaining 8-byte words -/
def tail8 (P : Primes) (b : ByteArray) : Nat → Nat → UInt64 → UInt64
  | 0, _, r => r
  | n + 1, off, r => tail8 P b n (off + 8) (rotl (r ^^^ round P 0 (le64 b off)) 27 * P.p1 + P.p4)

/-- remaining single bytes -/
def tail1 (P : Primes) (b : ByteArray) : Nat → Nat → UInt64 → UInt64
  | 0, _, r => r
  | n + 1, off, r => tail1 P b n (off + 1) (rotl (r ^^^ ((b.get! off).toUInt64 * P.p5)) 11 * P.p1)

def avalanche (P : Primes) (r : UInt64) : UInt64 :=
  let r := r ^^^ (r >>> 33)
  let r := r * P.p2
  let r := r ^^^ (r >>> 29)
  let r := r * P.p3
  r ^^^ (r >>> 32)

def hash (P : Primes) (b : ByteArray) (seed : UInt64) : UInt64 :=
  let len := b.size
  let nblk := len / 32
  let r0 : UInt64 :=
    if len ≥ 32 then
      let (s0, s1, s2, s3) := stripes P b nblk 0 (seed + P.p1 + P.p2, seed + P.p2, seed, seed - P.p1)
      let r := rotl s0 1 + rotl s1 7 + rotl s2 12 + rotl s3 18
      mergeRound P (mergeRound P (mergeRound P (mergeRound P r s0) s1) s2) s3
    else seed + P.p5
  let r1 := r0 + UInt64.ofNat len
  let off := nblk * 32
  let rem := len - off
  let n8 := rem / 8
  let r2 := tail8 P b n8 off r1
  let off := off + 8 * n8
  let rem := rem - 8 * n8
  let (r3, off, rem) :=
    if rem ≥ 4 then (rotl (r2 ^^^ (le32 b off * P.p1)) 23 * P.p2 + P.p3, off + 4, rem - 4) else (r2, off, rem)
  avalanche P (tail1 P b rem off r3)

end DS.XXH

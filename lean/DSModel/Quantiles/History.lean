/-
Histories over several live classic quantiles sketches: objects are named by small integers; an operation is
`new / upd / merge / copy / sortq` (sortq = any query that builds the sorted view and thereby sorts the base
buffer in place).  `runHist` is the choice tree of a whole history; the model driver executes exactly `stepOp`.

Also here: the coin-independent companions of a history used by the theorems --
  * `truthHist`: per object the list of accepted items (own updates + merged-in ones),
  * `knHist` / `arHist`: per object `(k, n)` and the sequence of arities of all random choices consumed,
    computed from shapes alone (this is the content of `flips_shape_only`).

Self-merge (`a.merge(a)`) is not modelled (in the code `merge` iterates `other.base_buffer_` while `update`
pushes to it); `stepOp` treats it as a no-op and the generators never issue it.
Core Lean only.
-/
import DSModel.Quantiles.Query
namespace DS.Quantiles

variable {α : Type}

abbrev Store (α : Type) := List (Nat × Sketch α)

def Store.get? (st : Store α) (id : Nat) : Option (Sketch α) := List.lookup id st
def Store.put (st : Store α) (id : Nat) (s : Sketch α) : Store α := (id, s) :: st.filter (fun p => p.1 != id)

inductive Op (α : Type) where
  | new (id k : Nat)
  | upd (id : Nat) (x : α)
  | merge (dst src : Nat)
  | copy (src dst : Nat)
  | sortq (id : Nat)

/-- `quantiles_constants::MIN_K / MAX_K` (from the headers via DSGen) -/
structure Limits where
  minK : Nat
  maxK : Nat

def stepOp (c : Cmp α) (lim : Limits) (st : Store α) : Op α → Tree (Store α)
  | .new id k => .done (if checkK lim.minK lim.maxK k then st.put id (Sketch.new k) else st)
  | .upd id x =>
    match st.get? id with
    | some s => (s.update c x).map (fun s' => st.put id s')
    | none => .done st
  | .merge d s =>
    if d = s then .done st else
    match st.get? d, st.get? s with
    | some a, some b => (a.merge c b).map (fun a' => st.put d a')
    | _, _ => .done st
  | .copy s d =>
    match st.get? s with
    | some a => .done (st.put d a)
    | none => .done st
  | .sortq id =>
    match st.get? id with
    | some a => .done (st.put id (a.sortBB c))
    | none => .done st

def runFrom (c : Cmp α) (lim : Limits) (t : Tree (Store α)) (ops : List (Op α)) : Tree (Store α) :=
  ops.foldl (fun t op => t.bind (fun st => stepOp c lim st op)) t

/-- the choice tree of a whole history, from the empty store -/
def runHist (c : Cmp α) (lim : Limits) (ops : List (Op α)) : Tree (Store α) := runFrom c lim (.done []) ops

/-! ### coin-independent companions -/

/-- assoc-list helpers on plain values -/
def aget {β : Type} (m : List (Nat × β)) (id : Nat) : Option β := List.lookup id m
def aput {β : Type} (m : List (Nat × β)) (id : Nat) (b : β) : List (Nat × β) := (id, b) :: m.filter (fun p => p.1 != id)

/-- per object: the accepted items, in order of arrival (merged-in items after the own ones) -/
def stepTruth (c : Cmp α) (lim : Limits) (m : List (Nat × List α)) : Op α → List (Nat × List α)
  | .new id k => if checkK lim.minK lim.maxK k then aput m id [] else m
  | .upd id x =>
    match aget m id with
    | some l => if c.nan x then m else aput m id (l ++ [x])
    | none => m
  | .merge d s =>
    if d = s then m else
    match aget m d, aget m s with
    | some a, some b => aput m d (a ++ b)
    | _, _ => m
  | .copy s d =>
    match aget m s with
    | some a => aput m d a
    | none => m
  | .sortq _ => m

def truthHist (c : Cmp α) (lim : Limits) (ops : List (Op α)) : List (Nat × List α) :=
  ops.foldl (stepTruth c lim) []

/-- coins of the ripple of `in_place_propagate_carry` over `len` remaining levels with shifted pattern `bits` -/
def rippleAr : Nat → Nat → List Nat
  | 0, _ => []
  | m + 1, bits => if bits % 2 = 1 then 2 :: rippleAr m (bits / 2) else []

/-- one accepted `update` of a sketch with parameters `(k, n)` -/
def updateAr (k n : Nat) : List Nat :=
  if (n + 1) % (2 * k) = 0 then 2 :: rippleAr (bitLen ((n + 1) / (2 * k))) (n / (2 * k)) else []

/-- `m` accepted updates in a row -/
def updatesAr (k n : Nat) : Nat → List Nat
  | 0 => []
  | m + 1 => updateAr k n ++ updatesAr k (n + 1) m

/-- the loop over `srcLen` source levels with pattern `pat` (current level `lvl`) into a target with `tlen`
levels and bit pattern `tbits` -/
def levelsAr (factor lg : Nat) : Nat → Nat → Nat → Nat → Nat → List Nat
  | 0, _, _, _, _ => []
  | m + 1, pat, lvl, tlen, tbits =>
    if pat % 2 = 1 then
      (if factor = 1 then [] else [factor]) ++ rippleAr (tlen - (lvl + lg)) (tbits / 2 ^ (lvl + lg)) ++
        levelsAr factor lg m (pat / 2) (lvl + 1) tlen (tbits + 2 ^ (lvl + lg))
    else levelsAr factor lg m (pat / 2) (lvl + 1) tlen tbits

/-- `standard_merge` (`factor = 1`) / `downsampling_merge` of a source `(sk, sn)` into a target `(tk, tn)` -/
def levelMergeAr (factor tk tn sk sn : Nat) : List Nat :=
  if sn = 0 then [] else
  updatesAr tk tn (sn % (2 * sk)) ++
    levelsAr factor (ctz factor) (bitLen (sn / (2 * sk))) (sn / (2 * sk)) 0
      (bitLen ((sn + tn) / (2 * tk))) ((tn + sn % (2 * sk)) / (2 * tk))

/-- `merge`: target `(tk, tn)`, source `(sk, sn)` -/
def mergeAr (tk tn sk sn : Nat) : List Nat :=
  if sn = 0 then []
  else if sn / (2 * sk) = 0 then updatesAr tk tn sn
  else if tn / (2 * tk) ≠ 0 then
    if tk = sk then levelMergeAr 1 tk tn sk sn
    else if tk > sk then levelMergeAr (tk / sk) sk sn tk tn
    else levelMergeAr (sk / tk) tk tn sk sn
  else if tk ≤ sk then updatesAr sk sn tn
  else levelMergeAr (tk / sk) sk sn tk tn

/-- `k` of the result of `merge` -/
def mergeK (tk tn sk sn : Nat) : Nat :=
  if sn = 0 then tk
  else if sn / (2 * sk) = 0 then tk
  else if tn / (2 * tk) ≠ 0 then (if tk > sk then sk else tk)
  else sk

/-- per object `(k, n)`, and the arities consumed by the operation -/
def stepKN (c : Cmp α) (lim : Limits) (m : List (Nat × (Nat × Nat))) : Op α → List (Nat × (Nat × Nat)) × List Nat
  | .new id k => (if checkK lim.minK lim.maxK k then aput m id (k, 0) else m, [])
  | .upd id x =>
    match aget m id with
    | some (k, n) => if c.nan x then (m, []) else (aput m id (k, n + 1), updateAr k n)
    | none => (m, [])
  | .merge d s =>
    if d = s then (m, []) else
    match aget m d, aget m s with
    | some (tk, tn), some (sk, sn) => (aput m d (mergeK tk tn sk sn, tn + sn), mergeAr tk tn sk sn)
    | _, _ => (m, [])
  | .copy s d =>
    match aget m s with
    | some a => (aput m d a, [])
    | none => (m, [])
  | .sortq _ => (m, [])

def knHist (c : Cmp α) (lim : Limits) (ops : List (Op α)) : List (Nat × (Nat × Nat)) × List Nat :=
  ops.foldl (fun acc op => let r := stepKN c lim acc.1 op; (r.1, acc.2 ++ r.2)) ([], [])

/-- the arities of all random choices of a history, in order of consumption -/
def arHist (c : Cmp α) (lim : Limits) (ops : List (Op α)) : List Nat := (knHist c lim ops).2

end DS.Quantiles

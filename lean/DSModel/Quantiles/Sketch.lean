/-
L1 model of the classic `quantiles_sketch<T, C, A>` (quantiles/include/quantiles_sketch_impl.hpp).

Items are of an arbitrary type with a Boolean comparator `lt` (the code's `comparator_`) and a predicate `nan`
(`std::isnan` for floating point items, constantly false otherwise: `check_update_item`, `check_split_points`).
State as in the code: `k_`, `n_`, `bit_pattern_`, `base_buffer_` (in storage order), `levels_` (index = level,
an invalid level is an empty vector), `min_item_`, `max_item_`, `is_base_buffer_sorted_`.

Random choices (`random_bit()` in `zip_buffer`, the uniform offset in `zip_buffer_with_stride`) are explicit:
every operation returns a choice `Tree` (DSModel/Quantiles/Tree.lean).

Not modelled: vector capacities (the `logic_error` self-checks on `capacity()` in `zip_buffer`,
`merge_two_size_k_buffers` and the `n / 2k != bit_pattern` checks cannot fire on states satisfying the invariant
proved in DSProofs/Lemmas/QuantilesInv.lean; if they fired the harness would print `throw` and the
correspondence check would report it), integer widths (`uint16_t k`, `uint64_t n`, `uint8_t` level numbers),
allocators, serialization, the type-converting constructor.
Core Lean only.
-/
import DSModel.Quantiles.Tree
namespace DS.Quantiles

variable {α : Type}

/-- comparator + NaN test of the item type -/
structure Cmp (α : Type) where
  lt : α → α → Bool
  nan : α → Bool

structure Sketch (α : Type) where
  k : Nat
  n : Nat := 0
  bits : Nat := 0                      -- bit_pattern_
  bb : List α := []                    -- base_buffer_
  levels : List (List α) := []         -- levels_
  minItem : Option α := none
  maxItem : Option α := none
  bbSorted : Bool := true              -- is_base_buffer_sorted_

/-- `check_k`: `k < MIN_K || k > MAX_K || (k & (k - 1)) != 0` throws -/
def checkK (minK maxK k : Nat) : Bool :=
  decide (minK ≤ k) && decide (k ≤ maxK) && (k &&& (k - 1)) == 0

def Sketch.new (k : Nat) : Sketch α := { k := k }

def Sketch.isEmpty (s : Sketch α) : Bool := s.n == 0
def Sketch.isEstimationMode (s : Sketch α) : Bool := s.bits != 0

/-- `64 - count_leading_zeros_in_u64(x)` -/
def bitLen (x : Nat) : Nat := if x = 0 then 0 else bitLen (x / 2) + 1
decreasing_by omega

/-- `count_trailing_zeros_in_u32(x)` for `x > 0` (used on the power-of-two down-sampling factor) -/
def ctz (x : Nat) : Nat := if x = 0 then 0 else if x % 2 = 1 then 0 else ctz (x / 2) + 1
decreasing_by omega

/-- `count_valid_levels`: population count -/
def popcount (x : Nat) : Nat := if x = 0 then 0 else x % 2 + popcount (x / 2)
decreasing_by omega

/-- `compute_retained_items(k, n)` = `get_num_retained()` -/
def computeRetained (k n : Nat) : Nat := n % (2 * k) + k * popcount (n / (2 * k))

def Sketch.numRetained (s : Sketch α) : Nat := computeRetained s.k s.n

/-- the elements at positions `o, o+s, o+2s, …` (first argument after `s` = elements still to skip) -/
def strided (s : Nat) : Nat → List α → List α
  | _, [] => []
  | 0, x :: t => x :: strided s (s - 1) t
  | c + 1, _ :: t => strided s c t

/-- `std::sort(begin, end, comparator_)` (any sort yields this sequence up to the order of equivalent items) -/
def sortBuf (lt : α → α → Bool) (l : List α) : List α := l.mergeSort (fun a b => !lt b a)

/-- `merge_two_size_k_buffers(src_1, src_2, dst)`: take from `src_1` iff `comparator(*it1, *it2)` -/
def merge2 (lt : α → α → Bool) (src1 src2 : List α) : List α := List.merge src2 src1 (fun a b => !lt b a)

/-- the loop of `in_place_propagate_carry` from the first level of `lv` on (`bits` = bit pattern shifted to that
level, `cur` = the size-k buffer being carried): while the level is valid, merge it with the carried buffer, clear
it, zip the 2k merged items with a fresh coin; the first invalid level receives the carried buffer. -/
def ripple (lt : α → α → Bool) : List (List α) → Nat → List α → Tree (List (List α))
  | [], _, cur => .done [cur]
  | l :: rest, bits, cur =>
    if bits % 2 = 1 then
      .choose 2 (fun c => (ripple lt rest (bits / 2) (strided 2 c (merge2 lt l cur))).map (fun r => [] :: r))
    else .done ((l ++ cur) :: rest)

/-- walk to `starting_level`, then ripple (levels beyond the vector would be out-of-bounds accesses in the code;
the model pads, the invariant shows it never happens) -/
def carryFrom (lt : α → α → Bool) : Nat → List (List α) → Nat → List α → Tree (List (List α))
  | 0, lv, bits, cur => ripple lt lv bits cur
  | s + 1, [], bits, cur => (carryFrom lt s [] (bits / 2) cur).map (fun r => [] :: r)
  | s + 1, l :: rest, bits, cur => (carryFrom lt s rest (bits / 2) cur).map (fun r => l :: r)

/-- `in_place_propagate_carry(starting_level, buf_size_k, buf_size_2k, apply_as_update, sketch)` -/
def propagateCarry (lt : α → α → Bool) (start : Nat) (bufK buf2k : List α) (asUpdate : Bool) (s : Sketch α) :
    Tree (Sketch α) :=
  if asUpdate then
    .choose 2 (fun c => (carryFrom lt start s.levels s.bits (strided 2 c buf2k)).map
      (fun lv => { s with levels := lv, bits := s.bits + 2 ^ start }))
  else
    (carryFrom lt start s.levels s.bits bufK).map (fun lv => { s with levels := lv, bits := s.bits + 2 ^ start })

/-- `grow_levels_if_needed` -/
def growLevelsIfNeeded (s : Sketch α) : Sketch α :=
  let need := bitLen (s.n / (2 * s.k))
  if need = 0 then s else if need ≤ s.levels.length then s else { s with levels := s.levels ++ [[]] }

/-- `process_full_base_buffer` -/
def processFullBaseBuffer (c : Cmp α) (s : Sketch α) : Tree (Sketch α) :=
  let s1 := growLevelsIfNeeded s
  (propagateCarry c.lt 0 [] (sortBuf c.lt s1.bb) true s1).map (fun s2 => { s2 with bb := [], bbSorted := true })

/-- `update(item)` -/
def Sketch.update (c : Cmp α) (s : Sketch α) (x : α) : Tree (Sketch α) :=
  if c.nan x then .done s else
  let mn := if s.n = 0 then some x else s.minItem.map (fun m => if c.lt x m then x else m)
  let mx := if s.n = 0 then some x else s.maxItem.map (fun m => if c.lt m x then x else m)
  let s1 : Sketch α := { s with minItem := mn, maxItem := mx, bb := s.bb ++ [x], n := s.n + 1,
                                bbSorted := if s.bb.length + 1 > 1 then false else s.bbSorted }
  if s1.bb.length = 2 * s1.k then processFullBaseBuffer c s1 else .done s1

/-- `for (item : items) sk.update(item)` -/
def Sketch.updateAll (c : Cmp α) : Sketch α → List α → Tree (Sketch α)
  | s, [] => .done s
  | s, x :: t => (s.update c x).bind (fun s' => Sketch.updateAll c s' t)

/-- `while (tgt.levels_.size() < levels_needed) push_back(empty level)` -/
def extendLevels (lv : List (List α)) (need : Nat) : List (List α) := lv ++ List.replicate (need - lv.length) []

/-- the loop over the valid levels of `src` in `standard_merge` (`factor = 1`, `lg = 0`) and `downsampling_merge` -/
def mergeLevels (lt : α → α → Bool) (factor lg : Nat) : List (List α) → Nat → Nat → Sketch α → Tree (Sketch α)
  | [], _, _, t => .done t
  | l :: rest, pat, lvl, t =>
    if pat % 2 = 1 then
      (if factor = 1 then propagateCarry lt lvl l [] false t
       else .choose factor (fun o => propagateCarry lt (lvl + lg) (strided factor o l) [] false t)).bind
        (fun t' => mergeLevels lt factor lg rest (pat / 2) (lvl + 1) t')
    else mergeLevels lt factor lg rest (pat / 2) (lvl + 1) t

/-- the min/max tail of `standard_merge` / `downsampling_merge` -/
def mergeMin (lt : α → α → Bool) (tgt src : Option α) : Option α :=
  match tgt, src with
  | none, s => s
  | some t, some s => if lt s t then some s else some t
  | some t, none => some t

def mergeMax (lt : α → α → Bool) (tgt src : Option α) : Option α :=
  match tgt, src with
  | none, s => s
  | some t, some s => if lt t s then some s else some t
  | some t, none => some t

/-- common body of `standard_merge(tgt, src)` (`factor = 1`) and `downsampling_merge(tgt, src)`
(`factor = src.k / tgt.k`, `lg = count_trailing_zeros(factor)`) -/
def levelMerge (c : Cmp α) (factor : Nat) (tgt src : Sketch α) : Tree (Sketch α) :=
  if src.n = 0 then .done tgt else
  let newN := src.n + tgt.n
  (tgt.updateAll c src.bb).bind (fun t1 =>
    let t2 : Sketch α := { t1 with levels := extendLevels t1.levels (bitLen (newN / (2 * t1.k))) }
    (mergeLevels c.lt factor (ctz factor) src.levels src.bits 0 t2).map (fun t3 =>
      { t3 with n := newN, minItem := mergeMin c.lt t3.minItem src.minItem,
                maxItem := mergeMax c.lt t3.maxItem src.maxItem }))

def standardMerge (c : Cmp α) (tgt src : Sketch α) : Tree (Sketch α) := levelMerge c 1 tgt src

def downsamplingMerge (c : Cmp α) (tgt src : Sketch α) : Tree (Sketch α) := levelMerge c (src.k / tgt.k) tgt src

/-- `merge(other)` (lvalue and rvalue overloads are logically the same; `this` = `tgt`) -/
def Sketch.merge (c : Cmp α) (tgt src : Sketch α) : Tree (Sketch α) :=
  if src.n = 0 then .done tgt
  else if src.bits = 0 then tgt.updateAll c src.bb           -- other is exact: stream in regardless of k
  else if tgt.bits ≠ 0 then
    if tgt.k = src.k then standardMerge c tgt src
    else if tgt.k > src.k then downsamplingMerge c src tgt   -- result replaces *this
    else downsamplingMerge c tgt src
  else                                                       -- this is exact or empty
    if tgt.k ≤ src.k then src.updateAll c tgt.bb
    else downsamplingMerge c src tgt

end DS.Quantiles

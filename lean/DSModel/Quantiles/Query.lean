/-
Read side of the classic quantiles sketch: `const_iterator` exactly as coded, `get_sorted_view` (through the shared
DSModel/SortedView.lean), `get_rank / get_quantile / get_CDF / get_PMF`, `get_normalized_rank_error`.

Queries return the sketch as well: `get_sorted_view` sorts the base buffer in place (`const_cast`) and sets
`is_base_buffer_sorted_`, which is observable through the iterator afterwards.
Core Lean only.
-/
import DSModel.Quantiles.Sketch
import DSModel.SortedView
namespace DS.Quantiles

variable {α : Type}

/-! ### const_iterator -/

/-- `level = none` is the code's `level_ == -1` (base buffer) -/
structure Iter where
  level : Option Nat
  index : Nat
  bits : Nat
  weight : Nat

/-- constructor loop `while ((bit_pattern_ & 1) == 0) { weight_ *= 2; ++level_; bit_pattern_ >>= 1; }`
(entered only with `bit_pattern_ > 0`; the model stops at 0 where the code would spin) -/
def skipZeros (lvl w bits : Nat) : Nat × Nat × Nat :=
  if bits = 0 then (lvl, w, bits)
  else if bits % 2 = 0 then skipZeros (lvl + 1) (2 * w) (bits / 2) else (lvl, w, bits)
decreasing_by omega

/-- `begin()`: `const_iterator(base_buffer_, levels_, k_, n_, false)` -/
def iterBegin (s : Sketch α) : Iter :=
  let bbCount := s.n % (2 * s.k)
  let bp := s.n / (2 * s.k)
  if bbCount = 0 ∧ bp > 0 then
    let r := skipZeros 0 2 bp
    { level := some r.1, index := 0, bits := r.2.2, weight := r.2.1 }
  else { level := none, index := 0, bits := bp, weight := 1 }

/-- `it == end()`: `end()` has `level_ = -1, index_ = n` in exact mode and `level_ = levels_.size(), index_ = 0`
otherwise; `operator==` compares `level_` and `index_` only -/
def iterIsEnd (s : Sketch α) (it : Iter) : Bool :=
  if s.n / (2 * s.k) = 0 then it.level == none && it.index == s.n
  else it.level == some s.levels.length && it.index == 0

/-- one pass of the `do … while` in `operator++` for a new level number `lvl > 0`:
`bit_pattern_ >>= 1; if (bit_pattern_ == 0) return; weight_ *= 2;` repeat while the low bit is clear -/
def advFrom (lvl bits w : Nat) : Nat × Nat × Nat :=
  if bits / 2 = 0 then (lvl, bits / 2, w)
  else if (bits / 2) % 2 = 1 then (lvl, bits / 2, 2 * w) else advFrom (lvl + 1) (bits / 2) (2 * w)
decreasing_by omega

/-- `operator++` -/
def iterNext (s : Sketch α) (it : Iter) : Iter :=
  let idx := it.index + 1
  match it.level with
  | none =>
    if idx = s.bb.length ∧ s.levels.length > 0 then
      -- first pass of the do-while: level_ becomes 0, no shift
      if it.bits = 0 then { level := some 0, index := 0, bits := it.bits, weight := it.weight }
      else if it.bits % 2 = 1 then { level := some 0, index := 0, bits := it.bits, weight := 2 * it.weight }
      else
        let r := advFrom 1 it.bits (2 * it.weight)
        { level := some r.1, index := 0, bits := r.2.1, weight := r.2.2 }
    else { it with index := idx }
  | some l =>
    if idx = s.k then
      let r := advFrom (l + 1) it.bits it.weight
      { level := some r.1, index := 0, bits := r.2.1, weight := r.2.2 }
    else { it with index := idx }

/-- `operator*`: `level_ == -1 ? base_buffer_[index_] : levels_[level_][index_]` (none = out of range = UB in the code) -/
def iterDeref (s : Sketch α) (it : Iter) : Option α :=
  match it.level with
  | none => s.bb[it.index]?
  | some l => match s.levels[l]? with
    | none => none
    | some lv => lv[it.index]?

/-- `for (auto it = begin(); it != end(); ++it) out.push_back(*it)` with a step budget -/
def iterCollect (s : Sketch α) : Nat → Iter → List (α × Nat)
  | 0, _ => []
  | f + 1, it =>
    if iterIsEnd s it then [] else
    match iterDeref s it with
    | none => []
    | some x => (x, it.weight) :: iterCollect s f (iterNext s it)

/-- the full iterator output (item, weight) in iteration order -/
def Sketch.iterate (s : Sketch α) : List (α × Nat) := iterCollect s (s.n + 1) (iterBegin s)

/-! ### sorted view -/

/-- the side effect of `get_sorted_view`: sort the base buffer unless flagged sorted -/
def Sketch.sortBB (c : Cmp α) (s : Sketch α) : Sketch α :=
  if s.bbSorted then s else { s with bb := sortBuf c.lt s.bb, bbSorted := true }

/-- `for (level : levels_) { weight <<= 1; if (level.empty()) continue; view.add(level, weight); }` -/
def addLevels (lt : α → α → Bool) : List (α × Nat) → List (List α) → Nat → List (α × Nat)
  | v, [], _ => v
  | v, l :: rest, w => addLevels lt (if l.isEmpty then v else SortedView.add lt v l w) rest (2 * w)

/-- entries before `convert_to_cummulative` (base buffer must already be sorted) -/
def Sketch.rawView (c : Cmp α) (s : Sketch α) : List (α × Nat) :=
  addLevels c.lt (SortedView.add c.lt [] s.bb 1) s.levels 2

/-- `get_sorted_view()` -/
def Sketch.view (c : Cmp α) (s : Sketch α) : SortedView.View α := SortedView.build ((s.sortBB c).rawView c)

/-! ### queries -/

inductive QOut (β : Type) where
  | rejected            -- the code throws
  | ub                  -- the code answers through undefined behaviour (NaN rank cast to uint64_t)
  | ok (b : β)

/-- the only facts about a `double rank` the control flow of `get_quantile` looks at -/
inductive RankClass where
  | nan | neg | big | ok
deriving DecidableEq, Repr

def RankClass.ofFloat (r : Float) : RankClass :=
  if r.isNaN then .nan else if r < 0.0 then .neg else if r > 1.0 then .big else .ok

/-- as coded: `if ((rank < 0.0) || (rank > 1.0)) throw` -- false for NaN -/
def rankRejected : RankClass → Bool
  | .neg => true
  | .big => true
  | _ => false

/-- `get_rank(item, inclusive)`: numerator and denominator (the code returns their quotient as a double) -/
def Sketch.getRankNum (c : Cmp α) (s : Sketch α) (x : α) (incl : Bool) : Sketch α × QOut (Nat × Nat) :=
  if s.n = 0 then (s, .rejected) else
  let s' := s.sortBB c
  let v := SortedView.build (s'.rawView c)
  (s', .ok (SortedView.rankNum c.lt v x incl, v.total))

/-- `get_quantile(rank, inclusive)`; `wOf total` is the weight threshold the code computes from `rank` in doubles -/
def Sketch.getQuantileCore (c : Cmp α) (s : Sketch α) (cls : RankClass) (wOf : Nat → Nat) (incl : Bool) :
    Sketch α × QOut α :=
  if s.n = 0 then (s, .rejected)
  else if rankRejected cls then (s, .rejected)
  else
    let s' := s.sortBB c
    if cls = .nan then (s', .ub) else
    let v := SortedView.build (s'.rawView c)
    match SortedView.quantileAt v (wOf v.total) incl with
    | some x => (s', .ok x)
    | none => (s', .rejected)

def Sketch.getQuantile (c : Cmp α) (s : Sketch α) (r : Float) (incl : Bool) : Sketch α × QOut α :=
  s.getQuantileCore c (RankClass.ofFloat r) (fun t => SortedView.quantileWeight t r incl) incl

/-- `check_split_points`: true = accepted -/
def checkSplitPoints (c : Cmp α) : List α → Bool
  | [] => true
  | [x] => !c.nan x
  | x :: y :: t => !c.nan x && c.lt x y && checkSplitPoints c (y :: t)

/-- `get_CDF(split_points, size, inclusive)` as (numerator, denominator) pairs; the trailing 1 is added by the caller -/
def Sketch.getCDFNum (c : Cmp α) (s : Sketch α) (sp : List α) (incl : Bool) : Sketch α × QOut (List Nat × Nat) :=
  if s.n = 0 then (s, .rejected) else
  let s' := s.sortBB c
  if !checkSplitPoints c sp then (s', .rejected) else
  let v := SortedView.build (s'.rawView c)
  (s', .ok (sp.map (fun x => SortedView.rankNum c.lt v x incl), v.total))

def ratio (num den : Nat) : Float := (UInt64.ofNat num).toFloat / (UInt64.ofNat den).toFloat

def Sketch.getCDF (c : Cmp α) (s : Sketch α) (sp : List α) (incl : Bool) : Sketch α × QOut (List Float) :=
  match s.getCDFNum c sp incl with
  | (s', .ok (nums, den)) => (s', .ok (nums.map (fun m => if m = 0 then 0.0 else ratio m den) ++ [1.0]))
  | (s', .rejected) => (s', .rejected)
  | (s', .ub) => (s', .ub)

/-- `for (i = size; i > 0; --i) buckets[i] -= buckets[i - 1]` -/
def pmfOfCdf : List Float → List Float
  | [] => []
  | a :: t =>
    let rec go : Float → List Float → List Float
      | _, [] => []
      | prev, b :: r => (b - prev) :: go b r
    a :: go a t

def Sketch.getPMF (c : Cmp α) (s : Sketch α) (sp : List α) (incl : Bool) : Sketch α × QOut (List Float) :=
  match s.getCDF c sp incl with
  | (s', .ok l) => (s', .ok (pmfOfCdf l))
  | r => r

/-- `get_normalized_rank_error(k, is_pmf)` with the literals read from the header by the translator -/
def normalizedRankError (num pw : Float) (k : Nat) : Float := num / Float.pow k.toFloat pw

end DS.Quantiles

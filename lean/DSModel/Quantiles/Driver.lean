/-
Line-protocol driver for the classic quantiles sketch (C07 / C08 parts "quantiles").  Core Lean only.

  T i64|f64|str                   item type of this history (first line); str = std::string with a length-first comparator
  rand v1 v2 …                    append recorded random choices to the source (bit = v mod 2, below(n) = v mod n)
  new id k | upd id lit | merge dst src l|r | copy src dst
  view id                         get_sorted_view (sorts the base buffer in place)
  rank id lit incl | quant id rankhex incl | cdf id incl lit… | pmf id incl lit… | err id pmf
                                  (answers carry the is_estimation_mode flag: `R est hex`, `Q est item`, `C est hex…`)
  tree id ; op ; op ; …           every choice vector of the short history `op ; op …` (from an empty store):
                                  sorted list of leaves `a<arities>:<total>:<item>*<cum>,…` of object `id`
-/
import DSModel.Util
import DSModel.Quantiles.History
namespace DS.Quantiles

open DS

structure ItemIO (α : Type) where
  cmp : Cmp α
  parse : String → Option α
  render : α → String

def intIO : ItemIO Int :=
  { cmp := { lt := fun a b => decide (a < b), nan := fun _ => false },
    parse := fun s => s.toInt?,
    render := fun x => toString x }

/-- doubles as 16 hex digits of their bits; -0.0 is printed as +0.0 (the two are equivalent for `<`) -/
def floatIO : ItemIO Float :=
  { cmp := { lt := fun a b => a < b, nan := fun x => x.isNaN },
    parse := fun s => (parseHex s).map (fun n => Float.ofBits (UInt64.ofNat n)),
    render := fun x => if x == 0.0 then hexF 0.0 else hexF x }

/-- `std::string` items with the harness' custom comparator `LengthFirst` (shorter first, then lexicographic) -/
def strIO : ItemIO String :=
  { cmp := { lt := fun a b => a.length < b.length || (a.length == b.length && decide (a < b)), nan := fun _ => false },
    parse := fun s => some s,
    render := fun x => x }

structure Tunables where
  lim : Limits
  errPmfNum : Float
  errPmfPow : Float
  errCdfNum : Float
  errCdfPow : Float

structure DState (α : Type) where
  st : Store α := []
  src : Tree.Src := { q := [] }

variable {α : Type}

def optStr (io : ItemIO α) : Option α → String
  | none => "-"
  | some x => io.render x

def observe (io : ItemIO α) (d : DState α) (s : Sketch α) : String :=
  let it := s.iterate
  let items := joinSp (it.map (fun p => s!"{io.render p.1}:{p.2}"))
  s!"O {s.k} {s.n} {optStr io s.minItem} {optStr io s.maxItem} {s.numRetained} {boolStr s.isEstimationMode} {d.src.log.length} I {items}"

def viewStr (io : ItemIO α) (v : SortedView.View α) : String :=
  ",".intercalate (v.ents.map (fun e => s!"{io.render e.1}*{e.2}"))

def parseBool (s : String) : Option Bool := if s == "1" then some true else if s == "0" then some false else none

def parseItems (io : ItemIO α) : List String → Option (List α)
  | [] => some []
  | w :: t => match io.parse w, parseItems io t with
    | some x, some r => some (x :: r)
    | _, _ => none

/-- one mutating op of the line protocol -/
def parseOp (io : ItemIO α) (w : List String) : Option (Op α) :=
  match w with
  | ["new", id, k] => match id.toNat?, k.toNat? with
    | some id, some k => some (.new id k)
    | _, _ => none
  | ["upd", id, lit] => match id.toNat?, io.parse lit with
    | some id, some x => some (.upd id x)
    | _, _ => none
  | ["merge", d, s, _] => match d.toNat?, s.toNat? with
    | some d, some s => some (.merge d s)
    | _, _ => none
  | ["copy", s, d] => match s.toNat?, d.toNat? with
    | some s, some d => some (.copy s d)
    | _, _ => none
  | ["view", id] => id.toNat?.map (fun id => .sortq id)
  | _ => none

def opTarget : Op α → Nat
  | .new id _ => id
  | .upd id _ => id
  | .merge d _ => d
  | .copy _ d => d
  | .sortq id => id

/-- does the op refer only to live objects / a valid k (else the harness prints `throw` / `bad-op`) -/
def opStatus (lim : Limits) (st : Store α) : Op α → String
  | .new _ k => if checkK lim.minK lim.maxK k then "ok" else "throw"
  | .upd id _ => if (st.get? id).isSome then "ok" else "bad-op"
  | .merge d s => if d != s && (st.get? d).isSome && (st.get? s).isSome then "ok" else "bad-op"
  | .copy s _ => if (st.get? s).isSome then "ok" else "bad-op"
  | .sortq id => if (st.get? id).isSome then "ok" else "bad-op"

def splitOn (sep : String) : List String → List (List String)
  | [] => [[]]
  | w :: t =>
    match splitOn sep t with
    | [] => [[w]]
    | g :: gs => if w == sep then [] :: g :: gs else (w :: g) :: gs

def parseOps (io : ItemIO α) : List (List String) → Option (List (Op α))
  | [] => some []
  | g :: t => match parseOp io g, parseOps io t with
    | some o, some r => some (o :: r)
    | _, _ => none

def leafStr (io : ItemIO α) (id : Nat) (leaf : List Nat × Store α) : String :=
  let ar := ".".intercalate (leaf.1.map toString)
  match leaf.2.get? id with
  | none => s!"a{ar}:missing"
  | some s =>
    let v := s.view io.cmp
    s!"a{ar}:{v.total}:{viewStr io v}"

def hexFloats (l : List Float) : String := joinSp (l.map hexF)

def stepLine (io : ItemIO α) (t : Tunables) (d : DState α) (w : List String) : DState α × String :=
  match w with
  | "rand" :: vs =>
    let d' := { d with src := { d.src with q := d.src.q ++ vs.filterMap String.toNat? } }
    (d', s!"RND {d'.src.q.length}")
  | ["view", id] =>
    match id.toNat? with
    | some id => match d.st.get? id with
      | some s =>
        let s' := s.sortBB io.cmp
        let v := SortedView.build (s'.rawView io.cmp)
        ({ d with st := d.st.put id s' }, s!"V {v.total} {v.ents.length} {viewStr io v}")
      | none => (d, "bad-op")
    | none => (d, "bad-op")
  | ["rank", id, lit, incl] =>
    match id.toNat?, io.parse lit, parseBool incl with
    | some id, some x, some incl => match d.st.get? id with
      | some s => match s.getRankNum io.cmp x incl with
        | (s', .ok (num, den)) => ({ d with st := d.st.put id s' }, s!"R {boolStr s.isEstimationMode} {hexF (if num = 0 then 0.0 else ratio num den)}")
        | (s', _) => ({ d with st := d.st.put id s' }, "throw")
      | none => (d, "bad-op")
    | _, _, _ => (d, "bad-op")
  | ["quant", id, r, incl] =>
    match id.toNat?, parseHex r, parseBool incl with
    | some id, some r, some incl => match d.st.get? id with
      | some s => match s.getQuantile io.cmp (Float.ofBits (UInt64.ofNat r)) incl with
        | (s', .ok x) => ({ d with st := d.st.put id s' }, s!"Q {boolStr s.isEstimationMode} {io.render x}")
        | (s', .ub) => ({ d with st := d.st.put id s' }, s!"Q {boolStr s.isEstimationMode} ub")
        | (s', .rejected) => ({ d with st := d.st.put id s' }, "throw")
      | none => (d, "bad-op")
    | _, _, _ => (d, "bad-op")
  | "cdf" :: id :: incl :: lits =>
    match id.toNat?, parseBool incl, parseItems io lits with
    | some id, some incl, some sp => match d.st.get? id with
      | some s => match s.getCDF io.cmp sp incl with
        | (s', .ok l) => ({ d with st := d.st.put id s' }, s!"C {boolStr s.isEstimationMode} {hexFloats l}")
        | (s', _) => ({ d with st := d.st.put id s' }, "throw")
      | none => (d, "bad-op")
    | _, _, _ => (d, "bad-op")
  | "pmf" :: id :: incl :: lits =>
    match id.toNat?, parseBool incl, parseItems io lits with
    | some id, some incl, some sp => match d.st.get? id with
      | some s => match s.getPMF io.cmp sp incl with
        | (s', .ok l) => ({ d with st := d.st.put id s' }, s!"P {boolStr s.isEstimationMode} {hexFloats l}")
        | (s', _) => ({ d with st := d.st.put id s' }, "throw")
      | none => (d, "bad-op")
    | _, _, _ => (d, "bad-op")
  | ["err", id, pmf] =>
    match id.toNat?, parseBool pmf with
    | some id, some pmf => match d.st.get? id with
      | some s =>
        let e := if pmf then normalizedRankError t.errPmfNum t.errPmfPow s.k else normalizedRankError t.errCdfNum t.errCdfPow s.k
        (d, s!"E {hexF e}")
      | none => (d, "bad-op")
    | _, _ => (d, "bad-op")
  | "tree" :: id :: ";" :: rest =>
    match id.toNat?, parseOps io (splitOn ";" rest) with
    | some id, some ops =>
      let leaves := (runHist io.cmp t.lim ops).leaves
      let strs := (leaves.map (leafStr io id)).mergeSort (fun a b => decide (a ≤ b))
      (d, s!"L {leaves.length} {joinSp strs}")
    | _, _ => (d, "bad-op")
  | _ =>
    match parseOp io w with
    | none => (d, "bad-op")
    | some op =>
      match opStatus t.lim d.st op with
      | "ok" =>
        let r := (stepOp io.cmp t.lim d.st op).run d.src
        let d' : DState α := { st := r.1, src := r.2 }
        match d'.st.get? (opTarget op) with
        | some s => (d', observe io d' s)
        | none => (d', "bad-op")
      | other => (d, other)

inductive Top where
  | unset
  | int (d : DState Int)
  | flt (d : DState Float)
  | str (d : DState String)

def topStep (t : Tunables) (top : Top) (w : List String) : Top × String :=
  match top, w with
  | _, ["T", "i64"] => (.int {}, "T ok")
  | _, ["T", "f64"] => (.flt {}, "T ok")
  | _, ["T", "str"] => (.str {}, "T ok")
  | .unset, _ => (.unset, "bad-op")
  | .int d, w => let r := stepLine intIO t d w; (.int r.1, r.2)
  | .flt d, w => let r := stepLine floatIO t d w; (.flt r.1, r.2)
  | .str d, w => let r := stepLine strIO t d w; (.str r.1, r.2)

end DS.Quantiles

/-
Choice trees: the explicit form of "the coin / uniform-draw sequence is an argument of the model".

Every random choice of the classic quantiles sketch (`random_bit()` in `zip_buffer`, the uniform offset in
`zip_buffer_with_stride`) is a node `choose ar k` with `ar` alternatives; an operation of the sketch is a
`Tree` whose leaves are the possible results.  A tree can be
  * run along ONE path given by a recorded stream of choices (`Tree.run`, what the harness does with the
    installed `verif_random_source`),
  * enumerated completely (`Tree.leaves`, what the harness does by re-execution over all choice vectors),
  * summed (`Tree.sum`) -- used by the C08 theorems.
Core Lean only.
-/
namespace DS.Quantiles

inductive Tree (β : Type) where
  | done (b : β)
  | choose (ar : Nat) (k : Nat → Tree β)

namespace Tree
variable {β γ : Type}

def bind : Tree β → (β → Tree γ) → Tree γ
  | .done b, f => f b
  | .choose ar k, f => .choose ar (fun c => (k c).bind f)

def map (f : β → γ) (t : Tree β) : Tree γ := t.bind (fun b => .done (f b))

/-- the stream of recorded choices handed to both sides, and the log of arities consumed (most recent first) -/
structure Src where
  q : List Nat
  log : List Nat := []

/-- next choice in `[0, ar)`: head of the queue reduced mod `ar` (0 when the queue is exhausted) -/
def Src.next (s : Src) (ar : Nat) : Nat × Src :=
  match s.q with
  | [] => (0, { q := [], log := ar :: s.log })
  | v :: t => (v % ar, { q := t, log := ar :: s.log })

/-- follow the path selected by the stream -/
def run : Tree β → Src → β × Src
  | .done b, s => (b, s)
  | .choose ar k, s => (k (s.next ar).1).run (s.next ar).2

/-- `sumRange n f = f 0 + … + f (n-1)` -/
def sumRange : Nat → (Nat → Nat) → Nat
  | 0, _ => 0
  | n + 1, f => sumRange n f + f n

/-- Σ over all leaves of `W leaf` -/
def sum (W : β → Nat) : Tree β → Nat
  | .done b => W b
  | .choose ar k => sumRange ar (fun c => (k c).sum W)

/-- number of leaves -/
def leafCount (t : Tree β) : Nat := t.sum (fun _ => 1)

/-- all leaves with the arities on their path (complete enumeration; driver only) -/
def leaves : Tree β → List (List Nat × β)
  | .done b => [([], b)]
  | .choose ar k => (List.range ar).flatMap (fun c => ((k c).leaves).map (fun pb => (ar :: pb.1, pb.2)))

/-- every leaf satisfies `P` (and every node offers at least one alternative) -/
def All (P : β → Prop) : Tree β → Prop
  | .done b => P b
  | .choose ar k => 0 < ar ∧ ∀ c, c < ar → (k c).All P

/-- every path consumes exactly the arity sequence `ar` (all arities positive) -/
def Uniform : List Nat → Tree β → Prop
  | [], .done _ => True
  | a :: ar, .choose a' k => a = a' ∧ 0 < a ∧ ∀ c, c < a → (k c).Uniform ar
  | _, _ => False

end Tree
end DS.Quantiles

/-
MurmurHash3_x64_128 — hand transcription of the public-domain reference algorithm
(as in /repo/common/include/MurmurHash3.h, seed widened to 64 bits).
Trusted: this file *is* our definition of "the published MurmurHash3"; the code's
hashing is tied to it by the hash-correspondence check (harness `hash`).
Core Lean only.
-/
namespace DS

def rotl64 (x : UInt64) (r : UInt64) : UInt64 := (x <<< r) ||| (x >>> (64 - r))

def fmix64 (k : UInt64) : UInt64 :=
  let k := k ^^^ (k >>> 33)
  let k := k * 0xff51afd7ed558ccd
  let k := k ^^^ (k >>> 33)
  let k := k * 0xc4ceb9fe1a85ec53
  k ^^^ (k >>> 33)

/-- little-endian 64-bit word of up to `n ≤ 8` bytes starting at `off` (missing bytes = 0) -/
def leWord (b : ByteArray) (off n : Nat) : UInt64 := Id.run do
  let mut r : UInt64 := 0
  for i in [0:n] do
    r := r ||| ((b.get! (off + i)).toUInt64 <<< (8 * i).toUInt64)
  return r

def mmC1 : UInt64 := 0x87c37b91114253d5
def mmC2 : UInt64 := 0x4cf5ad432745937f

def mixK1 (k1 : UInt64) : UInt64 := (rotl64 (k1 * mmC1) 31) * mmC2
def mixK2 (k2 : UInt64) : UInt64 := (rotl64 (k2 * mmC2) 33) * mmC1

def murmur3 (b : ByteArray) (seed : UInt64) : UInt64 × UInt64 := Id.run do
  let len := b.size
  let nblocks := len / 16
  let mut h1 := seed
  let mut h2 := seed
  for i in [0:nblocks] do
    let k1 := leWord b (16*i) 8
    let k2 := leWord b (16*i+8) 8
    h1 := h1 ^^^ mixK1 k1
    h1 := rotl64 h1 27
    h1 := h1 + h2
    h1 := h1 * 5 + 0x52dce729
    h2 := h2 ^^^ mixK2 k2
    h2 := rotl64 h2 31
    h2 := h2 + h1
    h2 := h2 * 5 + 0x38495ab5
  let t := len % 16
  let off := nblocks * 16
  if t > 8 then
    h2 := h2 ^^^ mixK2 (leWord b (off+8) (t-8))
  if t > 0 then
    h1 := h1 ^^^ mixK1 (leWord b off (min t 8))
  h1 := h1 ^^^ len.toUInt64
  h2 := h2 ^^^ len.toUInt64
  h1 := h1 + h2
  h2 := h2 + h1
  h1 := fmix64 h1
  h2 := fmix64 h2
  h1 := h1 + h2
  h2 := h2 + h1
  return (h1, h2)

def le64 (x : UInt64) : ByteArray := Id.run do
  let mut b := ByteArray.empty
  for i in [0:8] do
    b := b.push (x >>> (8*i).toUInt64).toUInt8
  return b

/-- `compute_seed_hash` -/
def seedHash (seed : UInt64) : UInt64 := (murmur3 (le64 seed) 0).1 &&& 0xffff

def DEFAULT_SEED : UInt64 := 9001

end DS

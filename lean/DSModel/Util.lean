/- Small helpers shared by the line-protocol drivers. Core Lean only. -/
namespace DS

def hexDigit (n : Nat) : Char :=
  if n < 10 then Char.ofNat (48 + n) else Char.ofNat (87 + n)

def hexN (digits : Nat) (x : Nat) : String := Id.run do
  let mut s := ""
  for i in [0:digits] do
    s := s.push (hexDigit ((x >>> (4 * (digits - 1 - i))) % 16))
  return s

def hex64 (x : UInt64) : String := hexN 16 x.toNat
def hexF (x : Float) : String := hexN 16 x.toBits.toNat
def hexF32 (x : Float32) : String := hexN 8 x.toBits.toNat

def hexVal (c : Char) : Option Nat :=
  if '0' ≤ c ∧ c ≤ '9' then some (c.toNat - 48)
  else if 'a' ≤ c ∧ c ≤ 'f' then some (c.toNat - 87)
  else if 'A' ≤ c ∧ c ≤ 'F' then some (c.toNat - 55)
  else none

def parseHex (s : String) : Option Nat :=
  s.foldl (fun acc c => match acc, hexVal c with
    | some a, some d => some (a * 16 + d)
    | _, _ => none) (some 0)

/-- hex string -> bytes ("-" = empty) -/
def parseHexBytes (s : String) : Option ByteArray :=
  if s == "-" then some ByteArray.empty else
  let cs := s.toList
  if cs.length % 2 != 0 then none else
  let rec go : List Char → ByteArray → Option ByteArray
    | a :: b :: t, acc => match hexVal a, hexVal b with
        | some x, some y => go t (acc.push (UInt8.ofNat (x * 16 + y)))
        | _, _ => none
    | [], acc => some acc
    | _, _ => none
  go cs ByteArray.empty

def bytesHex (b : ByteArray) : String :=
  if b.size == 0 then "-" else b.foldl (fun s x => s ++ hexN 2 x.toNat) ""

def listBytesHex (b : List UInt8) : String :=
  if b.isEmpty then "-" else b.foldl (fun s x => s ++ hexN 2 x.toNat) ""

def parseInt (s : String) : Option Int := s.toInt?
def parseNat (s : String) : Option Nat := s.toNat?

def boolStr (b : Bool) : String := if b then "1" else "0"

def joinSp (l : List String) : String := " ".intercalate l

/-- insertion sort for Nat lists (small sizes) -/
def insertNat (x : Nat) : List Nat → List Nat
  | [] => [x]
  | y :: t => if x ≤ y then x :: y :: t else y :: insertNat x t
def sortNat (l : List Nat) : List Nat := l.foldr insertNat []

/-- 64-bit fold used to summarise long lists in observations -/
def fold64 (l : List Nat) : UInt64 :=
  l.foldl (fun (a : UInt64) x => (a * (0x9E3779B97F4A7C15 : UInt64)) ^^^ (UInt64.ofNat x) ^^^ (a >>> (29 : UInt64))) (0x1234567 : UInt64)

end DS

/-
Model of `quantiles_sorted_view` (common/include/quantiles_sorted_view_impl.hpp), shared by KLL, REQ
and the classic quantiles sketch.  Items are of an arbitrary type with a strict-weak-order given as a
Boolean comparator `lt`.  Weights are `Nat`.  Core Lean only.
-/
namespace DS.SortedView

variable {α : Type}

/-- `std::merge` with `compare_pairs_by_first`: stable, takes from the second run only when strictly smaller -/
def merge (lt : α → α → Bool) : List (α × Nat) → List (α × Nat) → List (α × Nat)
  | [], r => r
  | a :: l, [] => a :: l
  | a :: l, b :: r =>
    if lt b.1 a.1 then b :: merge lt (a :: l) r else a :: merge lt l (b :: r)
termination_by l r => l.length + r.length

/-- `add(first, last, weight)`: the run `items` (already sorted by the caller) is merged into the view -/
def add (lt : α → α → Bool) (view : List (α × Nat)) (items : List α) (w : Nat) : List (α × Nat) :=
  if view.isEmpty then items.map (fun x => (x, w)) else merge lt view (items.map (fun x => (x, w)))

/-- running sums: `convert_to_cummulative` -/
def cumulate : Nat → List (α × Nat) → List (α × Nat)
  | _, [] => []
  | acc, (x, w) :: t => (x, acc + w) :: cumulate (acc + w) t

def total (view : List (α × Nat)) : Nat := view.foldl (fun a e => a + e.2) 0

/-- a built view: entries with cumulative weights + total weight -/
structure View (α : Type) where
  ents : List (α × Nat)      -- (item, cumulative weight), ascending
  total : Nat

def build (raw : List (α × Nat)) : View α := { ents := cumulate 0 raw, total := total raw }

/-- numerator of `get_rank`: cumulative weight of the last entry that is `≤ item` (inclusive) / `< item` (exclusive) -/
def rankNum (lt : α → α → Bool) (v : View α) (item : α) (inclusive : Bool) : Nat :=
  let rec go : List (α × Nat) → Nat → Nat
    | [], acc => acc
    | (x, c) :: t, acc =>
      -- inclusive: upper_bound = first entry with item < x ; exclusive: lower_bound = first entry with ¬ (x < item)
      if (if inclusive then lt item x else !(lt x item)) then acc else go t c
  go v.ents 0

def getRank (lt : α → α → Bool) (v : View α) (item : α) (inclusive : Bool) : Float :=
  (UInt64.ofNat (rankNum lt v item inclusive)).toFloat / (UInt64.ofNat v.total).toFloat

/-- index-free `get_quantile` for an already computed integer weight threshold -/
def quantileAt (v : View α) (weight : Nat) (inclusive : Bool) : Option α :=
  let rec go : List (α × Nat) → Option α → Option α
    | [], last => last
    | (x, c) :: t, _ =>
      -- inclusive: lower_bound by cumulative weight (first c with ¬ c < weight); exclusive: upper_bound (first c with weight < c)
      if (if inclusive then !(c < weight) else weight < c) then some x else go t (some x)
  go v.ents none

/-- the weight threshold as the code computes it in double arithmetic -/
def quantileWeight (total : Nat) (rank : Float) (inclusive : Bool) : Nat :=
  let t := (UInt64.ofNat total).toFloat
  (if inclusive then Float.ceil (rank * t) else rank * t).toUInt64.toNat

def getQuantile (v : View α) (rank : Float) (inclusive : Bool) : Option α :=
  quantileAt v (quantileWeight v.total rank inclusive) inclusive

end DS.SortedView

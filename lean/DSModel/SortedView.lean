/-
Model of `quantiles_sorted_view` (common/include/quantiles_sorted_view_impl.hpp), shared by KLL, REQ
and the classic quantiles sketch.  Items are of an arbitrary type with a strict-weak-order given as a
Boolean comparator `lt`.  Weights are `Nat`.  Core Lean only.
-/
namespace DS.SortedView

variable {α : Type}

/-- `lt` is a strict weak order (C++ named requirement *Compare*) -/
structure StrictWeak (lt : α → α → Bool) : Prop where
  asymm : ∀ a b, lt a b = true → lt b a = false
  negTrans : ∀ a b c, lt a b = false → lt b c = false → lt a c = false

/-- non-decreasing w.r.t. `lt` -/
def Sorted (lt : α → α → Bool) (l : List α) : Prop := l.Pairwise (fun a b => lt b a = false)

/-- `std::merge` with `compare_pairs_by_first` and explicit fuel (structural recursion: evaluates in the kernel) -/
def mergeF (lt : α → α → Bool) : Nat → List (α × Nat) → List (α × Nat) → List (α × Nat)
  | _, [], r => r
  | _, a :: l, [] => a :: l
  | 0, a :: l, b :: r => a :: l ++ b :: r      -- unreachable with fuel = l.length + r.length
  | f + 1, a :: l, b :: r =>
    if lt b.1 a.1 then b :: mergeF lt f (a :: l) r else a :: mergeF lt f l (b :: r)

/-- `std::merge` with `compare_pairs_by_first`: stable, takes from the second run only when strictly smaller -/
def merge (lt : α → α → Bool) (l r : List (α × Nat)) : List (α × Nat) := mergeF lt (l.length + r.length) l r

/-- `add(first, last, weight)`: the run `items` (already sorted by the caller) is merged into the view -/
def add (lt : α → α → Bool) (view : List (α × Nat)) (items : List α) (w : Nat) : List (α × Nat) :=
  if view.isEmpty then items.map (fun x => (x, w)) else merge lt view (items.map (fun x => (x, w)))

/-- running sums: `convert_to_cummulative` -/
def cumulate : Nat → List (α × Nat) → List (α × Nat)
  | _, [] => []
  | acc, (x, w) :: t => (x, acc + w) :: cumulate (acc + w) t

def total (view : List (α × Nat)) : Nat := view.foldl (fun a e => a + e.2) 0

/-- a built view: entries with cumulative weights + total weight -/
structure View (α : Type) where
  ents : List (α × Nat)      -- (item, cumulative weight), ascending
  total : Nat

def build (raw : List (α × Nat)) : View α := { ents := cumulate 0 raw, total := total raw }

/-- scan of `get_rank`: `acc` = cumulative weight of the entry just before the bound.
inclusive: `upper_bound` = first entry with `item < x`; exclusive: `lower_bound` = first entry with `¬ (x < item)`
(the linear scan is the specification of the binary searches on a sorted view, `view_sorted`) -/
def rankGo (lt : α → α → Bool) (item : α) (inclusive : Bool) : List (α × Nat) → Nat → Nat
  | [], acc => acc
  | (x, c) :: t, acc =>
    if (if inclusive then lt item x else !(lt x item)) then acc else rankGo lt item inclusive t c

/-- numerator of `get_rank`: cumulative weight of the last entry that is `≤ item` (inclusive) / `< item` (exclusive) -/
def rankNum (lt : α → α → Bool) (v : View α) (item : α) (inclusive : Bool) : Nat :=
  rankGo lt item inclusive v.ents 0

def getRank (lt : α → α → Bool) (v : View α) (item : α) (inclusive : Bool) : Float :=
  (UInt64.ofNat (rankNum lt v item inclusive)).toFloat / (UInt64.ofNat v.total).toFloat

/-- scan of `get_quantile` by cumulative weight.
inclusive: `lower_bound` (first `c` with `¬ c < weight`); exclusive: `upper_bound` (first `c` with `weight < c`);
past the end: the last entry -/
def quantGo (weight : Nat) (inclusive : Bool) : List (α × Nat) → Option α → Option α
  | [], last => last
  | (x, c) :: t, _ =>
    if (if inclusive then !(c < weight) else weight < c) then some x else quantGo weight inclusive t (some x)

/-- index-free `get_quantile` for an already computed integer weight threshold -/
def quantileAt (v : View α) (weight : Nat) (inclusive : Bool) : Option α :=
  quantGo weight inclusive v.ents none

/-- the weight threshold as the code computes it in double arithmetic.
`static_cast<uint64_t>` of a NaN (a NaN rank passes the callers' `rank < 0 || rank > 1` test) is undefined
behaviour in C++; g++ on x86-64 yields 2^63, which is what is modelled (finding `nan-rank-answered`). -/
def quantileWeight (total : Nat) (rank : Float) (inclusive : Bool) : Nat :=
  let t := (UInt64.ofNat total).toFloat
  if (rank * t).isNaN then 2 ^ 63 else
  (if inclusive then Float.ceil (rank * t) else rank * t).toUInt64.toNat

def getQuantile (v : View α) (rank : Float) (inclusive : Bool) : Option α :=
  quantileAt v (quantileWeight v.total rank inclusive) inclusive

/-- `check_split_points`: no NaN (floating point items; `isNaN` is constant false otherwise) and strictly increasing -/
def checkSplitPoints (lt : α → α → Bool) (isNaN : α → Bool) : List α → Bool
  | [] => true
  | [a] => !isNaN a
  | a :: b :: t => !isNaN a && lt a b && checkSplitPoints lt isNaN (b :: t)

/-- the arithmetic used for normalized ranks: executed with `Float` (as the code does), theorems with `Rat` -/
structure RankOps (β : Type) where
  ratio : Nat → Nat → β      -- static_cast<double>(a) / b
  one : β
  sub : β → β → β

def floatOps : RankOps Float :=
  { ratio := fun a b => (UInt64.ofNat a).toFloat / (UInt64.ofNat b).toFloat, one := 1.0, sub := fun a b => a - b }

def ratOps : RankOps Rat :=
  { ratio := fun a b => (a : Rat) / (b : Rat), one := 1, sub := fun a b => a - b }

/-- `get_rank` over an arbitrary `RankOps`; 0 when the bound is `begin()` (`rankNum = 0`) -/
def getRankG {β : Type} (ops : RankOps β) (lt : α → α → Bool) (v : View α) (item : α) (inclusive : Bool) : β :=
  ops.ratio (rankNum lt v item inclusive) v.total

/-- `get_CDF` after `check_split_points`: the ranks of the split points, then 1 -/
def getCDF {β : Type} (ops : RankOps β) (lt : α → α → Bool) (v : View α) (sps : List α) (inclusive : Bool) : List β :=
  sps.map (fun x => getRankG ops lt v x inclusive) ++ [ops.one]

/-- successive differences `x_i - x_{i-1}` -/
def diffs {β : Type} (ops : RankOps β) : β → List β → List β
  | _, [] => []
  | p, x :: t => ops.sub x p :: diffs ops x t

/-- `get_PMF`: `buckets[i] -= buckets[i - 1]` from the top down -/
def getPMF {β : Type} (ops : RankOps β) (lt : α → α → Bool) (v : View α) (sps : List α) (inclusive : Bool) : List β :=
  match getCDF ops lt v sps inclusive with
  | [] => []
  | c :: t => c :: diffs ops c t

end DS.SortedView

/- VarOpt H region: the binary min-heap on weights exactly as coded in var_opt_sketch_impl.hpp
   (`swap_values`, `restore_towards_leaves`, `restore_towards_root`, `convert_to_heap`, `push`,
   `pop_min_to_m_region`), so that the array order of H (which the iterator exposes) matches the code.
   Core Lean only; loops are structural recursions on a fuel argument (fuel = array length is always enough,
   proved in DSProofs/Lemmas/VarOptHeap.lean). -/
import DSModel.Num
namespace DS.VarOpt
open DS

/-- one array slot: `data_[i]`, `weights_[i]`, `marks_[i]` -/
structure Entry (α : Type) where
  item : Int
  wt : α
  mark : Bool

variable {α : Type} [Num α]

/-- `weights_[i]` (0 outside the list; never read there) -/
def wtAt (l : List (Entry α)) (i : Nat) : α :=
  match l[i]? with
  | some e => e.wt
  | none => Num.zero

/-- `swap_values(i, j)` -/
def swap (l : List (Entry α)) (i j : Nat) : List (Entry α) :=
  match l[i]?, l[j]? with
  | some a, some b => (l.set i b).set j a
  | _, _ => l

/-- `restore_towards_leaves(slot)` on an H region of `l.length` entries -/
def siftDown : Nat → List (Entry α) → Nat → List (Entry α)
  | 0, l, _ => l
  | fuel + 1, l, slot =>
    let child := 2 * slot + 1
    if child < l.length then
      let child2 := child + 1
      -- switch to the other child if it is both valid and smaller
      let c := if child2 < l.length && Num.lt (wtAt l child2) (wtAt l child) then child2 else child
      if Num.le (wtAt l slot) (wtAt l c) then l
      else siftDown fuel (swap l slot c) c
    else l

/-- parent slot `((slot + 1) / 2) - 1` -/
def parent (slot : Nat) : Nat := (slot + 1) / 2 - 1

/-- `restore_towards_root(slot)` -/
def siftUp : Nat → List (Entry α) → Nat → List (Entry α)
  | 0, l, _ => l
  | fuel + 1, l, slot =>
    let p := parent slot
    if slot > 0 && Num.lt (wtAt l slot) (wtAt l p) then siftUp fuel (swap l slot p) p else l

/-- the `for (j = last_non_leaf; j >= 0; --j) restore_towards_leaves(j)` loop -/
def heapifyFrom : Nat → List (Entry α) → List (Entry α)
  | 0, l => siftDown l.length l 0
  | j + 1, l => heapifyFrom j (siftDown l.length l (j + 1))

/-- `convert_to_heap()` -/
def convertToHeap (l : List (Entry α)) : List (Entry α) :=
  if l.length < 2 then l else heapifyFrom (l.length / 2 - 1) l

/-- `push(item, wt, mark)`: store at slot h, then `restore_towards_root(h)` -/
def heapPush (l : List (Entry α)) (e : Entry α) : List (Entry α) :=
  siftUp (l.length + 1) (l ++ [e]) l.length

/-- heap part of `pop_min_to_m_region()`: swap root with the last slot, shrink H by one, `restore_towards_leaves(0)`.
    (The popped root is `l.head`; it lands in the slot that becomes the leftmost M slot.) -/
def heapPopRest (l : List (Entry α)) : List (Entry α) :=
  if l.length ≤ 1 then []
  else
    let l1 := (swap l 0 (l.length - 1)).dropLast
    siftDown l1.length l1 0

end DS.VarOpt

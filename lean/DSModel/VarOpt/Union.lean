/- VarOpt union (sampling/include/var_opt_union_impl.hpp), generic over `Num α`. -/
import DSModel.VarOpt.Sketch
namespace DS.VarOpt
open DS

structure Un (α : Type) where
  n : Nat
  outerTauNumer : α
  outerTauDenom : Nat
  maxK : Nat
  gadget : Sk α

variable {α : Type} [Num α]

/-- `var_opt_union(max_k)` -/
def Un.new (T : Tunables) (maxK : Nat) : Option (Un α) :=
  match (Sk.new T maxK T.defaultRf true : Option (Sk α)) with
  | some g => some { n := 0, outerTauNumer := Num.zero, outerTauDenom := 0, maxK := maxK, gadget := g }
  | none => none

/-- feed a list of `(item, weight)` to the gadget with the given mark -/
def feed (T : Tunables) (mark : Bool) : List (Int × α) → Sk α → Draws α → Option (Sk α × Draws α)
  | [], g, ds => some (g, ds)
  | (x, w) :: t, g, ds =>
    match update T g x w mark ds with
    | some (g1, ds1) => feed T mark t g1 ds1
    | none => none

/-- `merge_items(sketch)`: H items unmarked with their weights, R items marked with corrected weights -/
def mergeItems (T : Tunables) (u : Un α) (sk : Sk α) (ds : Draws α) : Option (Un α × Draws α) :=
  if sk.n == 0 then some (u, ds) else
  match feed T false (sk.H.map (fun e => (e.item, e.wt))) u.gadget ds with
  | none => none
  | some (g1, ds1) =>
    match feed T true sk.rSamplesCorrected g1 ds1 with
    | none => none
    | some (g2, ds2) => some ({ u with n := u.n + sk.n, gadget := g2 }, ds2)

/-- `get_outer_tau()` -/
def Un.outerTau (u : Un α) : α :=
  if u.outerTauDenom == 0 then Num.zero else Num.div u.outerTauNumer (Num.ofNat u.outerTauDenom)

/-- `resolve_tau(sketch)` -/
def resolveTau (u : Un α) (sk : Sk α) : Un α :=
  if sk.R.length > 0 then
    let sketchTau := Num.div sk.totalWtR (Num.ofNat sk.R.length)
    let outerTau := u.outerTau
    if u.outerTauDenom == 0 then
      { u with outerTauNumer := sk.totalWtR, outerTauDenom := sk.R.length }
    else if Num.lt outerTau sketchTau then
      { u with outerTauNumer := sk.totalWtR, outerTauDenom := sk.R.length }
    else if Num.eq sketchTau outerTau then
      { u with outerTauNumer := Num.add u.outerTauNumer sk.totalWtR, outerTauDenom := u.outerTauDenom + sk.R.length }
    else u
  else u

/-- `update(sketch)` -/
def Un.update (T : Tunables) (u : Un α) (sk : Sk α) (ds : Draws α) : Option (Un α × Draws α) :=
  match mergeItems T u sk ds with
  | some (u1, ds1) => some (resolveTau u1 sk, ds1)
  | none => none

/-- `there_exist_unmarked_h_items_lighter_than_target(threshold)`; the caller passes `gadget_.get_tau()`, which is
    NaN (`none`) whenever the gadget is pseudo-exact, and every comparison with NaN is false -/
def existUnmarkedLighter (g : Sk α) (threshold : Option α) : Bool :=
  match threshold with
  | none => false
  | some t => g.H.any (fun e => Num.lt e.wt t && !e.mark)

/-- `mark_moving_gadget_coercer`: marked H items of the gadget become the R region of the result (filled from
    the back), unmarked ones stay in H in array order (re-heapified only in the repaired shape `T.coercerHeapify`) -/
def markMovingCoercer (T : Tunables) (u : Un α) (sk : Sk α) : Option (Sk α) :=
  let g := u.gadget
  let resultK := g.H.length + g.R.length
  let marked := g.H.filter (·.mark)
  let unmarked := g.H.filter (fun e => !e.mark)
  let transferred := marked.foldl (fun acc e => Num.add acc e.wt) (Num.zero : α)
  let tol : α := if T.coercerRelTol then Num.mul (Num.ofFrac T.tolNum T.tolDen) (Num.abs u.outerTauNumer)
                 else Num.ofFrac T.tolNum T.tolDen
  if Num.lt tol (Num.abs (Num.sub transferred u.outerTauNumer)) then none else
  let h' := unmarked.map (fun e => { e with mark := false })
  some { sk with k := resultK, n := u.n,
                 H := if T.coercerHeapify then convertToHeap h' else h', M := [],
                 R := (g.R ++ marked.map (·.item)).reverse,
                 totalWtR := Num.add g.totalWtR transferred,
                 gadget := false, numMarksInH := 0, alloc := resultK + 1 }

/-- `detect_and_handle_subcase_of_pseudo_exact`: `some none` = a throw inside the coercer -/
def pseudoExact (T : Tunables) (u : Un α) (sk : Sk α) : Option (Option (Sk α)) :=
  let g := u.gadget
  let c1 := g.R.length == 0
  let c2 := g.numMarksInH > 0
  let c3 := g.numMarksInH == u.outerTauDenom
  if !(c1 && c2 && c3) then none
  else if existUnmarkedLighter g (if T.coercerOuterTau then some u.outerTau else g.tau) then none
  else some (markMovingCoercer T u sk)

/-- the `while (num_marks_in_h_ > 0) decrease_k_by_1()` loop -/
def migrateLoop (T : Tunables) : Nat → Sk α → Draws α → Option (Sk α × Draws α)
  | 0, s, ds => if s.numMarksInH > 0 then none else some (s, ds)
  | fuel + 1, s, ds =>
    if s.numMarksInH > 0 then
      match decreaseKBy1 T s ds with
      | some (s1, ds1) => migrateLoop T fuel s1 ds1
      | none => none
    else some (s, ds)

/-- `get_tau() == 0.0` (false for the NaN of exact mode) -/
def tauIsZero (s : Sk α) : Bool :=
  match s.tau with
  | some t => Num.eq t (Num.zero : α)
  | none => false

/-- second half of `migrate_marked_items_by_decreasing_k`: k now equals the number of samples, so reducing k
    increases tau; keep reducing until all marked items have been absorbed into the reservoir, then strip the marks -/
def migrateFrom (T : Tunables) (g1 : Sk α) (ds : Draws α) : Option (Sk α × Draws α) :=
  match decreaseKBy1 T g1 ds with
  | none => none
  | some (g2, ds2) =>
    if tauIsZero g2 then none else
    match migrateLoop T g2.k g2 ds2 with
    | none => none
    | some (g3, ds3) => some ({ g3 with gadget := false, numMarksInH := 0,
                                        H := g3.H.map (fun e => { e with mark := false }) }, ds3)

/-- `migrate_marked_items_by_decreasing_k` -/
def migrateMarked (T : Tunables) (gcopy : Sk α) (ds : Draws α) : Option (Sk α × Draws α) :=
  if gcopy.numMarksInH == 0 then none
  else if gcopy.R.length != 0 && gcopy.H.length + gcopy.R.length != gcopy.k then none
  else if gcopy.R.length == 0 && gcopy.H.length < gcopy.k then
    -- non-full and pseudo-exact: change k so that the copy is full
    migrateFrom T { gcopy with k := gcopy.H.length } ds
  else migrateFrom T gcopy ds

/-- `get_result()` -/
def Un.getResult (T : Tunables) (u : Un α) (ds : Draws α) : Option (Sk α × Draws α) :=
  if u.gadget.numMarksInH == 0 then
    -- simple_gadget_coercer: a copy of the gadget without the marks array, n = the union's n
    some ({ u.gadget with n := u.n, gadget := false, H := u.gadget.H.map (fun e => { e with mark := false }) }, ds)
  else
    let gcopy := { u.gadget with n := u.n }
    match pseudoExact T u gcopy with
    | some (some r) => some (r, ds)
    | some none => none
    | none => migrateMarked T gcopy ds

/-- `deserialize(serialize(u))` as a state transformer -/
def Un.serdeRoundTrip (T : Tunables) (u : Un α) : Option (Un α) :=
  if u.maxK == 0 || u.maxK > T.maxK then none
  else if u.n == 0 then Un.new T u.maxK
  else match DS.VarOpt.serdeRoundTrip T u.gadget with
    | some g => some { u with gadget := g }
    | none => none

end DS.VarOpt

/- Line-protocol driver of the VarOpt model (Float instance).  One observation line per op line.

   ops (ids are small integers; `D <f64 hex>…` and `I <nat>…` at the end of a line are the draws supplied to
   BOTH sides through the random-source hook):
     new <id> <k> <rf>                  var_opt_sketch(k, rf)
     upd <id> <item> <weight f64 hex>   update(item, weight)
     copy <src> <dst> | serde <src> <dst> | reset <id>
     unew <uid> <max_k> | umerge <uid> <sid> | ures <uid> <dst> | ucopy, userde <usrc> <udst> | ureset <uid>
   observation of a sketch: `S n k num_samples c=<doubles>,<ints> | item:wt … | lb est ub tot | … (3 predicates)` -/
import DSModel.VarOpt.Union
import DSModel.VarOpt.Bounds
import DSModel.Util
namespace DS.VarOpt
open DS

inductive Obj where
  | sk (s : Sk Float)
  | un (u : Un Float)
  | dead

abbrev Objs := List (Nat × Obj)

def Objs.get (o : Objs) (id : Nat) : Option Obj := (o.find? (·.1 == id)).map (·.2)
def Objs.put (o : Objs) (id : Nat) (x : Obj) : Objs := (id, x) :: o.filter (·.1 != id)

def preds : List (Int → Bool) := [fun _ => true, fun x => x % 2 == 0, fun x => x % 3 == 0]

def obsSubset (T : Tunables) (s : Sk Float) : String :=
  joinSp (preds.map (fun p =>
    match estimateSubsetSum (codeBounds T) s p with
    | some r => s!"| {hexF r.lowerBound} {hexF r.estimate} {hexF r.upperBound} {hexF r.totalSketchWeight}"
    | none => "| throw"))

def obsSk (T : Tunables) (s : Sk Float) (cu ci : Nat) : String :=
  let items := joinSp (s.samples.map (fun p => s!"{p.1}:{hexF p.2}"))
  s!"S {s.n} {s.k} {s.numSamples} c={cu},{ci} | {items} {obsSubset T s}"

def parseF (s : String) : Option Float := (parseHex s).map (fun n => Float.ofBits (UInt64.ofNat n))

/-- split `… D f f f I n n` into (head words, draws) -/
def splitDraws (w : List String) : List String × Draws Float :=
  let head := w.takeWhile (fun x => x != "D" && x != "I")
  let rest := w.drop head.length
  let dpart := (rest.dropWhile (· != "D")).drop 1 |>.takeWhile (· != "I")
  let ipart := (rest.dropWhile (· != "I")).drop 1 |>.takeWhile (· != "D")
  (head, { us := dpart.filterMap parseF, is := ipart.filterMap String.toNat? })

def consumed (d0 d1 : Draws Float) : Nat × Nat := (d0.us.length - d1.us.length, d0.is.length - d1.is.length)

def stepLine (T : Tunables) (objs : Objs) (w : List String) : Objs × String :=
  let (hd, ds) := splitDraws w
  match hd with
  | ["new", id, k, rf] =>
    match id.toNat?, k.toNat?, rf.toNat? with
    | some id, some k, some rf =>
      match (Sk.new T k rf false : Option (Sk Float)) with
      | some s => (objs.put id (.sk s), obsSk T s 0 0)
      | none => (objs.put id .dead, "throw")
    | _, _, _ => (objs, "bad-op")
  | ["upd", id, item, wt] =>
    match id.toNat?, item.toInt?, parseF wt with
    | some id, some item, some wt =>
      match objs.get id with
      | some (.sk s) =>
        if !validWeight wt then (objs, "throw") else
        match update T s item wt false ds with
        | some (s1, ds1) => let c := consumed ds ds1; (objs.put id (.sk s1), obsSk T s1 c.1 c.2)
        | none => (objs.put id .dead, "throw")
      | _ => (objs, "dead")
    | _, _, _ => (objs, "bad-op")
  | ["copy", src, dst] =>
    match src.toNat?, dst.toNat? with
    | some src, some dst =>
      match objs.get src with
      | some (.sk s) => (objs.put dst (.sk s), obsSk T s 0 0)
      | _ => (objs, "dead")
    | _, _ => (objs, "bad-op")
  | ["serde", src, dst] =>
    match src.toNat?, dst.toNat? with
    | some src, some dst =>
      match objs.get src with
      | some (.sk s) =>
        match serdeRoundTrip T s with
        | some s1 => (objs.put dst (.sk s1), obsSk T s1 0 0)
        | none => (objs.put dst .dead, "throw")
      | _ => (objs, "dead")
    | _, _ => (objs, "bad-op")
  | ["reset", id] =>
    match id.toNat? with
    | some id =>
      match objs.get id with
      | some (.sk s) =>
        let s1 : Sk Float := { s with n := 0, H := [], M := [], R := [], totalWtR := 0.0, numMarksInH := 0,
                                      mStale := false, alloc := initialAlloc T s.k s.rf }
        (objs.put id (.sk s1), obsSk T s1 0 0)
      | _ => (objs, "dead")
    | none => (objs, "bad-op")
  | ["unew", id, k] =>
    match id.toNat?, k.toNat? with
    | some id, some k =>
      match (Un.new T k : Option (Un Float)) with
      | some u => (objs.put id (.un u), "U")
      | none => (objs.put id .dead, "throw")
    | _, _ => (objs, "bad-op")
  | ["umerge", uid, sid] =>
    match uid.toNat?, sid.toNat? with
    | some uid, some sid =>
      match objs.get uid, objs.get sid with
      | some (.un u), some (.sk s) =>
        match u.update T s ds with
        | some (u1, ds1) => let c := consumed ds ds1; (objs.put uid (.un u1), s!"U c={c.1},{c.2}")
        | none => (objs.put uid .dead, "throw")
      | _, _ => (objs, "dead")
    | _, _ => (objs, "bad-op")
  | ["ures", uid, dst] =>
    match uid.toNat?, dst.toNat? with
    | some uid, some dst =>
      match objs.get uid with
      | some (.un u) =>
        match u.getResult T ds with
        | some (s1, ds1) => let c := consumed ds ds1; (objs.put dst (.sk s1), obsSk T s1 c.1 c.2)
        | none => (objs.put dst .dead, "throw")
      | _ => (objs, "dead")
    | _, _ => (objs, "bad-op")
  | ["ucopy", src, dst] =>
    match src.toNat?, dst.toNat? with
    | some src, some dst =>
      match objs.get src with
      | some (.un u) => (objs.put dst (.un u), "U")
      | _ => (objs, "dead")
    | _, _ => (objs, "bad-op")
  | ["userde", src, dst] =>
    match src.toNat?, dst.toNat? with
    | some src, some dst =>
      match objs.get src with
      | some (.un u) =>
        match u.serdeRoundTrip T with
        | some u1 => (objs.put dst (.un u1), "U")
        | none => (objs.put dst .dead, "throw")
      | _ => (objs, "dead")
    | _, _ => (objs, "bad-op")
  | ["ureset", uid] =>
    match uid.toNat? with
    | some uid =>
      match objs.get uid with
      | some (.un u) =>
        let g : Sk Float := { u.gadget with n := 0, H := [], M := [], R := [], totalWtR := 0.0, numMarksInH := 0,
                                            mStale := false, alloc := initialAlloc T u.gadget.k u.gadget.rf }
        (objs.put uid (.un { u with n := 0, outerTauNumer := 0.0, outerTauDenom := 0, gadget := g }), "U")
      | _ => (objs, "dead")
    | none => (objs, "bad-op")
  | _ => (objs, "bad-op")

end DS.VarOpt

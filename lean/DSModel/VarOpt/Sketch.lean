/- VarOpt sketch (sampling/include/var_opt_sketch_impl.hpp), generic over `Num α`.

   Layout of the code's arrays `data_/weights_/marks_` (k+1 slots once full):
       [ H (h_ slots, min-heap on weight) | M (m_ slots, transient) | R (r_ slots, implied weight tau) ]
   with the one-slot gap at index h_ whenever m_ = 0 and r_ > 0.  The model keeps the three regions as
   three lists in array order; `h_ = H.length`, `r_ = R.length`, `m_ = M.length (+1 if mStale)`.

   Every random choice is taken from the explicit oracle argument `Draws` (one uniform double per
   `next_double_exclude_zero()`, one raw integer per `next_int(n)`, used as `raw % n`).
   A C++ exception is `none`.  Internal `logic_error` checks that are implied by the entry checks of the
   update paths together with the contiguous layout (h+m+r = k+1 inside an update) are not repeated. -/
import DSModel.VarOpt.Heap
namespace DS.VarOpt
open DS

/-- constants read from the current headers by tools/trules/varopt.py (DSGen/VarOpt.lean) -/
structure Tunables where
  maxK : Nat              -- var_opt_constants::MAX_K
  minLgArrItems : Nat     -- MIN_LG_ARR_ITEMS
  defaultRf : Nat         -- DEFAULT_RESIZE_FACTOR (lg)
  kappaNum : Nat          -- DEFAULT_KAPPA
  kappaDen : Nat
  tolNum : Nat            -- tolerance literal of mark_moving_gadget_coercer
  tolDen : Nat
  erfA : List (Nat × Nat) -- a1..a6 of bounds_binomial_proportions::erf_of_nonneg
  -- source shapes of the CURRENT headers (all `false` = the tree the checks were first built on; see tools/trules/varopt.py)
  deserializeM0 : Bool := false    -- deserialize() passes m = 0 (otherwise `(r > 0 ? 1 : 0)`)
  validModeSlack : Bool := false   -- update()'s sanity check is `peek_min() < get_tau() * (1.0 - slack)`
  slackNum : Nat := 0
  slackDen : Nat := 1
  coercerOuterTau : Bool := false  -- the pseudo-exact guard compares with get_outer_tau() (otherwise gadget_.get_tau() = NaN)
  coercerHeapify : Bool := false   -- mark_moving_gadget_coercer ends with convert_to_heap()
  coercerRelTol : Bool := false    -- its transferred-weight tolerance is relative to |outer_tau_numer_|

structure Sk (α : Type) where
  k : Nat
  n : Nat
  H : List (Entry α)
  M : List (Entry α)
  R : List Int
  totalWtR : α
  gadget : Bool           -- marks_ != nullptr
  numMarksInH : Nat       -- the counter num_marks_in_h_, maintained as coded
  mStale : Bool           -- m_ = 1 with an empty M region: what deserialize() constructs when r > 0
  rf : Nat
  alloc : Nat             -- curr_items_alloc_ (not observable; kept for the warm-up growth logic)

/-- the random-choice oracle: doubles for `next_double_exclude_zero`, raw integers for `next_int` -/
structure Draws (α : Type) where
  us : List α
  is : List Nat

variable {α : Type} [Num α]

/-- `next_double_exclude_zero()`: redraw while the value is 0.0; an exhausted source yields 1/2 -/
def nextDouble (ds : Draws α) : α × Draws α :=
  match ds.us.dropWhile (fun u => Num.eq u (Num.zero : α)) with
  | [] => (Num.ofFrac 1 2, { ds with us := [] })
  | u :: t => (u, { ds with us := t })

/-- `next_int(n)`: uniform in [0, n); the source supplies a raw integer, the value is `raw % n`; exhausted: 0 -/
def nextInt (n : Nat) (ds : Draws α) : Nat × Draws α :=
  match ds.is with
  | [] => (0, ds)
  | x :: t => (x % n, { ds with is := t })

-- ---------------------------------------------------------------- allocation bookkeeping (unobservable)

def ceilPow2 (n : Nat) : Nat := if n ≤ 1 then 1 else 2 ^ (Nat.log2 (n - 1) + 1)

def startingSubMultiple (lgTarget lgRf lgMin : Nat) : Nat :=
  if lgTarget ≤ lgMin then lgMin else if lgRf == 0 then lgTarget else (lgTarget - lgMin) % lgRf + lgMin

def getAdjustedSize (maxSize resizeTarget : Nat) : Nat :=
  if maxSize < resizeTarget * 2 then maxSize else resizeTarget

def leaveGap (k a : Nat) : Nat := if a == k then a + 1 else a

def initialAlloc (T : Tunables) (k rf : Nat) : Nat :=
  leaveGap k (getAdjustedSize k (2 ^ startingSubMultiple (Nat.log2 (ceilPow2 k)) rf T.minLgArrItems))

/-- `grow_data_arrays()` -/
def grownAlloc (k rf alloc : Nat) : Nat := leaveGap k (getAdjustedSize k (alloc * 2 ^ rf))

-- ---------------------------------------------------------------- construction, accessors

/-- `var_opt_sketch(k, rf, is_gadget)`; throws for k = 0 or k > MAX_K -/
def Sk.new (T : Tunables) (k rf : Nat) (gadget : Bool) : Option (Sk α) :=
  if k == 0 || k > T.maxK then none
  else some { k := k, n := 0, H := [], M := [], R := [], totalWtR := Num.zero, gadget := gadget,
              numMarksInH := 0, mStale := false, rf := rf, alloc := initialAlloc T k rf }

def Sk.h (s : Sk α) : Nat := s.H.length
def Sk.r (s : Sk α) : Nat := s.R.length
/-- the field `m_` -/
def Sk.m (s : Sk α) : Nat := s.M.length + (if s.mStale then 1 else 0)

/-- `get_tau()`: NaN (here `none`) in exact mode -/
def Sk.tau (s : Sk α) : Option α :=
  if s.R.length == 0 then none else some (Num.div s.totalWtR (Num.ofNat s.R.length))

def Sk.numSamples (s : Sk α) : Nat := min (s.H.length + s.R.length) s.k

def Sk.isEmpty (s : Sk α) : Bool := s.H.length == 0 && s.R.length == 0

/-- mark as stored in `marks_[i]` (no marks array unless this is a union gadget) -/
def storedMark (s : Sk α) (mark : Bool) : Bool := s.gadget && mark

-- ---------------------------------------------------------------- down-sampling

/-- `pick_random_slot_in_r()` relative to the first R slot -/
def pickR (r : Nat) (ds : Draws α) : Nat × Draws α :=
  if r == 1 then (0, ds) else nextInt r ds

/-- the loop of `choose_weighted_delete_slot`: index (within M) of the first slot where
    `left_subtotal < right_subtotal`, or `M.length` ("delete out of R") -/
def weightedLoop (wtCands : α) (numToKeep : Nat) : List (Entry α) → α → α → Nat → Nat
  | [], _, _, i => i
  | e :: t, left, right, i =>
    let left' := Num.add left (Num.mul (Num.ofNat numToKeep) e.wt)
    let right' := Num.add right wtCands
    if Num.lt left' right' then i else weightedLoop wtCands numToKeep t left' right' (i + 1)

/-- `choose_delete_slot(wt_cands, num_cands)`, as an index into the candidate list `M ++ R` (slot − h_) -/
def chooseDeleteSlot (M : List (Entry α)) (r : Nat) (wtCands : α) (numCands : Nat) (ds : Draws α) : Nat × Draws α :=
  match M with
  | [] => pickR r ds                          -- a really heavy item was inserted: delete from R
  | [e] =>
    let (u, ds1) := nextDouble ds
    if Num.lt (Num.mul wtCands u) (Num.mul (Num.ofNat (numCands - 1)) e.wt) then
      let (j, ds2) := pickR r ds1              -- keep the item in M
      (1 + j, ds2)
    else (0, ds1)
  | _ =>
    let (u, ds1) := nextDouble ds
    let right0 := Num.mul (Num.mul (Num.neg (Num.one : α)) wtCands) u
    let i := weightedLoop wtCands (numCands - 1) M (Num.zero : α) right0 0
    if i == M.length then
      let (j, ds2) := pickR r ds1
      (M.length + j, ds2)
    else (i, ds1)

/-- `downsample_candidate_set`: the candidate at `del` is overwritten by the leftmost candidate, whose slot
    becomes the gap; all candidates become R items of total weight `wtCands` -/
def downsample (s : Sk α) (wtCands : α) (numCands : Nat) (ds : Draws α) : Sk α × Draws α :=
  let (del, ds1) := chooseDeleteSlot s.M s.R.length wtCands numCands ds
  let cands := s.M.map (·.item) ++ s.R
  let r' := match cands with
    | [] => []
    | c0 :: _ => (cands.set del c0).tail
  ({ s with M := [], R := r', totalWtR := wtCands }, ds1)

/-- the `while (h_ > 0)` loop of `grow_candidate_set`: pull sufficiently light items from H into M.
    State: H, M, number of marks in H, weight and number of candidates. -/
def growLoop (gadget : Bool) : Nat → List (Entry α) → List (Entry α) → Nat → α → Nat →
    List (Entry α) × List (Entry α) × Nat × α × Nat
  | 0, H, M, nm, wt, nc => (H, M, nm, wt, nc)
  | fuel + 1, H, M, nm, wt, nc =>
    match H with
    | [] => (H, M, nm, wt, nc)
    | root :: _ =>
      let nextTot := Num.add wt root.wt
      -- strict lightness of the next prospect (denominator multiplied through)
      if Num.lt (Num.mul root.wt (Num.ofNat nc)) nextTot then
        growLoop gadget fuel (heapPopRest H) (root :: M) (if gadget && root.mark then nm - 1 else nm) nextTot (nc + 1)
      else (H, M, nm, wt, nc)

/-- `grow_candidate_set(wt_cands, num_cands)` followed by `downsample_candidate_set` -/
def growCandidateSet (s : Sk α) (wtCands : α) (numCands : Nat) (ds : Draws α) : Sk α × Draws α :=
  let (H, M, nm, wt, nc) := growLoop s.gadget s.H.length s.H s.M s.numMarksInH wtCands numCands
  downsample { s with H := H, M := M, numMarksInH := nm } wt nc ds

/-- `pop_min_to_m_region()` -/
def popMinToM (s : Sk α) : Sk α :=
  match s.H with
  | [] => s
  | root :: _ =>
    { s with H := heapPopRest s.H, M := root :: s.M,
             numMarksInH := if s.gadget && root.mark then s.numMarksInH - 1 else s.numMarksInH }

/-- `transition_from_warmup()`: heapify, move the two lightest items to M, the lighter one on to R,
    then down-sample the candidate set of two -/
def transitionFromWarmup (s : Sk α) (ds : Draws α) : Sk α × Draws α :=
  let s1 := popMinToM (popMinToM { s with H := convertToHeap s.H })
  match s1.M with
  | [e2, e1] =>   -- e1 = lightest (slot k), e2 = second lightest (slot k-1)
    let s2 := { s1 with M := [e2], R := [e1.item], totalWtR := e1.wt }
    growCandidateSet s2 (Num.add e2.wt e1.wt) 2 ds
  | _ => (s1, ds)  -- unreachable: h_ = k_+1 >= 2 on entry

-- ---------------------------------------------------------------- update

def validWeight (w : α) : Bool := !(Num.lt w (Num.zero : α)) && Num.isFinite w

/-- `update_warmup_phase` -/
def updateWarmup (s : Sk α) (item : Int) (w : α) (mark : Bool) (ds : Draws α) : Option (Sk α × Draws α) :=
  if s.R.length > 0 || s.m != 0 || s.H.length > s.k then none else
  let alloc := if s.H.length ≥ s.alloc then grownAlloc s.k s.rf s.alloc else s.alloc
  let s1 := { s with H := s.H ++ [{ item := item, wt := w, mark := storedMark s mark }],
                     numMarksInH := s.numMarksInH + (if mark then 1 else 0), alloc := alloc }
  if s1.H.length > s1.k then some (transitionFromWarmup s1 ds) else some (s1, ds)

/-- `update_light` -/
def updateLight (s : Sk α) (item : Int) (w : α) (mark : Bool) (ds : Draws α) : Option (Sk α × Draws α) :=
  if s.R.length == 0 || s.R.length + s.H.length != s.k then none else
  -- grow_candidate_set's entry check sees m_ = 2 for a sketch that came out of deserialize()
  if s.mStale then none else
  let s1 := { s with M := [{ item := item, wt := w, mark := storedMark s mark }] }
  some (growCandidateSet s1 (Num.add s.totalWtR w) (s.R.length + 1) ds)

/-- `push` on the sketch: heap push + mark counter -/
def pushH (s : Sk α) (item : Int) (w : α) (mark : Bool) : Sk α :=
  { s with H := heapPush s.H { item := item, wt := w, mark := storedMark s mark },
           numMarksInH := if s.gadget && mark then s.numMarksInH + 1 else s.numMarksInH }

/-- `update_heavy_general` -/
def updateHeavyGeneral (s : Sk α) (item : Int) (w : α) (mark : Bool) (ds : Draws α) : Option (Sk α × Draws α) :=
  if s.R.length < 2 || s.m != 0 || s.R.length + s.H.length != s.k then none else
  some (growCandidateSet (pushH s item w mark) s.totalWtR s.R.length ds)

/-- `update_heavy_r_eq1` -/
def updateHeavyREq1 (s : Sk α) (item : Int) (w : α) (mark : Bool) (ds : Draws α) : Option (Sk α × Draws α) :=
  if s.R.length != 1 || s.m != 0 || s.R.length + s.H.length != s.k then none else
  let s1 := popMinToM (pushH s item w mark)
  match s1.M with
  | e :: _ => some (growCandidateSet s1 (Num.add e.wt s.totalWtR) 2 ds)
  | [] => some (s1, ds)   -- unreachable: H is non-empty after the push

/-- the body of `update` after the weight checks and `++n_`: dispatch on the mode and on the item's weight -/
def updateDispatch (T : Tunables) (s : Sk α) (item : Int) (w : α) (mark : Bool) (ds : Draws α) : Option (Sk α × Draws α) :=
  if s.R.length == 0 then updateWarmup s item w mark ds
  else
    let tau := Num.div s.totalWtR (Num.ofNat s.R.length)
    -- "sketch not in valid estimation mode" (repaired shape: with a relative slack for the rounding of tau)
    let bound := if T.validModeSlack then Num.mul tau (Num.sub (Num.one : α) (Num.ofFrac T.slackNum T.slackDen)) else tau
    if s.H.length != 0 && Num.lt (wtAt s.H 0) bound then none else
    -- what tau would be if the deletion candidates turn out to be R plus the new item
    let hypotheticalTau := Num.div (Num.add w s.totalWtR) (Num.ofNat s.R.length)
    let condition1 := s.H.length == 0 || Num.le w (wtAt s.H 0)
    let condition2 := Num.lt w hypotheticalTau
    if condition1 && condition2 then updateLight s item w mark ds
    else if s.R.length == 1 then updateHeavyREq1 s item w mark ds
    else updateHeavyGeneral s item w mark ds

/-- `update(item, weight, mark)`.  `none` = C++ exception (invalid weight, or a `logic_error`). -/
def update (T : Tunables) (s : Sk α) (item : Int) (w : α) (mark : Bool) (ds : Draws α) : Option (Sk α × Draws α) :=
  if !validWeight w then none
  else if Num.eq w (Num.zero : α) then some (s, ds)
  else updateDispatch T { s with n := s.n + 1 } item w mark ds

-- ---------------------------------------------------------------- decrease_k_by_1 (used by the union)

/-- `decrease_k_by_1()` -/
def decreaseKBy1 (T : Tunables) (s : Sk α) (ds : Draws α) : Option (Sk α × Draws α) :=
  if s.k ≤ 1 then none
  else if s.H.length == 0 && s.R.length == 0 then some ({ s with k := s.k - 1 }, ds)
  else if s.H.length > 0 && s.R.length == 0 then
    let s1 := { s with k := s.k - 1 }
    if s1.H.length > s1.k then some (transitionFromWarmup s1 ds) else some (s1, ds)
  else if s.H.length > 0 && s.R.length > 0 then
    if s.H.length + s.R.length != s.k then none else
    -- slide the R zone left by one (its last item fills the gap), pull the rightmost H item,
    -- reduce k, re-insert the pulled item
    match s.H.getLast?, s.R.getLast? with
    | some pulled, some rl =>
      let s1 := { s with H := s.H.dropLast, R := rl :: s.R.dropLast,
                         numMarksInH := if pulled.mark then s.numMarksInH - 1 else s.numMarksInH,
                         k := s.k - 1, n := s.n - 1 }
      update T s1 pulled.item pulled.wt pulled.mark ds
    | _, _ => none
  else
    -- pure reservoir mode: eject a randomly chosen sample from the reservoir
    if s.R.length < 2 then none else
    let (d, ds1) := nextInt s.R.length ds
    match s.R.getLast? with
    | some rl => some ({ s with R := (s.R.set d rl).dropLast, k := s.k - 1 }, ds1)
    | none => none

-- ---------------------------------------------------------------- queries

/-- public `begin()/end()` (const_iterator): H entries with their weights, then R items with weight tau -/
def Sk.samples (s : Sk α) : List (Int × α) :=
  let tau := Num.div s.totalWtR (Num.ofNat s.R.length)
  s.H.map (fun e => (e.item, e.wt)) ++ s.R.map (fun x => (x, tau))

/-- weights handed out by the weight-correcting R iterator (`iterator`, used by the union): tau for all but the
    last item, `total_wt_r_ − cum_r_weight_` for the last -/
def correctedRWeights (tau total : α) : Nat → α → List α
  | 0, _ => []
  | 1, cum => [Num.sub total cum]
  | n + 1, cum => tau :: correctedRWeights tau total n (Num.add cum tau)

def Sk.rSamplesCorrected (s : Sk α) : List (Int × α) :=
  let tau := Num.div s.totalWtR (Num.ofNat s.R.length)
  s.R.zip (correctedRWeights tau s.totalWtR s.R.length (Num.zero : α))

/-- lower / upper bound on the true fraction: `pseudo_hypergeometric_{lb,ub}_on_p(r, r_true, rate)` -/
structure FracBounds (α : Type) where
  lb : Nat → Nat → α → α
  ub : Nat → Nat → α → α

structure SubsetSummary (α : Type) where
  lowerBound : α
  estimate : α
  upperBound : α
  totalSketchWeight : α

def sumWhere (p : Int → Bool) : List (Entry α) → α → α
  | [], acc => acc
  | e :: t, acc => sumWhere p t (if p e.item then Num.add acc e.wt else acc)

def sumAll : List (Entry α) → α → α
  | [], acc => acc
  | e :: t, acc => sumAll t (Num.add acc e.wt)

/-- `estimate_subset_sum(predicate)` -/
def estimateSubsetSum (B : FracBounds α) (s : Sk α) (p : Int → Bool) : Option (SubsetSummary α) :=
  if s.n == 0 then some ⟨Num.zero, Num.zero, Num.zero, Num.zero⟩ else
  let totalWtH := sumAll s.H (Num.zero : α)
  let hTrueWt := sumWhere p s.H (Num.zero : α)
  if s.R.length == 0 then some ⟨hTrueWt, hTrueWt, hTrueWt, hTrueWt⟩ else
  let numSamples := s.n - s.H.length
  let rate := Num.div (Num.ofNat s.R.length : α) (Num.ofNat numSamples)
  if Num.lt rate (Num.zero : α) || Num.lt (Num.one : α) rate then none else
  let rTrue := (s.R.filter p).length
  let lbF := B.lb s.R.length rTrue rate
  let estF := Num.div (Num.mul (Num.one : α) (Num.ofNat rTrue)) (Num.ofNat s.R.length)
  let ubF := B.ub s.R.length rTrue rate
  some ⟨Num.add hTrueWt (Num.mul s.totalWtR lbF), Num.add hTrueWt (Num.mul s.totalWtR estF),
        Num.add hTrueWt (Num.mul s.totalWtR ubF), Num.add totalWtH s.totalWtR⟩

-- ---------------------------------------------------------------- serialize -> deserialize

/-- `deserialize(serialize(s))` as a state transformer (byte layout itself: C09/C10).  The reader's validation
    (`validate_and_get_target_size`, weight checks) is modelled; `none` = exception.  NOTE: the reader of the tree the
    checks were first built on passes `m = (r > 0 ? 1 : 0)` to the constructor, which is kept as `mStale`; the repaired
    reader (`T.deserializeM0`) passes 0. -/
def serdeRoundTrip (T : Tunables) (s : Sk α) : Option (Sk α) :=
  if s.k == 0 || s.k > T.maxK then none
  else if s.isEmpty then Sk.new T s.k s.rf s.gadget
  else
    let h := s.H.length
    let r := s.R.length
    let okShape := if s.n ≤ s.k then (r == 0 && s.n == h) else (r > 0 && h + r == s.k)
    if !okShape then none
    else if r > 0 && !(Num.lt (Num.zero : α) s.totalWtR) then none
    else if s.H.any (fun e => !(Num.lt (Num.zero : α) e.wt)) then none
    else
      let H := s.H.map (fun e => { e with mark := s.gadget && e.mark })
      let alloc := if s.n ≤ s.k then
          leaveGap s.k (getAdjustedSize s.k (2 ^ startingSubMultiple (Nat.log2 (ceilPow2 s.k)) s.rf (Nat.log2 (ceilPow2 h))))
        else s.k + 1
      some { k := s.k, n := s.n, H := H, M := [], R := s.R,
             totalWtR := if r > 0 then s.totalWtR else Num.zero,
             gadget := s.gadget, numMarksInH := if s.gadget then (H.filter (·.mark)).length else 0,
             mStale := r > 0 && !T.deserializeM0, rf := s.rf, alloc := alloc }

end DS.VarOpt

/- common/include/bounds_binomial_proportions.hpp (the part used by var_opt_sketch::estimate_subset_sum) and
   `pseudo_hypergeometric_{lb,ub}_on_p`, generic over `NumT α` (needs sqrt / exp / pow: executed with Float only;
   the theorems treat the two bound functions as abstract parameters). -/
import DSModel.VarOpt.Sketch
namespace DS.VarOpt
open DS

variable {α : Type} [NumT α]

local notation "𝟙" => (Num.one : α)
local infixl:65 " +. " => Num.add
local infixl:65 " -. " => Num.sub
local infixl:70 " *. " => Num.mul
local infixl:70 " /. " => Num.div

def erfOfNonneg (a : List α) (x : α) : α :=
  let a1 := a.getD 0 Num.zero; let a2 := a.getD 1 Num.zero; let a3 := a.getD 2 Num.zero
  let a4 := a.getD 3 Num.zero; let a5 := a.getD 4 Num.zero; let a6 := a.getD 5 Num.zero
  let x2 := x *. x
  let x3 := x2 *. x
  let x4 := x2 *. x2
  let x5 := x2 *. x3
  let x6 := x3 *. x3
  let sum := 𝟙 +. (a1 *. x) +. (a2 *. x2) +. (a3 *. x3) +. (a4 *. x4) +. (a5 *. x5) +. (a6 *. x6)
  let sum2 := sum *. sum
  let sum4 := sum2 *. sum2
  let sum8 := sum4 *. sum4
  let sum16 := sum8 *. sum8
  𝟙 -. (𝟙 /. sum16)

def erf (a : List α) (x : α) : α :=
  if Num.lt x (Num.zero : α) then Num.neg 𝟙 *. erfOfNonneg a (Num.neg 𝟙 *. x) else erfOfNonneg a x

def normalCdf (a : List α) (x : α) : α :=
  Num.ofFrac 1 2 *. (𝟙 +. erf a (x /. NumT.sqrt (Num.ofNat 2 : α)))

def deltaOfNumStdevs (a : List α) (kappa : α) : α := normalCdf a (Num.neg 𝟙 *. kappa)

def abramowitzStegun26p5p22 (a b yp : α) : α :=
  let two : α := Num.ofNat 2
  let b2m1 := (two *. b) -. 𝟙
  let a2m1 := (two *. a) -. 𝟙
  let lambda := ((yp *. yp) -. Num.ofNat 3) /. Num.ofNat 6
  let htmp := (𝟙 /. a2m1) +. (𝟙 /. b2m1)
  let h := two /. htmp
  let term1 := (yp *. NumT.sqrt (h +. lambda)) /. h
  let term2 := (𝟙 /. b2m1) -. (𝟙 /. a2m1)
  let term3 := (lambda +. ((Num.ofNat 5 : α) /. Num.ofNat 6)) -. (two /. ((Num.ofNat 3 : α) *. h))
  let w := term1 -. (term2 *. term3)
  a /. (a +. (b *. NumT.exp (two *. w)))

/-- `approximate_lower_bound_on_p(n, k, num_std_devs)` (k ≤ n) -/
def approxLowerBoundOnP (a : List α) (n k : Nat) (nsd : α) : α :=
  if n == 0 then Num.zero
  else if k == 0 then Num.zero
  else if k == 1 then 𝟙 -. NumT.pow (𝟙 -. deltaOfNumStdevs a nsd) (𝟙 /. Num.ofNat n)
  else if k == n then NumT.pow (deltaOfNumStdevs a nsd) (𝟙 /. Num.ofNat n)
  else 𝟙 -. abramowitzStegun26p5p22 ((Num.ofNat (n - k) : α) +. 𝟙) (Num.ofNat k) (Num.neg 𝟙 *. nsd)

/-- `approximate_upper_bound_on_p(n, k, num_std_devs)` (k ≤ n) -/
def approxUpperBoundOnP (a : List α) (n k : Nat) (nsd : α) : α :=
  if n == 0 then 𝟙
  else if k == n then 𝟙
  else if k == n - 1 then NumT.pow (𝟙 -. deltaOfNumStdevs a nsd) (𝟙 /. Num.ofNat n)
  else if k == 0 then 𝟙 -. NumT.pow (deltaOfNumStdevs a nsd) (𝟙 /. Num.ofNat n)
  else 𝟙 -. abramowitzStegun26p5p22 (Num.ofNat (n - k) : α) ((Num.ofNat k : α) +. 𝟙) nsd

/-- `pseudo_hypergeometric_{lb,ub}_on_p`: kappa scaled by sqrt(1 - sampling_rate) -/
def codeBounds (T : Tunables) : FracBounds α :=
  let a : List α := T.erfA.map (fun p => Num.ofFrac p.1 p.2)
  let kappa : α := Num.ofFrac T.kappaNum T.kappaDen
  { lb := fun n k rate => approxLowerBoundOnP a n k (kappa *. NumT.sqrt (𝟙 -. rate))
    ub := fun n k rate => approxUpperBoundOnP a n k (kappa *. NumT.sqrt (𝟙 -. rate)) }

end DS.VarOpt

/-
Histories over several filters and memory blocks, and the ghost book-keeping the C15 theorems are
stated with.  Core Lean only.

`hf item seed = some (h0, h1)` is the pair of hashes of an item (`none`: the overload ignores the
item); the theorems hold for EVERY such function, the driver instantiates it with XXHash64.
-/
import DSModel.Bloom.Model
namespace DS.Bloom

inductive Op (ι : Type) where
  | new (v numBits numHashes seed : Nat)
  | blk (m len val : Nat)
  | init (v m numBits numHashes seed : Nat)
  | upd (v : Nat) (x : ι)
  | qau (v : Nat) (x : ι)
  | bits (v : Nat)
  | reset (v : Nat)
  | setop (op : SetOp) (v u : Nat)
  | copy (v v' : Nat)
  | ser (v m : Nat)
  | wrap (k : WrapKind) (m v : Nat)

variable {ι : Type}

def hashFor (hf : ι → Nat → Option (Nat × Nat)) (w : World) (v : Nat) (x : ι) : Option (Nat × Nat) :=
  match w.filters v with
  | some f => hf x f.seed
  | none => none

def step (P : Params) (fx : Fix) (hf : ι → Nat → Option (Nat × Nat)) (w : World) : Op ι → World × Out
  | .new v nb nh seed => opNew P w v (nb % 2 ^ 64) (nh % 2 ^ 16) (seed % 2 ^ 64)   -- the C++ parameter types
  | .blk m len val => opBlk w m len val
  | .init v m nb nh seed => opInit P w v m (nb % 2 ^ 64) (nh % 2 ^ 16) (seed % 2 ^ 64)
  | .upd v x => opUpdate P fx w v (hashFor hf w v x)
  | .qau v x => opQau P fx w v (hashFor hf w v x)
  | .bits v => opBitsUsed P w v
  | .reset v => opReset P w v
  | .setop op v u => opSet P fx w op v u
  | .copy v v' => opCopy w v v'
  | .ser v m => opSer P w v m
  | .wrap k m v => opWrap P w k m v

def run (P : Params) (fx : Fix) (hf : ι → Nat → Option (Nat × Nat)) (w : World) (ops : List (Op ι)) : World :=
  ops.foldl (fun w op => (step P fx hf w op).1) w

/-! ### ghost 1: what was inserted into each bit state -/

/-- a bit state: the owned array of view `v`, or caller block `m` -/
inductive Key where
  | own (v : Nat)
  | mem (m : Nat)
deriving DecidableEq, Repr

def keyOf (v : Nat) (f : Filter) : Key := match f.ref with | .owned _ => .own v | .mem m => .mem m

/-- configuration under which index sets are computed -/
structure Cfg where
  cap : Nat
  k : Nat
  seed : Nat
deriving DecidableEq, Repr

def Filter.cfg (f : Filter) : Cfg := ⟨f.capBits, f.numHashes, f.seed⟩

/-- `S key` = items inserted into the bit state since its last destructive operation, under configuration `C key` -/
structure Ghost (ι : Type) where
  S : Key → List ι
  C : Key → Cfg

def Ghost.empty : Ghost ι := ⟨fun _ => [], fun _ => ⟨0, 0, 0⟩⟩

def Ghost.set (g : Ghost ι) (k : Key) (c : Cfg) (l : List ι) : Ghost ι :=
  ⟨fun k' => if k' = k then l else g.S k', fun k' => if k' = k then c else g.C k'⟩

/-- the items recorded for `k` that were inserted under configuration `c` -/
def Ghost.under (g : Ghost ι) (k : Key) (c : Cfg) : List ι := if g.C k = c then g.S k else []

/-- configuration stored in the header of a memory image -/
def hdrCfg (X : Nat) : Cfg := ⟨(getField X 128 32 * 64) % 2 ^ 32, getField X 32 16, getField X 64 64⟩

/-- a memory-backed view still agrees with the header of its memory (false after the block was
re-initialised with another configuration underneath the view) -/
def agrees (w : World) (f : Filter) : Bool :=
  match f.ref with
  | .owned _ => true
  | .mem m => decide (hdrCfg (w.blockVal m) = f.cfg)

/-- items recorded for the bit state of `f` that `f` can vouch for -/
def Ghost.seenBy (g : Ghost ι) (w : World) (v : Nat) (f : Filter) : List ι :=
  if agrees w f then g.under (keyOf v f) f.cfg else []

/-- ghost update for one op, given the world BEFORE (`w`) and AFTER (`w'`) the op and its outcome -/
def gstep [DecidableEq ι] (P : Params) (hf : ι → Nat → Option (Nat × Nat)) (g : Ghost ι) (w w' : World) (out : Out) : Op ι → Ghost ι
  | .new v _ _ _ => if out = .ok then g.set (.own v) ⟨0, 0, 0⟩ [] else g
  | .blk m _ _ => if out = .ok then g.set (.mem m) ⟨0, 0, 0⟩ [] else g
  | .init v m _ _ _ =>
    if out = .ok then (g.set (.mem m) ⟨0, 0, 0⟩ []).set (.own v) ⟨0, 0, 0⟩ [] else g
  | .upd v x | .qau v x =>
    match w.filters v with
    | some f =>
      if f.readOnly || (hf x f.seed).isNone then g
      else g.set (keyOf v f) f.cfg (if agrees w f then x :: g.under (keyOf v f) f.cfg else [])
    | none => g
  | .bits _ => g
  | .reset v =>
    match w.filters v with
    | some f => if out = .ok then g.set (keyOf v f) f.cfg [] else g
    | none => g
  | .setop op v u =>
    match w.filters v, w.filters u, out with
    | some f, some f', .nat _ =>
      let a := g.seenBy w v f
      let b := g.under (keyOf u f') f.cfg
      g.set (keyOf v f) f.cfg (if agrees w f then (match op with
        | .union => a ++ b
        | .inter => a.filter (fun x => decide (x ∈ b))
        | .invert => []) else [])
    | _, _, _ => g
  | .copy v v' =>
    match w.filters v with
    | some f => (match f.ref with
      | .owned _ => g.set (.own v') f.cfg (g.under (.own v) f.cfg)
      | .mem _ => g.set (.own v') ⟨0, 0, 0⟩ [])
    | none => g
  | .ser v m =>
    match w.filters v, out with
    | some f, .ok => g.set (.mem m) f.cfg (if f.isEmpty then [] else g.seenBy w v f)
    | _, _ => g
  | .wrap _ m v =>
    match w'.filters v, out with
    | some f', .ok => (match f'.ref with
      | .owned _ => g.set (.own v) f'.cfg
          (if (getField (w.blockVal m) 24 8 &&& P.emptyMask) != 0 then [] else g.under (.mem m) f'.cfg)
      | .mem _ => g.set (.own v) ⟨0, 0, 0⟩ [])
    | _, _ => g

structure GWorld (ι : Type) where
  w : World
  g : Ghost ι

def grun [DecidableEq ι] (P : Params) (fx : Fix) (hf : ι → Nat → Option (Nat × Nat)) (s : GWorld ι) (ops : List (Op ι)) : GWorld ι :=
  ops.foldl (fun s op => let r := step P fx hf s.w op; ⟨r.1, gstep P hf s.g s.w r.1 r.2 op⟩) s

end DS.Bloom

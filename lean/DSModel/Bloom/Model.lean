/-
Bloom filter model (bloom_filter_impl.hpp, bloom_filter_builder_impl.hpp, bit_array_ops.hpp) with an
explicit STORE of caller-memory blocks.  Core Lean only.

Representation.  A block of caller memory is `(len, val)`: `len` bytes whose little-endian value is
the natural number `val` (byte i = bits 8i..8i+7).  An owned bit array is a natural number as well
(bit i of the array = bit i of the number).  So "bit j of the bit array of a memory-backed filter" is
`val.testBit (8*BIT_ARRAY_OFFSET_BYTES + j)`; header fields are bit fields of `val` (`getField/setField`).
Every constant of the layout is a field of `Params` (regenerated from the headers, DSGen/Bloom.lean).

`Fix` selects between the code AS IT IS (`Fix.asCoded`) and the three proposed one-line repairs
(proposed_fixes/C15-*.patch); the correspondence check always runs `asCoded`.
-/
namespace DS.Bloom

/-! ### bit fields of natural numbers -/

def getField (x off w : Nat) : Nat := (x >>> off) % 2 ^ w

/-- replace bits `off .. off+w-1` of `x` by the low `w` bits of `v` -/
def setField (x off w v : Nat) : Nat := x ^^^ ((getField x off w ^^^ (v % 2 ^ w)) <<< off)

/-- number of set bits among `off .. off+n-1` -/
def popCount (x off : Nat) : Nat → Nat
  | 0 => 0
  | n + 1 => popCount x off n + (if x.testBit (off + n) then 1 else 0)

/-- set the bits `off + i`, `i ∈ is` -/
def setBits (x off : Nat) (is : List Nat) : Nat := is.foldl (fun a i => a ||| 2 ^ (off + i)) x

def allSet (x off : Nat) (is : List Nat) : Bool := is.all (fun i => x.testBit (off + i))

/-! ### parameters (from the headers) -/

structure Params where
  dirty : Nat          -- DIRTY_BITS_VALUE
  preEmpty : Nat       -- PREAMBLE_LONGS_EMPTY
  preStd : Nat         -- PREAMBLE_LONGS_STANDARD
  family : Nat         -- FAMILY_ID
  serVer : Nat         -- SER_VER
  emptyMask : Nat      -- EMPTY_FLAG_MASK
  nbsOff : Nat         -- NUM_BITS_SET_OFFSET_BYTES
  bitsOff : Nat        -- BIT_ARRAY_OFFSET_BYTES
  maxBits : Nat        -- MAX_FILTER_SIZE_BITS
  /-- shape of the readers (`deserialize`, `wrap`, `writable_wrap`), DSGen `bloom_READER_STRICT`: `true` = preamble longs must
  match the empty flag, zero `num_hashes` / `num_longs` refused, `num_longs << 6` / `<< 3` in 64 bits, bit-array length checked
  for wraps too; `false` = the pinned readers (none of these) -/
  strict : Bool := false
deriving DecidableEq, Repr

/-- the published layout -/
def refParams : Params :=
  { dirty := 2 ^ 64 - 1, preEmpty := 3, preStd := 4, family := 21, serVer := 1, emptyMask := 4,
    nbsOff := 24, bitsOff := 32, maxBits := (2147483647 - 32) * 8, strict := false }

structure Fix where
  /-- D13 repair: `internal_update` writes DIRTY_BITS_VALUE through to writable wrapped memory -/
  dirtyThrough : Bool
  /-- repair: `internal_query_and_update` leaves a dirty filter dirty instead of storing a stale count -/
  qauKeepsDirty : Bool
  /-- repair: `union_with/intersect/invert` refuse read-only filters like `update/reset` do -/
  roSetopsRefused : Bool

def Fix.asCoded : Fix := ⟨false, false, false⟩
def Fix.fixed : Fix := ⟨true, true, true⟩

/-! ### state -/

inductive Ref where
  | owned (bits : Nat)
  | mem (id : Nat)
deriving Repr, DecidableEq

structure Filter where
  seed : Nat
  numHashes : Nat
  capBits : Nat
  ref : Ref
  nbs : Nat            -- num_bits_set_
  dirty : Bool         -- is_dirty_
  readOnly : Bool      -- is_read_only_
deriving Repr, DecidableEq

structure Block where
  len : Nat
  val : Nat
deriving Repr, DecidableEq

structure World where
  filters : Nat → Option Filter
  blocks : Nat → Option Block

def World.empty : World := ⟨fun _ => none, fun _ => none⟩

def World.setFilter (w : World) (v : Nat) (f : Filter) : World :=
  { w with filters := fun i => if i = v then some f else w.filters i }

def World.setBlock (w : World) (m : Nat) (b : Block) : World :=
  { w with blocks := fun i => if i = m then some b else w.blocks i }

def World.blockVal (w : World) (m : Nat) : Nat := match w.blocks m with | some b => b.val | none => 0
def World.blockLen (w : World) (m : Nat) : Nat := match w.blocks m with | some b => b.len | none => 0

inductive Out where
  | ok | thrw | bool (b : Bool) | nat (n : Nat)
  | oob      -- outside the modelled domain (the real code would read past the buffer / divide by zero)
deriving Repr, DecidableEq

/-- bit offset of the bit array inside the number that holds it -/
def Filter.off (P : Params) (f : Filter) : Nat := match f.ref with | .owned _ => 0 | .mem _ => 8 * P.bitsOff

/-- the number that holds the bit array (the owned array, or the whole memory block) -/
def World.val (w : World) (f : Filter) : Nat := match f.ref with | .owned b => b | .mem m => w.blockVal m

/-- bit `i` of the filter's bit array -/
def World.bit (P : Params) (w : World) (f : Filter) (i : Nat) : Bool := (w.val f).testBit (f.off P + i)

/-- the capacity bits as a number -/
def World.bitsOf (P : Params) (w : World) (f : Filter) : Nat := getField (w.val f) (f.off P) f.capBits

def Filter.isEmpty (f : Filter) : Bool := !f.dirty && f.nbs == 0

/-- store new content `x` of the holding number, new cached count and dirty flag; `hdr = some n` is the
write-through of `update_num_bits_set(n)` (only for writable memory-backed filters) -/
def commit (P : Params) (w : World) (v : Nat) (f : Filter) (x : Nat) (nbs : Nat) (dirty : Bool) (hdr : Option Nat) : World :=
  match f.ref with
  | .owned _ => w.setFilter v { f with ref := .owned x, nbs := nbs, dirty := dirty }
  | .mem m =>
    let x' := match hdr with
      | some h => if f.readOnly then x else setField x (8 * P.nbsOff) 64 h
      | none => x
    (w.setBlock m ⟨w.blockLen m, x'⟩).setFilter v { f with nbs := nbs, dirty := dirty }

/-! ### hashing to bit indices -/

/-- `((h0 + i*h1) >> 1) % capacity` in uint64 arithmetic -/
def idx (h0 h1 cap i : Nat) : Nat := ((h0 + i * h1) % 2 ^ 64 / 2) % cap

/-- indices for i = 1..k, in loop order -/
def indices (h0 h1 cap k : Nat) : List Nat := (List.range k).map (fun j => idx h0 h1 cap (j + 1))

/-! ### constructors -/

def roundUp64 (n : Nat) : Nat := (n + 63) / 64 * 64

/-- argument checks of the constructors / `validate_size_inputs` (true = refused) -/
def badSize (P : Params) (numBits numHashes : Nat) : Bool :=
  numHashes == 0 || numBits == 0 || numBits > P.maxBits

def mkOwned (numBits numHashes seed : Nat) : Filter :=
  { seed := seed, numHashes := numHashes, capBits := roundUp64 numBits, ref := .owned 0, nbs := 0, dirty := false, readOnly := false }

/-- `builder::create_by_size` -/
def opNew (P : Params) (w : World) (v numBits numHashes seed : Nat) : World × Out :=
  if badSize P numBits numHashes then (w, .thrw)
  else (w.setFilter v (mkOwned numBits numHashes seed), .ok)

/-- the first 24 header bytes (count field and everything above: zero), as a number.  The code writes
these fields sequentially, so their positions are literal. -/
def headerVal (P : Params) (pre flags numHashes seed numLongs : Nat) : Nat :=
  setField (setField (setField (setField (setField (setField (setField 0
    0 8 pre) 8 8 P.serVer) 16 8 P.family) 24 8 flags) 32 16 numHashes) 64 64 seed) 128 32 numLongs

def serializedSize (P : Params) (cap : Nat) : Nat := 8 * (P.preStd + cap / 64)

/-- `builder::initialize_by_size` on the existing caller block `m` -/
def opInit (P : Params) (w : World) (v m numBits numHashes seed : Nat) : World × Out :=
  if badSize P numBits numHashes then (w, .thrw)
  else
    let cap := roundUp64 numBits
    if w.blockLen m < serializedSize P cap then (w, .thrw)
    else
      -- bytes 0..23 header, then 8*((cap/64)+1) zero bytes (count + bit array)
      let x := setField (w.blockVal m) 0 (8 * (24 + 8 * (cap / 64 + 1))) (headerVal P P.preStd 0 numHashes seed (cap / 64))
      let f : Filter := { seed := seed, numHashes := numHashes, capBits := cap, ref := .mem m, nbs := 0, dirty := false, readOnly := false }
      ((w.setBlock m ⟨w.blockLen m, x⟩).setFilter v f, .ok)

/-! ### update / query -/

def isMem (f : Filter) : Bool := match f.ref with | .mem _ => true | .owned _ => false

/-- `internal_update` (h = none: the overload ignored the item) -/
def opUpdate (P : Params) (fx : Fix) (w : World) (v : Nat) (h : Option (Nat × Nat)) : World × Out :=
  match w.filters v with
  | none => (w, .oob)
  | some f =>
    match h with
    | none => (w, .ok)
    | some (h0, h1) =>
      if f.readOnly then (w, .thrw)
      else
        let x := setBits (w.val f) (f.off P) (indices h0 h1 f.capBits f.numHashes)
        (commit P w v f x f.nbs true (if fx.dirtyThrough then some P.dirty else none), .ok)

/-- the loop of `internal_query_and_update`: (content, count, all-present) -/
def qauLoop (off : Nat) : List Nat → Nat × Nat × Bool → Nat × Nat × Bool
  | [], s => s
  | i :: t, (x, n, a) =>
    let b := x.testBit (off + i)
    qauLoop off t (x ||| 2 ^ (off + i), (n + (if b then 0 else 1)) % 2 ^ 64, a && b)

def opQau (P : Params) (fx : Fix) (w : World) (v : Nat) (h : Option (Nat × Nat)) : World × Out :=
  match w.filters v with
  | none => (w, .oob)
  | some f =>
    match h with
    | none => (w, .bool false)
    | some (h0, h1) =>
      if f.readOnly then (w, .thrw)
      else
        let is := indices h0 h1 f.capBits f.numHashes
        let (x, n, a) := qauLoop (f.off P) is (w.val f, f.nbs, true)
        if f.numHashes == 0 then (w, .bool a)
        else if fx.qauKeepsDirty && f.dirty then (commit P w v f x f.nbs true none, .bool a)
        else (commit P w v f x n false (some n), .bool a)

/-- `internal_query` -/
def query (P : Params) (w : World) (f : Filter) (h : Option (Nat × Nat)) : Bool :=
  match h with
  | none => false
  | some (h0, h1) => !f.isEmpty && allSet (w.val f) (f.off P) (indices h0 h1 f.capBits f.numHashes)

/-- `get_bits_used` -/
def opBitsUsed (P : Params) (w : World) (v : Nat) : World × Out :=
  match w.filters v with
  | none => (w, .oob)
  | some f =>
    if f.dirty then
      let n := popCount (w.val f) (f.off P) f.capBits
      (w.setFilter v { f with nbs := n, dirty := false }, .nat n)
    else (w, .nat f.nbs)

def opReset (P : Params) (w : World) (v : Nat) : World × Out :=
  match w.filters v with
  | none => (w, .oob)
  | some f =>
    if f.readOnly then (w, .thrw)
    else (commit P w v f (setField (w.val f) (f.off P) f.capBits 0) 0 false (some 0), .ok)

/-! ### set operations -/

def compatible (f g : Filter) : Bool := f.seed == g.seed && f.numHashes == g.numHashes && f.capBits == g.capBits

inductive SetOp where | union | inter | invert
deriving Repr, DecidableEq

def combine (op : SetOp) (cap a b : Nat) : Nat :=
  match op with
  | .union => a ||| b
  | .inter => a &&& b
  | .invert => a ^^^ (2 ^ cap - 1)

/-- the Boolean operation a set operation is supposed to be, bit by bit -/
def combineBit (op : SetOp) (a b : Bool) : Bool :=
  match op with
  | .union => a || b
  | .inter => a && b
  | .invert => !a

/-- `union_with / intersect / invert` (for invert `u` is ignored: pass `v`) -/
def opSet (P : Params) (fx : Fix) (w : World) (op : SetOp) (v u : Nat) : World × Out :=
  match w.filters v, w.filters u with
  | some f, some g =>
    if fx.roSetopsRefused && f.readOnly then (w, .thrw)
    else if op != .invert && !compatible f g then (w, .thrw)
    else
      let x := setField (w.val f) (f.off P) f.capBits (combine op f.capBits (w.bitsOf P f) (w.bitsOf P g))
      let n := popCount x (f.off P) f.capBits
      (commit P w v f x n false (some n), .nat n)
  | _, _ => (w, .oob)

/-! ### copies, images, wraps -/

def opCopy (w : World) (v v' : Nat) : World × Out :=
  match w.filters v with
  | none => (w, .oob)
  | some f => (w.setFilter v' f, .ok)

/-- the serialized image of a filter (`serialize`, both variants; fields written sequentially) -/
def image (P : Params) (w : World) (f : Filter) : Block :=
  if f.isEmpty then
    ⟨8 * P.preEmpty, headerVal P P.preEmpty P.emptyMask f.numHashes f.seed (f.capBits / 64)⟩
  else
    ⟨8 * (P.preStd + f.capBits / 64),
     setField (setField (headerVal P P.preStd 0 f.numHashes f.seed (f.capBits / 64))
       192 64 (if f.dirty then P.dirty else f.nbs)) 256 f.capBits (w.bitsOf P f)⟩

/-- serialize `v` into the NEW caller block `m` (block ids are never reused: a block is memory that views may point into) -/
def opSer (P : Params) (w : World) (v m : Nat) : World × Out :=
  match w.filters v, w.blocks m with
  | some f, none => (w.setBlock m (image P w f), .ok)
  | _, _ => (w, .oob)

/-- the history supplies a NEW caller block with arbitrary content -/
def opBlk (w : World) (m len val : Nat) : World × Out :=
  match w.blocks m with
  | none => (w.setBlock m ⟨len, val % 2 ^ (8 * len)⟩, .ok)
  | some _ => (w, .oob)

inductive WrapKind where | deser | wrap | wwrap
deriving Repr, DecidableEq

/-- outcome of the header checks shared by deserialize / wrap / writable_wrap -/
inductive Parsed where
  | refuse                                   -- an exception
  | outside                                  -- outside the modelled domain (count read past a short buffer; zero-length array)
  | emptyImg (numBits nh seed : Nat)          -- image with the EMPTY flag
  | full (cap nh seed nbs nl : Nat)           -- standard image
deriving Repr, DecidableEq

/-- `num_longs << 6`: 64-bit in the strict readers, 32-bit (wrapping) in the pinned ones -/
def capOf (P : Params) (nl : Nat) : Nat := if P.strict then nl * 64 else (nl * 64) % 2 ^ 32

/-- `num_longs << 3` -/
def nbytesOf (P : Params) (nl : Nat) : Nat := if P.strict then nl * 8 else (nl * 8) % 2 ^ 32

def parseImage (P : Params) (b : Block) : Parsed :=
  let L := b.len
  let X := b.val
  if L < 8 then .refuse else
  let pre := getField X 0 8
  if pre < P.preEmpty || pre > P.preStd then .refuse else
  if getField X 8 8 != P.serVer then .refuse else
  if getField X 16 8 != P.family then .refuse else
  -- strict readers: preamble longs must match the empty flag
  if P.strict && pre != (if getField X 24 8 &&& P.emptyMask != 0 then P.preEmpty else P.preStd) then .refuse else
  if L < pre * 8 then .refuse else
  let nh := getField X 32 16
  let seed := getField X 64 64
  let nl := getField X 128 32
  -- strict readers: zero hash functions / zero-length bit array
  if P.strict && (nh == 0 || nl == 0) then .refuse else
  if getField X 24 8 &&& P.emptyMask != 0 then .emptyImg (capOf P nl) nh seed
  else if L < 32 then .outside
  else if capOf P nl == 0 then .outside
  else .full (capOf P nl) nh seed (getField X 192 64) nl

def deserFilter (P : Params) (X cap nh seed nbs nl : Nat) : Filter :=
  { seed := seed, numHashes := nh, capBits := cap, ref := .owned (getField X 256 (8 * nbytesOf P nl)),
    nbs := nbs, dirty := nbs == P.dirty, readOnly := false }

def wrapFilter (P : Params) (m X cap nh seed nbs : Nat) (ro : Bool) : Filter :=
  { seed := seed, numHashes := nh, capBits := cap, ref := .mem m,
    nbs := if ro && nbs == P.dirty then popCount X (8 * P.bitsOff) cap else nbs,
    dirty := nbs == P.dirty, readOnly := ro }

/-- `internal_deserialize_or_wrap` on block `m`, result bound to `v` -/
def opWrap (P : Params) (w : World) (k : WrapKind) (m v : Nat) : World × Out :=
  match w.blocks m with
  | none => (w, .oob)
  | some b =>
    match parseImage P b with
    | .refuse => (w, .thrw)
    | .outside => (w, .oob)
    | .emptyImg numBits nh seed =>
      -- writable wrap of an empty image is refused; otherwise a fresh owned filter from the plain constructor
      if k == .wwrap then (w, .thrw)
      else if badSize P numBits nh then (w, .thrw)
      else (w.setFilter v (mkOwned numBits nh seed), .ok)
    | .full cap nh seed nbs nl =>
      -- strict readers: the bit array must be inside the buffer whether it is copied or wrapped
      if P.strict && decide (b.len - 32 < nbytesOf P nl) then (w, .thrw) else
      match k with
      | .deser =>
        if b.len - 32 < nbytesOf P nl then (w, .thrw)
        else (w.setFilter v (deserFilter P b.val cap nh seed nbs nl), .ok)
      | .wrap =>
        if b.len < 32 + cap / 8 then (w, .oob) else (w.setFilter v (wrapFilter P m b.val cap nh seed nbs true), .ok)
      | .wwrap =>
        if b.len < 32 + cap / 8 then (w, .oob) else (w.setFilter v (wrapFilter P m b.val cap nh seed nbs false), .ok)

end DS.Bloom

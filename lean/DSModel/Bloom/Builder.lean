/-
Bloom filter builder arithmetic (bloom_filter_builder_impl.hpp): `suggest_num_filter_bits`,
`suggest_num_hashes` (both overloads), `validate_accuracy_inputs`.  Executed with Lean `Float`
(IEEE binary64, same libm) in the code's operation order.  Core Lean only.
-/
namespace DS.Bloom

/-- `validate_accuracy_inputs` (true = refused) -/
def badAccuracy (n : Nat) (p : Float) : Bool := n == 0 || p <= 0.0 || p > 1.0

def ln2 : Float := Float.log 2.0

/-- `suggest_num_filter_bits(n, p)` after validation -/
def suggestNumFilterBits (n : Nat) (p : Float) : Nat :=
  (Float.ceil (-(Float.ofNat n) * Float.log p / (ln2 * ln2))).toUInt64.toNat

/-- `suggest_num_hashes(p)` after validation -/
def suggestNumHashesP (p : Float) : Nat :=
  (Float.ceil (-(Float.log p) / ln2)).toUInt64.toNat % 65536

/-- `suggest_num_hashes(n, bits)` after its argument checks -/
def suggestNumHashesNB (n bits : Nat) : Nat :=
  (Float.ceil (Float.ofNat bits / Float.ofNat n * ln2)).toUInt64.toNat % 65536

end DS.Bloom

/-
Bloom filter: how each `update/query/query_and_update` overload is turned into the two 64-bit
hashes (bloom_filter_impl.hpp:543-622).  NOT the theta canonicalisation:
  * unsigned integers narrower than 64 bits are ZERO-extended to uint64 (`static_cast<uint64_t>`),
    signed ones are sign-extended to int64; both hash their 8 little-endian bytes;
  * double: -0.0 -> +0.0, every NaN -> 0x7ff8000000000000; float is widened to double first;
  * std::string: its bytes, the empty string is ignored; (ptr,len): the bytes, null/zero length ignored;
  * h0 = XXH64(bytes, seed), h1 = XXH64(bytes, h0).
Core Lean only.
-/
import DSModel.XXHash64
import DSModel.Canon
namespace DS.Bloom

/-- `none` = the call is a no-op (update) / answers false (query, query_and_update) -/
def canonBytes : Input → Option ByteArray
  | .u64 v => some (le64 (UInt64.ofNat v))
  | .i64 v => some (le64 (int64Bits v))
  | .u32 v => some (le64 (UInt64.ofNat (v % 2^32)))
  | .i32 v => some (le64 (int64Bits (signedOfWidth 32 v)))
  | .u16 v => some (le64 (UInt64.ofNat (v % 2^16)))
  | .i16 v => some (le64 (int64Bits (signedOfWidth 16 v)))
  | .u8 v  => some (le64 (UInt64.ofNat (v % 2^8)))
  | .i8 v  => some (le64 (int64Bits (signedOfWidth 8 v)))
  | .f64 b => some (le64 (canonicalDouble (Float.ofBits b)))
  | .f32 b => some (le64 (canonicalDouble (Float32.ofBits b).toFloat))
  | .str b => if b.size == 0 then none else some b
  | .raw b => if b.size == 0 then none else some b

/-- (h0, h1) as natural numbers below 2^64 -/
def hashPair (P : XXH.Primes) (i : Input) (seed : Nat) : Option (Nat × Nat) :=
  match canonBytes i with
  | none => none
  | some b =>
    let h0 := XXH.hash P b (UInt64.ofNat seed)
    let h1 := XXH.hash P b h0
    some (h0.toNat, h1.toNat)

end DS.Bloom

/-
Line-protocol driver state for the Bloom model (see harness/bloom_h.cpp for the op lines).
Every op prints `<out> | <one record per live view> | <one record per caller block>`.
Core Lean only.
-/
import DSModel.Bloom.Model
import DSModel.Bloom.Builder
import DSModel.Bloom.Hash
import DSModel.Util
namespace DS.Bloom

structure DState where
  w : World := World.empty
  views : List Nat := []      -- live view ids, ascending
  blks : List Nat := []       -- live block ids, ascending
  univ : List Input := []

def insertId (x : Nat) : List Nat → List Nat
  | [] => [x]
  | y :: t => if x < y then x :: y :: t else if x = y then y :: t else y :: insertId x t

def blockHex (b : Block) : String :=
  if b.len == 0 then "-" else
  (List.range b.len).foldl (fun s i => s ++ hexN 2 ((b.val >>> (8 * i)) % 256)) ""

def outStr : Out → String
  | .ok => "ok" | .thrw => "throw" | .bool b => s!"b{boolStr b}" | .nat n => s!"n{n}" | .oob => "oob"

def viewRec (P : Params) (X : XXH.Primes) (s : DState) (v : Nat) : String :=
  match s.w.filters v with
  | none => s!"v{v}=?"
  | some f =>
    let q := s.univ.foldl (fun acc i => acc ++ boolStr (query P s.w f (hashPair X i f.seed))) ""
    s!"v{v}={boolStr f.isEmpty}{boolStr f.readOnly}{boolStr (isMem f)}{boolStr (!isMem f)}:{f.capBits}:{f.numHashes}:{f.seed}:{q}:{blockHex (image P s.w f)}"

def blkRec (s : DState) (m : Nat) : String :=
  match s.w.blocks m with
  | none => s!"m{m}=?"
  | some b => s!"m{m}={blockHex b}"

def observe (P : Params) (X : XXH.Primes) (s : DState) (o : String) : String :=
  o ++ " |" ++ s.views.foldl (fun a v => a ++ " " ++ viewRec P X s v) "" ++ " |" ++ s.blks.foldl (fun a m => a ++ " " ++ blkRec s m) ""

def parseUniv : List String → Option (List Input)
  | [] => some []
  | ty :: lit :: t => match parseInput ty lit, parseUniv t with
    | some i, some r => some (i :: r)
    | _, _ => none
  | _ => none

def blockOfHex (h : String) : Option Block :=
  (fun (b : ByteArray) => (⟨b.size, b.foldl (fun (acc : Nat × Nat) x => (acc.1 + x.toNat * 2 ^ (8 * acc.2), acc.2 + 1)) (0, 0) |>.1⟩ : Block)) <$> parseHexBytes h

/-- register the result view `v` only when the op produced one -/
def withView (s : DState) (r : World × Out) (v : Nat) : DState × Out :=
  match r.2 with
  | .ok => ({ s with w := r.1, views := insertId v s.views }, r.2)
  | _ => ({ s with w := r.1 }, r.2)

def hashOf (X : XXH.Primes) (s : DState) (v : Nat) (ty lit : String) : Option (Option (Nat × Nat)) :=
  match parseInput ty lit, s.w.filters v with
  | some i, some f => some (hashPair X i f.seed)
  | _, _ => none

def stepCore (P : Params) (X : XXH.Primes) (fx : Fix) (s : DState) (w : List String) : Option (DState × Out) :=
  match w with
  | "univ" :: t => (fun u => ({ s with univ := u }, Out.ok)) <$> parseUniv t
  | ["new", v, nb, nh, seed] => do
      let v ← v.toNat?; let nb ← nb.toNat?; let nh ← nh.toNat?; let seed ← seed.toNat?
      pure (withView s (opNew P s.w v nb (nh % 65536) seed) v)
  | ["newacc", v, n, p, seed] => do
      let v ← v.toNat?; let n ← n.toNat?; let p ← parseHex p; let seed ← seed.toNat?
      let p := Float.ofBits (UInt64.ofNat p)
      if badAccuracy n p then pure (s, Out.thrw)
      else pure (withView s (opNew P s.w v (suggestNumFilterBits n p) (suggestNumHashesP p) seed) v)
  | ["blk", m, h] => do
      let m ← m.toNat?; let b ← blockOfHex h
      let r := opBlk s.w m b.len b.val
      pure ({ s with w := r.1, blks := if r.2 == Out.ok then insertId m s.blks else s.blks }, r.2)
  | ["init", v, m, nb, nh, seed] => do
      let v ← v.toNat?; let m ← m.toNat?; let nb ← nb.toNat?; let nh ← nh.toNat?; let seed ← seed.toNat?
      pure (withView s (opInit P s.w v m nb (nh % 65536) seed) v)
  | ["initacc", v, m, n, p, seed] => do
      let v ← v.toNat?; let m ← m.toNat?; let n ← n.toNat?; let p ← parseHex p; let seed ← seed.toNat?
      let p := Float.ofBits (UInt64.ofNat p)
      if badAccuracy n p then pure (s, Out.thrw)
      else pure (withView s (opInit P s.w v m (suggestNumFilterBits n p) (suggestNumHashesP p) seed) v)
  | ["upd", v, ty, lit] => do
      let v ← v.toNat?; let h ← hashOf X s v ty lit
      let r := opUpdate P fx s.w v h
      pure ({ s with w := r.1 }, r.2)
  | ["qau", v, ty, lit] => do
      let v ← v.toNat?; let h ← hashOf X s v ty lit
      let r := opQau P fx s.w v h
      pure ({ s with w := r.1 }, r.2)
  | ["q", v, ty, lit] => do
      let v ← v.toNat?; let h ← hashOf X s v ty lit; let f ← s.w.filters v
      pure (s, Out.bool (query P s.w f h))
  | ["bits", v] => do
      let v ← v.toNat?
      let r := opBitsUsed P s.w v
      pure ({ s with w := r.1 }, r.2)
  | ["reset", v] => do
      let v ← v.toNat?
      let r := opReset P s.w v
      pure ({ s with w := r.1 }, r.2)
  | ["union", v, u] => do
      let v ← v.toNat?; let u ← u.toNat?
      let r := opSet P fx s.w .union v u
      pure ({ s with w := r.1 }, r.2)
  | ["inter", v, u] => do
      let v ← v.toNat?; let u ← u.toNat?
      let r := opSet P fx s.w .inter v u
      pure ({ s with w := r.1 }, r.2)
  | ["invert", v] => do
      let v ← v.toNat?
      let r := opSet P fx s.w .invert v v
      pure ({ s with w := r.1 }, r.2)
  | ["copy", v, v'] => do
      let v ← v.toNat?; let v' ← v'.toNat?
      pure (withView s (opCopy s.w v v') v')
  | ["ser", v, m, _] => do
      let v ← v.toNat?; let m ← m.toNat?
      let r := opSer P s.w v m
      pure ({ s with w := r.1, blks := if r.2 == Out.ok then insertId m s.blks else s.blks }, r.2)
  | ["deser", m, v, _] => do
      let m ← m.toNat?; let v ← v.toNat?
      pure (withView s (opWrap P s.w .deser m v) v)
  | ["wrap", m, v] => do
      let m ← m.toNat?; let v ← v.toNat?
      pure (withView s (opWrap P s.w .wrap m v) v)
  | ["wwrap", m, v] => do
      let m ← m.toNat?; let v ← v.toNat?
      pure (withView s (opWrap P s.w .wwrap m v) v)
  | ["drop", v] => do
      let v ← v.toNat?
      pure ({ s with w := { s.w with filters := fun i => if i = v then none else s.w.filters i }, views := s.views.filter (· != v) }, Out.ok)
  | _ => none

/-- which view / block ids an op line needs to exist (the harness answers `noview` / `noblk` otherwise) -/
def needs (w : List String) : List String × List String :=
  match w with
  | [op, a] => if op ∈ ["bits", "reset", "invert", "drop"] then ([a], []) else ([], [])
  | [op, a, b] =>
    if op ∈ ["union", "inter"] then ([a, b], [])
    else if op == "copy" then ([a], [])
    else if op ∈ ["wrap", "wwrap"] then ([], [a]) else ([], [])
  | [op, a, b, _] =>
    if op ∈ ["upd", "qau", "q", "ser"] then ([a], [])
    else if op == "deser" then ([], [a]) else ([], [])
  | [op, _, b, _, _, _] => if op ∈ ["init", "initacc"] then ([], [b]) else ([], [])
  | _ => ([], [])

def missing (s : DState) (w : List String) : Option String :=
  let (vs, bs) := needs w
  if vs.any (fun a => match a.toNat? with | some v => (s.w.filters v).isNone | none => false) then some "noview"
  else if bs.any (fun a => match a.toNat? with | some m => (s.w.blocks m).isNone | none => false) then some "noblk"
  else none

def stepLine (P : Params) (X : XXH.Primes) (fx : Fix) (s : DState) (w : List String) : DState × String :=
  match missing s w with
  | some o => (s, observe P X s o)
  | none =>
  match stepCore P X fx s w with
  | some (s', o) => (s', observe P X s' (outStr o))
  | none => (s, "bad-op")

/-- builder arithmetic tie: `sugg bits n p | hp p | hnb n bits` -/
def suggStep (P : Params) (w : List String) : String :=
  match w with
  | ["bits", n, p] => match n.toNat?, parseHex p with
    | some n, some p =>
      let p := Float.ofBits (UInt64.ofNat p)
      if badAccuracy n p then "throw" else s!"n{suggestNumFilterBits n p}"
    | _, _ => "bad-op"
  | ["hp", p] => match parseHex p with
    | some p =>
      let p := Float.ofBits (UInt64.ofNat p)
      if badAccuracy 100 p then "throw" else s!"n{suggestNumHashesP p}"
    | none => "bad-op"
  | ["hnb", n, b] => match n.toNat?, b.toNat? with
    | some n, some b => if n == 0 || b == 0 || b > P.maxBits then "throw" else s!"n{suggestNumHashesNB n b}"
    | _, _ => "bad-op"
  | _ => "bad-op"

end DS.Bloom

/-
`dsmodel_bloom bloomghost`: runs the model AND the promise ghost (Promise.lean) on the op lines of a history and
prints, per op, for every live view `g<id>=<promised><in-sync>:<which universe items are in its must-set M>`.
The check compares this with the Python oracle's own book-keeping, so that the full statement proved / refuted in
Lean and the oracle applied to the implementation's traces are the same promise.  Items are identified by their
canonical bytes (`List UInt8`, empty = ignored item).  Core Lean only.
-/
import DSModel.Bloom.Promise
import DSModel.Bloom.Driver
namespace DS.Bloom

abbrev Item := List UInt8

def itemOf (i : Input) : Item := match canonBytes i with | some b => b.toList | none => []

def hfItem (X : XXH.Primes) (x : Item) (seed : Nat) : Option (Nat × Nat) :=
  if x.isEmpty then none else hashPair X (.raw (ByteArray.mk x.toArray)) seed

structure GState where
  s : PWorld Item := PWorld.start
  views : List Nat := []
  univ : List Item := []

def gObserve (g : GState) : String :=
  g.views.foldl (fun acc v =>
    match g.s.w.filters v, g.s.p.vi v with
    | some f, some i =>
      acc ++ s!" g{v}={boolStr i.promised}{boolStr (inSync g.s.p v f i)}:" ++
        g.univ.foldl (fun a x => a ++ boolStr (!x.isEmpty && i.promised && decide (x ∈ i.M))) ""
    | _, _ => acc ++ s!" g{v}=?") "G"

def gApply (P : Params) (X : XXH.Primes) (fx : Fix) (g : GState) (op : Op Item) (newView : Option Nat) : GState :=
  let r := step P fx (hfItem X) g.s.w op
  let p' := pstep (hfItem X) g.s.p g.s.w r.1 r.2 op
  let views := match newView, r.2 with
    | some v, .ok => insertId v g.views
    | _, _ => g.views
  { g with s := ⟨r.1, p'⟩, views := views }

def gStep (P : Params) (X : XXH.Primes) (fx : Fix) (g : GState) (w : List String) : GState × String :=
  let ok (g' : GState) := (g', gObserve g')
  let bad := (g, "bad-op")
  match w with
  | "univ" :: t => match parseUniv t with
    | some u => ok { g with univ := u.map itemOf }
    | none => bad
  | ["new", v, nb, nh, seed] => match v.toNat?, nb.toNat?, nh.toNat?, seed.toNat? with
    | some v, some nb, some nh, some seed => ok (gApply P X fx g (.new v nb nh seed) (some v))
    | _, _, _, _ => bad
  | ["newacc", v, n, p, seed] => match v.toNat?, n.toNat?, parseHex p, seed.toNat? with
    | some v, some n, some p, some seed =>
      let pf := Float.ofBits (UInt64.ofNat p)
      if badAccuracy n pf then ok g
      else ok (gApply P X fx g (.new v (suggestNumFilterBits n pf) (suggestNumHashesP pf) seed) (some v))
    | _, _, _, _ => bad
  | ["blk", m, h] => match m.toNat?, blockOfHex h with
    | some m, some b => ok (gApply P X fx g (.blk m b.len b.val) none)
    | _, _ => bad
  | ["init", v, m, nb, nh, seed] => match v.toNat?, m.toNat?, nb.toNat?, nh.toNat?, seed.toNat? with
    | some v, some m, some nb, some nh, some seed =>
      if (g.s.w.blocks m).isNone then ok g else ok (gApply P X fx g (.init v m nb nh seed) (some v))
    | _, _, _, _, _ => bad
  | ["initacc", v, m, n, p, seed] => match v.toNat?, m.toNat?, n.toNat?, parseHex p, seed.toNat? with
    | some v, some m, some n, some p, some seed =>
      let pf := Float.ofBits (UInt64.ofNat p)
      if badAccuracy n pf || (g.s.w.blocks m).isNone then ok g
      else ok (gApply P X fx g (.init v m (suggestNumFilterBits n pf) (suggestNumHashesP pf) seed) (some v))
    | _, _, _, _, _ => bad
  | [op, v, ty, lit] =>
    if op == "upd" || op == "qau" then
      match v.toNat?, parseInput ty lit with
      | some v, some i => ok (gApply P X fx g (if op == "upd" then .upd v (itemOf i) else .qau v (itemOf i)) none)
      | _, _ => bad
    else if op == "q" then ok g
    else if op == "ser" then
      match v.toNat?, ty.toNat? with
      | some v, some m => ok (gApply P X fx g (.ser v m) none)
      | _, _ => bad
    else if op == "deser" then
      match v.toNat?, ty.toNat? with
      | some m, some v' => ok (gApply P X fx g (.wrap .deser m v') (some v'))
      | _, _ => bad
    else bad
  | ["bits", v] => match v.toNat? with | some v => ok (gApply P X fx g (.bits v) none) | none => bad
  | ["reset", v] => match v.toNat? with | some v => ok (gApply P X fx g (.reset v) none) | none => bad
  | ["union", v, u] => match v.toNat?, u.toNat? with
    | some v, some u => ok (gApply P X fx g (.setop .union v u) none) | _, _ => bad
  | ["inter", v, u] => match v.toNat?, u.toNat? with
    | some v, some u => ok (gApply P X fx g (.setop .inter v u) none) | _, _ => bad
  | ["invert", v] => match v.toNat? with | some v => ok (gApply P X fx g (.setop .invert v v) none) | none => bad
  | ["copy", v, v'] => match v.toNat?, v'.toNat? with
    | some v, some v' => if (g.s.w.filters v).isNone then ok g else ok (gApply P X fx g (.copy v v') (some v'))
    | _, _ => bad
  | ["wrap", m, v] => match m.toNat?, v.toNat? with
    | some m, some v => ok (gApply P X fx g (.wrap .wrap m v) (some v)) | _, _ => bad
  | ["wwrap", m, v] => match m.toNat?, v.toNat? with
    | some m, some v => ok (gApply P X fx g (.wrap .wwrap m v) (some v)) | _, _ => bad
  | ["drop", v] => match v.toNat? with
    | some v =>
      if (g.s.w.filters v).isNone then ok g
      else ok { g with
        s := ⟨{ g.s.w with filters := fun i => if i = v then none else g.s.w.filters i },
              { g.s.p with vi := fun i => if i = v then none else g.s.p.vi i }⟩,
        views := g.views.filter (· != v) }
    | none => bad
  | _ => bad

end DS.Bloom

/-
Ghost 2: the PROMISES of property C15, per view (this is the book-keeping of the Python oracle in
vlib/props/c15.py, written as a Lean function so that the full statement can be stated, refuted for
the code as it is, and proved for the repaired model).

  S(state)  items inserted into a bit state (owned array / caller block) since its last destructive op
  M(view)   items the view must report present: S(state) when the view was created (copy, deserialize,
            wrap, writable_wrap), plus what was inserted / unioned through the view itself
  single-writer discipline: each block has a version, bumped by every write; a view is in sync when it
            was created at / last wrote the current version.  A write through a view that is not in sync
            (its cached count is stale), or through a read-only view, TAINTS the block: nothing is promised
            about it any more.  Raw byte blocks supplied by the history are tainted from the start.
Core Lean only.
-/
import DSModel.Bloom.Spec
namespace DS.Bloom

structure VInfo (ι : Type) where
  M : List ι
  promised : Bool
  sync : Nat
deriving DecidableEq

structure SInfo (ι : Type) where
  S : List ι
  ver : Nat
  tainted : Bool

structure PGhost (ι : Type) where
  vi : Nat → Option (VInfo ι)
  si : Key → SInfo ι

variable {ι : Type}

def PGhost.empty : PGhost ι := ⟨fun _ => none, fun _ => ⟨[], 0, false⟩⟩

def PGhost.setV (p : PGhost ι) (v : Nat) (i : VInfo ι) : PGhost ι :=
  { p with vi := fun v' => if v' = v then some i else p.vi v' }

def PGhost.setS (p : PGhost ι) (k : Key) (s : SInfo ι) : PGhost ι :=
  { p with si := fun k' => if k' = k then s else p.si k' }

/-- apply `fn` to the info of every view whose bit state (in world `w`) is `k` -/
def PGhost.mapViewsOf (p : PGhost ι) (w : World) (k : Key) (fn : VInfo ι → VInfo ι) : PGhost ι :=
  { p with vi := fun v' => match p.vi v', w.filters v' with
      | some i, some f => if keyOf v' f = k then some (fn i) else some i
      | x, _ => x }

def PGhost.taint (p : PGhost ι) (w : World) (k : Key) : PGhost ι :=
  (p.setS k ⟨[], (p.si k).ver, true⟩).mapViewsOf w k (fun i => { i with M := [] })

/-- a write through view `v` (filter `f`, info `i`): new ghost, and whether promises about the written state survive -/
def PGhost.write (p : PGhost ι) (w : World) (v : Nat) (f : Filter) (i : VInfo ι) : PGhost ι × Bool :=
  match keyOf v f with
  | .own _ => (p, i.promised)
  | .mem m =>
    let s := p.si (.mem m)
    if s.tainted then (p, false)
    else if i.sync != s.ver || f.readOnly then (p.taint w (.mem m), false)
    else ((p.setS (.mem m) { s with ver := s.ver + 1 }).setV v { i with sync := s.ver + 1 }, i.promised)

/-- a destructive operation leaves `newS` in state `k`; every view of that state loses its must-set (the acting view
gets its own back from the caller) -/
def PGhost.destructive (p : PGhost ι) (w : World) (k : Key) (newS : List ι) : PGhost ι :=
  (p.setS k { p.si k with S := newS }).mapViewsOf w k (fun i => { i with M := [] })

def inSync (p : PGhost ι) (v : Nat) (f : Filter) (i : VInfo ι) : Bool :=
  match keyOf v f with
  | .own _ => true
  | .mem m => !(p.si (.mem m)).tainted && i.sync == (p.si (.mem m)).ver

def pstep [DecidableEq ι] (hf : ι → Nat → Option (Nat × Nat)) (p : PGhost ι) (w w' : World) (out : Out) : Op ι → PGhost ι
  | .new v _ _ _ => if out = .ok then (p.setS (.own v) ⟨[], 0, false⟩).setV v ⟨[], true, 0⟩ else p
  | .blk m _ _ => if out = .ok then p.setS (.mem m) ⟨[], 0, true⟩ else p
  | .init v m _ _ _ =>
    if out = .ok then
      let ver := (p.si (.mem m)).ver + 1
      (((p.setS (.mem m) ⟨[], ver, false⟩).mapViewsOf w (.mem m) (fun i => { i with M := [] })).setV v ⟨[], true, ver⟩)
    else p
  | .upd v x | .qau v x =>
    match w.filters v, p.vi v with
    | some f, some i =>
      if f.readOnly || (hf x f.seed).isNone then p
      else
        let (p1, keep) := p.write w v f i
        if keep then
          let k := keyOf v f
          let p2 := p1.setS k { p1.si k with S := x :: (p1.si k).S }
          match p2.vi v with
          | some i2 => p2.setV v { i2 with M := x :: i2.M }
          | none => p2
        else p1
    | _, _ => p
  | .bits _ => p
  | .reset v =>
    match w.filters v, p.vi v with
    | some f, some i => if out = .ok then ((p.write w v f i).1).destructive w (keyOf v f) [] else p
    | _, _ => p
  | .setop op v u =>
    match w.filters v, w.filters u, p.vi v, out with
    | some f, some f', some i, .nat _ =>
      -- the source's recorded items count only if the source view still agrees with the header of its memory
      let su := if agrees w f' then (p.si (keyOf u f')).S else []
      let (p1, keep) := p.write w v f i
      let kv := keyOf v f
      match op with
      | .union =>
        if keep then
          let p2 := p1.setS kv { p1.si kv with S := (p1.si kv).S ++ su }
          match p2.vi v with
          | some i2 => p2.setV v { i2 with M := (p2.si kv).S }
          | none => p2
        else p1
      | .inter =>
        let p2 := p1.destructive w kv ((p1.si kv).S.filter (fun x => decide (x ∈ su)))
        if keep then
          match p1.vi v with
          | some i1 => p2.setV v { i1 with M := i1.M.filter (fun x => decide (x ∈ su)) }
          | none => p2
        else p2
      | .invert => p1.destructive w kv []
    | _, _, _, _ => p
  | .copy v v' =>
    match w.filters v, p.vi v with
    | some f, some i => (match f.ref with
      | .owned _ => (p.setS (.own v') ⟨(p.si (.own v)).S, 0, false⟩).setV v' i
      | .mem _ => p.setV v' i)
    | _, _ => p
  | .ser v m =>
    match w.filters v, p.vi v, out with
    | some f, some i, .ok =>
      -- the image inherits the promises of an in-sync view only (a stale view serializes its stale count)
      let ok := i.promised && !(p.si (keyOf v f)).tainted && inSync p v f i
      p.setS (.mem m) ⟨if ok then i.M else [], 0, !ok⟩
    | _, _, _ => p
  | .wrap _ m v =>
    match w'.filters v, out with
    | some f', .ok =>
      let s := p.si (.mem m)
      (match f'.ref with
       | .owned _ => (p.setS (.own v) ⟨s.S, 0, false⟩).setV v ⟨s.S, !s.tainted, 0⟩
       | .mem _ => p.setV v ⟨s.S, !s.tainted, s.ver⟩)
    | _, _ => p

structure PWorld (ι : Type) where
  w : World
  p : PGhost ι

def PWorld.start : PWorld ι := ⟨World.empty, PGhost.empty⟩

def prun [DecidableEq ι] (P : Params) (fx : Fix) (hf : ι → Nat → Option (Nat × Nat)) (s : PWorld ι) (ops : List (Op ι)) : PWorld ι :=
  ops.foldl (fun s op => let r := step P fx hf s.w op; ⟨r.1, pstep hf s.p s.w r.1 r.2 op⟩) s

/-! ### the full statements of C15 (see DSProofs/Props/C15.lean) and Boolean witness checkers for their negations -/

/-- after any history, every live view that still carries a promise reports every item of its must-set present -/
def NoFalseNegFull [DecidableEq ι] (P : Params) (fx : Fix) (hf : ι → Nat → Option (Nat × Nat)) : Prop :=
  ∀ (ops : List (Op ι)) (v : Nat) (f : Filter) (i : VInfo ι),
    (prun P fx hf PWorld.start ops).w.filters v = some f →
    (prun P fx hf PWorld.start ops).p.vi v = some i → i.promised = true →
    ∀ x, x ∈ i.M → query P (prun P fx hf PWorld.start ops).w f (hf x f.seed) = true

/-- "after history `ops`, promised view `v` must report `x` but answers absent" -/
def fnWitness [DecidableEq ι] (P : Params) (fx : Fix) (hf : ι → Nat → Option (Nat × Nat)) (ops : List (Op ι)) (v : Nat) (x : ι) : Bool :=
  match (prun P fx hf PWorld.start ops).w.filters v, (prun P fx hf PWorld.start ops).p.vi v with
  | some f, some i => i.promised && decide (x ∈ i.M) && !(query P (prun P fx hf PWorld.start ops).w f (hf x f.seed))
  | _, _ => false

/-- on every promised, in-sync view, `query_and_update x` returns exactly `query x` evaluated before the call -/
def QauPriorFull [DecidableEq ι] (P : Params) (fx : Fix) (hf : ι → Nat → Option (Nat × Nat)) : Prop :=
  ∀ (ops : List (Op ι)) (v : Nat) (f : Filter) (i : VInfo ι) (x : ι) (b : Bool),
    (prun P fx hf PWorld.start ops).w.filters v = some f →
    (prun P fx hf PWorld.start ops).p.vi v = some i → i.promised = true → inSync (prun P fx hf PWorld.start ops).p v f i = true →
    (step P fx hf (prun P fx hf PWorld.start ops).w (.qau v x)).2 = .bool b →
    b = query P (prun P fx hf PWorld.start ops).w f (hf x f.seed)

/-- "after `ops`, on promised in-sync view `v`, query_and_update(x) would return `b` but query(x) is `!b`" -/
def qauWitness [DecidableEq ι] (P : Params) (fx : Fix) (hf : ι → Nat → Option (Nat × Nat)) (ops : List (Op ι)) (v : Nat) (x : ι) (b : Bool) : Bool :=
  match (prun P fx hf PWorld.start ops).w.filters v, (prun P fx hf PWorld.start ops).p.vi v with
  | some f, some i => i.promised && inSync (prun P fx hf PWorld.start ops).p v f i &&
      decide ((step P fx hf (prun P fx hf PWorld.start ops).w (.qau v x)).2 = .bool b) &&
      (query P (prun P fx hf PWorld.start ops).w f (hf x f.seed) != b)
  | _, _ => false

/-- "in world `w`, the set operation through read-only view `v` is not refused" -/
def roSetopWitness (P : Params) (fx : Fix) (w : World) (op : SetOp) (v u : Nat) : Bool :=
  match w.filters v, w.filters u with
  | some f, some _ => f.readOnly && decide ((opSet P fx w op v u).2 ≠ .thrw)
  | _, _ => false

end DS.Bloom

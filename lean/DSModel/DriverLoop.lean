/- Shared stdin/stdout line loop for the per-family model drivers. Core Lean only. -/
namespace DS

partial def driverLoop {σ} (h : IO.FS.Stream) (out : IO.FS.Stream) (st : σ) (step : σ → List String → σ × String) : IO Unit := do
  let line ← h.getLine
  if line.isEmpty then return ()
  let w := (line.trimAscii.toString.splitOn " ").filter (· ≠ "")
  if w.isEmpty || (w.head!.startsWith "#") then
    driverLoop h out st step
  else
    let (st', o) := step st w
    out.putStrLn o
    driverLoop h out st' step

def runDriver {σ} (init : σ) (step : σ → List String → σ × String) : IO UInt32 := do
  let stdin ← IO.getStdin
  let stdout ← IO.getStdout
  driverLoop stdin stdout init step
  return 0

end DS

/- Line-protocol driver for the EBPPS family (C18), `Float` instance. Core Lean only.

  new <id> <k>                                 -> S k n cumWt c        (or throw)
  upd <id> <item> <weight-hex> u <hex>* i <nat>*
  merge <dst> <src> lv|rv u <hex>* i <nat>*     (rv: <src> is dead afterwards)
  res <id> u <hex>*                            -> R item*              (get_result)
  iter <id> u <hex>*                           -> I item*              (begin()..end())
  serde <id> bytes|stream                      -> S ... | throw
  reset <id> | copy <src> <dst>                -> S ...
-/
import DSModel.Util
import DSModel.Ebpps.Sketch
namespace DS.Ebpps

abbrev Objs := List (Nat × Sketch Float)

def Objs.get (o : Objs) (i : Nat) : Option (Sketch Float) := (o.find? (·.1 == i)).map (·.2)
def Objs.put (o : Objs) (i : Nat) (s : Sketch Float) : Objs := (i, s) :: o.filter (·.1 != i)
def Objs.del (o : Objs) (i : Nat) : Objs := o.filter (·.1 != i)

def parseF (s : String) : Option Float := (parseHex s).map (fun n => Float.ofBits (UInt64.ofNat n))

def observe (s : Sketch Float) : String :=
  s!"S {s.k} {s.n} {hexF s.cumWt} {hexF s.sample.c}"

def allSome {β} : List (Option β) → Option (List β)
  | [] => some []
  | none :: _ => none
  | some x :: t => (allSome t).map (x :: ·)

/-- `u <hex>* i <nat>*` -/
def parseDraws (w : List String) : Option (Draws Float) :=
  match w with
  | "u" :: rest =>
    let us := rest.takeWhile (· != "i")
    let is := (rest.dropWhile (· != "i")).drop 1
    match allSome (us.map parseF), allSome (is.map String.toNat?) with
    | some us, some is => some ⟨us, is⟩
    | _, _ => none
  | [] => some ⟨[], []⟩
  | _ => none

def items (l : List Nat) : String := joinSp (l.map toString)

def stepLine (v : Variant) (o : Objs) (w : List String) : Objs × String :=
  match w with
  | ["new", id, k] =>
    match id.toNat?, k.toNat? with
    | some id, some k =>
      if k == 0 || k > v.maxK then (o, "throw")
      else let s : Sketch Float := Sketch.fresh k; (o.put id s, observe s)
    | _, _ => (o, "bad-op")
  | "upd" :: id :: item :: wt :: rest =>
    match id.toNat?, item.toNat?, parseF wt, parseDraws rest with
    | some id, some item, some wt, some d =>
      match o.get id with
      | some s => match update v s item wt d with
        | some (s', _) => (o.put id s', observe s')
        | none => (o, "throw")
      | none => (o, "no-object")
    | _, _, _, _ => (o, "bad-op")
  | "merge" :: dst :: src :: mode :: rest =>
    match dst.toNat?, src.toNat?, parseDraws rest with
    | some dst, some src, some d =>
      match o.get dst, o.get src with
      | some a, some b =>
        let (a', _) := mergeSk v a b d
        let o := o.put dst a'
        (if mode == "rv" then o.del src else o, observe a')
      | _, _ => (o, "no-object")
    | _, _, _ => (o, "bad-op")
  | "res" :: id :: rest =>
    match id.toNat?, parseDraws rest with
    | some id, some d => match o.get id with
      | some s => (o, joinSp ["R", items (getSample s.sample d).1])
      | none => (o, "no-object")
    | _, _ => (o, "bad-op")
  | "iter" :: id :: rest =>
    match id.toNat?, parseDraws rest with
    | some id, some d => match o.get id with
      | some s => match (iterate s.sample d).1 with
        | some l => (o, joinSp ["I", items l])
        | none => (o, "I ub")
      | none => (o, "no-object")
    | _, _ => (o, "bad-op")
  | ["serde", id, _] =>
    match id.toNat? with
    | some id => match o.get id with
      | some s => match serde s with
        | some s' => (o.put id s', observe s')
        | none => (o, "throw")
      | none => (o, "no-object")
    | none => (o, "bad-op")
  | ["reset", id] =>
    match id.toNat? with
    | some id => match o.get id with
      | some s => let s' := s.reset; (o.put id s', observe s')
      | none => (o, "no-object")
    | none => (o, "bad-op")
  | ["copy", src, dst] =>
    match src.toNat?, dst.toNat? with
    | some src, some dst => match o.get src with
      | some s => (o.put dst s, observe s)
      | none => (o, "no-object")
    | _, _ => (o, "bad-op")
  | _ => (o, "bad-op")

end DS.Ebpps

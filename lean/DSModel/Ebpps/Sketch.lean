/- EBPPS sketch (`sampling/include/ebpps_sketch_impl.hpp`): bookkeeping `{k, n, cumWt, wtMax, rho}` around the sample.
Generic over the numeric class; draws are an explicit argument.  Core Lean only. -/
import DSModel.Ebpps.Sample
namespace DS.Ebpps

variable {α : Type} [Add α] [Sub α] [Mul α] [Div α] [Num α]

/-- Facts about the CURRENT source that the model is parametric in (set by tools/trules/ebpps.py from the headers).
All `false` = the pinned code; all `true` = the code with the repairs of proposed_fixes/C18-*.patch. -/
structure Variant where
  /-- `next_double() >= x` instead of `> x` in the two places where a zero draw loses the partial item -/
  geDraw : Bool := false
  /-- `internal_merge` stores `wt_max_ = new_wt_max` -/
  mergeSetsWtMax : Bool := false
  /-- merging an empty sketch still takes `min(k)` and brings the sample down to the new `k` -/
  mergeEmptyShrinks : Bool := false
  /-- `replace_content` clamps `theta` to 1 (binary64 repair, proposed_fixes/C18-merge-rounding.patch) -/
  clampTheta : Bool := false
  /-- sample `merge` drops a fraction too small to register in `c_` (same patch) -/
  vanishFix : Bool := false
  maxK : Nat := 2147483646

structure Sketch (α : Type) where
  k : Nat
  n : Nat
  cumWt : α
  wtMax : α
  rho : α
  sample : Sample α

def Sketch.fresh (k : Nat) : Sketch α := ⟨k, 0, zero, zero, one, Sample.empty⟩

/-- `reset()` -/
def Sketch.reset (s : Sketch α) : Sketch α := Sketch.fresh s.k

/-- `new_rho = std::min(1.0 / new_wt_max, k_ / new_cum_wt)` -/
def newRho (k : Nat) (newWtMax newCum : α) : α := cmin (one / newWtMax) (Num.ofNat k / newCum)

/-- The common body of `internal_update` and of each step of `internal_merge`: downsample by `new_rho / rho_`, then
merge the one-item sample of weight `theta = thetaOf new_rho`; `incr` is what is added to `cumulative_wt_`. -/
def absorb (v : Variant) (s : Sketch α) (item : Nat) (incr : α) (thetaOf : α → α) (newWtMax : α) (d : Draws α) :
    Sketch α × Draws α :=
  let newCum := s.cumWt + incr
  let nr := newRho s.k newWtMax newCum
  let (smp, d) := if Num.lt zero s.cumWt then downsample v.geDraw s.sample (nr / s.rho) d else (s.sample, d)
  let (smp, d) := mergeSampleV v.vanishFix v.geDraw smp (replaceContentV v.clampTheta item (thetaOf nr)) d
  ({ s with cumWt := newCum, rho := nr, sample := smp }, d)

/-- `update(item, weight)`; `none` = `std::invalid_argument`. -/
def update (v : Variant) (s : Sketch α) (item : Nat) (w : α) (d : Draws α) : Option (Sketch α × Draws α) :=
  if Num.lt w zero || !Num.finite w then none
  else if Num.eq w zero then some (s, d)
  else
    let newWtMax := cmax s.wtMax w
    let (s', d) := absorb v s item w (fun r => r * w) newWtMax d
    some ({ s' with wtMax := newWtMax, n := s.n + 1 }, d)

def absorbAll (v : Variant) (s : Sketch α) (avg newWtMax : α) : List Nat → Draws α → Sketch α × Draws α
  | [], d => (s, d)
  | it :: rest, d =>
    let (s, d) := absorb v s it avg (fun r => r * avg) newWtMax d
    absorbAll v s avg newWtMax rest d

/-- `internal_merge(sk)`; assumes `sk.cumWt ≤ s.cumWt`. -/
def internalMerge (v : Variant) (s sk : Sketch α) (d : Draws α) : Sketch α × Draws α :=
  let finalCum := s.cumWt + sk.cumWt
  let newWtMax := cmax s.wtMax sk.wtMax
  let k := min s.k sk.k
  let newN := s.n + sk.n
  let avg := sk.cumWt / sk.sample.c
  let s := { s with k := k }
  let (s, d) := absorbAll v s avg newWtMax sk.sample.data d
  let (s, d) := match sk.sample.part with
    | some p =>
      let oFrac := frac sk.sample.c
      absorb v s p (oFrac * avg) (fun r => r * oFrac * avg) newWtMax d
    | none => (s, d)
  ({ s with cumWt := finalCum, n := newN, wtMax := if v.mergeSetsWtMax then newWtMax else s.wtMax }, d)

/-- proposed repair: an empty operand still lowers `k`; the sample is brought down to the new bound. -/
def shrinkToK (v : Variant) (s : Sketch α) (k : Nat) (d : Draws α) : Sketch α × Draws α :=
  let k := min s.k k
  if Num.lt zero s.cumWt then
    let nr := newRho k s.wtMax s.cumWt
    let (smp, d) := downsample v.geDraw s.sample (nr / s.rho) d
    ({ s with k := k, rho := nr, sample := smp }, d)
  else ({ s with k := k }, d)

/-- `merge(sk)` (the lvalue and the rvalue overload compute the same `*this`): an operand of zero cumulative weight is
ignored, the lighter sketch is merged into (a copy of) the heavier one. -/
def mergeSk (v : Variant) (s sk : Sketch α) (d : Draws α) : Sketch α × Draws α :=
  if Num.eq sk.cumWt zero then
    (if v.mergeEmptyShrinks then shrinkToK v s sk.k d else (s, d))
  else if Num.lt s.cumWt sk.cumWt then
    (if v.mergeEmptyShrinks && Num.eq s.cumWt zero then shrinkToK v sk s.k d else internalMerge v sk s d)
  else internalMerge v s sk d

/-- serialize → deserialize (bytes or stream): the image holds `k` only for an empty sketch; otherwise the reader takes
`floor(c)` full items and one more iff `frac(c) ≠ 0`, and rejects the image when that disagrees with the
has-partial flag or when the items run out. `none` = exception. -/
def serde (s : Sketch α) : Option (Sketch α) :=
  if s.n == 0 then some (Sketch.fresh s.k)
  else
    let written := s.sample.data ++ s.sample.part.toList
    let nFull := Num.toNat (Num.floor s.sample.c)
    let hasPart := !Num.eq (frac s.sample.c) zero
    if Num.lt s.sample.c zero then none
    else if written.length < nFull + (if hasPart then 1 else 0) then none
    else if hasPart != s.sample.part.isSome then none
    else some { s with sample := ⟨s.sample.c, written.take nFull, if hasPart then written[nFull]? else none⟩ }

end DS.Ebpps

/- Histories used in the C18 statements: update streams and merge trees, evaluated with the model. Core Lean only. -/
import DSModel.Ebpps.Sketch
namespace DS.Ebpps

variable {α : Type} [Add α] [Sub α] [Mul α] [Div α] [Num α]

/-- one `update(item, weight)` together with the draws offered to it -/
structure Upd (α : Type) where
  item : Nat
  w : α
  d : Draws α

/-- a rejected update (`none` = exception) leaves the sketch as it was -/
def updateOr (v : Variant) (s : Sketch α) (u : Upd α) : Sketch α :=
  match update v s u.item u.w u.d with
  | some (s', _) => s'
  | none => s

/-- a stream of updates applied to `s` -/
def runUpdates (v : Variant) (s : Sketch α) : List (Upd α) → Sketch α
  | [] => s
  | u :: rest => runUpdates v (updateOr v s u) rest

/-- A history over several sketches as a tree: a fresh sketch of size `k`, an update of a history's result, the merge of the
results of two histories (`merge a b` = `a.merge(b)`; the other direction is `merge b a`), reset, serialize→deserialize. -/
inductive Hist (α : Type) where
  | fresh (k : Nat)
  | upd (h : Hist α) (u : Upd α)
  | merge (a b : Hist α) (d : Draws α)
  | reset (h : Hist α)
  | serde (h : Hist α)

def Hist.eval (v : Variant) : Hist α → Sketch α
  | .fresh k => Sketch.fresh k
  | .upd h u => updateOr v (h.eval v) u
  | .merge a b d => (mergeSk v (a.eval v) (b.eval v) d).1
  | .reset h => (h.eval v).reset
  | .serde h => match DS.Ebpps.serde (h.eval v) with
    | some s => s
    | none => h.eval v

end DS.Ebpps

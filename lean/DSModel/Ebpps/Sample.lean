/- EBPPS sample (`sampling/include/ebpps_sample_impl.hpp`): expected size `c`, the full items `data`
and the optional fractional ("partial") item.  Generic over the numeric class; draws are an
explicit argument (DESIGN.md §2.4).  Core Lean only. -/
import DSModel.Ebpps.Num
namespace DS.Ebpps

variable {α : Type} [Add α] [Sub α] [Mul α] [Div α] [Num α]

/-- The random choices offered to one operation: values of `next_double()` (in `[0,1)`) and raw values
for `random_idx(n)` (reduced `mod n`, so every value is a valid draw for every `n`).
An exhausted list yields `1/2` resp. `0` (the harness source does the same). -/
structure Draws (α : Type) where
  us : List α
  is : List Nat

def Draws.unit (d : Draws α) : α × Draws α :=
  match d.us with
  | [] => ((one : α) / Num.ofNat 2, d)
  | u :: t => (u, { d with us := t })

def Draws.below (d : Draws α) (n : Nat) : Nat × Draws α :=
  match d.is with
  | [] => (0, d)
  | i :: t => (i % n, { d with is := t })

/-- `ge = false`: the comparison as coded, `next_double() > x`; `ge = true`: `next_double() >= x`
(the repair proposed in proposed_fixes/C18-unit-draw-zero.patch). The translator sets `ge` from the source. -/
@[inline] def drawAbove (ge : Bool) (u x : α) : Bool := if ge then Num.le x u else Num.lt x u

structure Sample (α : Type) where
  c : α
  data : List Nat
  part : Option Nat

def Sample.empty : Sample α := ⟨zero, [], none⟩

/-- `replace_content(item, theta)`: a one-item sample. -/
def replaceContent (item : Nat) (theta : α) : Sample α :=
  if Num.eq theta one then ⟨theta, [item], none⟩ else ⟨theta, [], some item⟩

/-- `replace_content` with the proposed clamp (proposed_fixes/C18-merge-rounding.patch): `c_ = std::min(theta, 1.0)` and
`theta >= 1.0` makes a full item. `clamp = false` is the pinned code. -/
def replaceContentV (clamp : Bool) (item : Nat) (theta : α) : Sample α :=
  if clamp then
    (if Num.le one theta then ⟨cmin theta one, [item], none⟩ else ⟨cmin theta one, [], some item⟩)
  else replaceContent item theta

/-- items a `get_result` can return -/
def Sample.items (s : Sample α) : List Nat := s.data ++ s.part.toList

/-- `get_sample()`: one draw decides whether the partial item is returned. -/
def getSample (s : Sample α) (d : Draws α) : List Nat × Draws α :=
  let (u, d) := d.unit
  if Num.lt u (frac s.c) then (s.data ++ s.part.toList, d) else (s.data, d)

/-- `begin()..end()`: the iterator constructor draws once. `none` = the iterator would dereference `data_[0]` of an
empty vector (only possible for `0 < c < 1` when the draw does not select the partial item). -/
def iterate (s : Sample α) (d : Draws α) : Option (List Nat) × Draws α :=
  let (u, d) := d.unit
  let usePartial := Num.lt u (frac s.c)
  if Num.eq s.c zero || (s.data.isEmpty && s.part.isNone) then (some [], d)
  else if s.data.isEmpty then (if usePartial then some s.part.toList else none, d)
  else (some (s.data ++ (if usePartial then s.part.toList else [])), d)

/-- one step of the partial Fisher–Yates shuffle: `swap(data[i], data[i+j])` seen from position `i`:
the chosen element and the remaining suffix. -/
def pickSwap (l : List Nat) (j : Nat) : Nat × List Nat :=
  (l.getD j 0, (l.set j (l.headD 0)).tail)

def subsampleGo : Nat → List Nat → Draws α → List Nat × Draws α
  | 0, _, d => ([], d)
  | m + 1, l, d =>
    let (j, d) := d.below l.length
    let (x, rest) := pickSwap l j
    let (r, d) := subsampleGo m rest d
    (x :: r, d)

/-- `subsample(num_samples)` -/
def subsample (num : Nat) (l : List Nat) (d : Draws α) : List Nat × Draws α :=
  if num == l.length then (l, d) else subsampleGo num l d

/-- `move_one_to_partial()` -/
def moveOneToPartial (data : List Nat) (d : Draws α) : List Nat × Option Nat × Draws α :=
  let (idx, d) := d.below data.length
  let last := data.length - 1
  ((data.set idx (data.getD last 0)).dropLast, some (data.getD idx 0), d)

/-- `swap_with_partial()` -/
def swapWithPartial (data : List Nat) (part : Option Nat) (d : Draws α) : List Nat × Option Nat × Draws α :=
  match part with
  | some p =>
    let (idx, d) := d.below data.length
    (data.set idx p, some (data.getD idx 0), d)
  | none => moveOneToPartial data d

/-- The three cases of `downsample` on the integer parts; returns the new `data_`/`partial_item_`. -/
def downsampleCases (ge : Bool) (s : Sample α) (theta newC newCInt cInt cFrac : α) (d : Draws α) :
    List Nat × Option Nat × Draws α :=
  let newCFrac := newC - newCInt
  if Num.eq newCInt zero then
    -- no full items retained
    let (u, d) := d.unit
    let (_, part, d) := if drawAbove ge u (cFrac / s.c) then swapWithPartial s.data s.part d else (s.data, s.part, d)
    ([], part, d)
  else if Num.eq newCInt cInt then
    -- no items deleted
    let (u, d) := d.unit
    if Num.lt ((one - theta * cFrac) / (one - newCFrac)) u then swapWithPartial s.data s.part d else (s.data, s.part, d)
  else
    let (u, d) := d.unit
    if Num.lt u (theta * cFrac) then
      let (data, d) := subsample (Num.toNat newCInt) s.data d
      swapWithPartial data s.part d
    else
      let (data, d) := subsample (Num.toNat newCInt + 1) s.data d
      moveOneToPartial data d

/-- `downsample(theta)` -/
def downsample (ge : Bool) (s : Sample α) (theta : α) (d : Draws α) : Sample α × Draws α :=
  if Num.le one theta then (s, d) else
  let newC := theta * s.c
  let newCInt := Num.floor newC
  let cInt := Num.floor s.c
  let cFrac := s.c - cInt
  let (data, part, d) := downsampleCases ge s theta newC newCInt cInt cFrac d
  (⟨newC, data, if Num.eq newC newCInt then none else part⟩, d)

/-- `a.emplace_back(*p)` guarded by `if (p)` -/
def pushOpt (l : List Nat) (p : Option Nat) : List Nat := l ++ p.toList

/-- `merge(other)`: the four cases on the fractional parts, with the code's ordering of the tests
(`c_frac + other_c_frac == 1.0 || c_ == floor(c_)` before `< 1.0`). -/
def mergeSample (ge : Bool) (s o : Sample α) (d : Draws α) : Sample α × Draws α :=
  let cFrac := s.c - Num.floor s.c
  let oFrac := o.c - Num.floor o.c
  let c := s.c + o.c
  let data := s.data ++ o.data
  if Num.eq cFrac zero && Num.eq oFrac zero then
    (⟨c, data, none⟩, d)
  else if Num.eq (cFrac + oFrac) one || Num.eq c (Num.floor c) then
    let (u, d) := d.unit
    (⟨c, if Num.le u cFrac then pushOpt data s.part else pushOpt data o.part, none⟩, d)
  else if Num.lt (cFrac + oFrac) one then
    let (u, d) := d.unit
    (⟨c, data, if drawAbove ge u (cFrac / (cFrac + oFrac)) then o.part else s.part⟩, d)
  else
    let (u, d) := d.unit
    if Num.le u ((one - cFrac) / ((one - cFrac) + (one - oFrac))) then
      (⟨c, pushOpt data o.part, s.part⟩, d)
    else
      (⟨c, pushOpt data s.part, o.part⟩, d)

/-- `merge(other)` with the proposed guard (proposed_fixes/C18-merge-rounding.patch): when the new `c_` is integral although the
fractions add up to less than 1/2 (a fraction too small to register in `c_`) nothing fractional remains: the partial items
are dropped instead of one of them being promoted. `vf = false` is the pinned code. -/
def mergeSampleV (vf ge : Bool) (s o : Sample α) (d : Draws α) : Sample α × Draws α :=
  let cFrac := s.c - Num.floor s.c
  let oFrac := o.c - Num.floor o.c
  let c := s.c + o.c
  if vf && Num.eq c (Num.floor c) && Num.lt (cFrac + oFrac) (one / Num.ofNat 2) then
    (⟨c, s.data ++ o.data, none⟩, d)
  else mergeSample ge s o d

end DS.Ebpps

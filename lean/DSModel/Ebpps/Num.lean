/- Ops-only numeric class for the EBPPS model (DESIGN.md §2.3): the model functions are written once over
`[Add α] [Sub α] [Mul α] [Div α] [Num α]`, executed with `Float` (IEEE binary64, operations in the
code's order, so results are compared bit for bit with the C++) and proved with `Rat`.
Core Lean only. -/
namespace DS.Ebpps

/-- What the EBPPS code needs from `double` besides `+ - * /`. Comparisons are `Bool`-valued so that
the `Float` instance has IEEE semantics (every comparison with NaN is `false`). -/
class Num (α : Type) where
  ofNat : Nat → α
  lt : α → α → Bool
  le : α → α → Bool
  eq : α → α → Bool
  /-- integral part as a value of the same type (`std::floor`; equals the `modf` integral part for values ≥ 0) -/
  floor : α → α
  /-- `static_cast<uint32_t>` of a non-negative integral value -/
  toNat : α → Nat
  /-- `!(isnan(x) || isinf(x))` -/
  finite : α → Bool

instance : Num Float where
  ofNat := Float.ofNat
  lt a b := a < b
  le a b := a ≤ b
  eq a b := a == b
  floor := Float.floor
  toNat x := x.toUInt32.toNat
  finite x := !(x.isNaN || x.isInf)

instance : Num Rat where
  ofNat n := (n : Rat)
  lt a b := decide (a < b)
  le a b := decide (a ≤ b)
  eq a b := decide (a = b)
  floor x := ((x.floor : Int) : Rat)
  toNat x := x.floor.toNat
  finite _ := true

section
variable {α : Type} [Num α]

@[inline] def zero : α := Num.ofNat 0
@[inline] def one : α := Num.ofNat 1

/-- `std::min(a, b)` = `(b < a) ? b : a` -/
@[inline] def cmin (a b : α) : α := if Num.lt b a then b else a
/-- `std::max(a, b)` = `(a < b) ? b : a` -/
@[inline] def cmax (a b : α) : α := if Num.lt a b then b else a

/-- fractional part as computed by `std::modf` for a non-negative finite value (`x - floor x` is exact in binary64) -/
@[inline] def frac [Sub α] (x : α) : α := x - Num.floor x

end
end DS.Ebpps

/- Ops-only numeric class (DESIGN.md 2.3).  The models of code that computes in `double` are written ONCE
   over `Num α`; the correspondence drivers instantiate it with `Float` (IEEE binary64, operations in the
   code's order, so results are compared bit for bit) and the theorems instantiate it with `Rat`.
   Core Lean only.  (VarOpt copy; the integrator unifies it with the EBPPS copy.) -/
namespace DS

class Num (α : Type) where
  ofNat : Nat → α
  add : α → α → α
  sub : α → α → α
  mul : α → α → α
  div : α → α → α
  neg : α → α
  lt : α → α → Bool
  le : α → α → Bool
  eq : α → α → Bool           -- IEEE `==` for Float
  isFinite : α → Bool         -- not NaN, not ±inf

/-- Operations that exist only for floating point (used by the binomial-proportion bounds); there is no
    `Rat` instance: theorems treat functions built from these as abstract parameters. -/
class NumT (α : Type) extends Num α where
  sqrt : α → α
  exp : α → α
  pow : α → α → α

instance : Num Float where
  ofNat := Float.ofNat
  add := (· + ·)
  sub := (· - ·)
  mul := (· * ·)
  div := (· / ·)
  neg := fun x => -x
  lt := fun a b => decide (a < b)
  le := fun a b => decide (a ≤ b)
  eq := fun a b => a == b
  isFinite := Float.isFinite

instance : NumT Float where
  sqrt := Float.sqrt
  exp := Float.exp
  pow := Float.pow

instance : Num Rat where
  ofNat := fun n => (n : Rat)
  add := (· + ·)
  sub := (· - ·)
  mul := (· * ·)
  div := (· / ·)
  neg := fun x => -x
  lt := fun a b => decide (a < b)
  le := fun a b => decide (a ≤ b)
  eq := fun a b => decide (a = b)
  isFinite := fun _ => true

namespace Num
variable {α : Type} [Num α]

def zero : α := Num.ofNat 0
def one : α := Num.ofNat 1
/-- the value of a decimal literal `num/den` (both exactly representable): one correctly rounded division -/
def ofFrac (num den : Nat) : α := Num.div (Num.ofNat num : α) (Num.ofNat den)
def gt (a b : α) : Bool := Num.lt b a
def abs (a : α) : α := if Num.lt a (zero : α) then Num.neg a else a

end Num
end DS
